package main

// The whitelist: one entry per translated function, with its VIEW (which scalars / slices of the receiver
// the function reads, under which Lean parameter names).  RECV stands for the receiver's name, `#k` for the
// k-th Go parameter (so renaming either in the Go source is harmless), X_... are pattern metavariables.

func u32(lean, goName string) Param { return Param{Lean: lean, Type: "uint32", Go: goName} }

var hsizeView = View{Pat: "RECV.header.size", Lean: "hsize", Type: "uint32", Assign: "hsize"}

func isFull(recv string) Target {
	return Target{Func: recv + ".IsFull", Lean: recv + "_IsFull",
		Params: []Param{u32("hsize", ""), u32("maxThreshold", "maxThreshold")},
		Views:  []View{hsizeView}, Result: "Bool", Keep: []int{0}, ErrPos: -1}
}

func isUnderflow(recv string) Target {
	return Target{Func: recv + ".IsUnderflow", Lean: recv + "_IsUnderflow",
		Params: []Param{u32("hsize", ""), u32("minThreshold", "minThreshold")},
		Views:  []View{hsizeView}, Result: "UInt32 × Bool", Keep: []int{0, 1}, ErrPos: -1}
}

func metaCanLend(recv, dir string) Target {
	return Target{Func: recv + ".CanLendTo" + dir, Lean: recv + "_CanLendTo" + dir,
		Params: []Param{u32("hsize", ""), u32("size", "#0"), u32("minThreshold", "minThreshold")},
		Views:  []View{hsizeView}, Result: "Bool", Keep: []int{0}, ErrPos: -1}
}

// `head [2]byte` is seen as its two bytes
var headParams = []Param{{Lean: "h0", Type: "byte"}, {Lean: "h1", Type: "byte"}}
var headViews = []View{
	{Pat: "RECV[0]", Lean: "h0", Type: "byte", Assign: "h0"},
	{Pat: "RECV[1]", Lean: "h1", Type: "byte", Assign: "h1"},
	{Pat: "RECV.version()", Lean: "(head_version h0 h1)", Type: "byte"},
	{Pat: "RECV.isRoot()", Lean: "(head_isRoot h0 h1)", Type: "bool"},
	{Pat: "RECV.getSlabType()", Lean: "(head_getSlabType h0 h1)", Type: "slabType"},
}

func headGetter(name, result string) Target {
	return Target{Func: "head." + name, Lean: "head_" + name, Params: headParams, Views: headViews,
		Result: result, Keep: []int{0}, ErrPos: -1}
}

func headSetter(name string) Target {
	return Target{Func: "head." + name, Lean: "head_" + name, Params: headParams, Views: headViews,
		Result: "UInt8 × UInt8", Outs: []string{"h0", "h1"}, ErrPos: -1,
		Doc: "the receiver is updated in place; the result is the new pair of bytes"}
}

// `newXxxSlabHead`: `var h head` is the zero pair, `&h` the pair, an error result is `none`
func newHead(name string, params []Param) Target {
	return Target{Func: name, Lean: name, Params: params,
		Views: []View{
			{Pat: "h[0]", Lean: "h0", Type: "byte", Assign: "h0"},
			{Pat: "h[1]", Lean: "h1", Type: "byte", Assign: "h1"},
			{Pat: "&h", Lean: "(h0, h1)", Type: "head"},
		},
		Zeros:  []Zero{{Var: "h", Locals: [][2]string{{"h0", "byte"}, {"h1", "byte"}}}},
		Result: "Option (UInt8 × UInt8)", Keep: []int{0}, ErrPos: 1}
}

// ---- M2 helpers ---------------------------------------------------------------------------------

var elemSizes = SliceView{Pat: "RECV.elements", List: "sizes", Proj: ".ByteSize()", Type: "uint32"}

func listP(lean, elemType string) Param { return Param{Lean: lean, Type: "list:" + elemType} }

func dataCanLend(dir string) Target {
	return Target{Func: "ArrayDataSlab.CanLendTo" + dir, Lean: "ArrayDataSlab_CanLendTo" + dir,
		Params: []Param{u32("hsize", ""), listP("sizes", "uint32"), u32("size", "#0"), u32("minThreshold", "minThreshold")},
		Views:  []View{hsizeView}, Slices: []SliceView{elemSizes}, Result: "Bool", Keep: []int{0}, ErrPos: -1,
		Doc: "`sizes` = the `ByteSize()` of `a.elements`"}
}

// hkeyElements: `e.Size()` / `e.size` -> esize, `e.elems[i].Size()` -> sizes[i]
var hkeyViews = []View{
	{Pat: "RECV.Size()", Lean: "esize", Type: "uint32"},
	{Pat: "RECV.size", Lean: "esize", Type: "uint32", Assign: "esize"},
}
var hkeySizes = SliceView{Pat: "RECV.elems", List: "sizes", Proj: ".Size()", Type: "uint32"}

func hkeyCanLend(dir string) Target {
	return Target{Func: "hkeyElements.CanLendTo" + dir, Lean: "hkeyElements_CanLendTo" + dir,
		Params: []Param{u32("esize", ""), listP("sizes", "uint32"), u32("size", "#0"), u32("minThreshold", "minThreshold")},
		Views:  hkeyViews, Slices: []SliceView{hkeySizes}, Result: "Bool", Keep: []int{0}, ErrPos: -1,
		Doc: "`esize` = `e.size`, `sizes` = the `Size()` of `e.elems` (without the digest)"}
}

func mapDataCanLend(dir string) Target {
	return Target{Func: "MapDataSlab.CanLendTo" + dir, Lean: "MapDataSlab_CanLendTo" + dir,
		Params: []Param{{Lean: "anySize", Type: "bool"}, u32("esize", ""), listP("sizes", "uint32"), u32("size", "#0"),
			u32("minThreshold", "minThreshold")},
		Views: []View{{Pat: "RECV.anySize", Lean: "anySize", Type: "bool"},
			{Pat: "RECV.elements.CanLendTo" + dir + "(X_s)", Lean: "(hkeyElements_CanLendTo" + dir + " esize sizes {X_s} minThreshold)",
				Type: "bool", Metas: map[string]string{"X_s": "uint32"}}},
		Result: "Bool", Keep: []int{0}, ErrPos: -1,
		Doc: "`m.elements` is taken to be an `*hkeyElements` (the only implementation a size-limited data slab holds)"}
}

// the binary search over `m.childrenHeaders[h].firstKey`
var firstKeys = SliceView{Pat: "RECV.childrenHeaders", List: "firstKeys", Proj: ".firstKey", Type: "Digest"}

var targets = []Target{
	// ---- M1: loop-free -------------------------------------------------------------------------
	isFull("ArrayDataSlab"), isUnderflow("ArrayDataSlab"),
	isFull("ArrayMetaDataSlab"), isUnderflow("ArrayMetaDataSlab"),
	metaCanLend("ArrayMetaDataSlab", "Left"), metaCanLend("ArrayMetaDataSlab", "Right"),
	{Func: "MapDataSlab.IsFull", Lean: "MapDataSlab_IsFull",
		Params: []Param{{Lean: "anySize", Type: "bool"}, u32("hsize", ""), u32("maxThreshold", "maxThreshold")},
		Views:  []View{{Pat: "RECV.anySize", Lean: "anySize", Type: "bool"}, hsizeView},
		Result: "Bool", Keep: []int{0}, ErrPos: -1},
	{Func: "MapDataSlab.IsUnderflow", Lean: "MapDataSlab_IsUnderflow",
		Params: []Param{{Lean: "anySize", Type: "bool"}, u32("hsize", ""), u32("minThreshold", "minThreshold")},
		Views:  []View{{Pat: "RECV.anySize", Lean: "anySize", Type: "bool"}, hsizeView},
		Result: "UInt32 × Bool", Keep: []int{0, 1}, ErrPos: -1},
	isFull("MapMetaDataSlab"), isUnderflow("MapMetaDataSlab"),
	metaCanLend("MapMetaDataSlab", "Left"), metaCanLend("MapMetaDataSlab", "Right"),

	{Func: "maxInlineMapValueSize", Lean: "maxInlineMapValueSize",
		Params: []Param{u32("keySize", "#0"), u32("maxInlineMapElementSize", "maxInlineMapElementSize")},
		Result: "UInt32", Keep: []int{0}, ErrPos: -1},
	{Func: "setThreshold", Lean: "setThreshold", Params: []Param{u32("threshold", "#0")},
		Defines: [][2]string{{"targetThreshold", "uint32"}, {"minThreshold", "uint32"}, {"maxThreshold", "uint32"},
			{"maxInlineArrayElementSize", "uint32"}, {"maxInlineMapElementSize", "uint32"}, {"maxInlineMapKeySize", "uint32"}},
		Outs: []string{"targetThreshold", "minThreshold", "maxThreshold", "maxInlineArrayElementSize",
			"maxInlineMapElementSize", "maxInlineMapKeySize"},
		Result: "Option (UInt32 × UInt32 × UInt32 × UInt32 × UInt32 × UInt32)", ErrPos: -1, Panics: true,
		Doc: "the six package variables it sets are the result (in the order targetThreshold, minThreshold, " +
			"maxThreshold, maxInlineArrayElementSize, maxInlineMapElementSize, maxInlineMapKeySize); a panic is `none`"},
	{Func: "safeAdd2Uint32", Lean: "safeAdd2Uint32", Params: []Param{u32("a", "#0"), u32("b", "#1")},
		Result: "UInt32 × Bool", Keep: []int{0, 1}, ErrPos: -1},
	{Func: "safeAdd3Uint32", Lean: "safeAdd3Uint32", Params: []Param{u32("a", "#0"), u32("b", "#1"), u32("c", "#2")},
		Result: "UInt32 × Bool", Keep: []int{0, 1}, ErrPos: -1},

	// encode.go: the exported helper Storable implementations use for ByteSize() (the library never calls it)
	{Func: "GetUintCBORSize", Lean: "GetUintCBORSize", Params: []Param{{Lean: "n", Type: "uint64", Go: "#0"}},
		Result: "UInt32", Keep: []int{0}, ErrPos: -1},

	// flag.go
	headGetter("version", "UInt8"), headGetter("isRoot", "Bool"), headSetter("setRoot"),
	headGetter("hasPointers", "Bool"), headSetter("setHasPointers"),
	headGetter("hasSizeLimit", "Bool"), headSetter("setNoSizeLimit"),
	headGetter("hasInlinedSlabs", "Bool"), headSetter("setHasInlinedSlabs"),
	headGetter("hasNextSlabID", "Bool"), headSetter("setHasNextSlabID"),
	headGetter("getSlabType", "Int"), headGetter("getSlabArrayType", "Int"), headGetter("getSlabMapType", "Int"),
	newHead("newArraySlabHead", []Param{{Lean: "version", Type: "byte", Go: "#0"}, {Lean: "t", Type: "slabArrayType", Go: "#1"}}),
	newHead("newMapSlabHead", []Param{{Lean: "version", Type: "byte", Go: "#0"}, {Lean: "t", Type: "slabMapType", Go: "#1"}}),
	newHead("newStorableSlabHead", []Param{{Lean: "version", Type: "byte", Go: "#0"}}),

	// slab_id.go: the 8-byte arrays are seen as the big-endian numbers they encode
	{Func: "SlabIndex.Next", Lean: "SlabIndex_Next", Params: []Param{{Lean: "idx", Type: "uint64"}},
		Views:  []View{{Pat: "binary.BigEndian.Uint64(RECV[:])", Lean: "idx", Type: "uint64"}},
		Zeros:  []Zero{{Var: "next", Locals: [][2]string{{"next", "uint64"}}}},
		Stmts:  []StmtView{{Pat: "binary.BigEndian.PutUint64(next[:], X_v)", Assign: "next", Value: "X_v", Type: "uint64"}},
		Result: "UInt64", Keep: []int{0}, ErrPos: -1,
		Doc: "`SlabIndex` = [8]byte seen as the uint64 that `binary.BigEndian` reads from / writes to it"},
	{Func: "SlabID.Compare", Lean: "SlabID_Compare",
		Params: []Param{{Lean: "addr", Type: "uint64"}, {Lean: "idx", Type: "uint64"},
			{Lean: "oaddr", Type: "uint64"}, {Lean: "oidx", Type: "uint64"}},
		Views: []View{
			{Pat: "bytes.Compare(RECV.address[:], X_o.address[:])", Lean: "(goCmpU64 addr oaddr)", Type: "int", Metas: map[string]string{"X_o": "skip"}},
			{Pat: "bytes.Compare(RECV.index[:], X_o.index[:])", Lean: "(goCmpU64 idx oidx)", Type: "int", Metas: map[string]string{"X_o": "skip"}},
		},
		Result: "Int", Keep: []int{0}, ErrPos: -1,
		Doc: "address and index (8-byte arrays) are seen as big-endian numbers; `bytes.Compare` on them is `goCmpU64`"},

	// ---- M2: loops -----------------------------------------------------------------------------
	dataCanLend("Left"), dataCanLend("Right"),
	{Func: "ArrayDataSlab.Split", Lean: "ArrayDataSlab_Split",
		Params: []Param{u32("hsize", ""), listP("sizes", "uint32")},
		Views:  []View{hsizeView, {Pat: "RECV.header.count", Lean: "hcount", Type: "uint32", Assign: "hcount"}},
		Slices: []SliceView{elemSizes},
		Skip: []string{"var rightElements", "RECV.elements, rightElements = split(", "sID, err :=", "if err != nil",
			"rightSlab := &ArrayDataSlab{", "RECV.next ="},
		Outs:   []string{"leftCount", "leftSize", "size", "hsize", "hcount"},
		Result: "Option (Int × UInt32 × UInt32 × UInt32 × UInt32)", ErrPos: 2,
		Doc: "the split point and the size arithmetic: (leftCount, leftSize, size of the right slab, new header.size, " +
			"new header.count of the left slab); `none` = SlabSplitError"},
	{Func: "ArrayDataSlab.LendToRight", Lean: "ArrayDataSlab_LendToRight",
		Params: []Param{u32("lsize", ""), u32("lcount", ""), listP("sizes", "uint32"), u32("rsize", ""), u32("rcount", ""),
			u32("minThreshold", "minThreshold")},
		Views: []View{{Pat: "RECV.header.size", Lean: "lsize", Type: "uint32", Assign: "lsize"},
			{Pat: "RECV.header.count", Lean: "lcount", Type: "uint32", Assign: "lcount"},
			{Pat: "rightSlab.header.size", Lean: "rsize", Type: "uint32", Assign: "rsize"},
			{Pat: "rightSlab.header.count", Lean: "rcount", Type: "uint32", Assign: "rcount"}},
		Slices: []SliceView{elemSizes},
		Skip:   []string{"rightSlab := slab.(", "RECV.elements, rightSlab.elements = lendToRight("},
		Outs:   []string{"leftCount", "leftSize", "moveCount", "lsize", "lcount", "rsize", "rcount"},
		Result: "Option (UInt32 × UInt32 × UInt32 × UInt32 × UInt32 × UInt32 × UInt32)", ErrPos: 0,
		Doc: "(leftCount, leftSize, moveCount, new sizes and counts of the left and right slab)"},
	{Func: "ArrayDataSlab.BorrowFromRight", Lean: "ArrayDataSlab_BorrowFromRight",
		Params: []Param{u32("lsize", ""), u32("lcount", ""), u32("rsize", ""), u32("rcount", ""), listP("rsizes", "uint32"),
			u32("minThreshold", "minThreshold")},
		Views: []View{{Pat: "RECV.header.size", Lean: "lsize", Type: "uint32", Assign: "lsize"},
			{Pat: "RECV.header.count", Lean: "lcount", Type: "uint32", Assign: "lcount"},
			{Pat: "rightSlab.header.size", Lean: "rsize", Type: "uint32", Assign: "rsize"},
			{Pat: "rightSlab.header.count", Lean: "rcount", Type: "uint32", Assign: "rcount"}},
		Slices: []SliceView{{Pat: "rightSlab.elements", List: "rsizes", Proj: ".ByteSize()", Type: "uint32"}},
		Skip:   []string{"rightSlab := slab.(", "RECV.elements, rightSlab.elements = borrowFromRight("},
		Outs:   []string{"leftCount", "leftSize", "moveCount", "lsize", "lcount", "rsize", "rcount"},
		Result: "Option (UInt32 × UInt32 × UInt32 × UInt32 × UInt32 × UInt32 × UInt32)", ErrPos: 0,
		Doc: "(leftCount, leftSize, moveCount, new sizes and counts of the left and right slab)"},
	{Func: "ArrayMetaDataSlab.childSlabIndexInfo", Lean: "ArrayMetaDataSlab_childSlabIndexInfo",
		Params: []Param{u32("hcount", ""), listP("countSums", "uint32"), listP("childCounts", "uint32"), {Lean: "index", Type: "uint64", Go: "#0"}},
		Views:  []View{{Pat: "RECV.header.count", Lean: "hcount", Type: "uint32"}},
		Slices: []SliceView{{Pat: "RECV.childrenCountSum", List: "countSums", Proj: "", Type: "uint32"},
			{Pat: "RECV.childrenHeaders", List: "childCounts", Proj: ".count", Type: "uint32"}},
		Skip:   []string{"childID = childHeader.slabID"},
		Result: "Option (Int × UInt64)", Keep: []int{0, 1}, ErrPos: 3,
		Doc: "(childHeaderIndex, adjustedIndex); `none` = IndexOutOfBoundsError"},
	{Func: "ArrayMetaDataSlab.Split", Lean: "ArrayMetaDataSlab_Split",
		Params: []Param{u32("hsize", ""), u32("hcount", ""), listP("childCounts", "uint32")},
		Views:  []View{hsizeView, {Pat: "RECV.header.count", Lean: "hcount", Type: "uint32", Assign: "hcount"}},
		Slices: []SliceView{{Pat: "RECV.childrenHeaders", List: "childCounts", Proj: ".count", Type: "uint32"}},
		Skip: []string{"var rightChildrenHeaders", "RECV.childrenHeaders, rightChildrenHeaders = split(", "sID, err :=",
			"if err != nil", "rightSlab.childrenCountSum = make(", "countSum := uint32(0)", "for i := range rightSlab.childrenCountSum",
			"RECV.childrenCountSum = RECV.childrenCountSum[:leftChildrenCount]"},
		Captures: []Capture{{Stmt: "rightSlab := &ArrayMetaDataSlab{", Path: "header.size", Var: "rsize", Type: "uint32"},
			{Stmt: "rightSlab := &ArrayMetaDataSlab{", Path: "header.count", Var: "rcount", Type: "uint32"}},
		Outs:   []string{"leftChildrenCount", "leftCount", "rsize", "rcount", "hsize", "hcount"},
		Result: "Option (Int × UInt32 × UInt32 × UInt32 × UInt32 × UInt32)", ErrPos: 2,
		Doc: "(leftChildrenCount, leftCount, size and count of the right slab, new size and count of the left slab)"},

	hkeyCanLend("Left"), hkeyCanLend("Right"),
	mapDataCanLend("Left"), mapDataCanLend("Right"),
	{Func: "hkeyElements.Split", Lean: "hkeyElements_Split",
		Params: []Param{u32("esize", ""), listP("sizes", "uint32")},
		Views:  hkeyViews, Slices: []SliceView{hkeySizes},
		Skip: []string{"var rightKeys", "RECV.hkeys, rightKeys = split(", "var rightElems", "RECV.elems, rightElems = split(",
			"rightElements := &hkeyElements{"},
		Outs:   []string{"leftCount", "leftSize", "size", "esize"},
		Result: "Option (Int × UInt32 × UInt32 × UInt32)", ErrPos: 2,
		Doc: "(leftCount, leftSize, size of the right group, new size of the left group)"},
	{Func: "hkeyElements.LendToRight", Lean: "hkeyElements_LendToRight",
		Params: []Param{{Lean: "level", Type: "uint"}, u32("esize", ""), listP("sizes", "uint32"), {Lean: "rlevel", Type: "uint"},
			u32("rsize", ""), u32("minThreshold", "minThreshold")},
		Views: append([]View{{Pat: "RECV.level", Lean: "level", Type: "uint"},
			{Pat: "rightElements.level", Lean: "rlevel", Type: "uint"},
			{Pat: "rightElements.Size()", Lean: "rsize", Type: "uint32"},
			{Pat: "rightElements.size", Lean: "rsize", Type: "uint32", Assign: "rsize"}}, hkeyViews...),
		Slices: []SliceView{hkeySizes},
		Skip: []string{"rightElements := re.(", "RECV.hkeys, rightElements.hkeys = lendToRight(",
			"RECV.elems, rightElements.elems = lendToRight("},
		Outs:   []string{"leftCount", "leftSize", "moveCount", "esize", "rsize"},
		Result: "Option (Int × UInt32 × Int × UInt32 × UInt32)", ErrPos: 0,
		Doc: "(leftCount, leftSize, moveCount, new size of the left and right group); `none` = the hash-level error"},
	{Func: "hkeyElements.BorrowFromRight", Lean: "hkeyElements_BorrowFromRight",
		Params: []Param{{Lean: "level", Type: "uint"}, u32("esize", ""), {Lean: "n", Type: "int"}, {Lean: "rlevel", Type: "uint"},
			u32("rsize", ""), listP("rsizes", "uint32"), u32("minThreshold", "minThreshold")},
		Views: append([]View{{Pat: "RECV.level", Lean: "level", Type: "uint"},
			{Pat: "rightElements.level", Lean: "rlevel", Type: "uint"},
			{Pat: "rightElements.Size()", Lean: "rsize", Type: "uint32"},
			{Pat: "rightElements.size", Lean: "rsize", Type: "uint32", Assign: "rsize"},
			{Pat: "len(RECV.elems)", Lean: "n", Type: "int"}}, hkeyViews...),
		Slices: []SliceView{{Pat: "rightElements.elems", List: "rsizes", Proj: ".Size()", Type: "uint32"}},
		Skip: []string{"rightElements := re.(", "RECV.hkeys, rightElements.hkeys = borrowFromRight(",
			"RECV.elems, rightElements.elems = borrowFromRight("},
		Outs:   []string{"leftCount", "leftSize", "moveCount", "esize", "rsize"},
		Result: "Option (Int × UInt32 × Int × UInt32 × UInt32)", ErrPos: 0,
		Doc: "`n` = `len(e.elems)`; (leftCount, leftSize, moveCount, new size of the left and right group)"},

	{Func: "MapMetaDataSlab.getChildSlabByDigest", Lean: "MapMetaDataSlab_getChildSlabByDigest",
		Params: []Param{listP("firstKeys", "Digest"), {Lean: "hkey", Type: "Digest", Go: "#1"}},
		Slices: []SliceView{firstKeys}, Skip: []string{"childID :=", "child, err :=", "if err != nil"},
		Result: "Option Int", Keep: []int{1}, ErrPos: 2,
		Doc: "the child index; `none` = KeyNotFoundError"},
	{Func: "MapMetaDataSlab.Set", Lean: "MapMetaDataSlab_Set_search",
		Params: []Param{listP("firstKeys", "Digest"), {Lean: "hkey", Type: "Digest", Go: "#4"}},
		Slices: []SliceView{firstKeys}, Until: "childID :=", Outs: []string{"childHeaderIndex"},
		Result: "Int", ErrPos: -1, Doc: "the binary search at the top of `Set`: childHeaderIndex"},
	{Func: "MapMetaDataSlab.Remove", Lean: "MapMetaDataSlab_Remove_search",
		Params: []Param{listP("firstKeys", "Digest"), {Lean: "hkey", Type: "Digest", Go: "#3"}},
		Slices: []SliceView{firstKeys}, Until: "childID :=", Outs: []string{"childHeaderIndex"},
		Result: "Option Int", ErrPos: 2, Doc: "the binary search at the top of `Remove`: childHeaderIndex; `none` = KeyNotFoundError"},
	{Func: "MapMetaDataSlab.Split", Lean: "MapMetaDataSlab_Split",
		Params: []Param{u32("hsize", ""), {Lean: "n", Type: "int"}},
		Views:  []View{hsizeView, {Pat: "len(RECV.childrenHeaders)", Lean: "n", Type: "int"}},
		Skip: []string{"sID, err :=", "if err != nil", "var rightChildrenHeaders",
			"RECV.childrenHeaders, rightChildrenHeaders = split("},
		Captures: []Capture{{Stmt: "rightSlab := &MapMetaDataSlab{", Path: "header.size", Var: "rsize", Type: "uint32"}},
		Outs:     []string{"leftChildrenCount", "rsize", "hsize"},
		Result:   "Option (Int × UInt32 × UInt32)", ErrPos: 2,
		Doc: "`n` = `len(m.childrenHeaders)`; (leftChildrenCount, size of the right slab, new size of the left slab)"},
	{Func: "MapMetaDataSlab.LendToRight", Lean: "MapMetaDataSlab_LendToRight",
		Params: []Param{{Lean: "n", Type: "int"}, {Lean: "rn", Type: "int"}},
		Views: []View{{Pat: "len(RECV.childrenHeaders)", Lean: "n", Type: "int"},
			{Pat: "len(rightSlab.childrenHeaders)", Lean: "rn", Type: "int"},
			{Pat: "RECV.header.size", Lean: "hsize", Type: "uint32", Assign: "hsize"},
			{Pat: "rightSlab.header.size", Lean: "rsize", Type: "uint32", Assign: "rsize"}},
		Skip: []string{"rightSlab := slab.(", "RECV.childrenHeaders, rightSlab.childrenHeaders = lendToRight(",
			"rightSlab.header.firstKey ="},
		Outs:   []string{"leftChildrenHeaderCount", "moveCount", "hsize", "rsize"},
		Result: "Option (Int × Int × UInt32 × UInt32)", ErrPos: 0,
		Doc: "`n`, `rn` = number of child headers of the left / right slab before the move; " +
			"(leftChildrenHeaderCount, moveCount, new size of the left and right slab)"},
	{Func: "MapMetaDataSlab.BorrowFromRight", Lean: "MapMetaDataSlab_BorrowFromRight",
		Params: []Param{{Lean: "n", Type: "int"}, {Lean: "rn", Type: "int"}},
		Views: []View{{Pat: "len(RECV.childrenHeaders)", Lean: "n", Type: "int"},
			{Pat: "len(rightSlab.childrenHeaders)", Lean: "rn", Type: "int"},
			{Pat: "RECV.header.size", Lean: "hsize", Type: "uint32", Assign: "hsize"},
			{Pat: "rightSlab.header.size", Lean: "rsize", Type: "uint32", Assign: "rsize"}},
		Skip: []string{"rightSlab := slab.(", "RECV.childrenHeaders, rightSlab.childrenHeaders = borrowFromRight(",
			"rightSlab.header.firstKey ="},
		Outs:   []string{"leftChildrenHeaderCount", "moveCount", "hsize", "rsize"},
		Result: "Option (Int × Int × UInt32 × UInt32)", ErrPos: 0,
		Doc: "(leftChildrenHeaderCount, moveCount, new size of the left and right slab)"},
}
