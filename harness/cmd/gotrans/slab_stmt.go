package main

// statements, loops and whole functions of the slab engine (see slab.go)

import (
	"fmt"
	"go/ast"
	"go/token"
	"os"
	"sort"
	"strings"
)

type qkont func(en qenv) string

// ---------------------------------------------------------------------------------------------
// results

// finish: the value a `return` yields: Go results, then the out-states of the receiver and the mutated parameters
func (x *qtrans) finish(parts []string, en qenv) string {
	parts = append([]string{}, parts...)
	if x.shape.recvMut {
		parts = append(parts, x.recvLean)
	}
	for i, p := range x.shape.params {
		if p.mut {
			parts = append(parts, x.paramLean[i])
		}
	}
	out := "()"
	switch len(parts) {
	case 0:
	case 1:
		out = parts[0]
	default:
		out = "(" + strings.Join(parts, ", ") + ")"
	}
	if x.shape.aborts {
		out = "some " + paren(out)
	}
	return out
}

func (x *qtrans) resultType() string {
	return x.shapeResult(x.shape, x.recvType)
}

// applyEffect emits the call, stores the out-states, and returns the accessor of the i-th Go result
func (x *qtrans) applyEffect(eff *qeffect, en qenv) (func(i int) string, qenv) {
	r := x.tmp("r")
	if eff.aborts {
		x.guard(eff.call, r)
	} else {
		x.emit("let " + r + " := " + eff.call + "\n")
	}
	n := len(eff.results) + len(eff.outs)
	for j, o := range eff.outs {
		val := strings.ReplaceAll(o.wrap, "{X}", proj(r, len(eff.results)+j, n))
		// the root may have been rebound by an earlier out-state of this call
		if cur := en.byLean(o.lv.root.lean); cur != nil {
			o.lv.root = cur
		}
		en = x.store(o.lv, val, en, false)
	}
	return func(i int) string { return proj(r, i, n) }, en
}

// ---------------------------------------------------------------------------------------------
// assignments

// chainLv: e as an lvalue if it is a plain variable / field path
func (x *qtrans) chainLv(e ast.Expr, en qenv) (qlval, bool) {
	if e == nil || !isChain(e) {
		return qlval{}, false
	}
	return x.lvalue(e, en)
}

// refPath: is e a variable / field path of a reference kind (object, interface value, state)?
func (x *qtrans) refPath(e ast.Expr, en qenv) (qlval, bool) {
	if e == nil || !isChain(e) {
		return qlval{}, false
	}
	lv, ok := x.lvalue(e, en)
	if !ok || lv.index != "" {
		return qlval{}, false
	}
	k := x.ti(lv.typ).Kind
	return lv, k == "obj" || k == "sum"
}

// assignTo: `lhs = v` / `lhs := v`; mk builds the value given the wanted Go type; rhs is the Go expression the value
// comes from (nil: a component of a call result), used to see aliases
func (x *qtrans) assignTo(lhs ast.Expr, define bool, mk func(want string) qv, rhs ast.Expr, en qenv) qenv {
	if p, ok := lhs.(*ast.ParenExpr); ok {
		return x.assignTo(p.X, define, mk, rhs, en)
	}
	if id, ok := lhs.(*ast.Ident); ok {
		if id.Name == "_" {
			mk("") // evaluated for its abort conditions (`_ = s[i:]` is a bounds check)
			return en
		}
		v := en.lookup(id.Name)
		if define && (v == nil || v.depth < en.depth) {
			val := mk("")
			switch val.typ {
			case "untyped":
				val = x.coerce(val, "int")
			case "nil":
				fail("`%s := nil`", id.Name)
			}
			if strings.HasPrefix(val.typ, "tuple:") {
				fail("multi-value in single-value context")
			}
			ti := x.ti(val.typ)
			if ti.Kind == "drop" {
				fail("local %s of dropped type %s", id.Name, val.typ)
			}
			if ti.Kind == "state" && rhs != nil {
				fail("local %s would alias a %s", id.Name, val.typ)
			}
			if ti.Kind == "list" && rhs != nil {
				if _, isLv := x.chainLv(rhs, en); isLv {
					fail("local %s would alias the slice %s (shared backing array)", id.Name, norm(src(rhs)))
				}
				if _, isSl := rhs.(*ast.SliceExpr); isSl {
					fail("local %s would alias a part of the slice %s (shared backing array)", id.Name, norm(src(rhs)))
				}
			}
			en2, lean := en.declare(id.Name, val.typ)
			x.emit("let " + lean + " : " + ti.Lean + " := " + val.lean + "\n")
			if sp, ok := x.refPath(rhs, en); ok {
				en2 = x.link(en2, lean, sp, "{X}")
			}
			return en2
		}
		if v == nil {
			fail("assignment to unknown variable %s", id.Name)
		}
	}
	lv, ok := x.lvalue(lhs, en)
	if !ok {
		fail("unsupported assignment target %s", norm(src(lhs)))
	}
	if lv.root.consumed != "" {
		// a consumed variable may be given a new value
		if len(lv.fields) != 0 || lv.index != "" {
			fail("%s is written after %s", lv.root.goName, lv.root.consumed)
		}
		en = en.update(lv.root.lean, func(w *qvar) { w.consumed = "" })
		lv.root = en.byLean(lv.root.lean)
	}
	val := x.coerce(mk(lv.typ), lv.typ)
	li := x.ti(lv.typ)
	if li.Kind == "state" && rhs != nil {
		fail("assignment to %s would alias a %s", norm(src(lhs)), lv.typ)
	}
	if li.Kind == "list" && rhs != nil {
		if r, isLv := x.chainLv(rhs, en); isLv && !(r.pathKey() == lv.pathKey() && r.index == "") {
			fail("assignment to %s would alias the slice %s (shared backing array)", norm(src(lhs)), norm(src(rhs)))
		}
		if se, isSl := rhs.(*ast.SliceExpr); isSl {
			// the self-reslice `p = p[i:j]` keeps one name for the array
			if r, isLv := x.chainLv(se.X, en); !isLv || r.pathKey() != lv.pathKey() || r.index != "" || lv.index != "" {
				fail("assignment to %s would alias a part of the slice %s (shared backing array)", norm(src(lhs)), norm(src(se.X)))
			}
		}
	}
	en = x.store(lv, val.lean, en, true)
	if sp, ok := x.refPath(rhs, en); ok && lv.index == "" {
		if len(lv.fields) == 0 {
			en = x.link(en, lv.root.lean, sp, "{X}")
		} else {
			// the object now lives in the field: the variable is moved
			if len(sp.fields) != 0 {
				fail("assignment %s = %s would make two fields name one object", norm(src(lhs)), norm(src(rhs)))
			}
			why := "it was moved into " + norm(src(lhs))
			en = en.update(sp.root.lean, func(w *qvar) { w.consumed = why; w.link = nil })
		}
	} else if _, ok := x.refPath(rhs, en); ok && lv.index != "" {
		fail("an object stored in a slice element")
	}
	return en
}

// typeAssert: `y := x.(T)` as a whole statement
func (x *qtrans) typeAssert(lhs ast.Expr, define bool, ta *ast.TypeAssertExpr, en qenv) qenv {
	name := idName(lhs)
	if name == "" || name == "_" || !define {
		fail("type assertion %s: supported as `y := x.(T)` only", norm(src(ta)))
	}
	if !isChain(ta.X) {
		fail("type assertion on %s, which is not a variable or a field path", norm(src(ta.X)))
	}
	sp, ok := x.lvalue(ta.X, en)
	if !ok || sp.index != "" {
		fail("type assertion on %s, which is not a variable or a field path", norm(src(ta.X)))
	}
	x.useVar(sp.root)
	si := x.ti(sp.typ)
	if si.Kind != "sum" {
		fail("type assertion on %s of type %s", norm(src(ta.X)), sp.typ)
	}
	t := goTypeOf(ta.Type)
	ti := x.ti(t)
	switch {
	case ti.Kind == "obj" && ti.Sum == si.Sum:
		en2, lean := en.declare(name, t)
		x.guard(sp.leanNoIndex(), "(."+ti.Ctor+" "+lean+")")
		return x.link(en2, lean, sp, "(some (."+ti.Ctor+" {X}))")
	case ti.Kind == "sum" && ti.Sum == si.Sum:
		// interface to interface: fails on nil only (closed world: every value implements both)
		en2, lean := en.declare(name, t)
		x.guard(sp.leanNoIndex(), "_")
		x.emit("let " + lean + " : " + ti.Lean + " := " + sp.leanNoIndex() + "\n")
		return x.link(en2, lean, sp, "{X}")
	}
	fail("type assertion %s: %s is not a variant of %s", norm(src(ta)), t, sp.typ)
	return en
}

// isChain: `v`, `v.f`, `v.f.g` (no index, no call): parsing it as an lvalue has no side effects
func isChain(e ast.Expr) bool {
	switch e := e.(type) {
	case *ast.ParenExpr:
		return isChain(e.X)
	case *ast.Ident:
		return true
	case *ast.SelectorExpr:
		return isChain(e.X)
	}
	return false
}

func (x *qtrans) endStmt(en qenv) qenv {
	for _, l := range x.consume {
		en = en.update(l, func(w *qvar) {
			if w.consumed == "" {
				w.consumed = "its backing array / object was handed over"
			}
		})
	}
	x.consume = nil
	x.lhsText = nil
	return en
}

func (x *qtrans) assign(s *ast.AssignStmt, en qenv, fc *qfctx, next qkont) string {
	p0 := len(x.pre)
	done := func(en2 qenv) string {
		en2 = x.endStmt(en2)
		return x.withPre(p0, fc.pnc, next(en2))
	}
	define := s.Tok == token.DEFINE
	if s.Tok != token.DEFINE && s.Tok != token.ASSIGN {
		ops := map[token.Token]token.Token{token.ADD_ASSIGN: token.ADD, token.SUB_ASSIGN: token.SUB, token.MUL_ASSIGN: token.MUL}
		op, ok := ops[s.Tok]
		if !ok || len(s.Lhs) != 1 || len(s.Rhs) != 1 {
			fail("unsupported assignment %s", norm(src(s)))
		}
		en2 := x.assignTo(s.Lhs[0], false, func(string) qv {
			return x.binary(&ast.BinaryExpr{X: s.Lhs[0], Op: op, Y: s.Rhs[0]}, en)
		}, nil, en)
		return done(en2)
	}
	x.lhsText = nil
	for _, l := range s.Lhs {
		x.lhsText = append(x.lhsText, norm(src(l)))
	}
	if len(s.Rhs) == 1 {
		rhs := s.Rhs[0]
		if ta, ok := rhs.(*ast.TypeAssertExpr); ok {
			if len(s.Lhs) != 1 {
				fail("comma-ok type assertion %s", norm(src(s)))
			}
			return done(x.typeAssert(s.Lhs[0], define, ta, en))
		}
		if c, ok := rhs.(*ast.CallExpr); ok {
			v, eff := x.call(c, en)
			cur := en
			var parts []string
			var acc func(i int) string
			if eff != nil {
				acc, cur = x.applyEffect(eff, cur)
				parts = eff.results
			} else if ps := tupleParts(v.typ); len(ps) != 1 {
				r := x.tmp("r")
				x.emit("let " + r + " := " + v.lean + "\n")
				parts = ps
				acc = func(i int) string { return proj(r, i, len(ps)) }
			} else {
				if len(s.Lhs) != 1 {
					fail("assignment mismatch in %s", norm(src(s)))
				}
				return done(x.assignTo(s.Lhs[0], define, func(string) qv { return v }, nil, en))
			}
			if len(s.Lhs) != len(parts) {
				fail("assignment mismatch: %d targets, %d values", len(s.Lhs), len(parts))
			}
			for i := range s.Lhs {
				i := i
				cur = x.assignTo(s.Lhs[i], define, func(string) qv { return qv{acc(i), parts[i]} }, nil, cur)
			}
			return done(cur)
		}
		if len(s.Lhs) != 1 {
			fail("assignment mismatch in %s", norm(src(s)))
		}
		return done(x.assignTo(s.Lhs[0], define, func(want string) qv { return x.expr(rhs, en, want) }, rhs, en))
	}
	if len(s.Lhs) != len(s.Rhs) {
		fail("assignment mismatch in %s", norm(src(s)))
	}
	// parallel assignment: all right-hand sides first, through temporaries
	tmps := make([]qv, len(s.Rhs))
	for i, r := range s.Rhs {
		want := ""
		if !define || en.lookup(idName(s.Lhs[i])) != nil {
			if lv, ok := x.chainLv(s.Lhs[i], en); ok && idName(s.Lhs[i]) != "_" {
				want = lv.typ
			}
		}
		v := x.expr(r, en, want)
		if want != "" {
			v = x.coerce(v, want)
		}
		if v.typ == "untyped" {
			v = x.coerce(v, "int")
		}
		if v.typ == "nil" {
			fail("nil in a parallel assignment")
		}
		t := x.tmp("t")
		x.emit("let " + t + " : " + x.leanTypeOf(v.typ) + " := " + v.lean + "\n")
		tmps[i] = qv{t, v.typ}
	}
	cur := en
	for i := range s.Lhs {
		i := i
		cur = x.assignTo(s.Lhs[i], define, func(string) qv { return tmps[i] }, s.Rhs[i], cur)
	}
	return done(cur)
}

// droppedFieldReset: `v.f = nil` where f is a field of a dropped type of an object variable v
func (x *qtrans) droppedFieldReset(s *ast.AssignStmt, en qenv) bool {
	if s.Tok != token.ASSIGN || len(s.Lhs) != 1 || len(s.Rhs) != 1 || !isIdent(s.Rhs[0], "nil") {
		return false
	}
	sel, ok := s.Lhs[0].(*ast.SelectorExpr)
	if !ok {
		return false
	}
	id, ok := sel.X.(*ast.Ident)
	if !ok {
		return false
	}
	v := en.lookup(id.Name)
	if v == nil {
		return false
	}
	bi := x.ti(v.typ)
	if bi.Kind != "obj" {
		return false
	}
	ft, ok := x.u.fieldType(bi.Struct, sel.Sel.Name)
	return ok && x.u.typeInfo(ft, nil).Kind == "drop"
}

// ---------------------------------------------------------------------------------------------
// statements

func (x *qtrans) stmts(list []ast.Stmt, en qenv, fc *qfctx, k qkont) string {
	if len(list) == 0 {
		return k(en)
	}
	s, rest := list[0], list[1:]
	next := func(en qenv) string { return x.stmts(rest, en, fc, k) }
	p0 := len(x.pre)
	done := func(en2 qenv) string {
		en2 = x.endStmt(en2)
		return x.withPre(p0, fc.pnc, next(en2))
	}
	switch s.(type) {
	case *ast.AssignStmt, *ast.ExprStmt, *ast.IncDecStmt, *ast.ReturnStmt, *ast.DeclStmt:
		x.curEnd = s.End()
	}
	switch s := s.(type) {
	case *ast.EmptyStmt:
		return next(en)
	case *ast.BlockStmt:
		return x.stmts(s.List, en.push(), fc, func(en2 qenv) string { return next(en2.popTo(en)) })
	case *ast.ReturnStmt:
		return fc.ret(en, s.Results)
	case *ast.BranchStmt:
		if s.Label != nil {
			fail("labelled %s", s.Tok)
		}
		switch {
		case s.Tok == token.BREAK && fc.brk != nil:
			return fc.brk(en)
		case s.Tok == token.CONTINUE && fc.cont != nil:
			return fc.cont(en)
		}
		fail("unsupported %s", s.Tok)
	case *ast.DeclStmt:
		gd, ok := s.Decl.(*ast.GenDecl)
		if !ok || gd.Tok != token.VAR {
			fail("unsupported declaration %s", norm(src(s)))
		}
		cur := en
		for _, sp := range gd.Specs {
			vs := sp.(*ast.ValueSpec)
			if len(vs.Values) != 0 || vs.Type == nil {
				fail("unsupported declaration %s", norm(src(s)))
			}
			t := goTypeOf(vs.Type)
			ti := x.ti(t)
			if ti.Zero == "" {
				fail("`var _ %s`: no zero value known", t)
			}
			for _, n := range vs.Names {
				var lean string
				cur, lean = cur.declare(n.Name, t)
				x.emit("let " + lean + " : " + ti.Lean + " := " + ti.Zero + "\n")
			}
		}
		return done(cur)
	case *ast.IncDecStmt:
		op := token.ADD
		if s.Tok == token.DEC {
			op = token.SUB
		}
		en2 := x.assignTo(s.X, false, func(string) qv {
			return x.binary(&ast.BinaryExpr{X: s.X, Op: op, Y: &ast.BasicLit{Kind: token.INT, Value: "1"}}, en)
		}, nil, en)
		return done(en2)
	case *ast.AssignStmt:
		if x.droppedFieldReset(s, en) {
			covSkip("TransSl."+x.t.Lean, s, "assignment to a field of a dropped type")
			// `a.f = nil` for a field that is not part of the record (dropped type: the nesting machinery): not modelled
			return next(en)
		}
		return x.assign(s, en, fc, next)
	case *ast.ExprStmt:
		c, ok := s.X.(*ast.CallExpr)
		if !ok {
			fail("unsupported statement %s", norm(src(s)))
		}
		if isIdent(c.Fun, "panic") {
			x.needPnc = true
			return fc.pnc()
		}
		if isIdent(c.Fun, "clear") && len(c.Args) == 1 {
			// `clear(s[len(s):cap(s)])`: zeroes the array beyond the visible elements - nothing to do in a list
			b := map[string]ast.Expr{}
			if match(mustExpr("X_s[len(X_s):cap(X_s)]"), c.Args[0], b) {
				if _, ok := x.chainLv(b["X_s"], en); !ok {
					fail("unsupported clear %s", norm(src(s)))
				}
				return next(en)
			}
			lv, ok := x.chainLv(c.Args[0], en)
			if !ok || lv.index != "" || x.ti(lv.typ).Kind != "list" {
				fail("unsupported clear %s", norm(src(s)))
			}
			z := x.ti(x.ti(lv.typ).Elem).Zero
			if z == "" {
				fail("no zero value for %s", x.ti(lv.typ).Elem)
			}
			en2 := x.store(lv, "(List.replicate "+paren(lv.leanNoIndex())+".length "+paren(z)+")", en, false)
			return done(en2)
		}
		v, eff := x.call(c, en)
		_ = v
		cur := en
		if eff != nil {
			_, cur = x.applyEffect(eff, cur)
		}
		return done(cur)
	case *ast.IfStmt:
		return x.ifStmt(s, en, fc, next)
	case *ast.RangeStmt:
		return x.rangeStmt(s, en, fc, next)
	case *ast.ForStmt:
		return x.forStmt(s, en, fc, next)
	}
	fail("unsupported statement %s", norm(src(s)))
	return ""
}

// qJoinLines: a continuation of at least this many lines that two branches of an `if` fall through to is emitted once,
// as a definition `<f>.kN` of the variables it mentions (a join point), instead of being copied into both branches
const qJoinLines = 12

type qjoin struct {
	env   qenv
	text  string
	n     int
	token string
}

func qenvEqual(a, b qenv) bool {
	if len(a.vars) != len(b.vars) || a.depth != b.depth {
		return false
	}
	for i := range a.vars {
		v, w := a.vars[i], b.vars[i]
		if v.goName != w.goName || v.lean != w.lean || v.typ != w.typ || v.consumed != w.consumed || (v.link == nil) != (w.link == nil) {
			return false
		}
		if v.link != nil && (v.link.root != w.link.root || v.link.inj != w.link.inj || strings.Join(v.link.fields, ".") != strings.Join(w.link.fields, ".")) {
			return false
		}
	}
	return true
}

// replaceIndented puts rep in the place of the token, indented to the token's column
func replaceIndented(text, token, rep string) string {
	for {
		i := strings.Index(text, token)
		if i < 0 {
			return text
		}
		col := i - (strings.LastIndex(text[:i], "\n") + 1)
		text = text[:i] + indent(rep, col) + text[i+len(token):]
	}
}

// joinPoint emits the continuation as a definition of the variables it mentions and returns the call
func (x *qtrans) joinPoint(en qenv, text string, s *ast.IfStmt) string {
	x.nk++
	name := fmt.Sprintf("%s.k%d", x.t.Lean, x.nk)
	toks := map[string]bool{}
	for _, t := range identRe.FindAllString(text, -1) {
		toks[t] = true
	}
	var ps []qvar
	seen := map[string]bool{}
	for i := len(en.vars) - 1; i >= 0; i-- {
		v := en.vars[i]
		if seen[v.lean] {
			continue
		}
		seen[v.lean] = true
		if toks[v.lean] {
			ps = append([]qvar{v}, ps...)
		}
	}
	decl, args := "", ""
	for _, v := range ps {
		decl += " (" + v.lean + " : " + x.leanTypeOf(v.typ) + ")"
		args += " " + v.lean
	}
	def := fmt.Sprintf("/-- join point %d of `%s`: what follows `if %s { .. }`, shared by the branches that fall through -/\ndef %s (env : %s)%s :\n    %s :=\n  %s\n",
		x.nk, x.t.Func, oneLine(norm(src(s.Cond))), name, x.u.envType(), decl, x.resultType(), indent(text, 2))
	x.aux = append(x.aux, def)
	return name + " env" + args
}

func (x *qtrans) ifStmt(s *ast.IfStmt, en qenv, fc *qfctx, next qkont) string {
	var joins []*qjoin
	after := func(en2 qenv) string {
		e := en2.popTo(en)
		for _, j := range joins {
			if qenvEqual(j.env, e) {
				j.n++
				return j.token
			}
		}
		x.njoin++
		j := &qjoin{env: e, token: fmt.Sprintf("JOIN_%d_", x.njoin)}
		joins = append(joins, j)
		j.text = next(e)
		j.n = 1
		return j.token
	}
	body := func(inner qenv) string {
		p0 := len(x.pre)
		c := x.coerce(x.expr(s.Cond, inner, "bool"), "bool")
		thenT := x.stmts(s.Body.List, inner.push(), fc, after)
		var elseT string
		switch e := s.Else.(type) {
		case nil:
			elseT = after(inner)
		case *ast.BlockStmt:
			elseT = x.stmts(e.List, inner.push(), fc, after)
		case *ast.IfStmt:
			elseT = x.ifStmt(e, inner.push(), fc, after)
		default:
			fail("unsupported else part")
		}
		return x.withPre(p0, fc.pnc, "if "+c.lean+" then\n  "+indent(thenT, 2)+"\nelse\n  "+indent(elseT, 2))
	}
	var text string
	if s.Init != nil {
		text = x.stmts([]ast.Stmt{s.Init}, en.push(), fc, body)
	} else {
		text = body(en)
	}
	for _, j := range joins {
		rep := j.text
		if j.n >= 2 && fc.top && x.tparams == nil && strings.Count(j.text, "\n")+1 >= qJoinLines {
			rep = x.joinPoint(j.env, j.text, s)
		}
		text = replaceIndented(text, j.token, rep)
	}
	return text
}

// ---------------------------------------------------------------------------------------------
// loops

type qsnap struct {
	nloop, ntmp, naux, npre  int
	rebound, mutParam, consP map[string]bool
	nonSet                   map[string]bool
	needPnc                  bool
}

func qcopy(m map[string]bool) map[string]bool {
	n := map[string]bool{}
	for k, v := range m {
		n[k] = v
	}
	return n
}

func (x *qtrans) snapshot() qsnap {
	return qsnap{x.nloop, x.ntmp, len(x.aux), len(x.pre), qcopy(x.rebound), qcopy(x.mutParam), qcopy(x.consumeP), qcopy(x.nonSet), x.needPnc}
}

func (x *qtrans) restore(s qsnap) {
	x.nloop, x.ntmp, x.aux, x.pre = s.nloop, s.ntmp, x.aux[:s.naux], x.pre[:s.npre]
	x.rebound, x.mutParam, x.consumeP, x.needPnc, x.nonSet = s.rebound, s.mutParam, s.consP, s.needPnc, s.nonSet
	x.consume, x.lhsText = nil, nil
}

type qloop struct {
	header  string
	list    bool   // structural recursion over a list
	coll    string // list: Lean list expression
	elemT   string // list: Lean element type
	elemPat string // list: pattern of the head
	fuel    string // fuel: Lean Nat expression (evaluated at entry)
	idx     string // Lean name of the index variable ("" = none)
	idx0    string // its initial value
	step    string // "+ 1" / "- 1"
	cond    func(en qenv) string
	body    qenv // environment of the body (index / element declared)
	stmts   []ast.Stmt
	inv     []ast.Expr // expressions that must not be assigned in the body
}

func (x *qtrans) loop(l *qloop, en qenv, fc *qfctx) {
	// pass 1: which outer variables does the body rebind?
	snap := x.snapshot()
	x.rebound = map[string]bool{}
	x.nonSet = map[string]bool{}
	x.loopBody(l, en, fc, nil, "LOOP_", false)
	found, foundNonSet := x.rebound, x.nonSet
	x.restore(snap)
	if l.idx != "" {
		for k := range found {
			if k == l.idx || strings.HasPrefix(k, l.idx+".") {
				fail("the loop variable is assigned in the body of `for %s`", l.header)
			}
		}
	}
	for _, e := range l.inv {
		ast.Inspect(e, func(n ast.Node) bool {
			ex, ok := n.(ast.Expr)
			if !ok {
				return true
			}
			if c, isCall := ex.(*ast.CallExpr); isCall && isIdent(c.Fun, "len") && len(c.Args) == 1 {
				// `len(s)`: element assignments `s[i] = v` in the body keep it
				if lv, ok := x.chainLv(c.Args[0], en); ok && lv.index == "" {
					for k := range found {
						if pathConflict(k, lv.pathKey()) && (k != lv.pathKey() || foundNonSet[k]) {
							fail("`for %s`: %s is assigned in the body, the iteration count would change", l.header, norm(src(ex)))
						}
					}
					return false
				}
			}
			if lv, ok := x.chainLv(ex, en); ok && lv.index == "" {
				for k := range found {
					if pathConflict(k, lv.pathKey()) {
						fail("`for %s`: %s is assigned in the body, the iteration count would change", l.header, norm(src(ex)))
					}
				}
				return false
			}
			return true
		})
	}
	var carried []qvar
	seen := map[string]bool{}
	for i := len(en.vars) - 1; i >= 0; i-- {
		v := en.vars[i]
		if seen[v.lean] {
			continue
		}
		seen[v.lean] = true
		hit := false
		for k := range found {
			hit = hit || k == v.lean || strings.HasPrefix(k, v.lean+".")
		}
		if hit {
			carried = append([]qvar{v}, carried...)
		}
	}
	x.nloop++
	name := fmt.Sprintf("%s.loop%d", x.t.Lean, x.nloop)
	x.loopBody(l, en, fc, carried, name, true)
}

// loopBody translates the loop with the given carried variables; emit=false: only to see what is rebound
func (x *qtrans) loopBody(l *qloop, en qenv, fc *qfctx, carried []qvar, name string, emit bool) string {
	hasRet := hasReturn(l.stmts) || x.shape.aborts
	cnames := make([]string, len(carried))
	ctypes := make([]string, len(carried))
	for i, v := range carried {
		cnames[i] = v.lean
		ctypes[i] = x.leanTypeOf(v.typ)
	}
	ctuple, ctupleT := "()", "Unit"
	if len(carried) == 1 {
		ctuple, ctupleT = cnames[0], ctypes[0]
	} else if len(carried) > 1 {
		ctuple, ctupleT = "("+strings.Join(cnames, ", ")+")", "("+strings.Join(ctypes, " × ")+")"
	}
	resT, done := ctupleT, ctuple
	if hasRet {
		resT = "Loop " + paren(x.resultType()) + " " + paren(ctupleT)
		done = ".done " + ctuple
	}
	recur := "RECUR_" + name + "_"
	lf := &qfctx{
		brk:  func(qenv) string { return done },
		cont: func(qenv) string { return recur },
	}
	lf.final = func(v string) string { return ".ret " + paren(fc.final(v)) }
	lf.pnc = func() string { return ".ret " + paren(fc.pnc()) }
	lf.ret = func(en2 qenv, rs []ast.Expr) string { return x.retCore(en2, rs, lf) }
	if !hasRet {
		lf.pnc = func() string { x.needPnc = true; return done }
		lf.ret = func(qenv, []ast.Expr) string { return done }
	}
	x.inLoop++
	bodyText := x.stmts(l.stmts, l.body, lf, func(qenv) string { return recur })
	x.inLoop--
	condText := ""
	if l.cond != nil {
		p0 := len(x.pre)
		condText = l.cond(l.body)
		if len(x.pre) != p0 {
			fail("`for %s`: the condition can abort", l.header)
		}
	}
	if !emit {
		return ""
	}
	toks := map[string]bool{}
	for _, t := range identRe.FindAllString(bodyText+" "+condText, -1) {
		toks[t] = true
	}
	var frees []qvar
	seen := map[string]bool{}
	for i := len(en.vars) - 1; i >= 0; i-- {
		v := en.vars[i]
		if seen[v.lean] {
			continue
		}
		seen[v.lean] = true
		isC := false
		for _, c := range carried {
			isC = isC || c.lean == v.lean
		}
		if !isC && toks[v.lean] {
			frees = append([]qvar{v}, frees...)
		}
	}
	fdecl, fargs := "", ""
	for _, v := range frees {
		fdecl += " (" + v.lean + " : " + x.leanTypeOf(v.typ) + ")"
		fargs += " " + v.lean
	}
	cargs, pats, sig := "", "", ""
	for i, c := range cnames {
		cargs += " " + c
		pats += ", " + c
		sig += " → " + ctypes[i]
	}
	callHead := name + " env" + fargs
	var def string
	idxSig, idxPat, idxNext, idxInit := "", "", "", ""
	if l.idx != "" {
		idxSig, idxPat, idxNext, idxInit = " → Int", ", "+l.idx, " ("+l.idx+" "+l.step+")", " "+paren(l.idx0)
	}
	if l.list {
		bodyText = strings.ReplaceAll(bodyText, recur, callHead+" rest_"+idxNext+cargs)
		def = fmt.Sprintf("/-- loop %d of `%s`: `for %s` (structural recursion over the slice as it is at entry) -/\ndef %s (env : %s)%s :\n    List %s%s%s → %s\n",
			x.nloop, x.t.Func, l.header, name, x.u.envType(), fdecl, paren(l.elemT), idxSig, sig, resT)
		def += "  | []" + idxPat + pats + " => " + done + "\n"
		def += "  | " + l.elemPat + " :: rest_" + idxPat + pats + " =>\n    " + indent(bodyText, 4) + "\n"
	} else {
		bodyText = strings.ReplaceAll(bodyText, recur, callHead+" fuel_"+idxNext+cargs)
		if condText != "" {
			bodyText = "if " + condText + " then\n  " + indent(bodyText, 2) + "\nelse\n  " + done
		}
		def = fmt.Sprintf("/-- loop %d of `%s`: `for %s` (fuel: the iteration count at entry) -/\ndef %s (env : %s)%s :\n    Nat%s%s → %s\n",
			x.nloop, x.t.Func, l.header, name, x.u.envType(), fdecl, idxSig, sig, resT)
		def += "  | 0" + idxPat + pats + " => " + done + "\n"
		def += "  | fuel_ + 1" + idxPat + pats + " =>\n    " + indent(bodyText, 4) + "\n"
	}
	x.aux = append(x.aux, def)
	first := l.coll
	if !l.list {
		first = l.fuel
	}
	call := callHead + " " + paren(first) + idxInit + cargs
	x.loopCall, x.loopCarried, x.loopHasRet, x.loopTuple, x.loopTupleT = call, carried, hasRet, ctuple, ctupleT
	return ""
}

// afterLoop: the text that runs the loop and continues
func (x *qtrans) afterLoop(en qenv, fc *qfctx, next qkont) string {
	call, carried, hasRet, ctuple, ctupleT := x.loopCall, x.loopCarried, x.loopHasRet, x.loopTuple, x.loopTupleT
	for _, c := range carried {
		x.rebound[c.lean] = true
		if c.param {
			x.mutParam[c.lean] = true
		}
	}
	if hasRet {
		return "match " + call + " with\n| .ret r_ => " + fc.final("r_") + "\n| .done " + ctuple + " =>\n  " + indent(next(en), 2)
	}
	switch len(carried) {
	case 0:
		return next(en)
	case 1:
		return "let " + ctuple + " : " + ctupleT + " := " + call + "\n" + next(en)
	}
	return "match " + call + " with\n| " + ctuple + " =>\n  " + indent(next(en), 2)
}

func (x *qtrans) runLoop(l *qloop, en qenv, fc *qfctx, next qkont) string {
	x.loop(l, en, fc)
	return x.afterLoop(en, fc, next)
}

func (x *qtrans) rangeStmt(s *ast.RangeStmt, en qenv, fc *qfctx, next qkont) string {
	if s.Tok != token.DEFINE && (s.Key != nil || s.Value != nil) {
		fail("range with assignment to existing variables")
	}
	p0 := len(x.pre)
	name := func(e ast.Expr) string {
		if e == nil {
			return "_"
		}
		n := idName(e)
		if n == "" {
			fail("range variable %s", norm(src(e)))
		}
		return n
	}
	kn, vn := name(s.Key), name(s.Value)
	l := &qloop{header: norm(rangeHeader(s)), stmts: s.Body.List, step: "+ 1", idx0: "(0 : Int)"}
	coll := x.expr(s.X, en, "")
	if coll.typ == "untyped" {
		coll = x.coerce(coll, "int")
	}
	ci := x.ti(coll.typ)
	body := en.push()
	switch {
	case ci.Kind == "list" && s.Value != nil:
		// the elements are those at entry: the body must not assign the slice
		l.list, l.coll, l.elemT = true, coll.lean, x.leanTypeOf(ci.Elem)
		l.inv = []ast.Expr{s.X}
		if kn != "_" {
			body, l.idx = body.declare(kn, "int")
		}
		l.elemPat = "_"
		if vn != "_" {
			body, l.elemPat = body.declare(vn, ci.Elem)
		}
	case ci.Kind == "list":
		// index only: `len` is evaluated once
		l.fuel = paren(coll.lean) + ".length"
		if kn != "_" {
			body, l.idx = body.declare(kn, "int")
		}
	case ci.Kind == "int":
		if s.Value != nil {
			fail("range over an int with two variables")
		}
		l.fuel = paren(coll.lean) + ".toNat"
		if kn != "_" {
			body, l.idx = body.declare(kn, "int")
		}
	default:
		fail("range over %s", coll.typ)
	}
	l.body = body
	text := x.runLoop(l, en, fc, next)
	return x.withPre(p0, fc.pnc, text)
}

func (x *qtrans) forStmt(s *ast.ForStmt, en qenv, fc *qfctx, next qkont) string {
	hdr := norm(nodeOr(s.Init) + "; " + nodeOr(s.Cond) + "; " + nodeOr(s.Post))
	init, ok := s.Init.(*ast.AssignStmt)
	if !ok || init.Tok != token.DEFINE || len(init.Lhs) != 1 || len(init.Rhs) != 1 || idName(init.Lhs[0]) == "" {
		fail("`for %s`: unsupported init statement", hdr)
	}
	iv := idName(init.Lhs[0])
	post, ok := s.Post.(*ast.IncDecStmt)
	if !ok || !isIdent(post.X, iv) {
		fail("`for %s`: unsupported post statement", hdr)
	}
	cond, ok := s.Cond.(*ast.BinaryExpr)
	if !ok || !isIdent(cond.X, iv) {
		fail("`for %s`: unsupported condition", hdr)
	}
	p0 := len(x.pre)
	i0 := x.pureInt(init.Rhs[0], en)
	l := &qloop{header: hdr, stmts: s.Body.List, idx0: i0}
	body := en.push()
	body, l.idx = body.declare(iv, "int")
	switch {
	case post.Tok == token.INC && cond.Op == token.LSS:
		bound := x.pureInt(cond.Y, en)
		l.step = "+ 1"
		l.fuel = "(" + paren(bound) + " - " + paren(i0) + ").toNat"
		l.inv = []ast.Expr{cond.Y}
	case post.Tok == token.DEC && cond.Op == token.GEQ && isZero(cond.Y):
		l.step = "- 1"
		l.fuel = "(" + paren(i0) + " + 1).toNat"
	default:
		fail("`for %s`: only `i < E; i++` and `i >= 0; i--` are supported", hdr)
	}
	l.cond = func(en2 qenv) string { return x.coerce(x.expr(s.Cond, en2, "bool"), "bool").lean }
	l.body = body
	text := x.runLoop(l, en, fc, next)
	return x.withPre(p0, fc.pnc, text)
}

// ---------------------------------------------------------------------------------------------
// return

func (x *qtrans) retCore(en qenv, rs []ast.Expr, fc *qfctx) string {
	p0 := len(x.pre)
	res := x.shape.res
	if len(rs) == 0 && len(res) > 0 {
		fail("bare return with results")
	}
	if len(rs) == 1 {
		if c, ok := rs[0].(*ast.CallExpr); ok {
			v, eff := x.call(c, en)
			if eff != nil {
				if tupleTyp(eff.results) != tupleTyp(res) {
					fail("return of a call with results %v, function returns %v", eff.results, res)
				}
				acc, en2 := x.applyEffect(eff, en)
				var parts []string
				for i := range res {
					parts = append(parts, acc(i))
				}
				return x.withPre(p0, fc.pnc, fc.final(x.finish(parts, en2)))
			}
			if len(res) > 1 {
				if v.typ != tupleTyp(res) {
					fail("return of a call of type %s, function returns %v", v.typ, res)
				}
				r := x.tmp("r")
				x.emit("let " + r + " := " + v.lean + "\n")
				var parts []string
				for i := range res {
					parts = append(parts, proj(r, i, len(res)))
				}
				return x.withPre(p0, fc.pnc, fc.final(x.finish(parts, en)))
			}
			if len(res) == 1 {
				w := x.coerce(v, res[0])
				return x.withPre(p0, fc.pnc, fc.final(x.finish([]string{w.lean}, en)))
			}
		}
	}
	if len(rs) != len(res) {
		fail("return with %d values, function has %d results", len(rs), len(res))
	}
	var parts []string
	for i, r := range rs {
		v := x.coerce(x.expr(r, en, res[i]), res[i])
		parts = append(parts, v.lean)
	}
	return x.withPre(p0, fc.pnc, fc.final(x.finish(parts, en)))
}

// ---------------------------------------------------------------------------------------------
// one target

func (x *qtrans) typeParams(fd *ast.FuncDecl) string {
	if fd.Type.TypeParams == nil {
		return ""
	}
	x.tparams = map[string]qTypeInfo{}
	decl := ""
	// element parameters first (`E any`), then the slice parameters (`S ~[]E`)
	for _, f := range fd.Type.TypeParams.List {
		if isIdent(f.Type, "any") {
			for _, n := range f.Names {
				x.tparams[n.Name] = qTypeInfo{Lean: n.Name, Zero: "default", Kind: "tparam"}
				decl += " {" + n.Name + " : Type} [Inhabited " + n.Name + "]"
			}
		}
	}
	for _, f := range fd.Type.TypeParams.List {
		if isIdent(f.Type, "any") {
			continue
		}
		u, ok := f.Type.(*ast.UnaryExpr)
		if !ok || u.Op != token.TILDE {
			fail("unsupported type parameter constraint %s", norm(src(f.Type)))
		}
		at, ok := u.X.(*ast.ArrayType)
		if !ok || at.Len != nil || x.tparams[idName(at.Elt)].Kind != "tparam" {
			fail("unsupported type parameter constraint %s", norm(src(f.Type)))
		}
		for _, n := range f.Names {
			x.tparams[n.Name] = qTypeInfo{Lean: "List " + idName(at.Elt), Zero: "[]", Kind: "list", Elem: idName(at.Elt)}
		}
	}
	return decl
}

func translateQ(u *qUnit, t *qTarget) (text string, reason string) {
	key := t.Func
	var x *qtrans
	run := func(assume qshape) (out string) {
		x = &qtrans{u: u, t: t, rebound: map[string]bool{}, mutParam: map[string]bool{}, consumeP: map[string]bool{}, nonSet: map[string]bool{}}
		fd := funcs[t.Func]
		if fd == nil {
			fail("function %s not found in the package", t.Func)
		}
		if fd.Body == nil {
			fail("function %s has no body", t.Func)
		}
		x.fd = fd
		tdecl := x.typeParams(fd)
		en := qenv{}
		params := ""
		x.shape = qshape{lean: t.Lean, aborts: assume.aborts || t.Rec, recvMut: assume.recvMut, generic: tdecl != "", fuel: t.Rec || t.Fuel}
		if x.shape.fuel {
			// the depth argument (a pseudo-variable, so that loops and join points that mention it take it as a parameter)
			en.vars = append(en.vars, qvar{goName: "depth_", lean: "depth_", typ: "#depth"})
			params = " (depth_ : Nat)"
		}
		if fd.Recv != nil {
			rt := goTypeOf(fd.Recv.List[0].Type)
			ri := x.ti(rt)
			if ri.Kind != "obj" {
				fail("receiver type %s is not an object type of the table", rt)
			}
			x.shape.recv = ri.Struct
			x.recvType = ri.Lean
			rn := "recv"
			if len(fd.Recv.List[0].Names) == 1 {
				rn = fd.Recv.List[0].Names[0].Name
			}
			x.recv = rn
			en, x.recvLean = en.declare(rn, "*"+ri.Struct)
			en.vars[len(en.vars)-1].param = true
			params += " (" + x.recvLean + " : " + ri.Lean + ")"
		}
		ps, variadic := qParamsOf(fd.Type)
		if variadic {
			fail("variadic function")
		}
		x.paramLean = make([]string, len(ps))
		for i := range ps {
			ti := x.ti(ps[i].typ)
			if ti.Kind == "drop" || ps[i].name == "" || ps[i].name == "_" {
				ps[i].kept = false
				continue
			}
			var lean string
			en, lean = en.declare(ps[i].name, ps[i].typ)
			en.vars[len(en.vars)-1].param = true
			x.paramLean[i] = lean
			params += " (" + lean + " : " + ti.Lean + ")"
			if i < len(assume.params) {
				ps[i].mut, ps[i].consumed = assume.params[i].mut, assume.params[i].consumed
			}
		}
		x.shape.params = ps
		rn, rt := fieldNames(fd.Type.Results)
		x.shape.res = rt
		if t.Rec {
			// the function at the smaller depth, reached through the dispatchers: `rec_`
			x.recType = x.recvType
			for _, p := range ps {
				if p.kept {
					x.recType += " → " + paren(x.ti(p.typ).Lean)
				}
			}
			x.recType += " → " + x.resultType()
			en.vars = append(en.vars, qvar{goName: "rec_", lean: "rec_", typ: "#rec"})
			prov := x.shape
			prov.ok = true
			qShapes[key] = prov
		}
		body := en.push()
		p0 := len(x.pre)
		for i, n := range rn {
			// named results are local variables with zero values
			if n == "" || n == "_" {
				continue
			}
			z := x.ti(rt[i]).Zero
			if z == "" {
				fail("named result %s %s: no zero value known", n, rt[i])
			}
			var lean string
			body, lean = body.declare(n, rt[i])
			x.emit("let " + lean + " : " + x.leanTypeOf(rt[i]) + " := " + z + "\n")
		}
		fc := &qfctx{top: true}
		fc.final = func(v string) string { return v }
		fc.pnc = func() string {
			x.needPnc = true
			return "none"
		}
		fc.ret = func(en2 qenv, rs []ast.Expr) string { return x.retCore(en2, rs, fc) }
		bodyText := x.stmts(fd.Body.List, body, fc, func(en2 qenv) string {
			if len(rt) != 0 {
				fail("function body can end without return")
			}
			return x.finish(nil, en2)
		})
		bodyText = x.withPre(p0, fc.pnc, bodyText)
		doc := fmt.Sprintf("/-- `%s` (%s)", t.Func, funcFile[t.Func])
		if t.Doc != "" {
			doc += ": " + t.Doc
		}
		doc += " -/\n"
		out = strings.Join(x.aux, "\n")
		if out != "" {
			out += "\n"
		}
		if t.Rec {
			if fd.Recv == nil {
				fail("a Rec target must be a method")
			}
			bodyText = "match depth_ with\n| 0 => none\n| depth_ + 1 =>\n  let rec_ : " + x.recType + " := " + t.Lean + " env depth_\n  " + indent(bodyText, 2)
		}
		return out + doc + "def " + t.Lean + tdecl + " (env : " + u.envType() + ")" + params + " :\n    " + x.resultType() + " :=\n  " + indent(bodyText, 2) + "\n"
	}
	defer func() {
		if r := recover(); r != nil {
			te, ok := r.(transErr)
			if !ok {
				te = transErr{fmt.Sprintf("internal error of the translator: %v", r)}
			}
			reason = te.msg
			qShapes[key] = qshape{}
			text = fmt.Sprintf("/-- `%s`: NOT TRANSLATED (%s) -/\ndef %s : Untranslatable :=\n  ⟨%q⟩\n", t.Func, oneLine(te.msg), t.Lean, oneLine(te.msg))
		}
	}()
	assume := qshape{}
	ndefs := len(qDefs)
	before := map[string]bool{}
	for k := range qShapes {
		before[k] = true
	}
	for iter := 0; ; iter++ {
		// dispatchers generated by an earlier pass over this target are generated again
		qDefs = qDefs[:ndefs]
		for k := range qShapes {
			if strings.HasPrefix(k, "#") && !before[k] {
				delete(qShapes, k)
			}
		}
		text = run(assume)
		now := x.shape
		now.aborts = assume.aborts || x.needPnc || t.Rec
		now.recvMut = assume.recvMut || x.mutParam[x.recvLean]
		changed := now.aborts != assume.aborts || now.recvMut != assume.recvMut || len(assume.params) != len(now.params)
		for i := range now.params {
			p := &now.params[i]
			if !p.kept {
				continue
			}
			k := x.ti(p.typ).Kind
			cons := x.consumeP[x.paramLean[i]]
			mut := x.mutParam[x.paramLean[i]] && (isRefKind(k) || k == "list") && !cons
			if i < len(assume.params) {
				mut = mut || (assume.params[i].mut && !cons)
				cons = cons || assume.params[i].consumed
			}
			if mut != p.mut || cons != p.consumed {
				changed = true
			}
			p.mut, p.consumed = mut, cons
		}
		if !changed {
			break
		}
		if iter > 4 {
			fail("the shape of the function does not stabilise")
		}
		assume = now
	}
	sh := x.shape
	sh.ok = true
	if sh.generic {
		sh.tparams = map[string]string{}
		for n, ti := range x.tparams {
			if ti.Kind == "list" {
				sh.tparams[n] = "[]" + ti.Elem
			} else {
				sh.tparams[n] = n
			}
		}
	}
	qShapes[key] = sh
	return text, ""
}

// ---------------------------------------------------------------------------------------------
// the unit: records, env, targets

func emitUnit(u *qUnit, failed *[]string, all *[]string) (out string) {
	qEnvFns, qEnvIdx, qDefs = nil, map[string]int{}, nil
	qShapes = map[string]qshape{}
	qStructLeanMemo = map[string]string{}
	defer func() {
		if r := recover(); r != nil {
			msg := fmt.Sprint(r)
			if te, ok := r.(transErr); ok {
				msg = te.msg
			}
			fmt.Fprintf(os.Stderr, "gotrans: slab unit not translated: %s\n", msg)
			out = ""
			for i := range u.Targets {
				t := &u.Targets[i]
				if !containsStr(*all, t.Lean) {
					*all = append(*all, t.Lean)
				}
				if !containsStr(*failed, t.Lean) {
					*failed = append(*failed, t.Lean)
				}
				out += fmt.Sprintf("/-- `%s`: NOT TRANSLATED (%s) -/\ndef %s : Untranslatable :=\n  ⟨%q⟩\n\n", t.Func, oneLine(msg), t.Lean, oneLine(msg))
			}
		}
	}()
	for i := range u.Targets {
		t := &u.Targets[i]
		text, reason := translateQ(u, t)
		if reason != "" {
			*failed = append(*failed, t.Lean)
			fmt.Fprintf(os.Stderr, "gotrans: %s not translated: %s\n", t.Func, reason)
		}
		*all = append(*all, t.Lean)
		qDefs = append(qDefs, text)
	}
	var b strings.Builder
	x := &qtrans{u: u}
	tv := func(vars []string) string {
		if len(vars) == 0 {
			return ""
		}
		return " (" + strings.Join(vars, " ") + " : Type)"
	}
	emitSum := func(s *qSum) {
		var vars []string
		for _, v := range u.TypeVars {
			if containsTok(u.sumLean(s), v) {
				vars = append(vars, v)
			}
		}
		fmt.Fprintf(&b, "/-- the implementations of the Go interfaces that the translated code can meet (closed world) -/\ninductive %s%s where\n", s.Lean, tv(vars))
		for _, va := range s.Variants {
			fmt.Fprintf(&b, "  | %s (s : %s)\n", va.Ctor, u.structLean(va.Struct))
		}
		b.WriteString("\n")
	}
	for _, name := range u.Structs {
		names, gts := u.structFields(name)
		fmt.Fprintf(&b, "/-- `%s`: the fields the translated functions use, from the Go declaration (fields of dropped types are left out) -/\nstructure %s%s where\n", name, name, tv(u.structVars(name)))
		var zs []string
		zeroOK := true
		for i := range names {
			ti := x.ti(gts[i])
			fmt.Fprintf(&b, "  /-- `%s %s` -/\n  %s : %s\n", names[i], gts[i], names[i], ti.Lean)
			if ti.Zero == "" {
				zeroOK = false
			}
			zs = append(zs, names[i]+" := "+ti.Zero)
		}
		b.WriteString("\n")
		if ti, ok := u.Types[name]; ok && ti.Kind == "struct" && zeroOK {
			fmt.Fprintf(&b, "/-- the zero value of `%s` -/\ndef %s.zero : %s := { %s }\ninstance : Inhabited %s := ⟨%s.zero⟩\n\n", name, name, u.structLean(name), strings.Join(zs, ", "), u.structLean(name), name)
		}
		if u.SumAfter == name {
			for i := range u.Sums {
				emitSum(&u.Sums[i])
			}
		}
	}
	fmt.Fprintf(&b, "/-- what the translated functions call and gotrans does not translate: methods of open interfaces, package functions, the package variables of settings.go -/\nstructure Env%s where\n", tv(u.TypeVars))
	fns := append([]qEnvFn{}, qEnvFns...)
	sort.Slice(fns, func(i, j int) bool { return fns[i].name < fns[j].name })
	for _, f := range fns {
		fmt.Fprintf(&b, "  /-- %s -/\n  %s : %s\n", f.doc, f.name, f.typ)
	}
	if len(fns) == 0 {
		b.WriteString("  unit : Unit := ()\n")
	}
	b.WriteString("\nsection\nvariable {" + strings.Join(u.TypeVars, " ") + " : Type}\n\n")
	return b.String() + strings.Join(qDefs, "\n") + "\nend\n\n"
}
