package main

// expressions and calls of the slab engine (see slab.go)

import (
	"fmt"
	"go/ast"
	"go/token"
	"regexp"
	"strings"
)

// ---------------------------------------------------------------------------------------------
// statement prefix: `let` lines and abort guards, in evaluation order

type qitem struct {
	let       string // a complete `let .. := ..\n` line, or
	opt, bind string // match opt with | some bind => .. | _ => abort
}

func (x *qtrans) emit(text string) { x.pre = append(x.pre, qitem{let: text}) }

func (x *qtrans) guard(opt, bind string) { x.pre = append(x.pre, qitem{opt: opt, bind: bind}) }

// withPre wraps text in the pending prefix items (from index `from` on) and clears them
func (x *qtrans) withPre(from int, pnc func() string, text string) string {
	items := x.pre[from:]
	x.pre = x.pre[:from]
	for i := len(items) - 1; i >= 0; i-- {
		it := items[i]
		if it.opt == "" {
			text = it.let + text
			continue
		}
		text = "match " + it.opt + " with\n| some " + it.bind + " =>\n  " + indent(text, 2) + "\n| _ => " + pnc()
	}
	return text
}

var qNumRe = regexp.MustCompile(`^[0-9]+$`)

// ---------------------------------------------------------------------------------------------
// coercion

func (x *qtrans) coerce(v qv, want string) qv {
	if want == "" {
		return v
	}
	wi := x.ti(want)
	switch v.typ {
	case "nil":
		switch wi.Kind {
		case "opt", "sum":
			return qv{"none", want}
		case "list":
			return qv{"[]", want}
		}
		fail("nil used as %s", want)
	case "untyped":
		switch wi.Kind {
		case "uint":
			if qNumRe.MatchString(v.lean) {
				return qv{"(" + v.lean + " : " + wi.Lean + ")", want}
			}
			return qv{"(" + wi.Lean + ".ofNat " + paren(v.lean) + ")", want}
		case "int":
			if qNumRe.MatchString(v.lean) {
				return qv{"(" + v.lean + " : Int)", want}
			}
			return qv{"(Int.ofNat " + paren(v.lean) + ")", want}
		}
		fail("constant %s used as %s", v.lean, want)
	}
	if v.typ == want {
		return v
	}
	if strings.HasPrefix(v.typ, "tuple:") {
		fail("multi-value %s used as %s", v.lean, want)
	}
	vi := x.ti(v.typ)
	if vi.Kind == "obj" && wi.Kind == "sum" && vi.Sum == wi.Sum && vi.Sum != "" {
		return qv{"(some (." + vi.Ctor + " " + paren(v.lean) + "))", want}
	}
	if vi.Lean == wi.Lean && vi.Kind == wi.Kind && vi.Kind != "nat" {
		return qv{v.lean, want}
	}
	fail("type mismatch: %s has type %s, want %s", v.lean, v.typ, want)
	return v
}

// ---------------------------------------------------------------------------------------------
// expressions

func (x *qtrans) useVar(v *qvar) {
	if v.consumed != "" {
		fail("%s is used after %s", v.goName, v.consumed)
	}
}

// exprView: an expression translated as a whole by a pattern of the table
func (x *qtrans) exprView(e ast.Expr, en qenv) (qv, bool) {
	for _, ev := range x.u.ExprViews {
		b := map[string]ast.Expr{}
		if match(mustExpr(ev.Pat), e, b) {
			out := ev.Lean
			for _, mk := range qSortedKeys(ev.Metas) {
				mv := x.coerce(x.expr(b[mk], en, ev.Metas[mk]), ev.Metas[mk])
				out = strings.ReplaceAll(out, "{"+mk+"}", paren(mv.lean))
			}
			return qv{out, ev.Type}, true
		}
	}
	return qv{}, false
}

func (x *qtrans) expr(e ast.Expr, en qenv, want string) qv {
	if v, ok := x.exprView(e, en); ok {
		return v
	}
	switch e := e.(type) {
	case *ast.ParenExpr:
		return x.expr(e.X, en, want)
	case *ast.BasicLit:
		if e.Kind == token.INT {
			return qv{e.Value, "untyped"}
		}
		if e.Kind == token.STRING {
			return qv{"", "string"}
		}
		fail("unsupported literal %s", e.Value)
	case *ast.Ident:
		switch e.Name {
		case "true", "false":
			return qv{e.Name, "bool"}
		case "nil":
			return qv{"none", "nil"}
		}
		if v := en.lookup(e.Name); v != nil {
			x.useVar(v)
			return qv{v.lean, v.typ}
		}
		if pv, ok := x.u.PkgVars[e.Name]; ok {
			if varInits[e.Name] != pv.Init {
				fail("package variable %s is initialised with `%s`, the view expects `%s`", e.Name, varInits[e.Name], pv.Init)
			}
			return qv{pv.Lean, pv.Type}
		}
		if t, ok := x.u.EnvVars[e.Name]; ok {
			if _, isConst := constType[e.Name]; isConst || funcs[e.Name] != nil {
				fail("%s is expected to be a package variable", e.Name)
			}
			x.envFn(e.Name, "", nil, []string{t}, nil, fmt.Sprintf("package variable `%s` (settings.go, written by setThreshold)", e.Name))
			return qv{"env." + e.Name, t}
		}
		if t, ok := constType[e.Name]; ok {
			if t == "" {
				return qv{"Gen." + e.Name, "untyped"}
			}
			ti := x.ti(t)
			if ti.Kind != "uint" && ti.Kind != "int" {
				fail("constant %s has unsupported type %s", e.Name, t)
			}
			return x.coerce(qv{"Gen." + e.Name, "untyped"}, t)
		}
		fail("identifier %s is not bound", e.Name)
	case *ast.UnaryExpr:
		switch e.Op {
		case token.NOT:
			v := x.coerce(x.expr(e.X, en, "bool"), "bool")
			return qv{"(!" + paren(v.lean) + ")", "bool"}
		case token.AND:
			if cl, ok := e.X.(*ast.CompositeLit); ok {
				v := x.composite(cl, en)
				return qv{v.lean, "*" + v.typ}
			}
		}
		fail("unsupported unary operator %s", e.Op)
	case *ast.CompositeLit:
		return x.composite(e, en)
	case *ast.SelectorExpr:
		if id, ok := e.X.(*ast.Ident); ok && en.lookup(id.Name) == nil {
			fail("unsupported selector %s", norm(src(e)))
		}
		b := x.expr(e.X, en, "")
		return x.fieldOf(b, e.Sel.Name)
	case *ast.IndexExpr:
		l := x.expr(e.X, en, "")
		li := x.ti(l.typ)
		if li.Kind != "list" {
			fail("index expression on %s", l.typ)
		}
		ix := x.intIndex(e.Index, en)
		t := x.tmp("e")
		x.guard("goIdx "+paren(l.lean)+" "+paren(ix), t)
		return qv{t, li.Elem}
	case *ast.SliceExpr:
		return x.sliceExpr(e, en)
	case *ast.BinaryExpr:
		return x.binary(e, en)
	case *ast.CallExpr:
		v, eff := x.call(e, en)
		if eff != nil {
			fail("call %s mutates its receiver / arguments and is not the whole right-hand side of a statement", norm(src(e)))
		}
		return v
	case *ast.TypeAssertExpr:
		fail("type assertion %s is supported as the whole right-hand side of `y := x.(T)` only", norm(src(e)))
	}
	fail("unsupported expression %s (%T)", norm(src(e)), e)
	return qv{}
}

// fieldOf: `b.f` on a record value or through a field view
func (x *qtrans) fieldOf(b qv, f string) qv {
	if b.typ == "nil" || b.typ == "untyped" || strings.HasPrefix(b.typ, "tuple:") {
		fail("field %s of %s", f, b.typ)
	}
	if fv, ok := x.u.Fields[b.typ+"."+f]; ok {
		return qv{paren(b.lean) + "." + fv.Lean, fv.Type}
	}
	bi := x.ti(b.typ)
	if bi.Kind == "obj" || bi.Kind == "struct" {
		ft, ok := x.u.fieldType(bi.Struct, f)
		if !ok {
			fail("%s has no field %s", bi.Struct, f)
		}
		if x.ti(ft).Kind == "drop" {
			fail("field %s.%s has a dropped type", bi.Struct, f)
		}
		return qv{paren(b.lean) + "." + f, ft}
	}
	fail("no view for field %s of %s", f, b.typ)
	return qv{}
}

// sliceExpr: `s[lo:hi]` as a VALUE (the caller decides whether a shared backing array could matter)
func (x *qtrans) sliceExpr(e *ast.SliceExpr, en qenv) qv {
	if e.Max != nil {
		fail("3-index slice")
	}
	s := x.expr(e.X, en, "")
	if x.ti(s.typ).Kind != "list" {
		fail("slice expression on %s", s.typ)
	}
	lo := "(0 : Int)"
	if e.Low != nil {
		lo = x.intIndex(e.Low, en)
	}
	hi := "(Int.ofNat " + paren(s.lean) + ".length)"
	if e.High != nil {
		hi = x.intIndex(e.High, en)
	}
	t := x.tmp("s")
	x.guard("goSlice "+paren(s.lean)+" "+paren(lo)+" "+paren(hi), t)
	return qv{t, s.typ}
}

func (x *qtrans) composite(e *ast.CompositeLit, en qenv) qv {
	t := goTypeOf(e.Type)
	if strings.HasPrefix(t, "[]") {
		ti := x.ti(t)
		var parts []string
		for _, el := range e.Elts {
			if _, ok := el.(*ast.KeyValueExpr); ok {
				fail("keyed slice literal")
			}
			parts = append(parts, x.coerce(x.expr(el, en, ti.Elem), ti.Elem).lean)
		}
		return qv{"[" + strings.Join(parts, ", ") + "]", t}
	}
	if len(e.Elts) == 0 {
		if ti, ok := x.u.Types[t]; ok && ti.Kind != "struct" {
			ti = x.ti(t)
			if ti.Zero == "" {
				fail("no zero value for %s", t)
			}
			return qv{ti.Zero, t}
		}
	}
	// a record: struct value or (behind &) object
	var ti qTypeInfo
	if i, ok := x.u.Types[t]; ok && i.Kind == "struct" {
		ti = x.ti(t)
	} else if i, ok := x.u.Types["*"+t]; ok && i.Kind == "obj" {
		ti = x.ti("*" + t)
	} else {
		fail("unsupported composite literal %s", norm(src(e)))
	}
	names, gts := x.u.structFields(ti.Struct)
	given := map[string]string{}
	for _, el := range e.Elts {
		kv, ok := el.(*ast.KeyValueExpr)
		if !ok {
			fail("positional composite literal %s", norm(src(e)))
		}
		k := idName(kv.Key)
		ft, ok := x.u.fieldType(ti.Struct, k)
		if !ok {
			fail("%s has no field %s", ti.Struct, k)
		}
		if x.ti(ft).Kind == "drop" {
			x.dropArg(kv.Value, en)
			continue
		}
		v := x.coerce(x.expr(kv.Value, en, ft), ft)
		// a slice or object stored in the new record is MOVED there
		if id, ok := kv.Value.(*ast.Ident); ok {
			if k := x.ti(ft).Kind; k == "list" || isRefKind(k) {
				if w := en.lookup(id.Name); w != nil {
					x.consume = append(x.consume, w.lean)
				}
			}
		}
		given[k] = v.lean
	}
	var parts []string
	for i, n := range names {
		val, ok := given[n]
		if !ok {
			val = x.ti(gts[i]).Zero
			if val == "" {
				fail("no zero value for field %s %s", n, gts[i])
			}
		}
		parts = append(parts, n+" := "+val)
	}
	return qv{"({ " + strings.Join(parts, ", ") + " } : " + ti.Lean + ")", t}
}

func (x *qtrans) binary(e *ast.BinaryExpr, en qenv) qv {
	switch e.Op {
	case token.LAND, token.LOR:
		a := x.coerce(x.expr(e.X, en, "bool"), "bool")
		p0 := len(x.pre)
		b := x.coerce(x.expr(e.Y, en, "bool"), "bool")
		if len(x.pre) != p0 {
			// the right operand can abort: it is evaluated only when the left one does not decide
			ropt := x.withPre(p0, func() string { return "none" }, "some "+paren(b.lean))
			t := x.tmp("b")
			if e.Op == token.LAND {
				x.guard("(if "+a.lean+" then\n    "+indent(ropt, 4)+"\n  else some false)", t)
			} else {
				x.guard("(if "+a.lean+" then some true else\n    "+indent(ropt, 4)+")", t)
			}
			return qv{t, "bool"}
		}
		op := map[token.Token]string{token.LAND: "&&", token.LOR: "||"}[e.Op]
		return qv{"(" + paren(a.lean) + " " + op + " " + paren(b.lean) + ")", "bool"}
	}
	a := x.expr(e.X, en, "")
	b := x.expr(e.Y, en, "")
	if (e.Op == token.EQL || e.Op == token.NEQ) && (a.typ == "nil" || b.typ == "nil") {
		v := a
		if a.typ == "nil" {
			v = b
		}
		if v.typ == "nil" {
			fail("nil == nil")
		}
		if k := x.ti(v.typ).Kind; k != "opt" && k != "sum" {
			fail("comparison of %s with nil", v.typ)
		}
		if e.Op == token.EQL {
			return qv{paren(v.lean) + ".isNone", "bool"}
		}
		return qv{paren(v.lean) + ".isSome", "bool"}
	}
	if e.Op == token.SHR || e.Op == token.SHL {
		n, ok := shiftCount(e.Y)
		if !ok || a.typ == "untyped" {
			fail("shift %s: the count must be a literal and the operand typed", norm(src(e)))
		}
		ai := x.ti(a.typ)
		if ai.Kind != "uint" || n >= ai.Width {
			fail("shift %s on %s", norm(src(e)), a.typ)
		}
		op := ">>>"
		if e.Op == token.SHL {
			op = "<<<"
		}
		return qv{fmt.Sprintf("(%s %s %d)", paren(a.lean), op, n), a.typ}
	}
	switch {
	case a.typ == "untyped" && b.typ != "untyped":
		a = x.coerce(a, b.typ)
	case b.typ == "untyped" && a.typ != "untyped":
		b = x.coerce(b, a.typ)
	case a.typ == "untyped":
		// exact arithmetic on untyped constants (Go evaluates them at compile time)
		switch e.Op {
		case token.ADD:
			return qv{"(" + paren(a.lean) + " + " + paren(b.lean) + ")", "untyped"}
		case token.MUL:
			return qv{"(" + paren(a.lean) + " * " + paren(b.lean) + ")", "untyped"}
		}
		fail("constant expression %s", norm(src(e)))
	}
	ai, bi := x.ti(a.typ), x.ti(b.typ)
	if ai.Lean != bi.Lean || ai.Kind != bi.Kind {
		fail("operands of %s have different types %s and %s", norm(src(e)), a.typ, b.typ)
	}
	cmp := map[token.Token]string{token.LSS: "<", token.LEQ: "≤", token.GTR: ">", token.GEQ: "≥", token.EQL: "=", token.NEQ: "≠"}
	if op, ok := cmp[e.Op]; ok {
		eq := e.Op == token.EQL || e.Op == token.NEQ
		switch ai.Kind {
		case "uint", "int", "nat":
		case "eq", "bool":
			if !eq {
				fail("ordering on %s", a.typ)
			}
		default:
			fail("comparison on %s", a.typ)
		}
		return qv{"(decide (" + paren(a.lean) + " " + op + " " + paren(b.lean) + "))", "bool"}
	}
	if ai.Kind != "uint" && ai.Kind != "int" {
		fail("arithmetic on %s", a.typ)
	}
	switch e.Op {
	case token.ADD, token.SUB, token.MUL:
		op := map[token.Token]string{token.ADD: "+", token.SUB: "-", token.MUL: "*"}[e.Op]
		return qv{"(" + paren(a.lean) + " " + op + " " + paren(b.lean) + ")", a.typ}
	case token.QUO:
		if ai.Kind == "int" {
			return qv{"(Int.tdiv " + paren(a.lean) + " " + paren(b.lean) + ")", a.typ} // Go truncates toward zero
		}
	}
	fail("unsupported operator %s on %s", e.Op, a.typ)
	return qv{}
}

// ---------------------------------------------------------------------------------------------
// calls

type qout struct {
	lv   qlval
	wrap string // template {X}: the out-state as a value of the lvalue's type
}

type qeffect struct {
	call    string
	results []string
	outs    []qout
	aborts  bool
}

type qcallee struct {
	head     string // Lean head of the call including `env`
	recvArg  string
	recvLv   *qlval
	recvMut  bool
	recvWrap string
	params   []qparam
	variadic bool // the last Go parameter is variadic `...any` and dropped
	res      []string
	aborts   bool
	what     string
}

// dropArg: an argument of a dropped type must be free of effects
func (x *qtrans) dropArg(a ast.Expr, en qenv) {
	covSkip("TransSl."+x.t.Lean, a, "dropped argument")
	switch a := a.(type) {
	case *ast.BasicLit, *ast.Ident:
		return
	case *ast.SelectorExpr:
		x.dropArg(a.X, en)
		return
	case *ast.CallExpr:
		if isSel(a.Fun, "fmt", "Sprintf") || isSel(a.Fun, "fmt", "Errorf") {
			for _, b := range a.Args {
				x.dropArg(b, en)
			}
			return
		}
		// a getter without arguments on a path (a.Address(), id.String())
		if s, ok := a.Fun.(*ast.SelectorExpr); ok && len(a.Args) == 0 {
			x.dropArg(s.X, en)
			return
		}
	}
	fail("argument %s of a dropped type is not a field, a literal, a getter or fmt.Sprintf of those", norm(src(a)))
}

func qParamsOf(ft *ast.FuncType) (ps []qparam, variadic bool) {
	if ft.Params == nil {
		return
	}
	for _, f := range ft.Params.List {
		t := goTypeOf(f.Type)
		if _, ok := f.Type.(*ast.Ellipsis); ok {
			variadic = true
		}
		if len(f.Names) == 0 {
			ps = append(ps, qparam{name: "", typ: t, kept: true})
		}
		for _, n := range f.Names {
			ps = append(ps, qparam{name: n.Name, typ: t, kept: true})
		}
	}
	return
}

func (x *qtrans) invoke(c qcallee, args []ast.Expr, en qenv) (qv, *qeffect) {
	ps := c.params
	if c.variadic {
		if len(ps) == 0 || ps[len(ps)-1].typ != "...any" {
			fail("%s: variadic parameter of a type other than ...any", c.what)
		}
		ps = ps[:len(ps)-1]
		if len(args) < len(ps) {
			fail("%s: too few arguments", c.what)
		}
		for _, a := range args[len(ps):] {
			x.dropArg(a, en)
		}
		args = args[:len(ps)]
	}
	if len(args) != len(ps) {
		fail("%s: %d arguments for %d parameters", c.what, len(args), len(ps))
	}
	text := c.head
	if c.recvArg != "" {
		text += " " + paren(c.recvArg)
	}
	var outs []qout
	if c.recvMut {
		if c.recvLv == nil {
			fail("%s mutates its receiver, which is not a variable or a field path", c.what)
		}
		outs = append(outs, qout{*c.recvLv, c.recvWrap})
	}
	for i, a := range args {
		p := ps[i]
		ti := x.ti(p.typ)
		if ti.Kind == "drop" || !p.kept {
			x.dropArg(a, en)
			continue
		}
		v := x.coerce(x.expr(a, en, p.typ), p.typ)
		text += " " + paren(v.lean)
		if p.mut {
			lv, ok := x.chainLv(a, en)
			if !ok || lv.index != "" {
				fail("%s mutates its argument %s, which is not a variable or a field path", c.what, norm(src(a)))
			}
			if x.ti(lv.typ).Lean != ti.Lean {
				fail("%s mutates its argument %s of type %s through a parameter of type %s", c.what, norm(src(a)), lv.typ, p.typ)
			}
			outs = append(outs, qout{lv, "{X}"})
		}
		if p.consumed {
			found := false
			for _, t := range x.lhsText {
				found = found || t == norm(src(a))
			}
			if !found {
				fail("%s reuses the backing array of its argument %s, which this statement does not overwrite", c.what, norm(src(a)))
			}
		}
	}
	for i := range outs {
		for j := i + 1; j < len(outs); j++ {
			if pathConflict(outs[i].lv.pathKey(), outs[j].lv.pathKey()) {
				fail("%s: the same object is passed twice in mutated positions", c.what)
			}
		}
	}
	call := "(" + text + ")"
	if len(outs) == 0 {
		if c.aborts {
			r := x.tmp("r")
			x.guard(call, r)
			return qv{r, tupleTyp(c.res)}, nil
		}
		return qv{call, tupleTyp(c.res)}, nil
	}
	return qv{"", tupleTyp(c.res)}, &qeffect{call: call, results: c.res, outs: outs, aborts: c.aborts}
}

// envParams marks the state-typed parameters of a parameter function as mutated and returns the state types
func (x *qtrans) envParams(ps []qparam) ([]qparam, []string, []string) {
	var states, ptypes []string
	out := make([]qparam, len(ps))
	copy(out, ps)
	for i := range out {
		if out[i].typ == "...any" {
			continue
		}
		ptypes = append(ptypes, out[i].typ)
		ti := x.ti(out[i].typ)
		if ti.Kind == "state" {
			out[i].mut = true
			states = append(states, ti.Lean)
		}
	}
	return out, ptypes, states
}

func (x *qtrans) calleeOfShape(sh qshape, what string) qcallee {
	head := sh.lean + " env"
	if sh.fuel {
		head += " " + x.depthArg(what)
	}
	if sh.recKey != "" {
		// a dispatcher that reaches a recursive implementation through its parameter `rec_`
		if x.t.Rec && x.t.Func == sh.recKey {
			head += " rec_"
		} else {
			impl, ok := qShapes[sh.recKey]
			if !ok || !impl.ok {
				fail("%s: %s is not a translated target listed before this one", what, sh.recKey)
			}
			head += " (" + impl.lean + " env " + x.depthArg(what) + ")"
		}
	}
	return qcallee{head: head, recvMut: sh.recvMut, recvWrap: "{X}", params: sh.params, res: sh.res, aborts: sh.aborts, what: what}
}

// depthArg: the depth argument handed to a recursive callee (only targets that have one can call such a function)
func (x *qtrans) depthArg(what string) string {
	if !x.t.Rec && !x.t.Fuel {
		fail("call of %s, which recurses over the slab tree: the target must be marked Fuel", what)
	}
	return "depth_"
}

func (x *qtrans) call(e *ast.CallExpr, en qenv) (qv, *qeffect) {
	if v, ok := x.exprView(e, en); ok {
		return v, nil
	}
	if id, ok := e.Fun.(*ast.Ident); ok {
		if v := en.lookup(id.Name); v != nil {
			// a callback
			x.useVar(v)
			vi := x.ti(v.typ)
			ts := typeSpecs[v.typ]
			if vi.Kind != "state" || !vi.Call || ts == nil {
				fail("call of the variable %s of type %s", id.Name, v.typ)
			}
			ft, ok := ts.Type.(*ast.FuncType)
			if !ok {
				fail("%s is not a function type", v.typ)
			}
			ps, variadic := qParamsOf(ft)
			if variadic {
				fail("variadic callback")
			}
			rts := fieldTypes(ft.Results)
			ps, pts, states := x.envParams(ps)
			name := vi.Prefix + "_call"
			x.envFn(name, vi.Lean, pts, rts, append([]string{vi.Lean}, states...), fmt.Sprintf("a call of a callback of type `%s`: results and the new state of the world behind it", v.typ))
			lv := qlval{root: v, typ: v.typ}
			return x.invoke(qcallee{head: "env." + name, recvArg: v.lean, recvLv: &lv, recvMut: true, recvWrap: "{X}", params: ps, res: rts, what: name}, e.Args, en)
		}
		if v, ok := x.builtin(id.Name, e, en); ok {
			return v, nil
		}
		if sh, ok := qShapes[id.Name]; ok {
			if !sh.ok {
				fail("call of %s, which could not be translated", id.Name)
			}
			c := x.calleeOfShape(sh, id.Name)
			if sh.generic {
				c = x.instantiate(c, sh, e.Args, en)
			}
			return x.invoke(c, e.Args, en)
		}
		if fd := funcs[id.Name]; fd != nil && fd.Recv == nil {
			if fd.Type.TypeParams != nil {
				fail("call of the generic function %s, which is not a translated target listed before this one", id.Name)
			}
			ps, variadic := qParamsOf(fd.Type)
			rts := fieldTypes(fd.Type.Results)
			ps, pts, states := x.envParams(ps)
			x.envFn(id.Name, "", pts, rts, states, fmt.Sprintf("`%s` (%s), a parameter", id.Name, funcFile[id.Name]))
			return x.invoke(qcallee{head: "env." + id.Name, params: ps, variadic: variadic, res: rts, what: id.Name}, e.Args, en)
		}
		fail("unsupported call %s", norm(src(e)))
	}
	sel, ok := e.Fun.(*ast.SelectorExpr)
	if !ok {
		fail("unsupported call %s", norm(src(e)))
	}
	if id, ok := sel.X.(*ast.Ident); ok && en.lookup(id.Name) == nil {
		if v, ok := x.libCall(id.Name, sel.Sel.Name, e, en); ok {
			return v, nil
		}
		fail("unsupported call %s", norm(src(e)))
	}
	// a method: the receiver is a path (can be mutated) or any value (cannot)
	var recvLv *qlval
	var b qv
	if lv, ok := x.chainLv(sel.X, en); ok && lv.index == "" {
		x.useVar(lv.root)
		recvLv = &lv
		b = qv{lv.leanNoIndex(), lv.typ}
	} else {
		b = x.expr(sel.X, en, "")
	}
	if b.typ == "nil" || b.typ == "untyped" || strings.HasPrefix(b.typ, "tuple:") {
		fail("method call on %s", b.typ)
	}
	m := sel.Sel.Name
	if mv, ok := x.u.Methods[b.typ+"."+m]; ok && len(e.Args) == 0 {
		if strings.Contains(mv.Lean, "{X}") {
			return qv{"(" + strings.ReplaceAll(mv.Lean, "{X}", paren(b.lean)) + ")", mv.Type}, nil
		}
		return qv{paren(b.lean) + "." + mv.Lean, mv.Type}, nil
	}
	bi := x.ti(b.typ)
	switch bi.Kind {
	case "obj":
		key := bi.Struct + "." + m
		if em, isEnv := x.u.EnvMethods[key]; isEnv {
			fd := funcs[key]
			if fd == nil {
				fail("method %s not found in the package", key)
			}
			ps, variadic := qParamsOf(fd.Type)
			if variadic {
				fail("variadic method %s", key)
			}
			rts := fieldTypes(fd.Type.Results)
			ps, pts, states := x.envParams(ps)
			name := bi.Struct + "_" + m
			doc := fmt.Sprintf("`%s` (%s), a parameter: not translated by this engine; the receiver is read", key, funcFile[key])
			if em.RecvMut {
				states = append([]string{bi.Lean}, states...)
				doc = fmt.Sprintf("`%s` (%s), a parameter: not translated by this engine; results and the new value of the receiver", key, funcFile[key])
			}
			x.envFn(name, bi.Lean, pts, rts, states, doc)
			return x.invoke(qcallee{head: "env." + name, recvArg: b.lean, recvLv: recvLv, recvMut: em.RecvMut, recvWrap: "{X}", params: ps, res: rts, what: name}, e.Args, en)
		}
		sh, ok := qShapes[key]
		if !ok || !sh.ok {
			fail("call of %s, which is not a translated target listed before this one", key)
		}
		c := x.calleeOfShape(sh, key)
		c.recvArg, c.recvLv = b.lean, recvLv
		return x.invoke(c, e.Args, en)
	case "sum":
		sh := x.dispatcher(x.u.sumByName(bi.Sum), m)
		p := x.tmp("p")
		x.guard(b.lean, p)
		c := x.calleeOfShape(sh, bi.Sum+"."+m)
		c.recvArg, c.recvLv, c.recvWrap = p, recvLv, "(some {X})"
		return x.invoke(c, e.Args, en)
	case "opt", "state":
		mt := ifaceMethod(b.typ, m)
		if mt == nil {
			fail("interface %s has no method %s", b.typ, m)
		}
		ps, variadic := qParamsOf(mt)
		if variadic {
			fail("variadic interface method %s.%s", b.typ, m)
		}
		rts := fieldTypes(mt.Results)
		ps, pts, states := x.envParams(ps)
		name := bi.Prefix + "_" + m
		if bi.Kind == "opt" {
			x.envFn(name, bi.Payload, pts, rts, states, fmt.Sprintf("`%s.%s` on a non-nil value", b.typ, m))
			p := x.tmp("p")
			x.guard(b.lean, p)
			return x.invoke(qcallee{head: "env." + name, recvArg: p, params: ps, res: rts, what: name}, e.Args, en)
		}
		x.envFn(name, bi.Lean, pts, rts, append([]string{bi.Lean}, states...), fmt.Sprintf("`%s.%s`: results and the new state of the implementation", b.typ, m))
		return x.invoke(qcallee{head: "env." + name, recvArg: b.lean, recvLv: recvLv, recvMut: true, recvWrap: "{X}", params: ps, res: rts, what: name}, e.Args, en)
	}
	fail("unsupported call %s", norm(src(e)))
	return qv{}, nil
}

// instantiate: the type parameters of a generic callee from the first slice argument (a variable or field path)
func (x *qtrans) instantiate(c qcallee, sh qshape, args []ast.Expr, en qenv) qcallee {
	elem := ""
	for i, p := range sh.params {
		if i < len(args) && sh.tparams[p.typ] != "" && strings.HasPrefix(sh.tparams[p.typ], "[]") {
			if lv, ok := x.chainLv(args[i], en); ok && x.ti(lv.typ).Kind == "list" {
				elem = x.ti(lv.typ).Elem
				break
			}
		}
	}
	if elem == "" {
		fail("%s: cannot see the element type of the generic call", c.what)
	}
	subst := func(t string) string {
		if g, ok := sh.tparams[t]; ok {
			if strings.HasPrefix(g, "[]") {
				return "[]" + elem
			}
			return elem
		}
		return t
	}
	ps := make([]qparam, len(c.params))
	copy(ps, c.params)
	for i := range ps {
		ps[i].typ = subst(ps[i].typ)
	}
	rs := make([]string, len(c.res))
	for i := range rs {
		rs[i] = subst(c.res[i])
	}
	c.params, c.res = ps, rs
	return c
}

// builtin functions and conversions
func (x *qtrans) builtin(name string, e *ast.CallExpr, en qenv) (qv, bool) {
	switch name {
	case "len":
		if len(e.Args) != 1 {
			fail("len with %d arguments", len(e.Args))
		}
		v := x.expr(e.Args[0], en, "")
		if x.ti(v.typ).Kind != "list" {
			fail("len of %s", v.typ)
		}
		return qv{"(Int.ofNat " + paren(v.lean) + ".length)", "int"}, true
	case "make":
		t := goTypeOf(e.Args[0])
		ti := x.ti(t)
		if ti.Kind != "list" || len(e.Args) < 2 {
			fail("unsupported make %s", norm(src(e)))
		}
		if len(e.Args) == 3 {
			x.pureInt(e.Args[2], en)
		}
		if isZero(e.Args[1]) {
			return qv{"[]", t}, true
		}
		n := x.pureInt(e.Args[1], en)
		z := x.ti(ti.Elem).Zero
		if z == "" {
			fail("no zero value for %s", ti.Elem)
		}
		return qv{"(List.replicate " + paren(n) + ".toNat " + paren(z) + ")", t}, true
	case "append":
		if len(e.Args) != 2 {
			fail("unsupported append form %s", norm(src(e)))
		}
		l := x.consumingOperand(e.Args[0], en, "append")
		li := x.ti(l.typ)
		if li.Kind != "list" {
			fail("append to %s", l.typ)
		}
		if e.Ellipsis.IsValid() {
			v := x.coerce(x.readSlice(e.Args[1], en), l.typ)
			return qv{"(" + paren(l.lean) + " ++ " + paren(v.lean) + ")", l.typ}, true
		}
		v := x.coerce(x.expr(e.Args[1], en, li.Elem), li.Elem)
		return qv{"(" + paren(l.lean) + " ++ [" + v.lean + "])", l.typ}, true
	}
	if ti, ok := x.u.Types[name]; ok && len(e.Args) == 1 && (ti.Kind == "uint" || ti.Kind == "int") {
		v := x.expr(e.Args[0], en, name)
		if v.typ == "untyped" {
			return x.coerce(v, name), true
		}
		fi := x.ti(v.typ)
		switch {
		case fi.Lean == ti.Lean && fi.Kind == ti.Kind:
			return qv{v.lean, name}, true
		case fi.Kind == "uint" && ti.Kind == "uint":
			return qv{"(" + paren(v.lean) + ".to" + ti.Lean + ")", name}, true
		case fi.Kind == "int" && ti.Kind == "uint":
			return qv{"(" + ti.Lean + ".ofInt " + paren(v.lean) + ")", name}, true
		case fi.Kind == "uint" && ti.Kind == "int":
			return qv{"(Int.ofNat " + paren(v.lean) + ".toNat)", name}, true
		}
		fail("unsupported conversion %s -> %s", v.typ, name)
	}
	return qv{}, false
}

// readSlice: a slice operand that is only read at once: a variable / field or `s[i:j]` of one
func (x *qtrans) readSlice(e ast.Expr, en qenv) qv {
	if se, ok := e.(*ast.SliceExpr); ok {
		return x.sliceExpr(se, en)
	}
	v := x.expr(e, en, "")
	if x.ti(v.typ).Kind != "list" {
		fail("%s is not a slice", norm(src(e)))
	}
	return v
}

// consumingOperand: the first operand of an in-place operation (append, slices.Insert, slices.Delete).  Its backing
// array is reused by the result, so it must be the assignment target itself or never be mentioned again.
func (x *qtrans) consumingOperand(e ast.Expr, en qenv, op string) qv {
	base := e
	if se, ok := e.(*ast.SliceExpr); ok {
		base = se.X
	}
	lv, ok := x.chainLv(base, en)
	if !ok || lv.index != "" {
		fail("%s: the operand %s is not a variable or a field path", op, norm(src(e)))
	}
	own := false
	for _, t := range x.lhsText {
		own = own || t == norm(src(base))
	}
	if !own {
		if len(lv.fields) != 0 {
			fail("%s reuses the backing array of %s, which this statement does not overwrite", op, norm(src(base)))
		}
		x.consume = append(x.consume, lv.root.lean)
		if lv.root.param {
			x.consumeP[lv.root.lean] = true
		}
	} else if lv.root.param && len(lv.fields) == 0 && x.ti(lv.root.typ).Kind == "list" {
		// `p = append(p, ..)` on a slice parameter: the caller's view of the array is no longer tracked
		x.consumeP[lv.root.lean] = true
	}
	return x.readSlice(e, en)
}

// library functions translated by their specification
func (x *qtrans) libCall(pkg, fn string, e *ast.CallExpr, en qenv) (qv, bool) {
	switch pkg + "." + fn {
	case "slices.Clone":
		if len(e.Args) != 1 {
			return qv{}, false
		}
		return x.readSlice(e.Args[0], en), true
	case "slices.Delete":
		if len(e.Args) != 3 {
			return qv{}, false
		}
		s := x.consumingOperand(e.Args[0], en, "slices.Delete")
		i, j := x.intIndex(e.Args[1], en), x.intIndex(e.Args[2], en)
		t := x.tmp("s")
		x.guard("goDelete "+paren(s.lean)+" "+paren(i)+" "+paren(j), t)
		return qv{t, s.typ}, true
	case "slices.Insert":
		if len(e.Args) != 3 {
			return qv{}, false
		}
		s := x.consumingOperand(e.Args[0], en, "slices.Insert")
		si := x.ti(s.typ)
		i := x.intIndex(e.Args[1], en)
		var vs string
		if e.Ellipsis.IsValid() {
			vs = x.coerce(x.readSlice(e.Args[2], en), s.typ).lean
		} else {
			vs = "[" + x.coerce(x.expr(e.Args[2], en, si.Elem), si.Elem).lean + "]"
		}
		t := x.tmp("s")
		x.guard("goInsert "+paren(s.lean)+" "+paren(i)+" "+paren(vs), t)
		return qv{t, s.typ}, true
	}
	return qv{}, false
}

func (x *qtrans) pureInt(a ast.Expr, en qenv) string {
	v := x.expr(a, en, "int")
	if v.typ == "untyped" {
		return x.coerce(v, "int").lean
	}
	if x.ti(v.typ).Kind != "int" {
		fail("%s is not an int", norm(src(a)))
	}
	return v.lean
}

// ---------------------------------------------------------------------------------------------
// dynamic dispatch

// shapeResult: Lean type of what a function of this shape returns; recvLean = type of the receiver out-state
func (x *qtrans) shapeResult(sh qshape, recvLean string) string {
	var parts []string
	for _, r := range sh.res {
		parts = append(parts, x.ti(r).Lean)
	}
	if sh.recvMut {
		parts = append(parts, recvLean)
	}
	for _, p := range sh.params {
		if p.mut {
			parts = append(parts, x.ti(p.typ).Lean)
		}
	}
	t := "Unit"
	switch len(parts) {
	case 0:
	case 1:
		t = parts[0]
	default:
		t = "(" + strings.Join(parts, " × ") + ")"
	}
	if sh.aborts {
		t = "Option " + paren(t)
	}
	return t
}

func shapeWidth(sh qshape) int {
	n := len(sh.res)
	if sh.recvMut {
		n++
	}
	for _, p := range sh.params {
		if p.mut {
			n++
		}
	}
	return n
}

// dispatcher: `<Sum>_<method>`: match on the variant, call the translated method of that record.  An implementation
// that recurses over the slab tree (a Rec target) is reached through the parameter `rec_` (that function at the
// caller's depth), so that the recursion stays structural in the caller.
func (x *qtrans) dispatcher(s *qSum, method string) qshape {
	name := strings.TrimSuffix(s.Lean, "V") + "_" + method
	key := "#" + name
	if sh, ok := qShapes[key]; ok {
		return sh
	}
	var shs []qshape
	for _, va := range s.Variants {
		sh, ok := qShapes[va.Struct+"."+method]
		if !ok || !sh.ok {
			fail("dynamic dispatch of %s: %s.%s is not a translated target listed before this one", method, va.Struct, method)
		}
		shs = append(shs, sh)
	}
	m := qshape{ok: true, lean: name, res: shs[0].res}
	m.params = make([]qparam, len(shs[0].params))
	copy(m.params, shs[0].params)
	recDecl := ""
	for vi, sh := range shs {
		if len(sh.params) != len(m.params) || strings.Join(sh.res, ";") != strings.Join(m.res, ";") {
			fail("dynamic dispatch of %s: the implementations have different signatures", method)
		}
		for i, p := range sh.params {
			if p.typ != m.params[i].typ {
				fail("dynamic dispatch of %s: the implementations have different signatures (parameter %d)", method, i)
			}
			if p.kept && !m.params[i].kept {
				// an implementation that ignores the parameter (`_ SlabStorage`) and one that uses it
				m.params[i].kept, m.params[i].name = true, p.name
			}
			m.params[i].mut = m.params[i].mut || p.mut
			if p.consumed {
				fail("dynamic dispatch of %s: consumed slice parameter", method)
			}
		}
		m.recvMut = m.recvMut || sh.recvMut
		m.aborts = m.aborts || sh.aborts
		if sh.fuel {
			if m.recKey != "" {
				fail("dynamic dispatch of %s: two recursive implementations", method)
			}
			m.recKey = s.Variants[vi].Struct + "." + method
			rt := x.u.structLean(s.Variants[vi].Struct)
			for _, p := range sh.params {
				if p.kept && x.ti(p.typ).Kind != "drop" {
					rt += " → " + paren(x.ti(p.typ).Lean)
				}
			}
			recDecl = " (rec_ : " + rt + " → " + x.shapeResult(sh, x.u.structLean(s.Variants[vi].Struct)) + ")"
		}
	}
	sumLean := x.u.sumLean(s)
	decl := ""
	for i := range m.params {
		p := &m.params[i]
		if !p.kept || x.ti(p.typ).Kind == "drop" {
			continue
		}
		if p.name == "" || p.name == "_" {
			p.name = fmt.Sprintf("arg%d", i)
		}
		decl += " (" + p.name + "_ : " + x.ti(p.typ).Lean + ")"
	}
	var b strings.Builder
	fmt.Fprintf(&b, "/-- dynamic dispatch of `%s` on the variants of `%s` -/\ndef %s (env : %s)%s (x_ : %s)%s :\n    %s :=\n  match x_ with\n",
		method, s.Lean, name, x.u.envType(), recDecl, sumLean, decl, x.shapeResult(m, sumLean))
	wm := shapeWidth(m)
	for vi, va := range s.Variants {
		sh := shs[vi]
		argv := ""
		for i, p := range sh.params {
			if p.kept && x.ti(p.typ).Kind != "drop" {
				argv += " " + m.params[i].name + "_"
			}
		}
		call := sh.lean + " env s_" + argv
		if sh.fuel {
			call = "rec_ s_" + argv
		}
		w := shapeWidth(sh)
		var parts []string
		k := 0
		for range sh.res {
			parts = append(parts, proj("r_", k, w))
			k++
		}
		if m.recvMut {
			if sh.recvMut {
				parts = append(parts, "."+va.Ctor+" "+paren(proj("r_", k, w)))
				k++
			} else {
				parts = append(parts, "."+va.Ctor+" s_")
			}
		}
		for i, p := range m.params {
			if !p.mut {
				continue
			}
			if sh.params[i].mut {
				parts = append(parts, proj("r_", k, w))
				k++
			} else {
				parts = append(parts, p.name+"_")
			}
		}
		tup := "()"
		if wm == 1 {
			tup = parts[0]
		} else if wm > 1 {
			tup = "(" + strings.Join(parts, ", ") + ")"
		}
		if w == 0 {
			// nothing to project
			tup = strings.ReplaceAll(tup, "r_", "()")
		}
		var body string
		switch {
		case sh.aborts:
			body = "match " + call + " with\n    | some r_ => some " + paren(tup) + "\n    | none => none"
		case m.aborts:
			body = "let r_ := " + call + "\n    some " + paren(tup)
		default:
			body = "let r_ := " + call + "\n    " + tup
		}
		fmt.Fprintf(&b, "  | .%s s_ =>\n    %s\n", va.Ctor, body)
	}
	qDefs = append(qDefs, b.String())
	qShapes[key] = m
	return m
}
