package main

// Second translation engine of gotrans: the SEQUENTIAL, STATEFUL part of the storage layer
// (`PersistentSlabStorage`, `BasicSlabStorage` in storage.go) -> lean/AtreeModel/Gen/TransStorage.lean,
// namespace Atree.Gen.TransSt.  The equivalence with the hand-written state machine (AtreeModel/Storage.lean,
// namespace Atree.St) is proved in lean/AtreeProofs/Props/TransStorage.lean.
//
// Like the integer engine (main.go) it uses go/ast only; the types of expressions come from the DECLARATIONS in
// the source (struct fields, interface method signatures, function signatures, `var x T`, `x := <typed expr>`).
//
// # What a translated method looks like
//
//	func (s *T) M(a A) (R1, R2)   ->   def T_M (env : T_Env ..) (s : T ..) (a : A') : (R1' × R2') × T ..
//
// The receiver is a RECORD generated from the Go struct declaration (fields of dropped types - codec modes, decoder
// callbacks - are left out) and is threaded through: every `s.f = e`, `s.f[k] = v`, `delete(s.f, k)`, `s.f++` and every
// call through an interface-typed field rebinds `s`, and every `return` returns the `s` of that moment.  So the
// state after a failing call is what Go leaves (Go mutates before it returns the error).  A method that never
// assigns its receiver returns only its results.  A method that can hit a run-time panic the translator knows
// about (method call on a nil interface value, `panic(..)`) returns `Option ..` with `none` = panic.
//
// # Types (per group, table `Types` in stateful_targets.go)
//
//	map[K]V          -> GoMap K' V' = association list (AtreeModel/Basic.lean `AList`) with Go semantics:
//	                    `m[k] = v` GoMap.set, `delete(m, k)` GoMap.delete, `v, ok := m[k]` GoMap.get2 (zero value of V
//	                    when absent), `v := m[k]` GoMap.get, `len(m)` GoMap.len, `make(map[K]V)` / nil GoMap.empty.
//	                    `len` and `range` are Go's only if the keys are distinct; `set` / `delete` keep them distinct
//	                    (proved: TransEq.St_wf_*).
//	interface values -> `Option payload` (nil = none) for the types listed as "opt" (Slab, error); a method call on
//	                    such a value is `match v with | none => panic | some p => env.T_m p ..`.
//	interface FIELDS -> listed as "iface" (baseStorage BaseStorage): an opaque state `B`; a call `s.f.M(a)` is
//	                    `env.I_M s.f a'` and returns `(results, new B)`; signature taken from the Go interface.
//	package functions-> not translated ones are parameters too: `env.F a'` (pure), signature from the Go declaration;
//	                    arguments of dropped types (string messages, cbor modes, decoder callbacks) are left out.
//	[8]byte arrays   -> Address / SlabIndex are the big-endian numbers they hold (Nat; only == != < on them),
//	                    SlabID is the model's `SlabID`; soundness of this view: AtreeProofs/Trans/Bytes.lean.
//	[]T              -> List T'; uintN -> UIntN (wrap-around), int -> Int, bool -> Bool.
//
// # Statements
//
//	`x := e`, `x, y := f()`, `x = e`, `x op= e`, `x++`, `var x T`, `if [init;] c {..} [else ..]`, `return ..`,
//	`for _, v := range slice`, `for k[, v] := range map`, `continue`, `break`, `delete`, `append`, `make`,
//	`sort.Slice(l, less)` (-> goSortSlice, by its specification, an explicit trusted step), statement views.
//	`if` copies its continuation into the branches that fall through (no join).  Loops are structural recursions
//	over the list (`<f>.loopN`), carrying the outer variables the body assigns; `return` inside -> `Loop.ret`.
//	A `range` over a MAP is translated in list order and is accepted only when the body is ORDER-INSENSITIVE by
//	shape: every statement is `if c { continue }`, `x++`, `x += e`, `if c { x++ | x += e }` (count / sum, wrap-around
//	addition commutes), `if c { return <constants> }` with one and the same constant tuple (exists), or - only when
//	the next statement sorts that slice - `if c { l = append(l, k) }` (filter; TransEq.sortIDs_perm_eq shows the sort
//	makes the order irrelevant).  Anything else (`break`, `=`, calls with effects) is untranslatable.
//
// Anything outside the subset makes the function "untranslatable": `def f : Untranslatable := ⟨reason⟩`, listed in
// `untranslatedFunctions`; its theorems stop compiling.

import (
	"fmt"
	"go/ast"
	"go/token"
	"sort"
	"strings"
)

// ---------------------------------------------------------------------------------------------
// tables

type sTypeInfo struct {
	Lean    string // Lean type
	Zero    string // Lean zero value ("" = none known)
	Kind    string // bool | uint | int | nat | eq | opt | opaque | drop | iface | map | list | recv
	Payload string // opt: Lean type of the non-nil payload
	Prefix  string // opt / iface: prefix of the env functions for its methods
	Width   int
	Key     string // map: Go key type;
	Elem    string // map / list: Go element type
}

type sView struct{ Lean, Type string }

type sPkgVar struct{ Lean, Type, Init string }

type sStmtView struct {
	Pat    string // expression statement pattern (metavariables X_..)
	Assign string // metavariable holding the assigned variable
	Value  string // template of the new value
	Metas  map[string]string
	Type   string // Go type of the assigned variable
}

type sTarget struct {
	Func string
	Lean string
	Doc  string
}

type sGroup struct {
	Recv      string // Go struct type of the receiver
	TypeVars  []string
	Types     map[string]sTypeInfo
	Fields    map[string]sView   // "SlabID.address" -> field view
	Methods   map[string]sView   // "SlabID.IndexAsUint64" -> value-method view (no arguments)
	PkgVars   map[string]sPkgVar // package variables with a checked initialiser
	FuncViews map[string]sView   // "NewSlabID" -> template with {0} {1}
	Slices    map[string]sView   // "Address" -> view of `x[:]` for an array type (template with {X})
	StmtViews []sStmtView
	Targets   []sTarget
}

// ---------------------------------------------------------------------------------------------
// declarations of the package

var (
	typeSpecs = map[string]*ast.TypeSpec{}
	varInits  = map[string]string{} // package variable -> source of its initialiser
)

func loadDecls() {
	for _, f := range parsedFiles {
		for _, d := range f.Decls {
			gd, ok := d.(*ast.GenDecl)
			if !ok {
				continue
			}
			for _, s := range gd.Specs {
				switch s := s.(type) {
				case *ast.TypeSpec:
					typeSpecs[s.Name.Name] = s
				case *ast.ValueSpec:
					if gd.Tok == token.VAR && len(s.Names) == len(s.Values) {
						for i, n := range s.Names {
							varInits[n.Name] = norm(src(s.Values[i]))
						}
					}
				}
			}
		}
	}
}

func goTypeOf(e ast.Expr) string { return norm(src(e)) }

// ifaceMethod looks a method up in an interface declaration (through embedded interfaces)
func ifaceMethod(iface, name string) *ast.FuncType {
	ts := typeSpecs[iface]
	if ts == nil {
		return nil
	}
	it, ok := ts.Type.(*ast.InterfaceType)
	if !ok {
		return nil
	}
	for _, m := range it.Methods.List {
		if len(m.Names) == 0 {
			if id, ok := m.Type.(*ast.Ident); ok {
				if ft := ifaceMethod(id.Name, name); ft != nil {
					return ft
				}
			}
			continue
		}
		for _, n := range m.Names {
			if n.Name == name {
				if ft, ok := m.Type.(*ast.FuncType); ok {
					return ft
				}
			}
		}
	}
	return nil
}

func fieldTypes(fl *ast.FieldList) []string {
	_, ts := fieldNames(fl)
	return ts
}

// ---------------------------------------------------------------------------------------------
// environments

type svar struct {
	goName, lean, typ string
	depth             int
	param             bool // a parameter of the function (its maps belong to the caller)
}

type senv struct {
	vars  []svar
	depth int
}

func (e senv) lookup(n string) *svar {
	for i := len(e.vars) - 1; i >= 0; i-- {
		if e.vars[i].goName == n {
			return &e.vars[i]
		}
	}
	return nil
}

func (e senv) push() senv { return senv{e.vars[:len(e.vars):len(e.vars)], e.depth + 1} }

// back to the scope of `outer` (block-local declarations are dropped; assignments to outer variables were
// emitted as `let` of the same Lean name and need no bookkeeping)
func (e senv) popTo(outer senv) senv {
	return senv{e.vars[:len(outer.vars):len(outer.vars)], outer.depth}
}

func (e senv) declare(goName, typ string) (senv, string) {
	if strings.HasSuffix(goName, "_") {
		fail("Go identifier %s ends with an underscore (reserved for generated names)", goName)
	}
	lean := goName
	if leanReserved[lean] || sReserved[lean] {
		lean += "_v"
	}
	base := lean
	for k := 1; ; k++ {
		clash := false
		for _, v := range e.vars {
			if v.lean == lean {
				clash = true
			}
		}
		if !clash {
			break
		}
		lean = fmt.Sprintf("%s_%d", base, k)
	}
	n := make([]svar, len(e.vars), len(e.vars)+1)
	copy(n, e.vars)
	return senv{append(n, svar{goName: goName, lean: lean, typ: typ, depth: e.depth}), e.depth}, lean
}

var sReserved = map[string]bool{"env": true, "σ": true, "β": true, "B": true, "ε": true, "Loop": true, "GoMap": true,
	"SlabID": true, "Nat": true, "Int": true, "Bool": true, "List": true, "Option": true}

// ---------------------------------------------------------------------------------------------
// translator state

type sval struct {
	lean string
	typ  string // Go type; "nil" (untyped nil), "untyped" (integer constant), or a table type
}

type sguard struct{ opt, bind string } // match opt with | none => panic | some bind => ..

type sfctx struct {
	ret  func(en senv, results []ast.Expr) string
	pnc  func() string
	brk  func(en senv) string // nil outside loops
	cont func(en senv) string
	loop bool
	// final: turns the function's final value (`return`) into what this context yields (`.ret ..` inside loops)
	final func(string) string
}

type sshape struct {
	mutating bool
	panics   bool
	res      []string // Go result types
	params   []string // Go parameter types
	lean     string
	ok       bool
}

type envFn struct{ name, typ, doc string }

type strans struct {
	g        *sGroup
	t        *sTarget
	fd       *ast.FuncDecl
	recv     string
	shape    sshape
	aux      []string
	nloop    int
	ntmp     int
	guards   []sguard
	needPnc  bool
	sortElem map[string]string // inside a sort.Slice closure: "S[i]" -> Lean variable
	noEffect bool              // inside a closure: no assignment to outer variables, no effects
	clDepth  int               // scope depth of the closure body
	appendTo string            // the variable being assigned by the current `l = append(l, e)`
}

// per group
var (
	sShapes = map[string]sshape{} // "Recv.Method" -> shape of the translated target
	sEnvFns []envFn
	sEnvIdx = map[string]int{}
)

func (x *strans) tmp(prefix string) string {
	x.ntmp++
	return fmt.Sprintf("%s%d_", prefix, x.ntmp)
}

// typeInfo resolves a Go type (source text) against the group's table
func (g *sGroup) typeInfo(t string) sTypeInfo {
	if ti, ok := g.Types[t]; ok {
		return ti
	}
	if t == "*"+g.Recv {
		return sTypeInfo{Lean: g.recvLean(), Kind: "recv"}
	}
	if strings.HasPrefix(t, "map[") {
		d, i := 0, 3
		for ; i < len(t); i++ {
			if t[i] == '[' {
				d++
			} else if t[i] == ']' {
				d--
				if d == 0 {
					break
				}
			}
		}
		k, v := t[4:i], t[i+1:]
		ki, vi := g.typeInfo(k), g.typeInfo(v)
		if ki.Kind != "eq" && ki.Kind != "nat" && ki.Kind != "uint" {
			fail("map key type %s has no decidable equality in the table", k)
		}
		return sTypeInfo{Lean: "GoMap " + paren(ki.Lean) + " " + paren(vi.Lean), Zero: "GoMap.empty", Kind: "map", Key: k, Elem: v}
	}
	if strings.HasPrefix(t, "[]") {
		ei := g.typeInfo(t[2:])
		return sTypeInfo{Lean: "List " + paren(ei.Lean), Zero: "[]", Kind: "list", Elem: t[2:]}
	}
	fail("Go type %s is not in the type table of group %s", t, g.Recv)
	return sTypeInfo{}
}

func (g *sGroup) known(t string) (ok bool) {
	defer func() {
		if r := recover(); r != nil {
			if _, is := r.(transErr); !is {
				panic(r)
			}
			ok = false
		}
	}()
	g.typeInfo(t)
	return true
}

func (g *sGroup) recvLean() string {
	return strings.TrimSpace(g.Recv + " " + strings.Join(g.recordVars(), " "))
}

// recordFields: the fields of the receiver struct that are kept, with their Lean types
func (g *sGroup) recordFields() (names, goTypes, leanTypes []string) {
	ts := typeSpecs[g.Recv]
	if ts == nil {
		fail("type %s not found", g.Recv)
	}
	stt, ok := ts.Type.(*ast.StructType)
	if !ok {
		fail("type %s is not a struct", g.Recv)
	}
	for _, f := range stt.Fields.List {
		t := goTypeOf(f.Type)
		if len(f.Names) == 0 {
			fail("embedded field %s in %s", t, g.Recv)
		}
		ti := g.typeInfo(t)
		if ti.Kind == "drop" {
			continue
		}
		for _, n := range f.Names {
			names = append(names, n.Name)
			goTypes = append(goTypes, t)
			leanTypes = append(leanTypes, ti.Lean)
		}
	}
	return
}

func (g *sGroup) recordVars() []string {
	_, _, lts := g.recordFields()
	var out []string
	for _, v := range g.TypeVars {
		for _, lt := range lts {
			if containsTok(lt, v) {
				out = append(out, v)
				break
			}
		}
	}
	return out
}

func containsTok(text, tok string) bool {
	for _, f := range strings.FieldsFunc(text, func(r rune) bool { return r == ' ' || r == '(' || r == ')' || r == '×' }) {
		if f == tok {
			return true
		}
	}
	return false
}

func (g *sGroup) fieldType(name string) (string, bool) {
	ns, gts, _ := g.recordFields()
	for i, n := range ns {
		if n == name {
			return gts[i], true
		}
	}
	// dropped field?
	ts := typeSpecs[g.Recv]
	for _, f := range ts.Type.(*ast.StructType).Fields.List {
		for _, n := range f.Names {
			if n.Name == name {
				return goTypeOf(f.Type), true
			}
		}
	}
	return "", false
}

// ---------------------------------------------------------------------------------------------
// env functions (parameters)

func (g *sGroup) tupleOf(goTypes []string) string {
	var parts []string
	for _, t := range goTypes {
		parts = append(parts, g.typeInfo(t).Lean)
	}
	switch len(parts) {
	case 0:
		return "Unit"
	case 1:
		return parts[0]
	}
	return "(" + strings.Join(parts, " × ") + ")"
}

// register an env function; kept params are those whose type is not dropped
func (g *sGroup) envFn(name string, first string, params, results []string, stateful string, doc string) {
	if _, ok := sEnvIdx[name]; ok {
		return
	}
	typ := ""
	if first != "" {
		typ = first + " → "
	}
	for _, p := range params {
		ti := g.typeInfo(p)
		if ti.Kind == "drop" {
			continue
		}
		typ += ti.Lean + " → "
	}
	res := g.tupleOf(results)
	if stateful != "" {
		if len(results) == 0 {
			res = stateful
		} else {
			res = res + " × " + stateful
		}
	}
	typ += res
	sEnvIdx[name] = len(sEnvFns)
	sEnvFns = append(sEnvFns, envFn{name, typ, doc})
}

// ---------------------------------------------------------------------------------------------
// expressions

func (x *strans) coerce(v sval, want string) sval {
	if want == "" {
		return v
	}
	wi := x.g.typeInfo(want)
	switch v.typ {
	case "nil":
		switch wi.Kind {
		case "opt":
			return sval{"none", want}
		case "map":
			return sval{"GoMap.empty", want}
		case "list":
			return sval{"[]", want}
		}
		fail("nil used as %s", want)
	case "untyped":
		switch wi.Kind {
		case "uint":
			return sval{"(" + v.lean + " : " + wi.Lean + ")", want}
		case "int":
			return sval{"(" + v.lean + " : Int)", want}
		}
		fail("constant %s used as %s", v.lean, want)
	}
	if v.typ == want {
		return v
	}
	vi := x.g.typeInfo(v.typ)
	if vi.Lean == wi.Lean && vi.Kind == wi.Kind && vi.Kind != "nat" {
		return sval{v.lean, want}
	}
	fail("type mismatch: %s has type %s, want %s", v.lean, v.typ, want)
	return v
}

// recvField: is e `recv.f`?
func (x *strans) recvField(e ast.Expr) (string, bool) {
	if s, ok := e.(*ast.SelectorExpr); ok && x.recv != "" && isIdent(s.X, x.recv) {
		return s.Sel.Name, true
	}
	return "", false
}

func (x *strans) expr(e ast.Expr, en senv, want string) sval {
	switch e := e.(type) {
	case *ast.ParenExpr:
		return x.expr(e.X, en, want)
	case *ast.BasicLit:
		if e.Kind == token.INT {
			return sval{e.Value, "untyped"}
		}
		if e.Kind == token.STRING {
			return sval{"", "string"}
		}
		fail("unsupported literal %s", e.Value)
	case *ast.Ident:
		switch e.Name {
		case "true", "false":
			return sval{e.Name, "bool"}
		case "nil":
			return sval{"none", "nil"}
		}
		if v := en.lookup(e.Name); v != nil {
			return sval{v.lean, v.typ}
		}
		if pv, ok := x.g.PkgVars[e.Name]; ok {
			if varInits[e.Name] != pv.Init {
				fail("package variable %s is initialised with `%s`, the view expects `%s`", e.Name, varInits[e.Name], pv.Init)
			}
			return sval{pv.Lean, pv.Type}
		}
		fail("identifier %s is not bound", e.Name)
	case *ast.CompositeLit:
		t := goTypeOf(e.Type)
		if len(e.Elts) == 0 {
			ti := x.g.typeInfo(t)
			if ti.Zero == "" {
				fail("no zero value for %s", t)
			}
			return sval{ti.Zero, t}
		}
		fail("unsupported composite literal %s", src(e))
	case *ast.SelectorExpr:
		if f, ok := x.recvField(e); ok {
			rv := en.lookup(x.recv)
			ft, ok := x.g.fieldType(f)
			if !ok {
				fail("%s has no field %s", x.g.Recv, f)
			}
			if x.g.typeInfo(ft).Kind == "drop" {
				return sval{"", ft}
			}
			return sval{rv.lean + "." + f, ft}
		}
		// field view on a value
		b := x.expr(e.X, en, "")
		if fv, ok := x.g.Fields[b.typ+"."+e.Sel.Name]; ok {
			return sval{paren(b.lean) + "." + fv.Lean, fv.Type}
		}
		fail("no view for field %s of %s", e.Sel.Name, b.typ)
	case *ast.IndexExpr:
		key := norm(src(e))
		if x.sortElem != nil {
			if l, ok := x.sortElem[key]; ok {
				return sval{l, x.sortElem["#type"]}
			}
		}
		m := x.expr(e.X, en, "")
		mi := x.g.typeInfo(m.typ)
		if mi.Kind != "map" {
			fail("index expression on %s (only maps)", m.typ)
		}
		k := x.coerce(x.expr(e.Index, en, mi.Key), mi.Key)
		z := x.g.typeInfo(mi.Elem).Zero
		if z == "" {
			fail("no zero value for %s", mi.Elem)
		}
		return sval{"(GoMap.get " + paren(m.lean) + " " + paren(k.lean) + " " + paren(z) + ")", mi.Elem}
	case *ast.SliceExpr:
		if e.Low == nil && e.High == nil && e.Max == nil {
			b := x.expr(e.X, en, "")
			if sv, ok := x.g.Slices[b.typ]; ok {
				return sval{"(" + strings.ReplaceAll(sv.Lean, "{X}", paren(b.lean)) + ")", sv.Type}
			}
		}
		fail("no view for the slice expression %s", norm(src(e)))
	case *ast.UnaryExpr:
		if e.Op == token.NOT {
			v := x.coerce(x.expr(e.X, en, "bool"), "bool")
			return sval{"(!" + paren(v.lean) + ")", "bool"}
		}
		fail("unsupported unary operator %s", e.Op)
	case *ast.BinaryExpr:
		return x.binary(e, en)
	case *ast.CallExpr:
		v, eff := x.call(e, en)
		if eff != nil {
			fail("call %s has effects on the receiver and is not the whole right-hand side of a statement", norm(src(e)))
		}
		return v
	}
	fail("unsupported expression %s (%T)", norm(src(e)), e)
	return sval{}
}

func (x *strans) binary(e *ast.BinaryExpr, en senv) sval {
	switch e.Op {
	case token.LAND, token.LOR:
		a := x.coerce(x.expr(e.X, en, "bool"), "bool")
		ng := len(x.guards)
		b := x.coerce(x.expr(e.Y, en, "bool"), "bool")
		if len(x.guards) != ng {
			fail("a call that can panic in the right operand of %s", e.Op)
		}
		op := map[token.Token]string{token.LAND: "&&", token.LOR: "||"}[e.Op]
		return sval{"(" + paren(a.lean) + " " + op + " " + paren(b.lean) + ")", "bool"}
	}
	a := x.expr(e.X, en, "")
	b := x.expr(e.Y, en, "")
	// nil comparisons
	if (e.Op == token.EQL || e.Op == token.NEQ) && (a.typ == "nil" || b.typ == "nil") {
		v := a
		if a.typ == "nil" {
			v = b
		}
		if v.typ == "nil" || x.g.typeInfo(v.typ).Kind != "opt" {
			fail("comparison of %s with nil", v.typ)
		}
		if e.Op == token.EQL {
			return sval{paren(v.lean) + ".isNone", "bool"}
		}
		return sval{paren(v.lean) + ".isSome", "bool"}
	}
	switch {
	case a.typ == "untyped" && b.typ != "untyped":
		a = x.coerce(a, b.typ)
	case b.typ == "untyped" && a.typ != "untyped":
		b = x.coerce(b, a.typ)
	case a.typ == "untyped":
		fail("constant expression %s", src(e))
	}
	ai, bi := x.g.typeInfo(a.typ), x.g.typeInfo(b.typ)
	if ai.Lean != bi.Lean || ai.Kind != bi.Kind {
		fail("operands of %s have different types %s and %s", norm(src(e)), a.typ, b.typ)
	}
	cmp := map[token.Token]string{token.LSS: "<", token.LEQ: "≤", token.GTR: ">", token.GEQ: "≥", token.EQL: "=", token.NEQ: "≠"}
	if op, ok := cmp[e.Op]; ok {
		eq := e.Op == token.EQL || e.Op == token.NEQ
		switch ai.Kind {
		case "uint", "int", "nat":
		case "eq", "bool":
			if !eq {
				fail("ordering on %s", a.typ)
			}
		default:
			fail("comparison on %s", a.typ)
		}
		return sval{"(decide (" + paren(a.lean) + " " + op + " " + paren(b.lean) + "))", "bool"}
	}
	if ai.Kind != "uint" && ai.Kind != "int" {
		fail("arithmetic on %s", a.typ)
	}
	ops := map[token.Token]string{token.ADD: "+", token.SUB: "-", token.MUL: "*"}
	op, ok := ops[e.Op]
	if !ok {
		fail("unsupported operator %s", e.Op)
	}
	return sval{"(" + paren(a.lean) + " " + op + " " + paren(b.lean) + ")", a.typ}
}

// seffect: what an effectful call does besides returning values
type seffect struct {
	call    string   // Lean text of the call; its value is (results.., new state) or just the new state
	results []string // Go result types
	field   string   // non-empty: the new state goes into this receiver field; empty: it IS the new receiver
	panics  bool     // callee returns Option
}

// args translates the arguments of a call against the declared parameter types; dropped ones are left out
func (x *strans) args(args []ast.Expr, ptypes []string, variadic bool, en senv, what string) string {
	if len(args) != len(ptypes) {
		fail("%s: %d arguments for %d parameters", what, len(args), len(ptypes))
	}
	out := ""
	for i, a := range args {
		ti := x.g.typeInfo(ptypes[i])
		if ti.Kind == "drop" {
			x.dropArg(a, en)
			continue
		}
		v := x.coerce(x.expr(a, en, ptypes[i]), ptypes[i])
		out += " " + paren(v.lean)
	}
	return out
}

// dropArg: an argument of a dropped type must be free of effects: a field, a literal, or fmt.Sprintf of such
func (x *strans) dropArg(a ast.Expr, en senv) {
	covSkip("TransSt."+x.t.Lean, a, "dropped argument")
	switch a := a.(type) {
	case *ast.BasicLit, *ast.Ident:
		return
	case *ast.SelectorExpr:
		if _, ok := x.recvField(a); ok {
			return
		}
	case *ast.CallExpr:
		if isSel(a.Fun, "fmt", "Sprintf") {
			for _, b := range a.Args {
				x.dropArg(b, en)
			}
			return
		}
	}
	fail("argument %s of a dropped type is not a field, a literal or fmt.Sprintf of those", norm(src(a)))
}

func paramTypes(ft *ast.FuncType) (ts []string, variadic bool) {
	if ft.Params == nil {
		return
	}
	for _, f := range ft.Params.List {
		t := goTypeOf(f.Type)
		if _, ok := f.Type.(*ast.Ellipsis); ok {
			variadic = true
		}
		n := len(f.Names)
		if n == 0 {
			n = 1
		}
		for i := 0; i < n; i++ {
			ts = append(ts, t)
		}
	}
	return
}

func (x *strans) call(e *ast.CallExpr, en senv) (sval, *seffect) {
	// builtins and conversions
	if id, ok := e.Fun.(*ast.Ident); ok && en.lookup(id.Name) == nil {
		switch id.Name {
		case "len":
			if len(e.Args) != 1 {
				fail("len with %d arguments", len(e.Args))
			}
			v := x.expr(e.Args[0], en, "")
			switch x.g.typeInfo(v.typ).Kind {
			case "map":
				return sval{"(GoMap.len " + paren(v.lean) + ")", "int"}, nil
			case "list":
				return sval{"(Int.ofNat " + paren(v.lean) + ".length)", "int"}, nil
			}
			fail("len of %s", v.typ)
		case "make":
			t := goTypeOf(e.Args[0])
			ti := x.g.typeInfo(t)
			switch ti.Kind {
			case "map":
				for _, a := range e.Args[1:] {
					x.pureInt(a, en)
				}
				return sval{"GoMap.empty", t}, nil
			case "list":
				if len(e.Args) < 2 {
					fail("make of a slice without length")
				}
				if len(e.Args) == 3 {
					x.pureInt(e.Args[2], en)
				}
				if isZero(e.Args[1]) {
					return sval{"[]", t}, nil
				}
				n := x.pureInt(e.Args[1], en)
				z := x.g.typeInfo(ti.Elem).Zero
				if z == "" {
					fail("no zero value for %s", ti.Elem)
				}
				return sval{"(List.replicate " + paren(n) + ".toNat " + paren(z) + ")", t}, nil
			}
			fail("make of %s", t)
		case "append":
			if len(e.Args) != 2 || e.Ellipsis.IsValid() {
				fail("unsupported append form %s", norm(src(e)))
			}
			if idName(e.Args[0]) == "" || idName(e.Args[0]) != x.appendTo {
				// `a := append(l, x); b := append(l, y)` share a backing array in Go; lists are values here
				fail("append is supported as `l = append(l, e)` only (%s)", norm(src(e)))
			}
			l := x.expr(e.Args[0], en, "")
			li := x.g.typeInfo(l.typ)
			if li.Kind != "list" {
				fail("append to %s", l.typ)
			}
			v := x.coerce(x.expr(e.Args[1], en, li.Elem), li.Elem)
			return sval{"(" + paren(l.lean) + " ++ [" + v.lean + "])", l.typ}, nil
		}
		if ti, ok := x.g.Types[id.Name]; ok && len(e.Args) == 1 && (ti.Kind == "uint" || ti.Kind == "int") {
			v := x.expr(e.Args[0], en, id.Name)
			if v.typ == "untyped" {
				return x.coerce(v, id.Name), nil
			}
			fi := x.g.typeInfo(v.typ)
			switch {
			case fi.Lean == ti.Lean && fi.Kind == ti.Kind:
				return sval{v.lean, id.Name}, nil
			case fi.Kind == "uint" && ti.Kind == "uint":
				return sval{"(" + paren(v.lean) + ".to" + ti.Lean + ")", id.Name}, nil
			case fi.Kind == "int" && ti.Kind == "uint":
				return sval{"(" + ti.Lean + ".ofInt " + paren(v.lean) + ")", id.Name}, nil
			case fi.Kind == "uint" && ti.Kind == "int":
				return sval{"(Int.ofNat " + paren(v.lean) + ".toNat)", id.Name}, nil
			}
			fail("unsupported conversion %s -> %s", v.typ, id.Name)
		}
		if fv, ok := x.g.FuncViews[id.Name]; ok {
			fd := funcs[id.Name]
			if fd == nil {
				fail("function %s not found", id.Name)
			}
			pts, _ := paramTypes(fd.Type)
			if len(pts) != len(e.Args) {
				fail("%s: wrong number of arguments", id.Name)
			}
			out := fv.Lean
			for i, a := range e.Args {
				v := x.coerce(x.expr(a, en, pts[i]), pts[i])
				out = strings.ReplaceAll(out, fmt.Sprintf("{%d}", i), paren(v.lean))
			}
			return sval{out, fv.Type}, nil
		}
		// a package-level function that is not translated: a parameter
		if fd := funcs[id.Name]; fd != nil && fd.Recv == nil {
			pts, variadic := paramTypes(fd.Type)
			if variadic {
				fail("variadic function %s", id.Name)
			}
			rts := fieldTypes(fd.Type.Results)
			as := x.args(e.Args, pts, variadic, en, id.Name)
			x.g.envFn(id.Name, "", pts, rts, "", fmt.Sprintf("`%s` (%s), a parameter", id.Name, funcFile[id.Name]))
			return sval{"(env." + id.Name + as + ")", tupleTyp(rts)}, nil
		}
		fail("unsupported call %s", norm(src(e)))
	}
	sel, ok := e.Fun.(*ast.SelectorExpr)
	if !ok {
		fail("unsupported call %s", norm(src(e)))
	}
	// method of the receiver itself
	if isIdent(sel.X, x.recv) && x.recv != "" {
		key := x.g.Recv + "." + sel.Sel.Name
		sh, ok := sShapes[key]
		if !ok || !sh.ok {
			fail("call of %s, which is not a translated target listed before this one", key)
		}
		rv := en.lookup(x.recv)
		as := x.args(e.Args, sh.params, false, en, key)
		call := "(" + sh.lean + " env " + rv.lean + as + ")"
		if !sh.mutating && !sh.panics {
			return sval{call, tupleTyp(sh.res)}, nil
		}
		return sval{"", tupleTyp(sh.res)}, &seffect{call: call, results: sh.res, field: "", panics: sh.panics}
	}
	// method of an interface-typed field of the receiver
	if f, ok := x.recvField(sel.X); ok {
		ft, _ := x.g.fieldType(f)
		fi := x.g.typeInfo(ft)
		if fi.Kind == "iface" {
			mt := ifaceMethod(ft, sel.Sel.Name)
			if mt == nil {
				fail("interface %s has no method %s", ft, sel.Sel.Name)
			}
			pts, _ := paramTypes(mt)
			rts := fieldTypes(mt.Results)
			name := fi.Prefix + "_" + sel.Sel.Name
			as := x.args(e.Args, pts, false, en, name)
			x.g.envFn(name, fi.Lean, pts, rts, fi.Lean, fmt.Sprintf("`%s.%s` of the `%s` field: results and the new state of the implementation", ft, sel.Sel.Name, f))
			rv := en.lookup(x.recv)
			return sval{"", tupleTyp(rts)}, &seffect{call: "(env." + name + " " + rv.lean + "." + f + as + ")", results: rts, field: f}
		}
	}
	// method views on values, methods of nilable interface values
	{
		b := x.expr(sel.X, en, "")
		if b.typ == "nil" || b.typ == "untyped" {
			fail("method call on a constant")
		}
		if mv, ok := x.g.Methods[b.typ+"."+sel.Sel.Name]; ok && len(e.Args) == 0 {
			if strings.Contains(mv.Lean, "{X}") {
				return sval{"(" + strings.ReplaceAll(mv.Lean, "{X}", paren(b.lean)) + ")", mv.Type}, nil
			}
			return sval{paren(b.lean) + "." + mv.Lean, mv.Type}, nil
		}
		bi := x.g.typeInfo(b.typ)
		if bi.Kind == "opt" {
			mt := ifaceMethod(b.typ, sel.Sel.Name)
			if mt == nil {
				fail("interface %s has no method %s", b.typ, sel.Sel.Name)
			}
			pts, _ := paramTypes(mt)
			rts := fieldTypes(mt.Results)
			name := bi.Prefix + "_" + sel.Sel.Name
			as := x.args(e.Args, pts, false, en, name)
			x.g.envFn(name, bi.Payload, pts, rts, "", fmt.Sprintf("`%s.%s` on a non-nil value", b.typ, sel.Sel.Name))
			bind := x.tmp("p")
			x.guards = append(x.guards, sguard{b.lean, bind})
			return sval{"(env." + name + " " + bind + as + ")", tupleTyp(rts)}, nil
		}
	}
	fail("unsupported call %s", norm(src(e)))
	return sval{}, nil
}

// tupleTyp: pseudo Go type of a multi-value
func tupleTyp(ts []string) string {
	if len(ts) == 1 {
		return ts[0]
	}
	return "tuple:" + strings.Join(ts, ";")
}

func tupleParts(t string) []string {
	if !strings.HasPrefix(t, "tuple:") {
		return []string{t}
	}
	if t == "tuple:" {
		return nil
	}
	return strings.Split(t[6:], ";")
}

// proj: the i-th component of a Lean n-tuple expression
func proj(e string, i, n int) string {
	if n == 1 {
		return e
	}
	s := e
	for k := 0; k < i; k++ {
		s += ".2"
	}
	if i < n-1 {
		s += ".1"
	}
	return s
}

func (x *strans) pureInt(a ast.Expr, en senv) string {
	v := x.expr(a, en, "int")
	if v.typ == "untyped" {
		return "(" + v.lean + " : Int)"
	}
	if x.g.typeInfo(v.typ).Kind != "int" {
		fail("%s is not an int", norm(src(a)))
	}
	return v.lean
}

// withGuards wraps text in the pending panic guards (innermost last) and clears them
func (x *strans) withGuards(from int, fc *sfctx, text string) string {
	gs := x.guards[from:]
	x.guards = x.guards[:from]
	for i := len(gs) - 1; i >= 0; i-- {
		x.needPnc = true
		text = "match " + gs[i].opt + " with\n| none => " + fc.pnc() + "\n| some " + gs[i].bind + " =>\n  " + indent(text, 2)
	}
	return text
}

// sorted keys helper (deterministic output)
func sortedKeys[V any](m map[string]V) []string {
	ks := make([]string, 0, len(m))
	for k := range m {
		ks = append(ks, k)
	}
	sort.Strings(ks)
	return ks
}
