package main

// Tables of the object engine (obj.go) for the MAP slabs, and the writer of Gen/TransMapSlabs.lean.

import (
	"fmt"
	"os"
	"path/filepath"
	"sort"
	"strings"
)

func oWithBase(m map[string]oType) map[string]oType {
	base := map[string]oType{
		"bool":   {Kind: "bool", Lean: "Bool", Zero: "false"},
		"uint":   {Kind: "uint", Lean: "UInt64", Zero: "0", Width: 64},
		"uint64": {Kind: "uint", Lean: "UInt64", Zero: "0", Width: 64},
		"uint32": {Kind: "uint", Lean: "UInt32", Zero: "0", Width: 32},
		"int":    {Kind: "int", Lean: "Int", Zero: "0"},
		"string": {Kind: "drop"},
	}
	for k, v := range base {
		if _, ok := m[k]; !ok {
			m[k] = v
		}
	}
	return m
}

func mt(func_, lean string) oTarget { return oTarget{Func: func_, Lean: lean} }
func md(func_, lean string) oTarget { return oTarget{Func: func_, Lean: lean, Kind: "dispatch"} }

func mapMethods(recv string, names ...string) []oTarget {
	var out []oTarget
	for _, n := range names {
		out = append(out, mt(recv+"."+n, recv+"_"+n))
	}
	return out
}

func mapDispatch(sum string, names ...string) []oTarget {
	var out []oTarget
	for _, n := range names {
		out = append(out, md(sum+"."+n, sum+"_"+n))
	}
	return out
}

func cat(ls ...[]oTarget) []oTarget {
	var out []oTarget
	for _, l := range ls {
		out = append(out, l...)
	}
	return out
}

var mapUnit = oUnit{
	File:      "TransMapSlabs.lean",
	Namespace: "Atree.Gen.TransMap",
	TypeVars:  []string{"E", "V", "W", "X", "S", "ε"},
	Types: oWithBase(map[string]oType{
		"Digest":  {Kind: "uint", Lean: "UInt64", Zero: "0", Width: 64},
		"SlabID":  {Kind: "eq", Lean: "SlabID", Zero: "SlabID.undef"},
		"Address": {Kind: "nat", Lean: "Nat", Zero: "(0 : Nat)"},
		"error":   {Kind: "err", Lean: "Option ε", Zero: "none"},
		"element": {Kind: "opaque", Lean: "E", Prefix: "element"},
		// MapKey and MapValue are `Storable`: one type parameter V for stored keys and values alike
		"MapKey":           {Kind: "optopaque", Lean: "Option V", Zero: "none", Payload: "V", Prefix: "Storable"},
		"MapValue":         {Kind: "optopaque", Lean: "Option V", Zero: "none", Payload: "V", Prefix: "Storable"},
		"Storable":         {Kind: "optopaque", Lean: "Option V", Zero: "none", Payload: "V", Prefix: "Storable"},
		"Value":            {Kind: "opaque", Lean: "W", Prefix: "Value"},
		"*MapExtraData":    {Kind: "optopaque", Lean: "Option X", Zero: "none"},
		"MapSlabHeader":    {Kind: "struct", Struct: "MapSlabHeader"},
		"*hkeyElements":    {Kind: "obj", Struct: "hkeyElements"},
		"*singleElement":   {Kind: "obj", Struct: "singleElement"},
		"*singleElements":  {Kind: "obj", Struct: "singleElements"},
		"*MapDataSlab":     {Kind: "obj", Struct: "MapDataSlab"},
		"*MapMetaDataSlab": {Kind: "obj", Struct: "MapMetaDataSlab"},
		"*OrderedMap":      {Kind: "obj", Struct: "OrderedMap"},
		"elements":         {Kind: "sum", Sum: "elements"},
		"MapSlab":          {Kind: "sum", Sum: "MapSlab"},
		"Slab":             {Kind: "sum", Sum: "MapSlab"}, // in the map code every Slab is a MapSlab
		"SlabStorage":      {Kind: "state", Lean: "S", Prefix: "SlabStorage"},
		// never looked at by the translated code
		"Digester":            {Kind: "drop"},
		"DigesterBuilder":     {Kind: "drop"},
		"HashInputProvider":   {Kind: "drop"},
		"parentUpdater":       {Kind: "drop"},
		"MapPopIterationFunc": {Kind: "drop"},
	}),
	Sums: map[string]*oSum{
		"elements": {Lean: "elements", Impls: []oImpl{{"*hkeyElements", "hkey"}, {"*singleElements", "single"}}},
		"MapSlab":  {Lean: "MapSlab", Impls: []oImpl{{"*MapDataSlab", "dataSlab"}, {"*MapMetaDataSlab", "metaSlab"}}},
	},
	Structs: []string{"MapSlabHeader", "hkeyElements", "singleElement", "singleElements", "MapDataSlab", "MapMetaDataSlab", "OrderedMap"},
	Fields:  slabIDFields,
	PkgVars: map[string]string{"minThreshold": "uint32", "maxThreshold": "uint32"},
	PkgConsts: map[string]sPkgVar{
		"SlabIDUndefined": {Lean: "SlabID.undef", Type: "SlabID", Init: "SlabID{}"},
	},
	EnvMethods: map[string]oEnvSpec{
		// decisions already translated by the integer engine (Gen/Trans.lean), parameters here
		"MapSlab.CanLendToLeft":  {},
		"MapSlab.CanLendToRight": {},
	},
	EnvFuncs: map[string]oEnvSpec{
		"wrapErrorfAsExternalErrorIfNeeded": {},
		"newSingleElement":                  {},
		"maxInlineMapValueSize":             {},
		"ValueComparator":                   {},
	},
	Targets: cat(
		[]oTarget{
			{Func: "split", Lean: "split", NoEnv: true, Consumes: true},
			{Func: "merge", Lean: "merge", NoEnv: true, Consumes: true},
			{Func: "lendToRight", Lean: "lendToRight", NoEnv: true, Consumes: true},
			{Func: "borrowFromRight", Lean: "borrowFromRight", NoEnv: true, Consumes: true},
		},
		mapMethods("hkeyElements", "Size", "Count", "firstKey", "Merge", "Split", "LendToRight", "BorrowFromRight"),
		mapMethods("singleElements", "Size", "Count", "firstKey", "Merge", "Split", "LendToRight", "BorrowFromRight"),
		mapDispatch("elements", "Size", "Count", "firstKey", "Merge", "Split", "LendToRight", "BorrowFromRight"),
		mapMethods("MapDataSlab", "SlabID", "Header", "ByteSize", "IsData", "SetSlabID", "RemoveExtraData", "SetExtraData",
			"Split", "Merge", "LendToRight", "BorrowFromRight"),
		mapMethods("MapMetaDataSlab", "SlabID", "Header", "ByteSize", "IsData", "SetSlabID", "RemoveExtraData", "SetExtraData",
			"updateChildrenHeadersAfterMerge", "Merge", "Split", "LendToRight", "BorrowFromRight"),
		mapDispatch("MapSlab", "SlabID", "Header", "ByteSize", "IsData", "SetSlabID", "RemoveExtraData", "SetExtraData",
			"Split", "Merge", "LendToRight", "BorrowFromRight"),
		[]oTarget{mt("storeSlab", "storeSlab"), mt("getMapSlab", "getMapSlab")},
		mapMethods("MapMetaDataSlab", "SplitChildSlab", "rebalanceChildren", "mergeChildren", "MergeOrRebalanceChildSlab"),
		mapMethods("OrderedMap", "Address", "splitRoot", "promoteChildAsNewRoot"),
		mapMethods("singleElement", "Size"),
		mapMethods("singleElements", "get", "Get", "Set", "Remove"),
	),
}

const oPrelude = `-- GENERATED by harness/cmd/gotrans (object engine) from the atree sources on every check run. Do not edit.
-- Go -> Lean translation of the slab-level RESTRUCTURING code of the maps: structs are structures, pointers to structs
-- are objects threaded through (the receiver / an object argument is part of the result iff the function changes it),
-- closed interfaces are inductives with generated dispatchers, slices are lists, machine integers wrap around,
-- open interfaces, the slab storage and untranslated package functions are parameters (` + "`env`" + `).
-- Subset, conventions, aliasing rules and tables: harness/cmd/gotrans/obj.go, obj_maps.go.
-- Equivalence with the hand-written model: AtreeProofs/Props/TransMapSlabs.lean.
import AtreeModel.Basic
import AtreeModel.Gen.Consts
set_option linter.unusedVariables false
namespace NAMESPACE
open Atree

/-- result of a translated loop: left by ` + "`return`" + ` / a panic, or ran to its end (or ` + "`break`" + `) with the carried variables -/
inductive Loop (ρ γ : Type) where
  | ret (r : ρ)
  | done (c : γ)

/-- a whitelisted function that gotrans could not translate (see ` + "`untranslatedFunctions`" + `) -/
structure Untranslatable where
  reason : String

/-- ` + "`l[i]`" + `: ` + "`none`" + ` = index out of range (a Go panic) -/
def goIdx {α : Type} (l : List α) (i : Int) : Option α :=
  if i < 0 then none else l[i.toNat]?

/-- the bounds check of ` + "`l[i] = v`" + ` -/
def goInRange {α : Type} (l : List α) (i : Int) : Bool :=
  decide (0 ≤ i) && decide (i < Int.ofNat l.length)

/-- ` + "`l[lo:hi]`" + ` (absent bound = 0 / len); ` + "`none`" + ` = out of range.  Go allows ` + "`hi`" + ` up to the CAPACITY; reading the spare
    capacity is treated as a panic here (the translated code never does it: the theorems show ` + "`some`" + `). -/
def goSlice {α : Type} (l : List α) (lo hi : Option Int) : Option (List α) :=
  let a := lo.getD 0
  let b := hi.getD (Int.ofNat l.length)
  if 0 ≤ a ∧ a ≤ b ∧ b ≤ Int.ofNat l.length then some ((l.take b.toNat).drop a.toNat) else none

/-- ` + "`slices.Delete(l, i, j)`" + ` BY ITS SPECIFICATION (trusted step): ` + "`l`" + ` without ` + "`l[i:j]`" + `; panics unless 0 ≤ i ≤ j ≤ len.
    (It shifts inside the old backing array and zeroes its tail: the engine checks that the old slice is dead.) -/
def goSlicesDelete {α : Type} (l : List α) (i j : Int) : Option (List α) :=
  if 0 ≤ i ∧ i ≤ j ∧ j ≤ Int.ofNat l.length then some (l.take i.toNat ++ l.drop j.toNat) else none

/-- ` + "`slices.Insert(l, i, vs...)`" + ` BY ITS SPECIFICATION (trusted step); panics unless 0 ≤ i ≤ len -/
def goSlicesInsert {α : Type} (l : List α) (i : Int) (vs : List α) : Option (List α) :=
  if 0 ≤ i ∧ i ≤ Int.ofNat l.length then some (l.take i.toNat ++ vs ++ l.drop i.toNat) else none

/-- ` + "`int(math.Ceil(float64(x) / c))`" + ` for a slice length x and a constant 1 ≤ c < 2^20 (exact, see main.go) -/
def goCeilDivInt (x : Int) (c : Nat) : Int := Int.ofNat ((x.toNat + c - 1) / c)

`

func (u *oUnit) emitStructs() string {
	var b strings.Builder
	emitted := map[string]bool{}
	emitSum := func(key string) {
		if emitted["sum:"+key] {
			return
		}
		emitted["sum:"+key] = true
		s := u.Sums[key]
		lean := u.sumLean(key)
		fmt.Fprintf(&b, "/-- the interface `%s` as the closed world of its listed implementations (`nil` = the nil interface value) -/\n", key)
		fmt.Fprintf(&b, "inductive %s", s.Lean)
		for _, tv := range strings.Fields(lean)[1:] {
			b.WriteString(" (" + tv + " : Type)")
		}
		b.WriteString(" where\n  | nil\n")
		for _, im := range s.Impls {
			fmt.Fprintf(&b, "  | %s (o : %s)\n", im.Ctor, u.ti(im.Go).Lean)
		}
		b.WriteString("\n")
		vars := strings.Join(strings.Fields(lean)[1:], " ")
		if vars != "" {
			vars = "{" + vars + " : Type} "
		}
		fmt.Fprintf(&b, "/-- `x == nil` -/\ndef %s.isNil %s: %s → Bool\n  | .nil => true\n  | _ => false\n\n", s.Lean, vars, lean)
	}
	for _, name := range u.Structs {
		names, gts := u.structFields(name)
		// sums used by the fields come first
		for _, ft := range gts {
			t := strings.TrimPrefix(strings.TrimSpace(ft), "[]")
			if v, ok := u.Types[t]; ok && v.Kind == "sum" {
				emitSum(v.Sum)
			}
		}
		lean := u.structLean(name)
		fmt.Fprintf(&b, "/-- `%s`, from the Go declaration (fields of dropped types are left out; the defaults are Go's zero values) -/\n", name)
		fmt.Fprintf(&b, "structure %s", name)
		for _, tv := range strings.Fields(lean)[1:] {
			b.WriteString(" (" + tv + " : Type)")
		}
		b.WriteString(" where\n")
		for i := range names {
			ti := u.ti(gts[i])
			z := ""
			if ti.Zero != "" {
				z = " := " + ti.Zero
			}
			fmt.Fprintf(&b, "  /-- `%s %s` -/\n  %s : %s%s\n", names[i], gts[i], names[i], ti.Lean, z)
		}
		b.WriteString("\n")
	}
	for _, k := range oSortedKeys(u.Sums) {
		emitSum(k)
	}
	for _, key := range oSortedKeys(u.Accessors) {
		// `I.M()` = the pointer field f of whichever implementation: reader and writer of that field on the closed interface
		f := u.Accessors[key]
		parts := strings.SplitN(key, ".", 2)
		sum := u.Sums[parts[0]]
		lean := u.sumLean(parts[0])
		ft := u.ti(oCheckAccessor(u, key, f))
		vars := strings.Join(strings.Fields(lean)[1:], " ")
		if vars != "" {
			vars = "{" + vars + " : Type} "
		}
		fmt.Fprintf(&b, "/-- `%s()`: the field `%s` of whichever implementation (every implementation is `return recv.%s`); the nil interface has none -/\n", key, f, f)
		fmt.Fprintf(&b, "def %s.%s_ %s: %s → %s\n  | .nil => %s\n", sum.Lean, f, vars, lean, ft.Lean, ft.Zero)
		for _, im := range sum.Impls {
			fmt.Fprintf(&b, "  | .%s o => o.%s\n", im.Ctor, f)
		}
		fmt.Fprintf(&b, "\n/-- a write through the pointer `%s()` returned: the field `%s` of whichever implementation -/\n", key, f)
		fmt.Fprintf(&b, "def %s.with_%s_ %s: %s → %s → %s\n  | .nil, _ => .nil\n", sum.Lean, f, vars, lean, ft.Lean, lean)
		for _, im := range sum.Impls {
			fmt.Fprintf(&b, "  | .%s o, v => .%s { o with %s := v }\n", im.Ctor, im.Ctor, f)
		}
		b.WriteString("\n")
	}
	return b.String()
}

func writeObjUnit(u *oUnit, out string) (nfailed int) {
	loadDecls()
	covObjUnit(u) // FX14: coverage.go
	oShapes = map[string]oshape{}
	oEnvFns, oEnvIdx = nil, map[string]int{}
	var failed, all, dead []string
	var bodies []string
	structs := ""
	func() {
		defer func() {
			if r := recover(); r != nil {
				msg := fmt.Sprint(r)
				if te, ok := r.(transErr); ok {
					msg = te.msg
				}
				fmt.Fprintf(os.Stderr, "gotrans: %s: the data declarations cannot be built: %s\n", u.File, msg)
				structs = ""
				for i := range u.Targets {
					t := &u.Targets[i]
					all = append(all, t.Lean)
					failed = append(failed, t.Lean)
					bodies = append(bodies, fmt.Sprintf("/-- `%s`: NOT TRANSLATED (%s) -/\ndef %s : Untranslatable :=\n  ⟨%q⟩\n", t.Func, oneLine(msg), t.Lean, oneLine(msg)))
				}
			}
		}()
		structs = u.emitStructs()
		for i := range u.Targets {
			if t := &u.Targets[i]; t.Rec {
				oShapes[t.Func] = oRecShape(u, t)
			}
		}
		for i := range u.Targets {
			t := &u.Targets[i]
			text, reason := oTranslate(u, t, &dead)
			if reason != "" {
				failed = append(failed, t.Lean)
				fmt.Fprintf(os.Stderr, "gotrans: %s not translated: %s\n", t.Func, reason)
			}
			all = append(all, t.Lean)
			bodies = append(bodies, text)
		}
	}()
	var b strings.Builder
	prelude := strings.ReplaceAll(oPrelude, "NAMESPACE", u.Namespace)
	if u.Header != "" {
		prelude = u.Header + prelude[strings.Index(prelude, "import AtreeModel.Basic"):]
	}
	b.WriteString(prelude)
	b.WriteString(structs)
	b.WriteString("/-- what the translated functions call and gotrans does not translate: methods of open interfaces, the slab storage,\n    package functions, package variables, error constructors -/\n")
	b.WriteString("structure Env")
	for _, v := range u.TypeVars {
		b.WriteString(" (" + v + " : Type)")
	}
	b.WriteString(" where\n")
	fns := append([]envFn{}, oEnvFns...)
	sort.Slice(fns, func(i, j int) bool { return fns[i].name < fns[j].name })
	for _, f := range fns {
		fmt.Fprintf(&b, "  /-- %s -/\n  %s : %s\n", f.doc, f.name, f.typ)
	}
	if len(fns) == 0 {
		b.WriteString("  unit : Unit := ()\n")
	}
	b.WriteString("\nsection\nvariable {" + strings.Join(u.TypeVars, " ") + " : Type}\n\n")
	b.WriteString(strings.Join(bodies, "\n"))
	b.WriteString("\nend\n\n")
	q := func(l []string) string {
		o := make([]string, len(l))
		for i := range l {
			o[i] = fmt.Sprintf("%q", l[i])
		}
		return "[" + strings.Join(o, ", ") + "]"
	}
	b.WriteString("/-- whitelisted functions that could not be translated (an obligation says this list is empty) -/\n")
	b.WriteString("def untranslatedFunctions : List String := " + q(failed) + "\n\n")
	b.WriteString("/-- every whitelisted function, by the name of its generated definition -/\n")
	b.WriteString("def translatedTargets : List String := " + q(all) + "\n\n")
	sort.Strings(dead)
	b.WriteString("/-- TRUSTED ALIASING ASSUMPTION, made explicit: call sites that hand a slice to a helper which re-uses or clears its\n    backing array and do NOT overwrite that slice with a result.  Value semantics is sound for them only if nobody\n    reads the slice afterwards (an obligation pins this list). -/\n")
	b.WriteString("def deadAfterCall : List String := " + q(dead) + "\n\nend " + u.Namespace + "\n")
	path := filepath.Join(out, u.File)
	content := b.String()
	if old, err := os.ReadFile(path); err == nil && string(old) == content {
		return len(failed)
	}
	tmp := fmt.Sprintf("%s.%d.tmp", path, os.Getpid())
	if err := os.WriteFile(tmp, []byte(content), 0o644); err != nil {
		fmt.Fprintln(os.Stderr, "gotrans:", err)
		os.Exit(2)
	}
	if err := os.Rename(tmp, path); err != nil {
		fmt.Fprintln(os.Stderr, "gotrans:", err)
		os.Exit(2)
	}
	return len(failed)
}

func writeObjMaps(out string) int { return writeObjUnit(&mapUnit, out) }
