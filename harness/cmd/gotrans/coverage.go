package main

// COVERAGE of the four translation engines (FX14, audit a6 findings F1 / F3): what the translated layer does NOT read.
//
// A TransEq theorem can only break when a generated definition changes.  The Go text that no engine reads - statements
// left out by a `Skip` / `Until` / `SkipDefers` table, assignments to fields of dropped types, dropped arguments, the
// `return` tuples of a target whose result is given by `Outs`, calls that became environment parameters (their
// ARGUMENTS survive in the generated text, but every proof instantiates the parameter by hand) or table views, and the
// BODIES of the helpers behind those parameters / views - is written, on every run, into
//
//	<out>/TransCoverage.lean   (namespace Atree.Gen.TransCov)
//
// and lean/AtreeProofs/Props/TransCoverage.lean proves each list EQUAL to a reviewed literal.  A change of such a
// piece of Go text breaks a named obligation; the reviewer re-reads the piece and re-pins the list.
//
//	skipped          (target, "<why>: <go/printer text, normalised>")   statements / expressions an engine left out
//	                  - recorded by HOOKS (covSkip) at the places where the engines skip, plus, from the tables, every
//	                  `return` of a stateless target with `Outs` and everything from the `Until` statement on
//	envCalls         (target, "<call> IN <enclosing simple statement or block header>")  every call in the Go body of
//	                  a target that is NOT (certainly) a call of a translated target of the same unit, a Go builtin, a
//	                  conversion or a library function translated by its specification.  Found by a walk over the Go
//	                  AST that is independent of the engines (so no engine can forget to report one); it
//	                  over-approximates: a method call whose receiver type the walk cannot see is kept whenever some
//	                  type known to the unit has an untranslated method of that name.
//	opaqueBodies     (function, hash)  sha256/64 of the go/printer RawFormat text of the declaration without its doc
//	                  comment (the hash of cmd/extract's SourceMap.json) of every function of package atree that an
//	                  envCalls entry can reach and no engine translates, of the table views (`Methods`, `FuncViews`,
//	                  `Accessors`), and, transitively, of the package-level functions those call
//	closedInterfaces (unit/interface, assumed implementers, implementers found in the source)
//	unmatchedPatterns(target, pattern) table patterns (Skip, SkipDefers, EnvConsts) that matched nothing
//
// New targets / units appear in the lists by themselves (the lists are built from the target tables); the reviewed
// literals then need re-pinning.

import (
	"bytes"
	"crypto/sha256"
	"encoding/hex"
	"fmt"
	"go/ast"
	"go/printer"
	"go/token"
	"os"
	"path/filepath"
	"sort"
	"strings"
)

type covEntry struct {
	target, text string
	pos, end     token.Pos
}

var (
	covSkipped   []covEntry
	covObjUnits  []*oUnit
	covObjSeen   = map[*oUnit]bool{}
	covPatHits   = map[string]bool{} // "<target>\x00<pattern>" that matched
	covSkipOrder = map[string]int{}
)

// covSkip: HOOK - the engine leaves the node n of the target out of the translation (or replaces it by a table entry).
// Called on every pass of an engine; an entry is kept once, and a node inside an already recorded node is not repeated.
func covSkip(target string, n ast.Node, why string) {
	if n == nil {
		return
	}
	for _, e := range covSkipped {
		if e.target == target && e.pos <= n.Pos() && n.End() <= e.end {
			return
		}
	}
	covSkipped = append(covSkipped, covEntry{target, why + ": " + norm(src(n)), n.Pos(), n.End()})
}

// covPat: HOOK - the table pattern p of the target matched something
func covPat(target, p string) { covPatHits[target+"\x00"+p] = true }

// covObjUnit: HOOK - the object engine translated this unit (new units register themselves)
func covObjUnit(u *oUnit) {
	if !covObjSeen[u] {
		covObjSeen[u] = true
		covObjUnits = append(covObjUnits, u)
	}
}

func covNS(ns string) string { return strings.TrimPrefix(ns, "Atree.Gen.") }

// ---------------------------------------------------------------------------------------------
// units as the walk sees them

type covUnit struct {
	label      string              // "Trans", "TransSt", "TransSl", "TransMap", ..
	targets    [][2]string         // (Func, Lean) in table order
	translated map[string]bool     // Func keys this unit translates
	envMethods map[string]bool     // "T.m" declared as parameters
	known      map[string]bool     // type names the unit's type table knows ("" table: nil = no type table)
	views      []string            // "T.m" / "f" table views whose body is never read
	sums       map[string][]string // Go interface -> assumed implementers
}

func covStrip(t string) string { return strings.TrimPrefix(strings.TrimSpace(t), "*") }

func covUnits() []*covUnit {
	var out []*covUnit
	// stateless engine
	u := &covUnit{label: "Trans", translated: map[string]bool{}, envMethods: map[string]bool{}}
	for i := range targets {
		u.targets = append(u.targets, [2]string{targets[i].Func, targets[i].Lean})
		// a stateless target is never CALLED by another one (calls are views): nothing counts as translated
	}
	out = append(out, u)
	// stateful engine
	for _, g := range sGroups {
		u := &covUnit{label: "TransSt", translated: map[string]bool{}, envMethods: map[string]bool{}, known: map[string]bool{}}
		for _, t := range g.Targets {
			u.targets = append(u.targets, [2]string{t.Func, t.Lean})
			u.translated[t.Func] = true
		}
		for k := range g.Types {
			u.known[covStrip(k)] = true
		}
		u.known[g.Recv] = true
		for k := range g.Methods {
			u.views = append(u.views, k)
		}
		for k := range g.FuncViews {
			u.views = append(u.views, k)
		}
		out = append(out, u)
	}
	// slab engine
	for _, q := range qUnits {
		u := &covUnit{label: "TransSl", translated: map[string]bool{}, envMethods: map[string]bool{}, known: map[string]bool{}, sums: map[string][]string{}}
		for _, t := range q.Targets {
			u.targets = append(u.targets, [2]string{t.Func, t.Lean})
			u.translated[t.Func] = true
		}
		for k, ti := range q.Types {
			u.known[covStrip(k)] = true
			if ti.Kind == "sum" {
				for i := range q.Sums {
					if q.Sums[i].Lean == ti.Sum {
						for _, v := range q.Sums[i].Variants {
							u.sums[k] = append(u.sums[k], v.Struct)
						}
					}
				}
			}
		}
		for k := range q.EnvMethods {
			u.envMethods[k] = true
		}
		for k := range q.Methods {
			u.views = append(u.views, k)
		}
		out = append(out, u)
	}
	// object engine
	for _, o := range covObjUnits {
		u := &covUnit{label: covNS(o.Namespace), translated: map[string]bool{}, envMethods: map[string]bool{}, known: map[string]bool{}, sums: map[string][]string{}}
		for _, t := range o.Targets {
			if t.Kind == "dispatch" {
				continue
			}
			u.targets = append(u.targets, [2]string{t.Func, t.Lean})
			u.translated[t.Func] = true
		}
		for k, ti := range o.Types {
			u.known[covStrip(k)] = true
			if ti.Kind == "sum" && o.Sums[ti.Sum] != nil {
				for _, im := range o.Sums[ti.Sum].Impls {
					u.sums[k] = append(u.sums[k], covStrip(im.Go))
				}
			}
		}
		for j, ctors := range o.SubSums {
			u.sums[j] = []string{}
			for _, c := range ctors {
				goT := "?" + c
				for _, s := range o.Sums {
					for _, im := range s.Impls {
						if im.Ctor == c {
							goT = covStrip(im.Go)
						}
					}
				}
				u.sums[j] = append(u.sums[j], goT)
			}
		}
		for k := range o.EnvMethods {
			u.envMethods[k] = true
			// "I.m" for a closed interface I: every implementer's method is a parameter
			parts := strings.SplitN(k, ".", 2)
			if s := o.Sums[parts[0]]; s != nil && len(parts) == 2 {
				for _, im := range s.Impls {
					u.envMethods[covStrip(im.Go)+"."+parts[1]] = true
				}
			}
		}
		for k, f := range o.Accessors {
			parts := strings.SplitN(k, ".", 2)
			if s := o.Sums[parts[0]]; s != nil && len(parts) == 2 {
				for _, im := range s.Impls {
					u.views = append(u.views, covStrip(im.Go)+"."+parts[1])
				}
			} else {
				u.views = append(u.views, k)
			}
			_ = f
		}
		out = append(out, u)
	}
	for _, u := range out {
		sort.Strings(u.views)
	}
	return out
}

// ---------------------------------------------------------------------------------------------
// the walk

var covBuiltins = map[string]bool{"len": true, "cap": true, "append": true, "copy": true, "make": true, "new": true, "panic": true,
	"clear": true, "delete": true, "min": true, "max": true, "recover": true, "print": true, "println": true}

// methodsNamed: every "T.m" of package atree
func covMethodsNamed(m string) []string {
	var out []string
	for k := range funcs {
		if i := strings.Index(k, "."); i >= 0 && k[i+1:] == m {
			out = append(out, k)
		}
	}
	sort.Strings(out)
	return out
}

// covCallees: is the call certainly translated (or given by Go's specification)?  Otherwise the functions of package
// atree it can reach.
func (u *covUnit) covCallees(c *ast.CallExpr, imports map[string]bool, locals map[string]bool) (translated bool, callees []string) {
	fun := c.Fun
	for {
		if p, ok := fun.(*ast.ParenExpr); ok {
			fun = p.X
			continue
		}
		if ix, ok := fun.(*ast.IndexExpr); ok { // generic instantiation f[T](..)
			fun = ix.X
			continue
		}
		break
	}
	switch f := fun.(type) {
	case *ast.Ident:
		if locals[f.Name] {
			return false, nil // a callback variable
		}
		if covBuiltins[f.Name] || goTypes[f.Name] != "" || typeSpecs[f.Name] != nil {
			return true, nil // builtin / conversion
		}
		switch f.Name {
		case "string", "int8", "int16", "int32", "int64", "float64", "float32", "uintptr", "rune", "any", "error":
			return true, nil
		}
		if u.translated[f.Name] {
			return true, nil
		}
		if funcs[f.Name] != nil {
			return false, []string{f.Name}
		}
		return false, nil
	case *ast.SelectorExpr:
		// library call: the root identifier is an imported package
		root := f.X
		for {
			if s, ok := root.(*ast.SelectorExpr); ok {
				root = s.X
				continue
			}
			break
		}
		if id, ok := root.(*ast.Ident); ok && imports[id.Name] && !locals[id.Name] {
			return true, nil
		}
		all := covMethodsNamed(f.Sel.Name)
		var cand []string
		if u.known != nil {
			for _, k := range all {
				if u.known[k[:strings.Index(k, ".")]] {
					cand = append(cand, k)
				}
			}
		}
		if len(cand) == 0 {
			// the receiver is an open interface / a state / a type outside the tables: any implementation in the package
			cand = all
			var rest []string
			for _, k := range cand {
				if !covAnyTarget[k] {
					rest = append(rest, k)
				}
			}
			return false, rest
		}
		var rest []string
		for _, k := range cand {
			if !u.translated[k] || u.envMethods[k] {
				rest = append(rest, k)
			}
		}
		if len(rest) == 0 {
			return true, nil
		}
		return false, rest
	case *ast.FuncLit:
		return true, nil // its body is walked
	}
	return false, nil
}

var covAnyTarget = map[string]bool{}

// covHeader: the text that shows what is done with the results of a call directly inside the statement s
func covHeader(s ast.Stmt) string {
	switch s := s.(type) {
	case *ast.IfStmt:
		h := "if "
		if s.Init != nil {
			h += src(s.Init) + "; "
		}
		return norm(h + src(s.Cond) + " {..}")
	case *ast.ForStmt:
		h := "for "
		if s.Init != nil {
			h += src(s.Init)
		}
		h += "; "
		if s.Cond != nil {
			h += src(s.Cond)
		}
		h += "; "
		if s.Post != nil {
			h += src(s.Post)
		}
		return norm(h + " {..}")
	case *ast.RangeStmt:
		return norm(rangeHeader(s) + " {..}")
	case *ast.SwitchStmt:
		h := "switch "
		if s.Init != nil {
			h += src(s.Init) + "; "
		}
		if s.Tag != nil {
			h += src(s.Tag)
		}
		return norm(h + " {..}")
	case *ast.TypeSwitchStmt:
		h := "switch "
		if s.Init != nil {
			h += src(s.Init) + "; "
		}
		return norm(h + src(s.Assign) + " {..}")
	case *ast.CaseClause:
		var l []string
		for _, e := range s.List {
			l = append(l, src(e))
		}
		return norm("case " + strings.Join(l, ", ") + ":")
	case *ast.LabeledStmt:
		return norm(s.Label.Name + ":")
	}
	return norm(src(s))
}

func covImports() map[string]bool {
	m := map[string]bool{}
	for _, f := range parsedFiles {
		for _, im := range f.Imports {
			p := strings.Trim(im.Path.Value, `"`)
			name := p[strings.LastIndex(p, "/")+1:]
			if im.Name != nil {
				name = im.Name.Name
			}
			// "github.com/fxamacker/cbor/v2" -> cbor
			if strings.HasPrefix(name, "v") && len(name) <= 3 && strings.Count(p, "/") > 0 {
				q := p[:strings.LastIndex(p, "/")]
				name = q[strings.LastIndex(q, "/")+1:]
			}
			m[name] = true
		}
	}
	return m
}

// covLocalFuncs: parameters / locals of a function type that the body calls (callbacks) - by name
func covLocalNames(fd *ast.FuncDecl) map[string]bool {
	m := map[string]bool{}
	add := func(fl *ast.FieldList) {
		if fl == nil {
			return
		}
		for _, f := range fl.List {
			for _, n := range f.Names {
				m[n.Name] = true
			}
		}
	}
	add(fd.Recv)
	add(fd.Type.Params)
	add(fd.Type.Results)
	ast.Inspect(fd.Body, func(n ast.Node) bool {
		switch n := n.(type) {
		case *ast.AssignStmt:
			if n.Tok == token.DEFINE {
				for _, l := range n.Lhs {
					if id, ok := l.(*ast.Ident); ok {
						m[id.Name] = true
					}
				}
			}
		case *ast.RangeStmt:
			if n.Tok == token.DEFINE {
				for _, l := range []ast.Expr{n.Key, n.Value} {
					if id, ok := l.(*ast.Ident); ok {
						m[id.Name] = true
					}
				}
			}
		case *ast.ValueSpec:
			for _, id := range n.Names {
				m[id.Name] = true
			}
		case *ast.FuncLit:
			add(n.Type.Params)
		}
		return true
	})
	return m
}

// covWalk: the envCalls entries of one target and the functions they reach
func (u *covUnit) covWalk(fd *ast.FuncDecl, imports map[string]bool) (entries []string, reach []string) {
	if fd == nil || fd.Body == nil {
		return
	}
	locals := covLocalNames(fd)
	var stack []ast.Node
	ast.Inspect(fd.Body, func(n ast.Node) bool {
		if n == nil {
			stack = stack[:len(stack)-1]
			return true
		}
		stack = append(stack, n)
		c, ok := n.(*ast.CallExpr)
		if !ok {
			return true
		}
		tr, callees := u.covCallees(c, imports, locals)
		if tr {
			return true
		}
		var host ast.Stmt
		for i := len(stack) - 2; i >= 0; i-- {
			if s, ok := stack[i].(ast.Stmt); ok {
				if _, blk := s.(*ast.BlockStmt); blk {
					continue
				}
				host = s
				break
			}
		}
		text := norm(src(c))
		if host != nil {
			if h := covHeader(host); h != text {
				text += " IN " + h
			}
		}
		entries = append(entries, text)
		reach = append(reach, callees...)
		return true
	})
	return
}

func covHash(fd *ast.FuncDecl) string {
	saved := fd.Doc
	fd.Doc = nil
	var buf bytes.Buffer
	cfg := printer.Config{Mode: printer.RawFormat}
	_ = cfg.Fprint(&buf, token.NewFileSet(), fd)
	fd.Doc = saved
	h := sha256.Sum256(buf.Bytes())
	return hex.EncodeToString(h[:8])
}

// ---------------------------------------------------------------------------------------------
// implementers of an interface, from the source (method names AND parameter / result types, compared as text; embedded
// interfaces of the package are expanded, an embedded `fmt.Stringer` contributes `String() string`)

// covTypeText: a type as text, parameter names of function types removed
func covTypeText(e ast.Expr) string {
	switch e := e.(type) {
	case *ast.FuncType:
		return "func" + covSig(e)
	case *ast.StarExpr:
		return "*" + covTypeText(e.X)
	case *ast.ArrayType:
		if e.Len == nil {
			return "[]" + covTypeText(e.Elt)
		}
		return "[" + norm(src(e.Len)) + "]" + covTypeText(e.Elt)
	case *ast.Ellipsis:
		return "..." + covTypeText(e.Elt)
	case *ast.MapType:
		return "map[" + covTypeText(e.Key) + "]" + covTypeText(e.Value)
	case *ast.ParenExpr:
		return covTypeText(e.X)
	}
	return norm(src(e))
}

func covSig(ft *ast.FuncType) string {
	list := func(fl *ast.FieldList) string {
		if fl == nil {
			return ""
		}
		var ts []string
		for _, f := range fl.List {
			n := len(f.Names)
			if n == 0 {
				n = 1
			}
			for i := 0; i < n; i++ {
				ts = append(ts, covTypeText(f.Type))
			}
		}
		return strings.Join(ts, ", ")
	}
	return "(" + list(ft.Params) + ") (" + list(ft.Results) + ")"
}

func covIfaceMethods(name string, seen map[string]bool) ([]string, bool) {
	if seen[name] {
		return nil, true
	}
	seen[name] = true
	ts := typeSpecs[name]
	if ts == nil {
		return nil, false
	}
	it, ok := ts.Type.(*ast.InterfaceType)
	if !ok {
		return nil, false
	}
	var out []string
	for _, f := range it.Methods.List {
		if len(f.Names) > 0 {
			for _, n := range f.Names {
				if ft, ok := f.Type.(*ast.FuncType); ok {
					out = append(out, n.Name+"\x00"+covSig(ft))
				}
			}
			continue
		}
		switch e := f.Type.(type) {
		case *ast.Ident:
			ms, ok := covIfaceMethods(e.Name, seen)
			if !ok {
				return nil, false
			}
			out = append(out, ms...)
		case *ast.SelectorExpr:
			if isSel(e, "fmt", "Stringer") {
				out = append(out, "String\x00() (string)")
			} else {
				return nil, false
			}
		default:
			return nil, false
		}
	}
	return out, true
}

// covMethodSig: the signature of method m in the method set of the named type T or *T: declared, or promoted through an
// embedded struct / pointer-to-struct / interface field
func covMethodSig(t, m string, depth int) (string, bool) {
	if fd := funcs[t+"."+m]; fd != nil {
		return covSig(fd.Type), true
	}
	ts := typeSpecs[t]
	if ts == nil || depth > 4 {
		return "", false
	}
	switch tt := ts.Type.(type) {
	case *ast.StructType:
		for _, f := range tt.Fields.List {
			if len(f.Names) != 0 {
				continue
			}
			e := f.Type
			if s, ok := e.(*ast.StarExpr); ok {
				e = s.X
			}
			if id, ok := e.(*ast.Ident); ok {
				if sig, ok := covMethodSig(id.Name, m, depth+1); ok {
					return sig, true
				}
			}
		}
	case *ast.InterfaceType:
		ms, ok := covIfaceMethods(t, map[string]bool{})
		if ok {
			for _, x := range ms {
				parts := strings.SplitN(x, "\x00", 2)
				if parts[0] == m {
					return parts[1], true
				}
			}
		}
	}
	return "", false
}

func covImplementers(iface string) []string {
	ms, ok := covIfaceMethods(iface, map[string]bool{})
	if !ok {
		return []string{"?" + iface + " is not an interface of package atree"}
	}
	var names []string
	for n, ts := range typeSpecs {
		if _, isI := ts.Type.(*ast.InterfaceType); isI {
			continue
		}
		all := true
		for _, m := range ms {
			parts := strings.SplitN(m, "\x00", 2)
			if sig, ok := covMethodSig(n, parts[0], 0); !ok || sig != parts[1] {
				all = false
				break
			}
		}
		if all && len(ms) > 0 {
			names = append(names, n)
		}
	}
	sort.Strings(names)
	return names
}

// ---------------------------------------------------------------------------------------------
// output

func covQ(s string) string { return fmt.Sprintf("%q", s) }

func covQL(l []string) string {
	o := make([]string, len(l))
	for i := range l {
		o[i] = covQ(l[i])
	}
	return "[" + strings.Join(o, ", ") + "]"
}

func covPairsLit(l [][2]string) string {
	var b strings.Builder
	b.WriteString("[")
	for k := range l {
		if k > 0 {
			b.WriteString(",")
		}
		fmt.Fprintf(&b, "\n  (%s, %s)", covQ(l[k][0]), covQ(l[k][1]))
	}
	b.WriteString("]")
	return b.String()
}

// covData: everything that is written, per unit label (one label = one generated namespace Atree.Gen.<label>)
type covData struct {
	labels       []string
	skipped      map[string][][2]string
	envCalls     map[string][][2]string
	opaqueBodies map[string][][2]string
	unmatched    [][2]string
	closed       [][3]string // key, assumed literal, actual literal
	closedRaw    []covClosed
}

type covClosed struct {
	key             string
	assumed, actual []string
}

func covLabelOf(target string) (string, string) {
	if i := strings.Index(target, "."); i >= 0 {
		return target[:i], target[i+1:]
	}
	return target, ""
}

func covCollect() *covData {
	loadDecls()
	imports := covImports()
	units := covUnits()
	for _, u := range units {
		for k := range u.translated {
			covAnyTarget[k] = true
		}
	}
	for i := range targets {
		covAnyTarget[targets[i].Func] = true
	}
	d := &covData{skipped: map[string][][2]string{}, envCalls: map[string][][2]string{}, opaqueBodies: map[string][][2]string{}}
	seenLabel := map[string]bool{}
	for _, u := range units {
		if !seenLabel[u.label] {
			seenLabel[u.label] = true
			d.labels = append(d.labels, u.label)
		}
	}

	// (a) skipped: the hooks' entries + table-driven ones of the stateless engine
	for i := range targets {
		t := &targets[i]
		fd := funcs[t.Func]
		if fd == nil || fd.Body == nil {
			continue
		}
		recv := ""
		if fd.Recv != nil && len(fd.Recv.List) > 0 && len(fd.Recv.List[0].Names) > 0 {
			recv = fd.Recv.List[0].Names[0].Name
		}
		if t.Until != "" {
			pat := norm(strings.ReplaceAll(t.Until, "RECV", recv))
			for j, s := range fd.Body.List {
				if strings.HasPrefix(norm(src(s)), pat) {
					for _, r := range fd.Body.List[j:] {
						covSkip("Trans."+t.Lean, r, "after Until")
					}
					break
				}
			}
		}
		if len(t.Outs) > 0 {
			ast.Inspect(fd.Body, func(n ast.Node) bool {
				if _, ok := n.(*ast.FuncLit); ok {
					return false
				}
				if r, ok := n.(*ast.ReturnStmt); ok {
					covSkip("Trans."+t.Lean, r, "return ignored (Outs = "+strings.Join(t.Outs, ", ")+")")
				}
				return true
			})
		}
	}
	order := map[string]int{}
	n := 0
	for _, u := range units {
		for _, t := range u.targets {
			if _, ok := order[u.label+"."+t[1]]; !ok {
				order[u.label+"."+t[1]] = n
				n++
			}
		}
	}
	sk := append([]covEntry{}, covSkipped...)
	sort.SliceStable(sk, func(i, j int) bool {
		oi, iok := order[sk[i].target]
		oj, jok := order[sk[j].target]
		if iok != jok {
			return iok
		}
		if oi != oj {
			return oi < oj
		}
		if sk[i].target != sk[j].target {
			return sk[i].target < sk[j].target
		}
		return sk[i].pos < sk[j].pos
	})
	for _, e := range sk {
		l, t := covLabelOf(e.target)
		if !seenLabel[l] {
			seenLabel[l] = true
			d.labels = append(d.labels, l)
		}
		d.skipped[l] = append(d.skipped[l], [2]string{t, e.text})
	}

	// (b) envCalls, (c) opaque bodies: reached functions no engine translates + package-level functions they call
	reach := map[string]map[string]bool{}
	for _, u := range units {
		if reach[u.label] == nil {
			reach[u.label] = map[string]bool{}
		}
		for _, t := range u.targets {
			es, rs := u.covWalk(funcs[t[0]], imports)
			for _, e := range es {
				d.envCalls[u.label] = append(d.envCalls[u.label], [2]string{t[1], e})
			}
			for _, r := range rs {
				reach[u.label][r] = true
			}
		}
		for _, v := range u.views {
			reach[u.label][v] = true
		}
	}
	for _, l := range d.labels {
		work := []string{}
		for k := range reach[l] {
			work = append(work, k)
		}
		sort.Strings(work)
		opaque := map[string]bool{}
		for len(work) > 0 {
			k := work[0]
			work = work[1:]
			if opaque[k] || covAnyTarget[k] {
				continue
			}
			fd := funcs[k]
			if fd == nil || fd.Body == nil {
				continue
			}
			opaque[k] = true
			ast.Inspect(fd.Body, func(n ast.Node) bool {
				if c, ok := n.(*ast.CallExpr); ok {
					if id, ok := c.Fun.(*ast.Ident); ok && funcs[id.Name] != nil && funcs[id.Name].Recv == nil {
						work = append(work, id.Name)
					}
				}
				return true
			})
		}
		var okeys []string
		for k := range opaque {
			okeys = append(okeys, k)
		}
		sort.Strings(okeys)
		for _, k := range okeys {
			d.opaqueBodies[l] = append(d.opaqueBodies[l], [2]string{k, covHash(funcs[k])})
		}
	}

	// table patterns that matched nothing
	for i := range targets {
		t := &targets[i]
		for _, p := range t.Skip {
			if !covPatHits["Trans."+t.Lean+"\x00"+p] {
				d.unmatched = append(d.unmatched, [2]string{"Trans." + t.Lean, "Skip: " + p})
			}
		}
	}
	for _, o := range covObjUnits {
		var ks []string
		for k := range o.SkipDefers {
			ks = append(ks, "SkipDefers: "+k)
		}
		for k := range o.EnvConsts {
			ks = append(ks, "EnvConsts: "+k)
		}
		sort.Strings(ks)
		for _, k := range ks {
			if !covPatHits[covNS(o.Namespace)+"\x00"+k] {
				d.unmatched = append(d.unmatched, [2]string{covNS(o.Namespace), k})
			}
		}
	}

	// closed interfaces
	for _, u := range units {
		var ks []string
		for k := range u.sums {
			ks = append(ks, k)
		}
		sort.Strings(ks)
		for _, k := range ks {
			as := append([]string{}, u.sums[k]...)
			sort.Strings(as)
			d.closedRaw = append(d.closedRaw, covClosed{u.label + "/" + k, as, covImplementers(k)})
		}
	}
	return d
}

func (d *covData) closedLit() string {
	var b strings.Builder
	b.WriteString("[")
	for i, c := range d.closedRaw {
		if i > 0 {
			b.WriteString(",")
		}
		fmt.Fprintf(&b, "\n  (%s, %s, %s)", covQ(c.key), covQL(c.assumed), covQL(c.actual))
	}
	b.WriteString("]")
	return b.String()
}

func covWriteFile(path, content string) {
	if old, err := os.ReadFile(path); err == nil && string(old) == content {
		return
	}
	tmp := fmt.Sprintf("%s.%d.tmp", path, os.Getpid())
	if err := os.WriteFile(tmp, []byte(content), 0o644); err != nil {
		fmt.Fprintln(os.Stderr, "gotrans:", err)
		os.Exit(2)
	}
	if err := os.Rename(tmp, path); err != nil {
		fmt.Fprintln(os.Stderr, "gotrans:", err)
		os.Exit(2)
	}
}

var covListDocs = [][2]string{
	{"skipped", "(target, why: normalised Go text) of every statement / expression the engine left out or replaced by a table entry"},
	{"envCalls", "(target, call IN enclosing statement) of every call in a target that is not certainly a call of a translated target of the same unit, a builtin, a conversion or a library function translated by its specification"},
	{"opaqueBodies", "(function, AST hash as in SourceMap.json) of every function of package atree the unit relies on without translating it"},
}

func (d *covData) list(name, label string) [][2]string {
	switch name {
	case "skipped":
		return d.skipped[label]
	case "envCalls":
		return d.envCalls[label]
	}
	return d.opaqueBodies[label]
}

// writeCoverage: <out>/TransCoverage.lean
func writeCoverage(out string) *covData {
	d := covCollect()
	var b strings.Builder
	b.WriteString(`-- GENERATED by harness/cmd/gotrans (coverage.go) from the atree sources on every check run. Do not edit.
-- What the four translation engines do NOT read of the Go text of their targets (skipped statements, calls that became
-- environment parameters or table views, the bodies of the helpers behind them, the implementers of closed interfaces),
-- per unit (= generated namespace Atree.Gen.<unit>).  lean/AtreeProofs/Props/TransCoverage*.lean prove every list equal
-- to a reviewed literal.
namespace Atree.Gen.TransCov

`)
	fmt.Fprintf(&b, "/-- the units (a new unit needs its own pinning theorems) -/\ndef unitLabels : List String := %s\n\n", covQL(d.labels))
	for _, l := range d.labels {
		for _, nd := range covListDocs {
			fmt.Fprintf(&b, "/-- %s: %s -/\ndef %s_%s : List (String × String) := %s\n\n", l, nd[1], nd[0], l, covPairsLit(d.list(nd[0], l)))
		}
	}
	fmt.Fprintf(&b, "/-- (unit or target, table pattern) of the Skip / SkipDefers / EnvConsts tables that matched nothing in the source -/\ndef unmatchedPatterns : List (String × String) := %s\n\n", covPairsLit(d.unmatched))
	b.WriteString("/-- (unit/interface, the implementers the engine assumes, the implementers found in the source: the types of package\n    atree that have every method of the interface with the same parameter / result types) -/\n")
	b.WriteString("def closedInterfaces : List (String × List String × List String) := " + d.closedLit() + "\n\nend Atree.Gen.TransCov\n")
	covWriteFile(filepath.Join(out, "TransCoverage.lean"), b.String())
	return d
}

// ---------------------------------------------------------------------------------------------
// `gotrans -pin <lean/AtreeProofs/Props>`: (re)write the REVIEWED literals = the current lists.  A maintenance step, like
// `./check --record-statements`: the reviewer reads the diff of these files - every changed line is a piece of Go text
// that no proof sees - and commits it.

var covPinFiles = []struct {
	file, doc string
	labels    []string // nil: every label not named elsewhere
}{
	{"TransCoverageStateless", "the stateless engine (Gen/Trans.lean)", []string{"Trans"}},
	{"TransCoverageStorage", "the stateful engine (Gen/TransStorage.lean)", []string{"TransSt"}},
	{"TransCoverageSlabs", "the slab engine (Gen/TransSlabs.lean)", []string{"TransSl"}},
	{"TransCoverageMaps", "the object engine (Gen/TransMapSlabs.lean, TransMapDescent.lean, TransMapElems.lean, TransMapElem.lean)", nil},
}

func writePins(dir string, d *covData) {
	named := map[string]bool{}
	for _, f := range covPinFiles {
		for _, l := range f.labels {
			named[l] = true
		}
	}
	for _, f := range covPinFiles {
		labels := f.labels
		if labels == nil {
			for _, l := range d.labels {
				if !named[l] {
					labels = append(labels, l)
				}
			}
		}
		var b strings.Builder
		b.WriteString("import AtreeModel.Gen.TransCoverage\n/-\n")
		fmt.Fprintf(&b, "  COVERAGE of %s (FX14, audit a6 F1 / F3): what the engine does NOT read of the Go text of its\n", f.doc)
		b.WriteString(`  targets is regenerated on every run (Gen/TransCoverage.lean, harness/cmd/gotrans/coverage.go) and proved EQUAL to the
  reviewed literals below.  A change of a skipped statement, of the arguments / the use of the results of a call that is
  an environment parameter or a table view, or of the body of a helper behind such a parameter breaks the theorem
  (also a harmless one: the reviewer re-reads the piece and re-pins).
  Written by ` + "`gotrans -repo <atree> -out <Gen> -pin <this directory>`" + `; do not edit by hand, review the diff.
-/
namespace Atree.TransCov
open Atree

namespace Reviewed

`)
		for _, l := range labels {
			for _, nd := range covListDocs {
				fmt.Fprintf(&b, "def %s_%s : List (String × String) := %s\n\n", nd[0], l, covPairsLit(d.list(nd[0], l)))
			}
		}
		b.WriteString("end Reviewed\n\n")
		for _, l := range labels {
			for _, nd := range covListDocs {
				fmt.Fprintf(&b, "/-- %s: %s - as reviewed -/\ntheorem %s_%s_pinned : Gen.TransCov.%s_%s = Reviewed.%s_%s := rfl\n\n", l, nd[1], nd[0], l, nd[0], l, nd[0], l)
			}
		}
		b.WriteString("end Atree.TransCov\n")
		covWriteFile(filepath.Join(dir, f.file+".lean"), b.String())
	}
	// the literals of Props/TransCoverage.lean (hand-written theorems around them) are kept in a generated include
	var b strings.Builder
	b.WriteString(`import AtreeModel.Gen.TransCoverage
/-
  Reviewed literals of Props/TransCoverage.lean (FX14): the units, the closed interfaces with the implementers the engines
  assume and the ones the source has.  Written by ` + "`gotrans -pin`" + `; do not edit by hand, review the diff.
-/
namespace Atree.TransCov.Reviewed

`)
	fmt.Fprintf(&b, "def unitLabels : List String := %s\n\n", covQL(d.labels))
	b.WriteString("def closedInterfaces : List (String × List String × List String) := " + d.closedLit() + "\n\nend Atree.TransCov.Reviewed\n")
	covWriteFile(filepath.Join(dir, "TransCoverageLits.lean"), b.String())
}
