// Command gotrans translates a whitelisted set of atree's size / threshold / flag / routing DECISION
// functions from Go to Lean 4, with Go's machine-integer semantics, on every check run.
//
//	usage: gotrans -repo /repo -out /verif/lean/AtreeModel/Gen      (writes <out>/Trans.lean)
//
// The generated definitions (namespace Atree.Gen.Trans) are proved equal to the hand-written Nat model
// in lean/AtreeProofs/Props/Trans.lean.  A semantic change of one of the Go functions changes the
// generated definition, and the equivalence theorem stops compiling.
//
// It uses go/parser, go/ast, go/token, go/constant only (no go/types): types come from the declared
// parameter / result types of the Go function, from `x := uint32(0)` style initialisers and from the small
// per-function VIEW table in targets.go.
//
// # Supported subset (anything else makes the function "untranslatable", see below)
//
// Types        uint8/byte -> UInt8, uint16 -> UInt16, uint32 -> UInt32, uint64/uint/Digest -> UInt64 (uint is
//
//	64 bit on every platform atree supports), bool -> Bool, int and the int-based enums slabType,
//	slabArrayType, slabMapType -> Int.  Go's `int` is a 64-bit two's complement integer; every int
//	in the whitelisted functions is a slice length, a slice index, or a sum / half of two of them,
//	so |x| < 2^63 always holds and unbounded `Int` is exact.  (No such argument is made for the
//	unsigned types: they are translated to Lean's fixed-width types with wrap-around operators.)
//
// Expressions  + - * / % & | ^ on fixed-width types -> the same wrap-around operators of UIntN;
//
//	<< >> with a constant shift count smaller than the width -> <<< >>>;  on Int: + - *, / -> Int.tdiv,
//	% -> Int.tmod (Go truncates toward zero);  comparisons -> `decide (a < b)` : Bool;  && || ! -> Bool ops;
//	conversions T(x) between the integer types -> toUIntN / ofNat (truncating) / Int.ofNat / UIntN.ofInt;
//	untyped constants take the type of the other operand (as in Go); package constants are referenced
//	by name from the generated Gen/Consts.lean (`Gen.c : Nat`) and converted with `UIntN.ofNat`;
//	`len(s)`, `s[i]`, `s[i].f`, `s[i].m()` for slices named in the VIEW table (an out-of-range index
//	is a Go panic; the translation yields the default 0 there: panics are not modelled, except
//	`panic(...)` statements and error returns, which become `none`).
//
// Floats       three dedicated rules, the only float uses in the whitelisted code:
//
//	uintN(math.Ceil(float64(x) / C))   -> goCeilDiv x C       = (x + C - 1) / C   over Nat
//	float64(x) * 1.5 > K               -> goF64Mul15Gt x K    = 3 * x > 2 * K     over Nat
//	uint32(float64(x) * 1.5)           -> goF64Mul15ToU32 x   = 3 * x / 2         over Nat
//	Exactness: x is a uint32 (or a slice length), so float64(x) is exact (53-bit mantissa).  x*1.5 < 2^34 is a
//	multiple of 1/2, hence exactly representable; Go's float->uint32 conversion truncates (the guard
//	above it keeps the value in range).  For x / C with a constant 1 <= C < 2^20 that is not exact: a
//	non-integer quotient is at least 1/C away from every integer while the rounding error of the
//	division is below 2^-20, and integers are representable, so correctly rounded division never
//	crosses or reaches an integer and math.Ceil gives ceil(x / C) exactly.
//
// Statements   `x := e`, `x = e`, `x op= e`, `x++`, `x--`, parallel `a, b := e1, e2` -> `let`; assignments to
//
//	receiver fields / array cells named in the VIEW (`a.header.size = e`, `h[1] |= m`) -> `let` of the
//	view variable;  `var x T` for T in the view table -> zero value;
//	`if / else if / else`, `switch tag { case c: ... default: ... }` (no fallthrough) ->
//	`if c then ... else ...`: when no branch leaves the block the variables assigned in the branches are
//	joined (`let (x, y) := if c then ... (x, y) else ... (x, y)`), otherwise the continuation is copied
//	into the branches that fall through;  `return e1, e2` -> the tuple of the result positions kept by
//	the table (an error position that is not `nil` -> `none`, otherwise `some`); `panic(..)` -> `none`.
//
// Loops        become a separate recursive definition `<f>.loopN` returning the loop-carried variables (those
//
//	assigned in the loop and declared outside), or `Loop ρ σ` = `ret r | done s` if the body contains
//	`return`; `break` -> the current state.
//	`for i, e := range s` (s a VIEW slice)                 -> structural recursion on the list, index counted up
//	`for init; cond; post`, `for cond`, `for i := range n` -> recursion on a fuel argument that is computed
//	from the loop header: `i < E; i++` -> E - i,  `i >= 0; i--` -> i + 1,  `a < b` (no post; the
//	body must move a up or b down, as the binary searches do) -> b - a.  When the fuel reaches 0 the
//	current state is returned; that this never cuts a loop short is part of what the equivalence
//	theorems (and the `..._fuel_irrelevant` lemmas) show.
//
// Views        a method is translated as a function of the few scalars / slices of its receiver that it reads,
//
//	listed per function in targets.go: `a.header.size -> hsize`, `a.elements -> sizes : List UInt32` with
//	`a.elements[i].ByteSize() -> sizes[i]`, package variables -> explicit parameters, 8-byte big-endian
//	arrays -> UInt64 with bytes.Compare -> goCmpU64 (justified in AtreeProofs/Trans/Bytes.lean).
//	Statements the table lists under Skip (slice surgery, storage calls) are left out; a skipped
//	statement cannot feed a translated one unnoticed, because an identifier that is not bound is an error.
//
// # Untranslatable functions
//
// If a whitelisted function is missing or uses a construct outside the subset, gotrans does NOT fail: it
// emits `def f (same params) : same type := untranslatable _` and lists f in `untranslatedFunctions`.
// The equivalence theorem for f then fails to compile and the obligation `untranslatedFunctions = []`
// fails - verdicts the framework knows how to handle.
package main

import (
	"bytes"
	"flag"
	"fmt"
	"go/ast"
	"go/constant"
	"go/parser"
	"go/printer"
	"go/token"
	"os"
	"path/filepath"
	"regexp"
	"sort"
	"strings"
)

// ---------------------------------------------------------------------------------------------
// tables

// Param is one parameter of the generated Lean function.
type Param struct {
	Lean string // Lean name
	Type string // Go type name (uint32, bool, ...) or "list:<gotype>" for a view slice
	Go   string // "#k": bound to the k-th Go parameter; "name": bound to that Go identifier
	// (package variable); "": not bound to an identifier (used by view templates only)
}

// View maps a Go expression pattern to a Lean expression.  Identifiers X_... are metavariables.
// RECV stands for the receiver name.
type View struct {
	Pat    string
	Lean   string            // template; {X_i} is replaced by the translation of the bound expression
	Type   string            // Go type of the expression
	Metas  map[string]string // expected Go type of each metavariable (default int)
	Assign string            // non-empty: `Pat = e` / `Pat op= e` is `let <Assign> := ...`
}

// SliceView says that the Go slice expression Pat is seen as the Lean list List of the values
// `elem<Proj>` (Proj is ".ByteSize()", ".count", ... or "" when the slice elements are integers).
type SliceView struct {
	Pat  string
	List string
	Proj string
	Type string // Go type of the projected value
}

// StmtView: an expression statement that is an assignment in disguise
// (`binary.BigEndian.PutUint64(next[:], v)`).
type StmtView struct {
	Pat    string
	Assign string // Go local assigned
	Value  string // metavariable holding the value
	Type   string
}

// Zero: `var x T` declares these locals (Go name, Go type) with zero values.
type Zero struct {
	Var    string
	Locals [][2]string
}

// Capture picks one field out of a composite literal assigned by the statement with the given prefix.
type Capture struct {
	Stmt string // source prefix of the statement
	Path string // dotted key path inside the literal
	Var  string // Lean variable that receives the value
	Type string // Go type
}

type Target struct {
	Func   string // "Recv.Method" or "function"
	Lean   string // name of the generated definition
	Params []Param
	Views  []View
	Slices []SliceView
	Stmts  []StmtView
	Zeros  []Zero
	Skip   []string // statements (normalised source prefix) left out of the translation
	Until  string   // stop before the statement with this source prefix and return Outs
	// Captures: `x := &T{header: H{size: e}}` binds the view variable Var to e (path "header.size")
	Captures []Capture
	// result
	Result  string      // Lean type of the generated definition's result
	Keep    []int       // positions of the Go results that are kept (ignored when Outs is set)
	Outs    []string    // Go identifiers / view variables whose final values are the result
	ErrPos  int         // position of the `error` result (-1: none): non-nil -> none, nil -> some
	Panics  bool        // `panic(...)` -> none, every normal result wrapped in `some`
	Defines [][2]string // package variables (name, Go type) the function assigns before reading: locals
	Doc     string
}

// ---------------------------------------------------------------------------------------------
// source

var (
	fset      = token.NewFileSet()
	funcs     = map[string]*ast.FuncDecl{} // "Recv.Name" / "Name"
	funcFile  = map[string]string{}
	constType = map[string]string{} // package constant -> Go type ("" = untyped)
	constVal  = map[string]constant.Value{}
	// parsedFiles: every non-test file of package atree (stateful.go reads type and var declarations from them)
	parsedFiles []*ast.File
)

func recvTypeName(fd *ast.FuncDecl) string {
	if fd.Recv == nil || len(fd.Recv.List) == 0 {
		return ""
	}
	t := fd.Recv.List[0].Type
	if s, ok := t.(*ast.StarExpr); ok {
		t = s.X
	}
	if id, ok := t.(*ast.Ident); ok {
		return id.Name
	}
	return "?"
}

func load(repo string) error {
	names, err := filepath.Glob(filepath.Join(repo, "*.go"))
	if err != nil || len(names) == 0 {
		return fmt.Errorf("no Go files in %s", repo)
	}
	sort.Strings(names)
	for _, n := range names {
		base := filepath.Base(n)
		if strings.HasSuffix(base, "_test.go") || base == "verif_hooks.go" {
			continue
		}
		f, err := parser.ParseFile(fset, n, nil, 0)
		if err != nil {
			return err
		}
		if f.Name.Name != "atree" {
			continue
		}
		parsedFiles = append(parsedFiles, f) // type / var declarations are read by stateful.go
		for _, d := range f.Decls {
			switch d := d.(type) {
			case *ast.FuncDecl:
				key := d.Name.Name
				if r := recvTypeName(d); r != "" {
					key = r + "." + key
				}
				funcs[key] = d
				funcFile[key] = base
			case *ast.GenDecl:
				if d.Tok != token.CONST {
					continue
				}
				// typed constants: `c T = v`, `c = T(v)`, and iota groups that repeat the first type
				cur := ""
				for _, s := range d.Specs {
					vs := s.(*ast.ValueSpec)
					typ := ""
					if vs.Type != nil {
						typ = src(vs.Type)
					} else if len(vs.Values) == 1 {
						if c, ok := vs.Values[0].(*ast.CallExpr); ok && len(c.Args) == 1 {
							if id, ok := c.Fun.(*ast.Ident); ok && goTypes[id.Name] != "" {
								typ = id.Name
							}
						}
					} else if len(vs.Values) == 0 {
						typ = cur // implicit repetition inside a const group
					}
					cur = typ
					for _, nm := range vs.Names {
						constType[nm.Name] = typ
					}
				}
			}
		}
	}
	return nil
}

func src(n ast.Node) string {
	var b bytes.Buffer
	_ = printer.Fprint(&b, fset, n)
	return b.String()
}

var wsRe = regexp.MustCompile(`\s+`)

func norm(s string) string { return strings.TrimSpace(wsRe.ReplaceAllString(s, " ")) }

// ---------------------------------------------------------------------------------------------
// types

// Go type name -> Lean type
var goTypes = map[string]string{
	"uint8": "UInt8", "byte": "UInt8", "uint16": "UInt16", "uint32": "UInt32", "uint64": "UInt64",
	"uint": "UInt64", "Digest": "UInt64", "bool": "Bool", "int": "Int",
	"slabType": "Int", "slabArrayType": "Int", "slabMapType": "Int",
}

func leanType(t string) string {
	if strings.HasPrefix(t, "list:") {
		return "List " + leanType(t[5:])
	}
	if l, ok := goTypes[t]; ok {
		return l
	}
	fail("no Lean type for Go type %q", t)
	return ""
}

func isUnsigned(t string) bool { return strings.HasPrefix(leanType(t), "UInt") }
func isInt(t string) bool      { return goTypes[t] == "Int" }
func isNum(t string) bool      { return t == "untyped" || (goTypes[t] != "" && t != "bool") }
func width(t string) int {
	switch leanType(t) {
	case "UInt8":
		return 8
	case "UInt16":
		return 16
	case "UInt32":
		return 32
	case "UInt64":
		return 64
	}
	return 0
}

// same Lean representation?
func sameRep(a, b string) bool { return goTypes[a] != "" && goTypes[a] == goTypes[b] }

type transErr struct{ msg string }

func fail(f string, a ...any) { panic(transErr{fmt.Sprintf(f, a...)}) }

// ---------------------------------------------------------------------------------------------
// values and environments

// val is a translated expression.  typ "untyped": lean is a Nat-valued constant expression.
// typ "elem:k": an element of slice view k, lean is its projected value.
type val struct {
	lean string
	typ  string
}

type variable struct{ goName, lean, typ string }

type env []variable

func (e env) lookup(name string) *variable {
	for i := len(e) - 1; i >= 0; i-- {
		if e[i].goName == name {
			return &e[i]
		}
	}
	return nil
}

func (e env) with(v variable) env {
	n := make(env, len(e), len(e)+1)
	copy(n, e)
	return append(n, v)
}

// ---------------------------------------------------------------------------------------------
// translator state for one target

type loopCtx struct {
	state  []variable // loop-carried variables
	hasRet bool
}

type tr struct {
	t           *Target
	fd          *ast.FuncDecl
	recv        string
	views       []viewPat
	slices      []slicePat
	stmtVs      []stmtPat
	aux         []string // auxiliary (loop) definitions, in order
	nloop       int
	resNames    []string // named results
	resTypes    []string
	untilHit    bool
	hdrOverride string // original header of a `for i := range n` loop (translated as a counted loop)
	// innermost range-loop substitution: S[i] -> elem variable
	rangeSub []rangeSub
}

type viewPat struct {
	v   View
	pat ast.Expr
}
type slicePat struct {
	v   SliceView
	pat ast.Expr
}
type stmtPat struct {
	v   StmtView
	pat ast.Expr
}
type rangeSub struct {
	slice int
	idx   string // Go index variable
	elem  string // Lean element variable
}

func (x *tr) parsePat(p string) ast.Expr {
	p = strings.ReplaceAll(p, "RECV", x.recv)
	e, err := parser.ParseExpr(p)
	if err != nil {
		fail("bad pattern %q: %v", p, err)
	}
	return e
}

// structural match of pattern against expression; identifiers X_... bind subexpressions
func match(p, e ast.Expr, b map[string]ast.Expr) bool {
	if pp, ok := p.(*ast.ParenExpr); ok {
		return match(pp.X, e, b)
	}
	if id, ok := p.(*ast.Ident); ok && strings.HasPrefix(id.Name, "X_") {
		if old, ok := b[id.Name]; ok {
			return src(old) == src(e)
		}
		b[id.Name] = e
		return true
	}
	if ee, ok := e.(*ast.ParenExpr); ok {
		return match(p, ee.X, b)
	}
	switch p := p.(type) {
	case *ast.Ident:
		q, ok := e.(*ast.Ident)
		return ok && q.Name == p.Name
	case *ast.BasicLit:
		q, ok := e.(*ast.BasicLit)
		return ok && q.Kind == p.Kind && q.Value == p.Value
	case *ast.SelectorExpr:
		q, ok := e.(*ast.SelectorExpr)
		return ok && q.Sel.Name == p.Sel.Name && match(p.X, q.X, b)
	case *ast.IndexExpr:
		q, ok := e.(*ast.IndexExpr)
		return ok && match(p.X, q.X, b) && match(p.Index, q.Index, b)
	case *ast.SliceExpr:
		q, ok := e.(*ast.SliceExpr)
		if !ok || (p.Low == nil) != (q.Low == nil) || (p.High == nil) != (q.High == nil) || p.Max != nil || q.Max != nil {
			return false
		}
		return match(p.X, q.X, b) && (p.Low == nil || match(p.Low, q.Low, b)) && (p.High == nil || match(p.High, q.High, b))
	case *ast.CallExpr:
		q, ok := e.(*ast.CallExpr)
		if !ok || len(p.Args) != len(q.Args) || !match(p.Fun, q.Fun, b) {
			return false
		}
		for i := range p.Args {
			if !match(p.Args[i], q.Args[i], b) {
				return false
			}
		}
		return true
	case *ast.BinaryExpr:
		q, ok := e.(*ast.BinaryExpr)
		return ok && q.Op == p.Op && match(p.X, q.X, b) && match(p.Y, q.Y, b)
	case *ast.UnaryExpr:
		q, ok := e.(*ast.UnaryExpr)
		return ok && q.Op == p.Op && match(p.X, q.X, b)
	case *ast.StarExpr:
		q, ok := e.(*ast.StarExpr)
		return ok && match(p.X, q.X, b)
	}
	return false
}

// ---------------------------------------------------------------------------------------------
// expressions

func paren(s string) string {
	if regexp.MustCompile(`^[A-Za-z0-9_.']+$`).MatchString(s) || (strings.HasPrefix(s, "(") && balanced(s)) {
		return s
	}
	return "(" + s + ")"
}

// is s one parenthesised group?
func balanced(s string) bool {
	d := 0
	for i, c := range s {
		switch c {
		case '(':
			d++
		case ')':
			d--
			if d == 0 && i != len(s)-1 {
				return false
			}
		}
	}
	return d == 0
}

// coerce converts an untyped constant to typ, checks representation equality otherwise.
func coerce(v val, typ string) val {
	if typ == "" || typ == "any" {
		return v
	}
	if v.typ == "untyped" {
		switch {
		case typ == "untyped":
			return v
		case isUnsigned(typ):
			if regexp.MustCompile(`^[0-9]+$`).MatchString(v.lean) {
				return val{"(" + v.lean + " : " + leanType(typ) + ")", typ}
			}
			return val{"(" + leanType(typ) + ".ofNat " + paren(v.lean) + ")", typ}
		case isInt(typ):
			if regexp.MustCompile(`^[0-9]+$`).MatchString(v.lean) {
				return val{"(" + v.lean + " : Int)", typ}
			}
			return val{"(Int.ofNat " + paren(v.lean) + ")", typ}
		}
		fail("cannot use constant %s as %s", v.lean, typ)
	}
	if v.typ == typ || sameRep(v.typ, typ) {
		return val{v.lean, typ}
	}
	fail("type mismatch: %s has type %s, want %s", v.lean, v.typ, typ)
	return v
}

// convert implements the Go conversion T(v).
func convert(v val, to string) val {
	if v.typ == "untyped" {
		return coerce(v, to)
	}
	from := v.typ
	switch {
	case sameRep(from, to):
		return val{v.lean, to}
	case isUnsigned(from) && isUnsigned(to):
		// widening is exact, narrowing truncates: both are Lean's toUIntN
		return val{"(" + paren(v.lean) + ".to" + leanType(to) + ")", to}
	case isUnsigned(from) && isInt(to):
		return val{"(Int.ofNat " + paren(v.lean) + ".toNat)", to}
	case isInt(from) && isUnsigned(to):
		return val{"(" + leanType(to) + ".ofInt " + paren(v.lean) + ")", to}
	}
	fail("unsupported conversion %s -> %s", from, to)
	return v
}

func (x *tr) constIdent(name string) (val, bool) {
	t, ok := constType[name]
	if !ok {
		return val{}, false
	}
	v := val{"Gen." + name, "untyped"}
	if t != "" {
		if goTypes[t] == "" {
			fail("constant %s has unsupported type %s", name, t)
		}
		return coerce(v, t), true
	}
	return v, true
}

// isConstShift: literal or untyped constant shift counts only
func shiftCount(e ast.Expr) (int, bool) {
	if l, ok := e.(*ast.BasicLit); ok && l.Kind == token.INT {
		c := constant.MakeFromLiteral(l.Value, token.INT, 0)
		n, ok := constant.Int64Val(c)
		return int(n), ok
	}
	return 0, false
}

func isIdent(e ast.Expr, name string) bool {
	id, ok := e.(*ast.Ident)
	return ok && id.Name == name
}

func isSel(e ast.Expr, pkg, name string) bool {
	s, ok := e.(*ast.SelectorExpr)
	return ok && isIdent(s.X, pkg) && s.Sel.Name == name
}

// constNat: an untyped constant expression (literal, untyped package constant, math.MaxUint32)
func (x *tr) constNat(e ast.Expr, en env) (string, bool) {
	switch e := e.(type) {
	case *ast.ParenExpr:
		return x.constNat(e.X, en)
	case *ast.BasicLit:
		if e.Kind == token.INT {
			c := constant.MakeFromLiteral(e.Value, token.INT, 0)
			return c.ExactString(), true
		}
	case *ast.Ident:
		if en.lookup(e.Name) == nil {
			if t, ok := constType[e.Name]; ok && t == "" {
				return "Gen." + e.Name, true
			}
		}
	case *ast.SelectorExpr:
		if v, ok := mathConst(e); ok {
			return v, true
		}
	}
	return "", false
}

// mathConst: the untyped integer constants of package math the decision layer compares with
func mathConst(e ast.Expr) (string, bool) {
	for name, v := range map[string]string{"MaxUint8": "255", "MaxUint16": "65535", "MaxUint32": "4294967295"} {
		if isSel(e, "math", name) {
			return v, true
		}
	}
	return "", false
}

// the three float rules
func (x *tr) floatRule(e ast.Expr, en env) (val, bool) {
	b := map[string]ast.Expr{}
	// uintN(math.Ceil(float64(X) / C)) and int(...)
	if c, ok := e.(*ast.CallExpr); ok && len(c.Args) == 1 {
		if id, ok := c.Fun.(*ast.Ident); ok && goTypes[id.Name] != "" && id.Name != "bool" {
			if match(mustExpr("math.Ceil(float64(X_x) / X_c)"), c.Args[0], b) {
				cn, ok := x.constNat(b["X_c"], en)
				if !ok {
					fail("math.Ceil rule: divisor %s is not an untyped constant", src(b["X_c"]))
				}
				xv := x.expr(b["X_x"], en, "")
				switch {
				case xv.typ != "untyped" && isUnsigned(xv.typ) && width(xv.typ) <= 32 && id.Name == "uint32":
					return val{"(goCeilDivU32 " + paren(convert(xv, "uint32").lean) + " " + paren(cn) + ")", "uint32"}, true
				case isInt(xv.typ) && id.Name == "int":
					return val{"(goCeilDivInt " + paren(xv.lean) + " " + paren(cn) + ")", "int"}, true
				}
				fail("math.Ceil rule: unsupported operand / result types %s / %s", xv.typ, id.Name)
			}
			b = map[string]ast.Expr{}
			if id.Name == "uint32" && match(mustExpr("float64(X_x) * 1.5"), c.Args[0], b) {
				xv := x.expr(b["X_x"], en, "")
				if xv.typ == "untyped" || !isUnsigned(xv.typ) || width(xv.typ) > 32 {
					fail("float rule: operand of float64() must be at most 32 bits wide")
				}
				return val{"(goF64Mul15ToU32 " + paren(convert(xv, "uint32").lean) + ")", "uint32"}, true
			}
		}
	}
	b = map[string]ast.Expr{}
	if match(mustExpr("float64(X_x)*1.5 > X_k"), e, b) {
		kn, ok := x.constNat(b["X_k"], en)
		if !ok {
			fail("float rule: bound %s is not an untyped constant", src(b["X_k"]))
		}
		xv := x.expr(b["X_x"], en, "")
		if xv.typ == "untyped" || !isUnsigned(xv.typ) || width(xv.typ) > 32 {
			fail("float rule: operand of float64() must be at most 32 bits wide")
		}
		return val{"(goF64Mul15Gt " + paren(convert(xv, "uint32").lean) + " " + paren(kn) + ")", "bool"}, true
	}
	return val{}, false
}

func mustExpr(s string) ast.Expr {
	e, err := parser.ParseExpr(s)
	if err != nil {
		panic(err)
	}
	return e
}

// elemOf: is e an element of a view slice?  Returns the Lean text of its projected value.
func (x *tr) elemOf(e ast.Expr, en env) (string, int, bool) {
	switch e := e.(type) {
	case *ast.ParenExpr:
		return x.elemOf(e.X, en)
	case *ast.Ident:
		if v := en.lookup(e.Name); v != nil && strings.HasPrefix(v.typ, "elem:") {
			var k int
			fmt.Sscanf(v.typ, "elem:%d", &k)
			return v.lean, k, true
		}
	case *ast.IndexExpr:
		for k, s := range x.slices {
			if match(s.pat, e.X, map[string]ast.Expr{}) {
				for i := len(x.rangeSub) - 1; i >= 0; i-- {
					rs := x.rangeSub[i]
					if rs.slice == k && isIdent(e.Index, rs.idx) {
						return rs.elem, k, true
					}
				}
				iv := coerce(x.expr(e.Index, en, "int"), "int")
				return "(" + s.v.List + ".getD " + paren(iv.lean) + ".toNat 0)", k, true
			}
		}
	}
	return "", 0, false
}

var identRe = regexp.MustCompile(`[A-Za-z_][A-Za-z0-9_']*`)

// expr translates e; want is a type hint for untyped constants ("" = none).
func (x *tr) expr(e ast.Expr, en env, want string) val {
	// 1. float rules
	if v, ok := x.floatRule(e, en); ok {
		return v
	}
	// 2. scalar views
	for _, vp := range x.views {
		b := map[string]ast.Expr{}
		if match(vp.pat, e, b) {
			out := vp.v.Lean
			keys := make([]string, 0, len(b))
			for k := range b {
				keys = append(keys, k)
			}
			sort.Strings(keys)
			for _, k := range keys {
				mt := vp.v.Metas[k]
				if mt == "skip" { // bound but not used by the template (e.g. the name of the other operand)
					continue
				}
				if mt == "" {
					mt = "int"
				}
				mv := coerce(x.expr(b[k], en, mt), mt)
				out = strings.ReplaceAll(out, "{"+k+"}", paren(mv.lean))
			}
			return val{out, vp.v.Type}
		}
	}
	// 3. slice views: element projections
	for k, s := range x.slices {
		switch s.v.Proj {
		case "":
			if l, kk, ok := x.elemOf(e, en); ok && kk == k {
				return val{l, s.v.Type}
			}
		default:
			if strings.HasSuffix(s.v.Proj, "()") { // method
				if c, ok := e.(*ast.CallExpr); ok && len(c.Args) == 0 {
					if sel, ok := c.Fun.(*ast.SelectorExpr); ok && "."+sel.Sel.Name+"()" == s.v.Proj {
						if l, kk, ok := x.elemOf(sel.X, en); ok && kk == k {
							return val{l, s.v.Type}
						}
					}
				}
			} else if sel, ok := e.(*ast.SelectorExpr); ok && "."+sel.Sel.Name == s.v.Proj {
				if l, kk, ok := x.elemOf(sel.X, en); ok && kk == k {
					return val{l, s.v.Type}
				}
			}
		}
	}
	switch e := e.(type) {
	case *ast.ParenExpr:
		return x.expr(e.X, en, want)
	case *ast.BasicLit:
		if e.Kind != token.INT {
			fail("unsupported literal %s", e.Value)
		}
		c := constant.MakeFromLiteral(e.Value, token.INT, 0)
		return val{c.ExactString(), "untyped"}
	case *ast.Ident:
		switch e.Name {
		case "true", "false":
			return val{e.Name, "bool"}
		}
		if v := en.lookup(e.Name); v != nil {
			return val{v.lean, v.typ}
		}
		if v, ok := x.constIdent(e.Name); ok {
			return v
		}
		fail("identifier %s is not bound (a parameter, view or local is missing, or it is set by a skipped statement)", e.Name)
	case *ast.SelectorExpr:
		if v, ok := mathConst(e); ok {
			return val{v, "untyped"}
		}
		// bare element of a slice (`h := s[i]` handled in assign); otherwise unknown field
		fail("no view for %s", src(e))
	case *ast.IndexExpr:
		if l, k, ok := x.elemOf(e, en); ok {
			return val{l, fmt.Sprintf("elem:%d", k)}
		}
		fail("no view for %s", src(e))
	case *ast.UnaryExpr:
		switch e.Op {
		case token.NOT:
			v := coerce(x.expr(e.X, en, "bool"), "bool")
			return val{"(!" + paren(v.lean) + ")", "bool"}
		case token.SUB:
			v := x.expr(e.X, en, want)
			if v.typ == "untyped" {
				if want != "" && want != "untyped" && !isInt(want) {
					fail("negative constant used as %s", want)
				}
				return val{"(-" + v.lean + " : Int)", "int"}
			}
			if isInt(v.typ) {
				return val{"(-" + paren(v.lean) + ")", v.typ}
			}
			return val{"(0 - " + paren(v.lean) + ")", v.typ} // wrap-around negation
		}
		fail("unsupported unary operator %s", e.Op)
	case *ast.BinaryExpr:
		return x.binary(e, en, want)
	case *ast.CallExpr:
		if id, ok := e.Fun.(*ast.Ident); ok {
			if goTypes[id.Name] != "" && len(e.Args) == 1 && en.lookup(id.Name) == nil {
				return convert(x.expr(e.Args[0], en, id.Name), id.Name)
			}
			if id.Name == "len" && len(e.Args) == 1 {
				for _, s := range x.slices {
					if match(s.pat, e.Args[0], map[string]ast.Expr{}) {
						return val{"(Int.ofNat " + s.v.List + ".length)", "int"}
					}
				}
				fail("len of %s: not a view slice", src(e.Args[0]))
			}
		}
		fail("unsupported call %s", src(e))
	}
	fail("unsupported expression %s (%T)", src(e), e)
	return val{}
}

func (x *tr) binary(e *ast.BinaryExpr, en env, want string) val {
	switch e.Op {
	case token.LAND, token.LOR:
		a := coerce(x.expr(e.X, en, "bool"), "bool")
		b := coerce(x.expr(e.Y, en, "bool"), "bool")
		op := map[token.Token]string{token.LAND: "&&", token.LOR: "||"}[e.Op]
		return val{"(" + paren(a.lean) + " " + op + " " + paren(b.lean) + ")", "bool"}
	case token.SHL, token.SHR:
		a := x.expr(e.X, en, want)
		n, ok := shiftCount(e.Y)
		if !ok {
			fail("shift count %s is not a literal", src(e.Y))
		}
		if a.typ == "untyped" || !isUnsigned(a.typ) {
			fail("shift of a value of type %s", a.typ)
		}
		if n < 0 || n >= width(a.typ) {
			fail("shift count %d not below the width of %s", n, a.typ)
		}
		op := map[token.Token]string{token.SHL: "<<<", token.SHR: ">>>"}[e.Op]
		return val{fmt.Sprintf("(%s %s %d)", paren(a.lean), op, n), a.typ}
	}
	cmp := map[token.Token]string{token.LSS: "<", token.LEQ: "≤", token.GTR: ">", token.GEQ: "≥", token.EQL: "=", token.NEQ: "≠"}
	hint := want
	if _, ok := cmp[e.Op]; ok {
		hint = ""
	}
	a := x.expr(e.X, en, hint)
	b := x.expr(e.Y, en, hint)
	// untyped operands take the other operand's type
	switch {
	case a.typ == "untyped" && b.typ != "untyped":
		a = coerce(a, b.typ)
	case b.typ == "untyped" && a.typ != "untyped":
		b = coerce(b, a.typ)
	case a.typ == "untyped" && b.typ == "untyped":
		if op, ok := cmp[e.Op]; ok {
			return val{"(decide (" + a.lean + " " + op + " " + b.lean + "))", "bool"}
		}
		switch e.Op {
		case token.ADD, token.MUL:
			return val{"(" + paren(a.lean) + " " + e.Op.String() + " " + paren(b.lean) + ")", "untyped"}
		}
		fail("unsupported constant expression %s", src(e))
	}
	if !sameRep(a.typ, b.typ) {
		fail("operands of %s have different types %s and %s", src(e), a.typ, b.typ)
	}
	if op, ok := cmp[e.Op]; ok {
		if a.typ == "bool" && e.Op != token.EQL && e.Op != token.NEQ {
			fail("ordering on bool")
		}
		return val{"(decide (" + paren(a.lean) + " " + op + " " + paren(b.lean) + "))", "bool"}
	}
	if !isNum(a.typ) {
		fail("arithmetic on %s", a.typ)
	}
	t := a.typ
	var op string
	switch e.Op {
	case token.ADD:
		op = "+"
	case token.SUB:
		op = "-"
	case token.MUL:
		op = "*"
	case token.QUO:
		if isInt(t) {
			return val{"(Int.tdiv " + paren(a.lean) + " " + paren(b.lean) + ")", t}
		}
		op = "/"
	case token.REM:
		if isInt(t) {
			return val{"(Int.tmod " + paren(a.lean) + " " + paren(b.lean) + ")", t}
		}
		op = "%"
	case token.AND:
		op = "&&&"
	case token.OR:
		op = "|||"
	case token.XOR:
		op = "^^^"
	default:
		fail("unsupported operator %s", e.Op)
	}
	if isInt(t) && (op == "&&&" || op == "|||" || op == "^^^") {
		fail("bit operation on int")
	}
	return val{"(" + paren(a.lean) + " " + op + " " + paren(b.lean) + ")", t}
}

// ---------------------------------------------------------------------------------------------
// statements (continuation passing; every function returns Lean text whose first line is not
// indented and whose following lines are indented relative to the first)

func indent(s string, n int) string {
	pad := strings.Repeat(" ", n)
	return strings.ReplaceAll(s, "\n", "\n"+pad)
}

type kont func(en env) string

type fctx struct {
	ret  func(en env, results []ast.Expr, bare bool) string // `return ...`
	pnc  func() string                                      // `panic(...)`
	brk  func(en env) string                                // `break` (nil outside loops)
	loop *loopCtx
}

var leanReserved = map[string]bool{"end": true, "from": true, "at": true, "have": true, "show": true, "fun": true,
	"open": true, "in": true, "do": true, "then": true, "else": true, "if": true, "let": true, "match": true,
	"with": true, "by": true, "def": true, "theorem": true, "where": true, "instance": true, "structure": true,
	"class": true, "return": true, "for": true, "mut": true, "Type": true, "Prop": true, "Sort": true,
	"rest_": true, "fuel_": true, "x_": true, "i_": true, "r_": true, "s_": true, "some": true, "none": true,
	"decide": true, "true": true, "false": true}

func (x *tr) leanLocal(goName string, en env) string {
	n := goName
	clash := leanReserved[n]
	for _, p := range x.t.Params {
		if p.Lean == n {
			clash = true
		}
	}
	for _, v := range en {
		if v.lean == n && v.goName != goName {
			clash = true
		}
	}
	if clash {
		n += "_l"
	}
	return n
}

type capHit struct {
	c Capture
	e ast.Expr
}

// captures: the fields of a composite literal that the table asks for
func (x *tr) captures(s ast.Stmt) []capHit {
	var out []capHit
	t := norm(src(s))
	for _, c := range x.t.Captures {
		if !strings.HasPrefix(t, norm(strings.ReplaceAll(c.Stmt, "RECV", x.recv))) {
			continue
		}
		a, ok := s.(*ast.AssignStmt)
		if !ok || len(a.Rhs) != 1 {
			fail("capture %s: not a single assignment", c.Stmt)
		}
		e := a.Rhs[0]
		if u, ok := e.(*ast.UnaryExpr); ok && u.Op == token.AND {
			e = u.X
		}
		for _, key := range strings.Split(c.Path, ".") {
			cl, ok := e.(*ast.CompositeLit)
			if !ok {
				fail("capture %s: %s is not a composite literal", c.Path, src(e))
			}
			var found ast.Expr
			for _, el := range cl.Elts {
				if kv, ok := el.(*ast.KeyValueExpr); ok && isIdent(kv.Key, key) {
					found = kv.Value
				}
			}
			if found == nil {
				fail("capture %s: key %s not found", c.Path, key)
			}
			e = found
		}
		out = append(out, capHit{c, e})
	}
	return out
}

func (x *tr) skipped(s ast.Stmt) bool {
	t := norm(src(s))
	for _, p := range x.t.Skip {
		if strings.HasPrefix(t, norm(strings.ReplaceAll(p, "RECV", x.recv))) {
			covPat("Trans."+x.t.Lean, p)
			covSkip("Trans."+x.t.Lean, s, "Skip") // FX14: recorded in Gen/TransCoverage.lean
			return true
		}
	}
	return false
}

// lhs resolves an assignment target to an environment variable (nil: a new local must be declared)
func (x *tr) lhs(e ast.Expr, en env) *variable {
	for _, vp := range x.views {
		if vp.v.Assign != "" && match(vp.pat, e, map[string]ast.Expr{}) {
			for i := range en {
				if en[i].lean == vp.v.Assign {
					return &en[i]
				}
			}
			// view variable that is only written: declare on first assignment
			return &variable{goName: "view:" + vp.v.Assign, lean: vp.v.Assign, typ: vp.v.Type}
		}
	}
	if id, ok := e.(*ast.Ident); ok {
		if id.Name == "_" {
			return &variable{goName: "_", lean: "_", typ: "any"}
		}
		return en.lookup(id.Name)
	}
	fail("unsupported assignment target %s", src(e))
	return nil
}

// assigned collects the variables of en (declared outside) that the statements assign
func (x *tr) assigned(list []ast.Stmt, en env, acc *[]variable) {
	add := func(e ast.Expr, define bool, inner map[string]bool) {
		if id, ok := e.(*ast.Ident); ok && (id.Name == "_" || inner[id.Name]) {
			return
		}
		var v *variable
		func() {
			defer func() {
				if r := recover(); r != nil {
					if _, ok := r.(transErr); !ok {
						panic(r)
					}
				}
			}()
			v = x.lhs(e, en)
		}()
		if v == nil || v.goName == "_" {
			return
		}
		if strings.HasPrefix(v.goName, "view:") {
			// written-only view variable declared inside a branch: treat as outer only if already in env
			return
		}
		for _, a := range *acc {
			if a.lean == v.lean {
				return
			}
		}
		*acc = append(*acc, *v)
	}
	var walk func(list []ast.Stmt, inner map[string]bool)
	walk = func(list []ast.Stmt, inner map[string]bool) {
		in := map[string]bool{}
		for k := range inner {
			in[k] = true
		}
		for _, s := range list {
			if x.skipped(s) {
				continue
			}
			switch s := s.(type) {
			case *ast.AssignStmt:
				for _, l := range s.Lhs {
					if s.Tok == token.DEFINE {
						// `:=` declares (or shadows) a block-local name: not an assignment to an outer variable
						in[idName(l)] = true
						continue
					}
					add(l, false, in)
				}
			case *ast.IncDecStmt:
				add(s.X, false, in)
			case *ast.ExprStmt:
				for _, sp := range x.stmtVs {
					if match(sp.pat, s.X, map[string]ast.Expr{}) {
						add(ast.NewIdent(sp.v.Assign), false, in)
					}
				}
			case *ast.DeclStmt:
				if gd, ok := s.Decl.(*ast.GenDecl); ok {
					for _, sp := range gd.Specs {
						if vs, ok := sp.(*ast.ValueSpec); ok {
							for _, n := range vs.Names {
								in[n.Name] = true
							}
						}
					}
				}
			case *ast.IfStmt:
				if s.Init != nil {
					walk([]ast.Stmt{s.Init}, in)
				}
				walk(s.Body.List, in)
				if s.Else != nil {
					walk([]ast.Stmt{s.Else}, in)
				}
			case *ast.BlockStmt:
				walk(s.List, in)
			case *ast.SwitchStmt:
				for _, c := range s.Body.List {
					walk(c.(*ast.CaseClause).Body, in)
				}
			case *ast.ForStmt:
				in2 := map[string]bool{}
				for k := range in {
					in2[k] = true
				}
				if s.Init != nil {
					if a, ok := s.Init.(*ast.AssignStmt); ok && a.Tok == token.DEFINE {
						for _, l := range a.Lhs {
							in2[idName(l)] = true
						}
					}
				}
				if s.Post != nil {
					walk([]ast.Stmt{s.Post}, in2)
				}
				walk(s.Body.List, in2)
			case *ast.RangeStmt:
				in2 := map[string]bool{}
				for k := range in {
					in2[k] = true
				}
				if s.Tok == token.DEFINE {
					if s.Key != nil {
						in2[idName(s.Key)] = true
					}
					if s.Value != nil {
						in2[idName(s.Value)] = true
					}
				}
				walk(s.Body.List, in2)
			}
		}
	}
	walk(list, map[string]bool{})
}

func idName(e ast.Expr) string {
	if id, ok := e.(*ast.Ident); ok {
		return id.Name
	}
	return ""
}

// escapes: does the statement list contain `return`, `panic`, or a `break` that leaves it?
func escapes(list []ast.Stmt, inLoop bool) bool {
	for _, s := range list {
		switch s := s.(type) {
		case *ast.ReturnStmt:
			return true
		case *ast.BranchStmt:
			if !inLoop {
				return true
			}
		case *ast.ExprStmt:
			if c, ok := s.X.(*ast.CallExpr); ok && isIdent(c.Fun, "panic") {
				return true
			}
		case *ast.IfStmt:
			if escapes(s.Body.List, inLoop) || (s.Else != nil && escapes([]ast.Stmt{s.Else}, inLoop)) {
				return true
			}
		case *ast.BlockStmt:
			if escapes(s.List, inLoop) {
				return true
			}
		case *ast.SwitchStmt:
			for _, c := range s.Body.List {
				// a `break` inside a switch leaves the switch only; not supported, flagged in stmt()
				if escapes(c.(*ast.CaseClause).Body, inLoop) {
					return true
				}
			}
		case *ast.ForStmt:
			if escapes(s.Body.List, true) {
				return true
			}
		case *ast.RangeStmt:
			if escapes(s.Body.List, true) {
				return true
			}
		}
	}
	return false
}

func hasReturn(list []ast.Stmt) bool {
	found := false
	for _, s := range list {
		ast.Inspect(s, func(n ast.Node) bool {
			switch n := n.(type) {
			case *ast.ReturnStmt:
				found = true
			case *ast.CallExpr:
				if isIdent(n.Fun, "panic") {
					found = true
				}
			case *ast.FuncLit:
				return false
			}
			return true
		})
	}
	return found
}

func tuple(vs []variable) string {
	switch len(vs) {
	case 0:
		return "()"
	case 1:
		return vs[0].lean
	}
	names := make([]string, len(vs))
	for i, v := range vs {
		names[i] = v.lean
	}
	return "(" + strings.Join(names, ", ") + ")"
}

func tupleType(vs []variable) string {
	switch len(vs) {
	case 0:
		return "Unit"
	case 1:
		return leanVarType(vs[0].typ)
	}
	ts := make([]string, len(vs))
	for i, v := range vs {
		ts[i] = leanVarType(v.typ)
	}
	return "(" + strings.Join(ts, " × ") + ")"
}

func (x *tr) stmts(list []ast.Stmt, en env, fc *fctx, k kont) string {
	if len(list) == 0 {
		return k(en)
	}
	s, rest := list[0], list[1:]
	if x.t.Until != "" && strings.HasPrefix(norm(src(s)), norm(strings.ReplaceAll(x.t.Until, "RECV", x.recv))) {
		x.untilHit = true
		return fc.ret(en, nil, false)
	}
	if caps := x.captures(s); len(caps) > 0 {
		covSkip("Trans."+x.t.Lean, s, "Capture (one field of the literal is read)")
		out := ""
		cur := en
		for _, c := range caps {
			v := coerce(x.expr(c.e, cur, c.c.Type), c.c.Type)
			out += "let " + c.c.Var + " : " + leanType(c.c.Type) + " := " + v.lean + "\n"
			if cur.lookup("view:"+c.c.Var) == nil {
				cur = cur.with(variable{"view:" + c.c.Var, c.c.Var, c.c.Type})
			}
		}
		return out + x.stmts(rest, cur, fc, k)
	}
	if x.skipped(s) {
		return x.stmts(rest, en, fc, k)
	}
	next := func(en env) string { return x.stmts(rest, en, fc, k) }
	switch s := s.(type) {
	case *ast.EmptyStmt:
		return next(en)
	case *ast.BlockStmt:
		// inner declarations stay visible to the rest only through shadowing of equal names: Go scoping is
		// respected because an inner `:=` of a NEW name cannot be referenced by `rest`
		return x.stmts(s.List, en, fc, func(en2 env) string { return next(en2[:len(en):len(en)]) })
	case *ast.ReturnStmt:
		return fc.ret(en, s.Results, len(s.Results) == 0)
	case *ast.BranchStmt:
		if s.Tok == token.BREAK && s.Label == nil && fc.brk != nil {
			return fc.brk(en)
		}
		fail("unsupported %s", s.Tok)
	case *ast.ExprStmt:
		if c, ok := s.X.(*ast.CallExpr); ok && isIdent(c.Fun, "panic") {
			return fc.pnc()
		}
		for _, sp := range x.stmtVs {
			b := map[string]ast.Expr{}
			if match(sp.pat, s.X, b) {
				return x.assign1(ast.NewIdent(sp.v.Assign), token.ASSIGN, func(t string) val {
					return coerce(x.expr(b[sp.v.Value], en, sp.v.Type), sp.v.Type)
				}, en, next)
			}
		}
		fail("unsupported statement %s", norm(src(s)))
	case *ast.DeclStmt:
		gd, ok := s.Decl.(*ast.GenDecl)
		if !ok || gd.Tok != token.VAR {
			fail("unsupported declaration %s", norm(src(s)))
		}
		out := ""
		cur := en
		for _, sp := range gd.Specs {
			vs := sp.(*ast.ValueSpec)
			if len(vs.Values) != 0 {
				fail("unsupported declaration with initialiser %s", norm(src(s)))
			}
			for _, n := range vs.Names {
				done := false
				for _, z := range x.t.Zeros {
					if z.Var == n.Name {
						for _, l := range z.Locals {
							ln := x.leanLocal(l[0], cur)
							out += "let " + ln + " : " + leanType(l[1]) + " := 0\n"
							cur = cur.with(variable{l[0], ln, l[1]})
						}
						done = true
					}
				}
				if !done {
					t := src(vs.Type)
					if goTypes[t] == "" {
						fail("`var %s %s`: no zero value known", n.Name, t)
					}
					ln := x.leanLocal(n.Name, cur)
					z := "0"
					if t == "bool" {
						z = "false"
					}
					out += "let " + ln + " : " + leanType(t) + " := " + z + "\n"
					cur = cur.with(variable{n.Name, ln, t})
				}
			}
		}
		return out + next(cur)
	case *ast.IncDecStmt:
		op := token.ADD_ASSIGN
		if s.Tok == token.DEC {
			op = token.SUB_ASSIGN
		}
		return x.assign1(s.X, op, func(t string) val { return coerce(val{"1", "untyped"}, t) }, en, next)
	case *ast.AssignStmt:
		return x.assign(s, en, next)
	case *ast.IfStmt:
		return x.ifStmt(s, en, fc, next)
	case *ast.SwitchStmt:
		return x.switchStmt(s, en, fc, next)
	case *ast.ForStmt:
		return x.forStmt(s, en, fc, next)
	case *ast.RangeStmt:
		return x.rangeStmt(s, en, fc, next)
	}
	fail("unsupported statement %s", norm(src(s)))
	return ""
}

// assign1: `target op= rhs(type of target)`; for `=`/`:=` of a new variable the type comes from rhs("")
func (x *tr) assign1(target ast.Expr, tok token.Token, rhs func(t string) val, en env, next kont) string {
	v := x.lhs(target, en)
	if tok == token.DEFINE || v == nil {
		// new local (`:=`, or first assignment of a package variable listed in Defines)
		name := idName(target)
		if name == "" {
			fail("unsupported declaration target %s", src(target))
		}
		if tok != token.DEFINE {
			fail("assignment to unknown variable %s", name)
		}
		r := rhs("")
		if name == "_" {
			return next(en)
		}
		if r.typ == "untyped" {
			r = coerce(r, "int") // Go: default type of an untyped integer constant
		}
		ln := x.leanLocal(name, en)
		return "let " + ln + " : " + leanVarType(r.typ) + " := " + r.lean + "\n" + next(en.with(variable{name, ln, r.typ}))
	}
	if v.goName == "_" {
		return next(en)
	}
	declare := strings.HasPrefix(v.goName, "view:")
	var r val
	if tok == token.ASSIGN {
		r = coerce(rhs(v.typ), v.typ)
	} else {
		if declare {
			fail("%s of a write-only view variable", tok)
		}
		ops := map[token.Token]string{token.ADD_ASSIGN: "+", token.SUB_ASSIGN: "-", token.MUL_ASSIGN: "*",
			token.OR_ASSIGN: "|||", token.AND_ASSIGN: "&&&", token.XOR_ASSIGN: "^^^"}
		op, ok := ops[tok]
		if !ok {
			fail("unsupported assignment operator %s", tok)
		}
		if isInt(v.typ) && len(op) == 3 {
			fail("bit operation on int")
		}
		b := coerce(rhs(v.typ), v.typ)
		r = val{"(" + v.lean + " " + op + " " + paren(b.lean) + ")", v.typ}
	}
	en2 := en
	if declare {
		en2 = en.with(variable{v.goName, v.lean, v.typ})
	}
	return "let " + v.lean + " : " + leanVarType(v.typ) + " := " + r.lean + "\n" + next(en2)
}

func leanVarType(t string) string {
	if strings.HasPrefix(t, "elem:") {
		return "_"
	}
	return leanType(t)
}

func (x *tr) assign(s *ast.AssignStmt, en env, next kont) string {
	if len(s.Lhs) == 1 && len(s.Rhs) == 1 {
		return x.assign1(s.Lhs[0], s.Tok, func(t string) val { return x.expr(s.Rhs[0], en, t) }, en, next)
	}
	if len(s.Lhs) != len(s.Rhs) || (s.Tok != token.DEFINE && s.Tok != token.ASSIGN) {
		fail("unsupported assignment %s", norm(src(s)))
	}
	// parallel assignment: evaluate all right-hand sides in the OLD environment first
	tmp := make([]val, len(s.Rhs))
	for i := range s.Rhs {
		want := ""
		if v := x.lhs(s.Lhs[i], en); v != nil && s.Tok == token.ASSIGN {
			want = v.typ
		}
		tmp[i] = x.expr(s.Rhs[i], en, want)
	}
	// if a right-hand side mentions a left-hand variable, go through temporaries
	needTmp := false
	for i := range s.Lhs {
		for j := range s.Rhs {
			if i != j && idName(s.Lhs[i]) != "" && mentions(s.Rhs[j], idName(s.Lhs[i])) {
				needTmp = true
			}
		}
	}
	if needTmp {
		fail("parallel assignment with dependent sides %s", norm(src(s)))
	}
	var step func(i int, en env) string
	step = func(i int, en env) string {
		if i == len(s.Lhs) {
			return next(en)
		}
		return x.assign1(s.Lhs[i], s.Tok, func(string) val { return tmp[i] }, en, func(en env) string { return step(i+1, en) })
	}
	return step(0, en)
}

func mentions(e ast.Expr, name string) bool {
	found := false
	ast.Inspect(e, func(n ast.Node) bool {
		if id, ok := n.(*ast.Ident); ok && id.Name == name {
			found = true
		}
		return true
	})
	return found
}

// branches: generic `if c1 then b1 else if c2 then b2 ... else bn` (conds has one entry less than
// bodies when there is an else part; otherwise the else part is empty)
func (x *tr) branches(conds []string, bodies [][]ast.Stmt, en env, fc *fctx, next kont) string {
	if len(bodies) == len(conds) {
		bodies = append(bodies, nil)
	}
	esc := false
	for _, b := range bodies {
		esc = esc || escapes(b, false)
	}
	build := func(tail func(b []ast.Stmt) string) string {
		out := ""
		for i, c := range conds {
			kw := "if "
			if i > 0 {
				kw = "else if "
			}
			out += kw + c + " then\n  " + indent(tail(bodies[i]), 2) + "\n"
		}
		out += "else\n  " + indent(tail(bodies[len(conds)]), 2)
		return out
	}
	inner := func(en2 env) env { return en2[:len(en):len(en)] } // drop block-local declarations
	if esc {
		return build(func(b []ast.Stmt) string {
			return x.stmts(b, en, fc, func(en2 env) string { return next(inner(en2)) })
		})
	}
	var vars []variable
	for _, b := range bodies {
		x.assigned(b, en, &vars)
	}
	if len(vars) == 0 {
		// no effect on the translated state; still translate the bodies so that unsupported constructs surface
		for _, b := range bodies {
			_ = x.stmts(b, en, fc, func(env) string { return "()" })
		}
		return next(en)
	}
	// keep declaration order of the environment
	sort.SliceStable(vars, func(i, j int) bool { return envIndex(en, vars[i].lean) < envIndex(en, vars[j].lean) })
	body := build(func(b []ast.Stmt) string {
		return x.stmts(b, en, fc, func(env) string { return tuple(vars) })
	})
	return "let " + tuple(vars) + " : " + tupleType(vars) + " :=\n  " + indent(body, 2) + "\n" + next(en)
}

func envIndex(en env, lean string) int {
	for i, v := range en {
		if v.lean == lean {
			return i
		}
	}
	return len(en)
}

func (x *tr) ifStmt(s *ast.IfStmt, en env, fc *fctx, next kont) string {
	if s.Init != nil {
		fail("if with init statement")
	}
	var conds []string
	var bodies [][]ast.Stmt
	cur := s
	for {
		c := coerce(x.expr(cur.Cond, en, "bool"), "bool")
		conds = append(conds, c.lean)
		bodies = append(bodies, cur.Body.List)
		if cur.Else == nil {
			break
		}
		if ei, ok := cur.Else.(*ast.IfStmt); ok {
			if ei.Init != nil {
				fail("if with init statement")
			}
			cur = ei
			continue
		}
		bodies = append(bodies, cur.Else.(*ast.BlockStmt).List)
		break
	}
	return x.branches(conds, bodies, en, fc, next)
}

func (x *tr) switchStmt(s *ast.SwitchStmt, en env, fc *fctx, next kont) string {
	if s.Init != nil || s.Tag == nil {
		fail("unsupported switch form")
	}
	tag := x.expr(s.Tag, en, "")
	if tag.typ == "untyped" {
		fail("switch on a constant")
	}
	var conds []string
	var bodies [][]ast.Stmt
	var deflt []ast.Stmt
	hasDefault := false
	for _, c := range s.Body.List {
		cc := c.(*ast.CaseClause)
		for _, st := range cc.Body {
			if b, ok := st.(*ast.BranchStmt); ok {
				fail("unsupported %s inside switch", b.Tok)
			}
		}
		if cc.List == nil {
			hasDefault = true
			deflt = cc.Body
			continue
		}
		var alts []string
		for _, e := range cc.List {
			v := coerce(x.expr(e, en, tag.typ), tag.typ)
			alts = append(alts, "decide ("+paren(tag.lean)+" = "+paren(v.lean)+")")
		}
		conds = append(conds, "("+strings.Join(alts, " || ")+")")
		bodies = append(bodies, cc.Body)
	}
	// Go evaluates cases top to bottom, `default` last wherever it is written
	if hasDefault {
		bodies = append(bodies, deflt)
	}
	if len(conds) == 0 {
		fail("switch without cases")
	}
	return x.branches(conds, bodies, en, fc, next)
}

// ---------------------------------------------------------------------------------------------
// loops

// usedVars: variables of en (deduplicated by Lean name, in order) that occur in text
func usedVars(text string, en env, exclude map[string]bool) []variable {
	toks := map[string]bool{}
	for _, t := range identRe.FindAllString(text, -1) {
		toks[t] = true
	}
	var out []variable
	seen := map[string]bool{}
	for i := len(en) - 1; i >= 0; i-- { // innermost binding of a Lean name wins
		v := en[i]
		if seen[v.lean] || exclude[v.lean] {
			continue
		}
		seen[v.lean] = true
		if toks[v.lean] {
			out = append(out, v)
		}
	}
	sort.SliceStable(out, func(i, j int) bool { return envIndex(en, out[i].lean) < envIndex(en, out[j].lean) })
	return out
}

func paramDecls(vs []variable) string {
	s := ""
	for _, v := range vs {
		s += " (" + v.lean + " : " + leanVarTypeP(v.typ) + ")"
	}
	return s
}

func leanVarTypeP(t string) string {
	if strings.HasPrefix(t, "elem:") {
		fail("slice element used as a loop parameter")
	}
	return leanType(t)
}

func argList(vs []variable) string {
	s := ""
	for _, v := range vs {
		s += " " + v.lean
	}
	return s
}

// afterLoop builds the call site: destructure the state (and dispatch an early return)
func (x *tr) afterLoop(call string, lc *loopCtx, en env, next kont) string {
	if lc.hasRet {
		return "match " + call + " with\n| .ret r_ => r_\n| .done " + tuple(lc.state) + " =>\n  " + indent(next(en), 2)
	}
	if len(lc.state) == 0 {
		return next(en)
	}
	return "let " + tuple(lc.state) + " : " + tupleType(lc.state) + " := " + call + "\n" + next(en)
}

func (x *tr) loopResultType(lc *loopCtx) string {
	if lc.hasRet {
		return "Loop (" + x.t.Result + ") " + tupleType(lc.state)
	}
	return tupleType(lc.state)
}

func (x *tr) loopFctx(outer *fctx, lc *loopCtx) *fctx {
	done := func(en env) string {
		if lc.hasRet {
			return ".done " + tuple(lc.state)
		}
		return tuple(lc.state)
	}
	return &fctx{
		ret: func(en env, r []ast.Expr, bare bool) string {
			if outer.loop != nil {
				fail("return inside nested loops")
			}
			return ".ret (" + outer.ret(en, r, bare) + ")"
		},
		pnc: func() string {
			if outer.loop != nil {
				fail("panic inside nested loops")
			}
			return ".ret (" + outer.pnc() + ")"
		},
		brk:  done,
		loop: lc,
	}
}

func (x *tr) rangeStmt(s *ast.RangeStmt, en env, fc *fctx, next kont) string {
	if s.Tok != token.DEFINE && !(s.Key == nil && s.Value == nil) {
		fail("range with assignment to existing variables")
	}
	// range over an int: `for i := range n`
	sl := -1
	for k, sp := range x.slices {
		if match(sp.pat, s.X, map[string]ast.Expr{}) {
			sl = k
		}
	}
	if sl < 0 {
		if s.Value != nil {
			fail("range over %s: not a view slice", src(s.X))
		}
		key := "i_"
		if s.Key != nil && idName(s.Key) != "_" {
			key = idName(s.Key)
		}
		init := &ast.AssignStmt{Lhs: []ast.Expr{ast.NewIdent(key)}, Tok: token.DEFINE, Rhs: []ast.Expr{&ast.BasicLit{Kind: token.INT, Value: "0"}}}
		cond := &ast.BinaryExpr{X: ast.NewIdent(key), Op: token.LSS, Y: s.X}
		post := &ast.IncDecStmt{X: ast.NewIdent(key), Tok: token.INC}
		nv := x.expr(s.X, en, "int")
		if nv.typ == "untyped" || !isInt(nv.typ) {
			if nv.typ != "untyped" {
				fail("range over %s of type %s", src(s.X), nv.typ)
			}
		}
		x.hdrOverride = "for " + rangeHeader(s)
		return x.forStmt(&ast.ForStmt{Init: init, Cond: cond, Post: post, Body: s.Body}, en, fc, next)
	}
	sp := x.slices[sl]
	x.nloop++
	name := fmt.Sprintf("%s.loop%d", x.t.Lean, x.nloop)
	lc := &loopCtx{hasRet: hasReturn(s.Body.List)}
	x.assigned(s.Body.List, en, &lc.state)
	sort.SliceStable(lc.state, func(i, j int) bool { return envIndex(en, lc.state[i].lean) < envIndex(en, lc.state[j].lean) })

	idxGo, idxLean := "", "i_"
	if s.Key != nil && idName(s.Key) != "_" {
		idxGo = idName(s.Key)
		idxLean = x.leanLocal(idxGo, en)
	}
	elemLean := "x_"
	body := en
	if idxGo != "" {
		body = body.with(variable{idxGo, idxLean, "int"})
	}
	if s.Value != nil && idName(s.Value) != "_" {
		elemLean = x.leanLocal(idName(s.Value), body)
		body = body.with(variable{idName(s.Value), elemLean, fmt.Sprintf("elem:%d", sl)})
	}
	x.rangeSub = append(x.rangeSub, rangeSub{sl, idxGo, elemLean})
	lf := x.loopFctx(fc, lc)
	recur := "RECUR_" + fmt.Sprint(x.nloop)
	bodyText := x.stmts(s.Body.List, body, lf, func(env) string { return recur })
	x.rangeSub = x.rangeSub[:len(x.rangeSub)-1]

	excl := map[string]bool{idxLean: true, elemLean: true}
	for _, v := range lc.state {
		excl[v.lean] = true
	}
	params := usedVars(bodyText, en, excl)
	call := name + argList(params)
	bodyText = strings.ReplaceAll(bodyText, recur, call+" rest_ ("+idxLean+" + 1) "+tuple(lc.state))
	def := fmt.Sprintf("/-- loop %d of `%s`: `%s` -/\ndef %s%s :\n    List %s → Int → %s → %s\n", x.nloop, x.t.Func,
		norm("for "+rangeHeader(s)), name, paramDecls(params), leanType(sp.v.Type), tupleType(lc.state), x.loopResultType(lc))
	def += "  | [], _, " + tuple(lc.state) + " => " + lf.brk(en) + "\n"
	def += "  | " + elemLean + " :: rest_, " + idxLean + ", " + tuple(lc.state) + " =>\n    " + indent(bodyText, 4) + "\n"
	x.aux = append(x.aux, def)
	return x.afterLoop(call+" "+sp.v.List+" 0 "+tuple(lc.state), lc, en, next)
}

func rangeHeader(s *ast.RangeStmt) string {
	h := ""
	if s.Key != nil {
		h = src(s.Key)
		if s.Value != nil {
			h += ", " + src(s.Value)
		}
		h += " := "
	}
	return h + "range " + src(s.X)
}

func (x *tr) forStmt(s *ast.ForStmt, en env, fc *fctx, next kont) string {
	if s.Cond == nil {
		fail("for without condition")
	}
	x.nloop++
	n := x.nloop
	name := fmt.Sprintf("%s.loop%d", x.t.Lean, n)
	// init: `i := e` declares loop-local, loop-carried variables
	pre := ""
	cur := en
	var initVars []variable
	if s.Init != nil {
		a, ok := s.Init.(*ast.AssignStmt)
		if !ok || a.Tok != token.DEFINE {
			fail("unsupported loop initialiser %s", norm(src(s.Init)))
		}
		pre = x.assign(a, en, func(en2 env) string { cur = en2; return "" })
		initVars = append(initVars, cur[len(en):]...)
	}
	lc := &loopCtx{hasRet: hasReturn(s.Body.List)}
	body := append([]ast.Stmt{}, s.Body.List...)
	var post []ast.Stmt
	if s.Post != nil {
		post = []ast.Stmt{s.Post}
	}
	x.assigned(append(append([]ast.Stmt{}, body...), post...), cur, &lc.state)
	// loop-local variables of the header are always carried
	for _, v := range initVars {
		found := false
		for _, st := range lc.state {
			found = found || st.lean == v.lean
		}
		if !found {
			lc.state = append(lc.state, v)
		}
	}
	sort.SliceStable(lc.state, func(i, j int) bool { return envIndex(cur, lc.state[i].lean) < envIndex(cur, lc.state[j].lean) })

	cond := coerce(x.expr(s.Cond, cur, "bool"), "bool")
	fuel := x.fuelOf(s, cur, lc)
	lf := x.loopFctx(fc, lc)
	recur := "RECUR_" + fmt.Sprint(n)
	bodyText := x.stmts(append(body, post...), cur, lf, func(env) string { return recur })
	excl := map[string]bool{}
	for _, v := range lc.state {
		excl[v.lean] = true
	}
	params := usedVars(bodyText+" "+cond.lean, cur, excl)
	call := name + argList(params)
	bodyText = strings.ReplaceAll(bodyText, recur, call+" fuel_ "+tuple(lc.state))
	hdr := "for "
	if x.hdrOverride != "" {
		hdr, x.hdrOverride = x.hdrOverride+"  =  for ", ""
	}
	if s.Init != nil || s.Post != nil {
		hdr += nodeOr(s.Init) + "; " + src(s.Cond) + "; " + nodeOr(s.Post)
	} else {
		hdr += src(s.Cond)
	}
	def := fmt.Sprintf("/-- loop %d of `%s`: `%s` (fuel: %s) -/\ndef %s%s :\n    Nat → %s → %s\n", n, x.t.Func, norm(hdr), fuel.doc,
		name, paramDecls(params), tupleType(lc.state), x.loopResultType(lc))
	def += "  | 0, " + tuple(lc.state) + " => " + lf.brk(cur) + "\n"
	def += "  | fuel_ + 1, " + tuple(lc.state) + " =>\n    if " + cond.lean + " then\n      " + indent(bodyText, 6) + "\n    else\n      " + lf.brk(cur) + "\n"
	x.aux = append(x.aux, def)
	// after the loop the header's variables are out of scope
	var outer loopCtx
	outer = *lc
	after := x.afterLoop(call+" "+fuel.lean+" "+tuple(lc.state), &outer, cur, func(en2 env) string { return next(en2[:len(en):len(en)]) })
	return pre + after
}

func nodeOr(n ast.Node) string {
	if n == nil || n == ast.Stmt(nil) {
		return ""
	}
	return src(n)
}

type fuelSpec struct{ lean, doc string }

// fuelOf derives the fuel from the loop header (see the package comment)
func (x *tr) fuelOf(s *ast.ForStmt, en env, lc *loopCtx) fuelSpec {
	c, ok := s.Cond.(*ast.BinaryExpr)
	if !ok {
		fail("unsupported loop condition %s", src(s.Cond))
	}
	isState := func(e ast.Expr) bool {
		for _, v := range lc.state {
			if v.goName == idName(e) && idName(e) != "" {
				return true
			}
		}
		return false
	}
	intVal := func(e ast.Expr) string { return paren(coerce(x.expr(e, en, "int"), "int").lean) }
	if s.Post != nil {
		p, ok := s.Post.(*ast.IncDecStmt)
		if !ok {
			fail("unsupported loop post statement %s", src(s.Post))
		}
		iv := idName(p.X)
		// the loop variable must not be assigned in the body
		var inBody []variable
		x.assigned(s.Body.List, en, &inBody)
		for _, v := range inBody {
			if v.goName == iv {
				fail("loop variable %s assigned in the loop body", iv)
			}
		}
		switch {
		case p.Tok == token.INC && c.Op == token.LSS && isIdent(c.X, iv):
			// bound must not change in the loop
			for _, v := range lc.state {
				if mentions(c.Y, v.goName) {
					fail("loop bound %s changes inside the loop", src(c.Y))
				}
			}
			return fuelSpec{"(" + intVal(c.Y) + " - " + intVal(c.X) + ").toNat", src(c.Y) + " - " + iv}
		case p.Tok == token.DEC && c.Op == token.GEQ && isIdent(c.X, iv) && isZero(c.Y):
			return fuelSpec{"(" + intVal(c.X) + " + 1).toNat", iv + " + 1"}
		}
		fail("unsupported loop header %s; %s", src(s.Cond), src(s.Post))
	}
	if c.Op == token.LSS && isState(c.X) && isState(c.Y) {
		return fuelSpec{"(" + intVal(c.Y) + " - " + intVal(c.X) + ").toNat", src(c.Y) + " - " + src(c.X)}
	}
	fail("unsupported loop condition %s", src(s.Cond))
	return fuelSpec{}
}

func isZero(e ast.Expr) bool {
	l, ok := e.(*ast.BasicLit)
	return ok && l.Kind == token.INT && l.Value == "0"
}

// ---------------------------------------------------------------------------------------------
// one target

func fieldNames(fl *ast.FieldList) (names []string, types []string) {
	if fl == nil {
		return
	}
	for _, f := range fl.List {
		t := src(f.Type)
		if len(f.Names) == 0 {
			names = append(names, "")
			types = append(types, t)
		}
		for _, n := range f.Names {
			names = append(names, n.Name)
			types = append(types, t)
		}
	}
	return
}

func (x *tr) signature() string {
	s := "def " + x.t.Lean
	for _, p := range x.t.Params {
		s += " (" + p.Lean + " : " + leanType(p.Type) + ")"
	}
	return s + " :\n    " + x.t.Result
}

func translate(t *Target) (text string, reason string) {
	x := &tr{t: t}
	defer func() {
		if r := recover(); r != nil {
			te, ok := r.(transErr)
			if !ok {
				panic(r)
			}
			reason = te.msg
			text = fmt.Sprintf("/-- `%s`: NOT TRANSLATED (%s) -/\n%s :=\n  untranslatable _\n", t.Func, oneLine(te.msg), x.signature())
		}
	}()
	fd := funcs[t.Func]
	if fd == nil {
		fail("function %s not found in the package", t.Func)
	}
	if fd.Body == nil {
		fail("function %s has no body", t.Func)
	}
	x.fd = fd
	if fd.Recv != nil && len(fd.Recv.List[0].Names) == 1 {
		x.recv = fd.Recv.List[0].Names[0].Name
	} else {
		x.recv = "RECV"
	}
	for _, v := range t.Views {
		x.views = append(x.views, viewPat{v, x.parsePat(v.Pat)})
	}
	for _, v := range t.Slices {
		x.slices = append(x.slices, slicePat{v, x.parsePat(v.Pat)})
	}
	for _, v := range t.Stmts {
		x.stmtVs = append(x.stmtVs, stmtPat{v, x.parsePat(v.Pat)})
	}
	pnames, ptypes := fieldNames(fd.Type.Params)
	x.resNames, x.resTypes = fieldNames(fd.Type.Results)
	var en env
	for _, p := range t.Params {
		switch {
		case p.Go == "":
			en = en.with(variable{"param:" + p.Lean, p.Lean, p.Type})
		case strings.HasPrefix(p.Go, "#"):
			var k int
			fmt.Sscanf(p.Go, "#%d", &k)
			if k >= len(pnames) {
				fail("Go function has no parameter #%d", k)
			}
			if !sameRep(ptypes[k], p.Type) {
				fail("Go parameter %s has type %s, table says %s", pnames[k], ptypes[k], p.Type)
			}
			en = en.with(variable{pnames[k], p.Lean, p.Type})
		default:
			en = en.with(variable{p.Go, p.Lean, p.Type})
		}
	}
	pre := ""
	// package variables that the function sets: locals (0 until assigned; checked: assigned before read)
	for _, d := range t.Defines {
		x.checkAssignedFirst(fd, d[0])
		pre += "let " + d[0] + " : " + leanType(d[1]) + " := 0\n"
		en = en.with(variable{d[0], d[0], d[1]})
	}
	// named results are zero-initialised locals
	for i, n := range x.resNames {
		if n == "" || n == "_" {
			continue
		}
		if goTypes[x.resTypes[i]] == "" {
			continue // error / SlabID results: not representable, must not be read
		}
		ln := x.leanLocal(n, en)
		z := "0"
		if x.resTypes[i] == "bool" {
			z = "false"
		}
		pre += "let " + ln + " : " + leanType(x.resTypes[i]) + " := " + z + "\n"
		en = en.with(variable{n, ln, x.resTypes[i]})
	}
	wrap := func(s string) string {
		if t.ErrPos >= 0 || t.Panics {
			return "some " + paren(s)
		}
		return s
	}
	outs := func(en env) string {
		var parts []string
		for _, o := range t.Outs {
			v := en.lookup(o)
			if v == nil {
				v = en.lookup("view:" + o)
			}
			if v == nil {
				v = en.lookup("param:" + o)
			}
			if v == nil {
				fail("result variable %s is not set", o)
			}
			parts = append(parts, v.lean)
		}
		if len(parts) == 1 {
			return parts[0]
		}
		return "(" + strings.Join(parts, ", ") + ")"
	}
	fc := &fctx{}
	fc.pnc = func() string {
		if !t.Panics {
			fail("panic(...) in a function whose table entry does not model panics")
		}
		return "none"
	}
	fc.ret = func(en env, rs []ast.Expr, bare bool) string {
		if rs == nil && !bare { // reached the `Until` statement
			return wrap(outs(en))
		}
		if bare && len(x.resNames) > 0 {
			for _, n := range x.resNames {
				if n == "" {
					fail("bare return without named results")
				}
				rs = append(rs, ast.NewIdent(n))
			}
		}
		if t.ErrPos >= 0 {
			if t.ErrPos >= len(rs) {
				fail("return has no result #%d", t.ErrPos)
			}
			if !isIdent(rs[t.ErrPos], "nil") {
				return "none"
			}
		}
		if len(t.Outs) > 0 {
			return wrap(outs(en))
		}
		var parts []string
		for _, k := range t.Keep {
			if k >= len(rs) {
				fail("return has no result #%d", k)
			}
			want := ""
			if k < len(x.resTypes) && goTypes[x.resTypes[k]] != "" {
				want = x.resTypes[k]
			}
			v := x.expr(rs[k], en, want)
			if want != "" {
				v = coerce(v, want)
			} else if v.typ == "untyped" {
				fail("constant result of unknown type")
			}
			parts = append(parts, v.lean)
		}
		if len(parts) == 1 {
			return wrap(parts[0])
		}
		return wrap("(" + strings.Join(parts, ", ") + ")")
	}
	body := x.stmts(fd.Body.List, en, fc, func(en env) string {
		if len(t.Outs) > 0 {
			return wrap(outs(en))
		}
		fail("function body can end without return")
		return ""
	})
	if t.Until != "" && !x.untilHit {
		fail("statement `%s ...` (where the translation stops) not found", t.Until)
	}
	doc := fmt.Sprintf("/-- `%s` (%s)", t.Func, funcFile[t.Func])
	if t.Doc != "" {
		doc += ": " + t.Doc
	}
	if len(t.Skip) > 0 {
		doc += "\n    Statements left out (see targets.go):"
		for _, s := range t.Skip {
			doc += "\n      `" + norm(s) + " ...`"
		}
	}
	if t.Until != "" {
		doc += "\n    The translation stops before `" + norm(t.Until) + " ...`."
	}
	doc += " -/\n"
	out := strings.Join(x.aux, "\n")
	if out != "" {
		out += "\n"
	}
	return out + doc + x.signature() + " :=\n  " + indent(pre+body, 2) + "\n", ""
}

// checkAssignedFirst: the first occurrence of the package variable in the body is the target of `=`
func (x *tr) checkAssignedFirst(fd *ast.FuncDecl, name string) {
	var first *ast.Ident
	ast.Inspect(fd.Body, func(n ast.Node) bool {
		if id, ok := n.(*ast.Ident); ok && id.Name == name && first == nil {
			first = id
		}
		return true
	})
	if first == nil {
		fail("package variable %s is not assigned", name)
	}
	ok := false
	ast.Inspect(fd.Body, func(n ast.Node) bool {
		if a, isA := n.(*ast.AssignStmt); isA && a.Tok == token.ASSIGN {
			for _, l := range a.Lhs {
				if l == ast.Expr(first) {
					ok = true
				}
			}
		}
		return true
	})
	if !ok {
		fail("package variable %s is read before it is assigned", name)
	}
}

func oneLine(s string) string { return norm(strings.ReplaceAll(s, "-/", "- /")) }

// ---------------------------------------------------------------------------------------------

const prelude = `-- GENERATED by harness/cmd/gotrans from the atree sources on every check run. Do not edit.
-- Go -> Lean translation (machine-integer semantics) of the size / threshold / flag / routing decision
-- functions of package atree.  The subset of Go that is supported, the float rules and the VIEW tables
-- are documented in harness/cmd/gotrans/main.go and targets.go.
import AtreeModel.Gen.Consts
set_option linter.unusedVariables false
namespace Atree.Gen.Trans

/-- result of a translated loop whose body contains ` + "`return`" + ` -/
inductive Loop (ρ σ : Type) where
  | ret (r : ρ)
  | done (s : σ)

/-- body of a whitelisted function that gotrans could not translate (see ` + "`untranslatedFunctions`" + `) -/
def untranslatable (α : Type) [Inhabited α] : α := default

/-- ` + "`uint32(math.Ceil(float64(x) / c))`" + ` for a 32-bit x and a constant 1 ≤ c < 2^20 (exact, see main.go) -/
def goCeilDivU32 (x : UInt32) (c : Nat) : UInt32 := UInt32.ofNat ((x.toNat + c - 1) / c)

/-- ` + "`int(math.Ceil(float64(x) / c))`" + ` for a slice length x -/
def goCeilDivInt (x : Int) (c : Nat) : Int := Int.ofNat ((x.toNat + c - 1) / c)

/-- ` + "`float64(x) * 1.5 > k`" + ` for a 32-bit x (the product is exact in float64) -/
def goF64Mul15Gt (x : UInt32) (k : Nat) : Bool := decide (3 * x.toNat > 2 * k)

/-- ` + "`uint32(float64(x) * 1.5)`" + ` for a 32-bit x (exact product, truncating conversion) -/
def goF64Mul15ToU32 (x : UInt32) : UInt32 := UInt32.ofNat (3 * x.toNat / 2)

/-- ` + "`bytes.Compare(a[:], b[:])`" + ` for two 8-byte arrays seen as big-endian numbers -/
def goCmpU64 (a b : UInt64) : Int := if a < b then -1 else if a = b then 0 else 1

`

func main() {
	repo := flag.String("repo", "/repo", "atree source directory")
	out := flag.String("out", "", "output directory (lean/AtreeModel/Gen)")
	pin := flag.String("pin", "", "maintenance: also (re)write the reviewed coverage literals into this directory (lean/AtreeProofs/Props)")
	flag.Parse()
	if *out == "" {
		fmt.Fprintln(os.Stderr, "gotrans: -out required")
		os.Exit(2)
	}
	if err := load(*repo); err != nil {
		fmt.Fprintln(os.Stderr, "gotrans:", err)
		os.Exit(2)
	}
	var b strings.Builder
	b.WriteString(prelude)
	var failed []string
	for i := range targets {
		t := &targets[i]
		text, reason := translate(t)
		if reason != "" {
			failed = append(failed, t.Lean)
			fmt.Fprintf(os.Stderr, "gotrans: %s not translated: %s\n", t.Func, reason)
		}
		b.WriteString(text)
		b.WriteString("\n")
	}
	b.WriteString("/-- whitelisted functions that could not be translated (an obligation says this list is empty) -/\n")
	b.WriteString("def untranslatedFunctions : List String := [")
	for i, f := range failed {
		if i > 0 {
			b.WriteString(", ")
		}
		b.WriteString(fmt.Sprintf("%q", f))
	}
	b.WriteString("]\n\n/-- every whitelisted function, by the name of its generated definition -/\ndef translatedTargets : List String := [")
	for i := range targets {
		if i > 0 {
			b.WriteString(", ")
		}
		b.WriteString(fmt.Sprintf("%q", targets[i].Lean))
	}
	b.WriteString("]\n\nend Atree.Gen.Trans\n")
	if err := os.MkdirAll(*out, 0o755); err != nil {
		fmt.Fprintln(os.Stderr, "gotrans:", err)
		os.Exit(2)
	}
	// the stateful engine (storage state machine) writes <out>/TransStorage.lean
	writeStateful(*out)
	// the slab engine (array slab restructuring) writes <out>/TransSlabs.lean
	writeSlabs(*out)
	// the object engine (slab-level restructuring of the maps) writes <out>/TransMapSlabs.lean
	writeObjMaps(*out)
	writeObjDescent(*out) // the object engine again (descent and top level of the maps): <out>/TransMapDescent.lean
	writeObjElems(*out)   // the object engine again (element layer of the maps): <out>/TransMapElems.lean, TransMapElem.lean
	// FX14: what the engines did NOT read: <out>/TransCoverage.lean (coverage.go)
	cov := writeCoverage(*out)
	if *pin != "" {
		writePins(*pin, cov) // maintenance: re-pin the reviewed literals of lean/AtreeProofs/Props/TransCoverage*.lean
	}
	path := filepath.Join(*out, "Trans.lean")
	content := b.String()
	if old, err := os.ReadFile(path); err == nil && string(old) == content {
		return // unchanged: keep the timestamp so that lake rebuilds nothing
	}
	tmp := fmt.Sprintf("%s.%d.tmp", path, os.Getpid())
	if err := os.WriteFile(tmp, []byte(content), 0o644); err != nil {
		fmt.Fprintln(os.Stderr, "gotrans:", err)
		os.Exit(2)
	}
	if err := os.Rename(tmp, path); err != nil {
		fmt.Fprintln(os.Stderr, "gotrans:", err)
		os.Exit(2)
	}
}
