// repro decodes one register (hex on argv[1], slab id index argv[2]) with the real decoder and
// prints the outcome of each stage with a stack trace on panic.  Development helper.
package main

import (
	"encoding/hex"
	"fmt"
	"os"
	"runtime/debug"
	"strconv"

	"github.com/onflow/atree"
	"verifharness/hx"
)

func stage(name string, f func()) {
	defer func() {
		if r := recover(); r != nil {
			fmt.Printf("PANIC in %s: %v\n%s\n", name, r, debug.Stack())
			os.Exit(1)
		}
	}()
	f()
	fmt.Println(name, "ok")
}

func main() {
	data, err := hex.DecodeString(os.Args[1])
	if err != nil {
		panic(err)
	}
	idx, _ := strconv.Atoi(os.Args[2])
	id := hx.MkIDn(1, uint64(idx))
	var s atree.Slab
	stage("DecodeSlab", func() {
		s, err = atree.DecodeSlab(id, data, hx.DecMode(), hx.DecodeStorable, hx.DecodeTypeInfo)
	})
	if err != nil {
		fmt.Println("decode error:", err)
		return
	}
	stage("ByteSize", func() { _ = s.ByteSize() })
	stage("ChildStorables", func() { _ = s.ChildStorables() })
	stage("EncodeSlab", func() { b, e := atree.EncodeSlab(s, hx.EncMode()); fmt.Printf("%x %v\n", b, e) })
	stage("VerifDumpSlab", func() { fmt.Println(atree.VerifDumpSlab(s, hx.Describe)) })
}
