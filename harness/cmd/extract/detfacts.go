package main

// Determinism facts (C04 / C16):
//
//   1. rangeOverMap*            every `for … range <expr>` of the package whose ranged expression is
//                               map-typed (or of a type this file cannot resolve), split by whether the
//                               enclosing function is reachable from the encode / commit roots through
//                               an intra-package static call graph;
//   2. bufferPoolUses           what every function that takes a buffer out of `bufferPool` /
//                               `typeIDBufferPool` does with it (the `defer put…` directly after the
//                               get, every other occurrence of the variable classified);
//   3. packageVarWriters        for every package-level variable: the functions that write it.
//
// Everything is go/ast only.  Types are resolved from declarations (struct fields, parameters,
// results, `:=` from make / composite literals / calls of package functions and methods); an
// expression whose type cannot be resolved is NEVER silently dropped: it is listed separately
// ("maybe").  Method calls are resolved by name, narrowed by the receiver's declared type when
// that is a concrete named type of the package; a call through an interface or an unresolved
// receiver has an edge to EVERY method of that name (over-approximation).  A reference to a
// package function or method that is not a call (a function value) is an edge as well.

import (
	"fmt"
	"go/ast"
	"go/parser"
	"go/token"
	"path/filepath"
	"sort"
	"strings"
)

// ---------------------------------------------------------------------------------------------
// package index

type pkgIndex struct {
	types         map[string]ast.Expr                 // named type -> its definition (TypeSpec.Type)
	typeParams    map[string]bool                     // generic named types
	funcs         map[string]*ast.FuncDecl            // package-level functions
	methods       map[string]map[string]*ast.FuncDecl // receiver type -> method name -> decl
	methodsByName map[string][]*ast.FuncDecl          // method name -> decls
	vars          map[string]ast.Expr                 // package-level variable -> type (nil = unresolved)
	varSpecs      map[*ast.ValueSpec]bool             // the package-level `var` specs
	varFile       map[string]string                   // package-level variable -> file
	varOrder      []string                            // package-level variables, sorted
	imports       map[string]bool                     // local names of imported packages
	fieldNames    map[string]bool                     // every struct field name of the package
}

var pidx *pkgIndex

func recvTypeName(fd *ast.FuncDecl) string {
	if fd.Recv == nil || len(fd.Recv.List) != 1 {
		return ""
	}
	return namedOf(fd.Recv.List[0].Type)
}

// namedOf: the name of a (pointer to a) named type of this package, "" otherwise.
func namedOf(t ast.Expr) string {
	for {
		switch x := t.(type) {
		case *ast.StarExpr:
			t = x.X
		case *ast.ParenExpr:
			t = x.X
		case *ast.IndexExpr: // instantiated generic type
			t = x.X
		case *ast.Ident:
			return x.Name
		default:
			return ""
		}
	}
}

func buildIndex(fileSet map[string]*ast.File) *pkgIndex {
	p := &pkgIndex{
		types: map[string]ast.Expr{}, typeParams: map[string]bool{}, funcs: map[string]*ast.FuncDecl{},
		methods: map[string]map[string]*ast.FuncDecl{}, methodsByName: map[string][]*ast.FuncDecl{},
		vars: map[string]ast.Expr{}, varSpecs: map[*ast.ValueSpec]bool{}, varFile: map[string]string{},
		imports: map[string]bool{}, fieldNames: map[string]bool{},
	}
	var names []string
	for n := range fileSet {
		names = append(names, n)
	}
	sort.Strings(names)
	for _, fn := range names {
		f := fileSet[fn]
		for _, im := range f.Imports {
			path := strings.Trim(im.Path.Value, `"`)
			name := path[strings.LastIndex(path, "/")+1:]
			if name == "v2" { // github.com/fxamacker/cbor/v2
				parts := strings.Split(path, "/")
				name = parts[len(parts)-2]
			}
			if im.Name != nil {
				name = im.Name.Name
			}
			p.imports[name] = true
		}
		for _, d := range f.Decls {
			switch x := d.(type) {
			case *ast.FuncDecl:
				if x.Recv == nil {
					p.funcs[x.Name.Name] = x
				} else if r := recvTypeName(x); r != "" {
					if p.methods[r] == nil {
						p.methods[r] = map[string]*ast.FuncDecl{}
					}
					p.methods[r][x.Name.Name] = x
					p.methodsByName[x.Name.Name] = append(p.methodsByName[x.Name.Name], x)
				}
			case *ast.GenDecl:
				for _, s := range x.Specs {
					switch sp := s.(type) {
					case *ast.TypeSpec:
						p.types[sp.Name.Name] = sp.Type
						if sp.TypeParams != nil {
							p.typeParams[sp.Name.Name] = true
						}
					case *ast.ValueSpec:
						if x.Tok != token.VAR {
							continue
						}
						p.varSpecs[sp] = true
						for i, nm := range sp.Names {
							if nm.Name == "_" {
								continue
							}
							p.varFile[nm.Name] = fn
							p.varOrder = append(p.varOrder, nm.Name)
							switch {
							case sp.Type != nil:
								p.vars[nm.Name] = sp.Type
							case i < len(sp.Values):
								p.vars[nm.Name] = nil // resolved lazily below
							}
						}
					}
				}
			}
		}
	}
	for _, t := range p.types {
		ast.Inspect(t, func(n ast.Node) bool {
			if st, ok := n.(*ast.StructType); ok {
				for _, fl := range st.Fields.List {
					for _, nm := range fl.Names {
						p.fieldNames[nm.Name] = true
					}
				}
			}
			return true
		})
	}
	sort.Strings(p.varOrder)
	return p
}

// resolve the types of `var x = <expr>` declarations (needs the index to exist)
func (p *pkgIndex) resolveVarTypes(fileSet map[string]*ast.File) {
	for _, f := range fileSet {
		for _, d := range f.Decls {
			gd, ok := d.(*ast.GenDecl)
			if !ok || gd.Tok != token.VAR {
				continue
			}
			for _, s := range gd.Specs {
				sp := s.(*ast.ValueSpec)
				if sp.Type != nil {
					continue
				}
				for i, nm := range sp.Names {
					if i < len(sp.Values) && nm.Name != "_" {
						sc := &scope{vars: map[*ast.Object]ast.Expr{}, clause: map[*ast.Ident]ast.Expr{}}
						p.vars[nm.Name] = sc.typeOf(sp.Values[i])
					}
				}
			}
		}
	}
}

// structOf: the struct definition behind a (pointer to a) named type, nil otherwise.
func (p *pkgIndex) structOf(t ast.Expr) *ast.StructType {
	for depth := 0; depth < 8 && t != nil; depth++ {
		switch x := t.(type) {
		case *ast.StarExpr:
			t = x.X
		case *ast.ParenExpr:
			t = x.X
		case *ast.IndexExpr:
			t = x.X
		case *ast.StructType:
			return x
		case *ast.Ident:
			def, ok := p.types[x.Name]
			if !ok {
				return nil
			}
			t = def
		default:
			return nil
		}
	}
	return nil
}

// underlying: follows named types of the package to a type literal (or an unresolvable name).
func (p *pkgIndex) underlying(t ast.Expr) ast.Expr {
	for depth := 0; depth < 8 && t != nil; depth++ {
		switch x := t.(type) {
		case *ast.ParenExpr:
			t = x.X
		case *ast.Ident:
			def, ok := p.types[x.Name]
			if !ok || p.typeParams[x.Name] {
				return t
			}
			t = def
		default:
			return t
		}
	}
	return t
}

// fieldType: type of field `name` of struct type t (promoted fields of embedded package structs included).
func (p *pkgIndex) fieldType(t ast.Expr, name string, depth int) ast.Expr {
	st := p.structOf(t)
	if st == nil || depth > 4 {
		return nil
	}
	for _, fl := range st.Fields.List {
		for _, nm := range fl.Names {
			if nm.Name == name {
				return fl.Type
			}
		}
		if len(fl.Names) == 0 && namedOf(fl.Type) == name {
			return fl.Type
		}
	}
	for _, fl := range st.Fields.List {
		if len(fl.Names) == 0 {
			if r := p.fieldType(fl.Type, name, depth+1); r != nil {
				return r
			}
		}
	}
	return nil
}

// lookupMethod: method `name` of the named type `tn` (promoted methods of embedded package types included).
func (p *pkgIndex) lookupMethod(tn string, name string, depth int) *ast.FuncDecl {
	if tn == "" || depth > 4 {
		return nil
	}
	if fd := p.methods[tn][name]; fd != nil {
		return fd
	}
	if st := p.structOf(ast.NewIdent(tn)); st != nil {
		for _, fl := range st.Fields.List {
			if len(fl.Names) == 0 {
				if fd := p.lookupMethod(namedOf(fl.Type), name, depth+1); fd != nil {
					return fd
				}
			}
		}
	}
	return nil
}

// ifaceMethod: signature of method `name` in the interface type named tn (embedded interfaces included).
func (p *pkgIndex) ifaceMethod(t ast.Expr, name string, depth int) *ast.FuncType {
	it, ok := p.underlying(t).(*ast.InterfaceType)
	if !ok || depth > 4 {
		return nil
	}
	for _, m := range it.Methods.List {
		for _, nm := range m.Names {
			if nm.Name == name {
				if ft, ok := m.Type.(*ast.FuncType); ok {
					return ft
				}
			}
		}
	}
	for _, m := range it.Methods.List {
		if len(m.Names) == 0 {
			if ft := p.ifaceMethod(m.Type, name, depth+1); ft != nil {
				return ft
			}
		}
	}
	return nil
}

func (p *pkgIndex) isInterface(t ast.Expr) bool {
	_, ok := p.underlying(t).(*ast.InterfaceType)
	return ok
}

// ---------------------------------------------------------------------------------------------
// expression types inside one function

var basicTypes = map[string]bool{
	"bool": true, "string": true, "int": true, "int8": true, "int16": true, "int32": true, "int64": true,
	"uint": true, "uint8": true, "uint16": true, "uint32": true, "uint64": true, "uintptr": true, "byte": true,
	"rune": true, "float32": true, "float64": true, "complex64": true, "complex128": true, "error": true, "any": true,
}

type scope struct {
	vars   map[*ast.Object]ast.Expr // local variable (go/parser object) -> declared / inferred type (nil = unresolved)
	clause map[*ast.Ident]ast.Expr  // occurrence of a type-switch variable inside a single-type clause -> that type
}

func (s *scope) declare(id *ast.Ident, t ast.Expr) {
	if id == nil || id.Name == "_" || id.Obj == nil {
		return
	}
	if old, ok := s.vars[id.Obj]; ok && old != nil {
		return
	}
	s.vars[id.Obj] = t
}

func resultTypes(ft *ast.FuncType) []ast.Expr {
	var out []ast.Expr
	if ft == nil || ft.Results == nil {
		return out
	}
	for _, r := range ft.Results.List {
		n := len(r.Names)
		if n == 0 {
			n = 1
		}
		for i := 0; i < n; i++ {
			out = append(out, r.Type)
		}
	}
	return out
}

// isLocal: the identifier is resolved (by go/parser's file-scope resolution) to a declaration
// inside a function: a parameter, a `:=`, a local var/const.
func isLocal(id *ast.Ident) bool {
	if id.Obj == nil {
		return false
	}
	switch d := id.Obj.Decl.(type) {
	case *ast.ValueSpec:
		return !pidx.varSpecs[d] && id.Obj.Kind == ast.Var
	case *ast.FuncDecl, *ast.TypeSpec:
		return false
	}
	return id.Obj.Kind == ast.Var
}

// callResults: the result types of a call expression (nil slice = unresolved).
func (s *scope) callResults(ce *ast.CallExpr) ([]ast.Expr, bool) {
	switch f := ce.Fun.(type) {
	case *ast.ParenExpr:
		if len(ce.Args) == 1 { // conversion (*T)(x)
			return []ast.Expr{f.X}, true
		}
	case *ast.ArrayType, *ast.MapType, *ast.ChanType, *ast.FuncType, *ast.InterfaceType:
		return []ast.Expr{f}, true
	case *ast.FuncLit:
		return resultTypes(f.Type), true
	case *ast.IndexExpr: // generic function instantiation f[T](…)
		if id, ok := f.X.(*ast.Ident); ok && !isLocal(id) {
			if fd := pidx.funcs[id.Name]; fd != nil && fd.Type.TypeParams != nil {
				return nil, false
			}
		}
	case *ast.Ident:
		if isLocal(f) {
			if ft, ok := pidx.underlying(s.vars[f.Obj]).(*ast.FuncType); ok {
				return resultTypes(ft), true
			}
			return nil, false
		}
		switch f.Name {
		case "make":
			if len(ce.Args) > 0 {
				return []ast.Expr{ce.Args[0]}, true
			}
		case "new":
			if len(ce.Args) == 1 {
				return []ast.Expr{&ast.StarExpr{X: ce.Args[0]}}, true
			}
		case "len", "cap", "copy":
			return []ast.Expr{ast.NewIdent("int")}, true
		case "append", "min", "max":
			if len(ce.Args) > 0 {
				if t := s.typeOf(ce.Args[0]); t != nil {
					return []ast.Expr{t}, true
				}
			}
			return nil, false
		case "panic", "delete", "clear", "print", "println", "close":
			return []ast.Expr{}, true
		case "recover":
			return []ast.Expr{ast.NewIdent("any")}, true
		}
		if basicTypes[f.Name] {
			return []ast.Expr{f}, true
		}
		if _, ok := pidx.types[f.Name]; ok && len(ce.Args) == 1 { // conversion T(x)
			return []ast.Expr{f}, true
		}
		if fd := pidx.funcs[f.Name]; fd != nil {
			if fd.Type.TypeParams != nil {
				return nil, false
			}
			return resultTypes(fd.Type), true
		}
		if t, ok := pidx.vars[f.Name]; ok && t != nil { // package-level variable of function type
			if ft, ok := pidx.underlying(t).(*ast.FuncType); ok {
				return resultTypes(ft), true
			}
		}
	case *ast.SelectorExpr:
		if id, ok := f.X.(*ast.Ident); ok && !isLocal(id) && pidx.imports[id.Name] {
			return externalResults(id.Name, f.Sel.Name)
		}
		rt := s.typeOf(f.X)
		if rt == nil {
			return nil, false
		}
		if se, ok := stripStar(rt).(*ast.SelectorExpr); ok {
			return externalResults(exprString(se), f.Sel.Name)
		}
		if fd := pidx.lookupMethod(namedOf(rt), f.Sel.Name, 0); fd != nil {
			return resultTypes(fd.Type), true
		}
		if ft := pidx.ifaceMethod(rt, f.Sel.Name, 0); ft != nil {
			return resultTypes(ft), true
		}
		if ft, ok := pidx.underlying(pidx.fieldType(rt, f.Sel.Name, 0)).(*ast.FuncType); ok {
			return resultTypes(ft), true
		}
	}
	return nil, false
}

// externalResults: result types of the few functions of imported packages whose results are ranged
// over or assigned to variables that are ranged over.  Anything else is unresolved.
func externalResults(pkg, fn string) ([]ast.Expr, bool) {
	switch pkg + "." + fn {
	case "fmt.Sprintf", "fmt.Sprint", "strings.Join", "hex.EncodeToString":
		return []ast.Expr{ast.NewIdent("string")}, true
	case "fmt.Errorf", "errors.New":
		return []ast.Expr{ast.NewIdent("error")}, true
	case "strings.Split":
		return []ast.Expr{&ast.ArrayType{Elt: ast.NewIdent("string")}}, true
	case "cbor.StreamDecoder.DecodeArrayHead", "cbor.StreamDecoder.DecodeTagNumber", "cbor.StreamDecoder.DecodeUint64":
		return []ast.Expr{ast.NewIdent("uint64"), ast.NewIdent("error")}, true
	case "cbor.StreamDecoder.DecodeBytes":
		return []ast.Expr{&ast.ArrayType{Elt: ast.NewIdent("byte")}, ast.NewIdent("error")}, true
	case "cbor.DecMode.NewByteStreamDecoder", "cbor.NewByteStreamDecoder", "cbor.NewStreamDecoder":
		return []ast.Expr{&ast.StarExpr{X: &ast.SelectorExpr{X: ast.NewIdent("cbor"), Sel: ast.NewIdent("StreamDecoder")}}}, true
	}
	return nil, false
}

// typeOf: the declared type of an expression, nil if it cannot be resolved.
func (s *scope) typeOf(e ast.Expr) ast.Expr {
	switch x := e.(type) {
	case nil:
		return nil
	case *ast.ParenExpr:
		return s.typeOf(x.X)
	case *ast.BasicLit:
		switch x.Kind {
		case token.INT:
			return ast.NewIdent("int")
		case token.STRING:
			return ast.NewIdent("string")
		case token.CHAR:
			return ast.NewIdent("rune")
		case token.FLOAT:
			return ast.NewIdent("float64")
		}
		return nil
	case *ast.Ident:
		if isLocal(x) {
			if t, ok := s.clause[x]; ok {
				return t
			}
			return s.vars[x.Obj]
		}
		switch x.Name {
		case "true", "false":
			return ast.NewIdent("bool")
		}
		if t, ok := pidx.vars[x.Name]; ok {
			return t
		}
		if fd := pidx.funcs[x.Name]; fd != nil {
			return fd.Type
		}
		if _, ok := consts[x.Name]; (ok && x.Obj == nil) || (x.Obj != nil && x.Obj.Kind == ast.Con) {
			return ast.NewIdent("int") // a constant: not a map whatever its type
		}
		return nil
	case *ast.CompositeLit:
		return x.Type
	case *ast.FuncLit:
		return x.Type
	case *ast.CallExpr:
		if r, ok := s.callResults(x); ok && len(r) == 1 {
			return r[0]
		}
		return nil
	case *ast.TypeAssertExpr:
		return x.Type
	case *ast.StarExpr:
		if t, ok := s.typeOf(x.X).(*ast.StarExpr); ok {
			return t.X
		}
		return nil
	case *ast.UnaryExpr:
		switch x.Op {
		case token.AND:
			if t := s.typeOf(x.X); t != nil {
				return &ast.StarExpr{X: t}
			}
			return nil
		case token.ARROW:
			if t, ok := pidx.underlying(s.typeOf(x.X)).(*ast.ChanType); ok {
				return t.Value
			}
			return nil
		case token.NOT:
			return ast.NewIdent("bool")
		}
		return s.typeOf(x.X)
	case *ast.BinaryExpr:
		switch x.Op {
		case token.EQL, token.NEQ, token.LSS, token.LEQ, token.GTR, token.GEQ, token.LAND, token.LOR:
			return ast.NewIdent("bool")
		}
		if t := s.typeOf(x.X); t != nil {
			return t
		}
		return s.typeOf(x.Y)
	case *ast.SelectorExpr:
		if id, ok := x.X.(*ast.Ident); ok && !isLocal(id) && pidx.imports[id.Name] {
			if id.Name == "math" {
				return ast.NewIdent("int")
			}
			return nil
		}
		rt := s.typeOf(x.X)
		if rt == nil {
			return nil
		}
		if t := pidx.fieldType(rt, x.Sel.Name, 0); t != nil {
			return t
		}
		if fd := pidx.lookupMethod(namedOf(rt), x.Sel.Name, 0); fd != nil {
			return fd.Type
		}
		return nil
	case *ast.IndexExpr:
		switch t := pidx.underlying(derefArray(s.typeOf(x.X))).(type) {
		case *ast.MapType:
			return t.Value
		case *ast.ArrayType:
			return t.Elt
		case *ast.Ident:
			if t.Name == "string" {
				return ast.NewIdent("byte")
			}
		}
		return nil
	case *ast.SliceExpr:
		t := s.typeOf(x.X)
		if at, ok := pidx.underlying(derefArray(t)).(*ast.ArrayType); ok && at.Len != nil {
			return &ast.ArrayType{Elt: at.Elt}
		}
		return t
	}
	return nil
}

// derefArray: *[N]T -> [N]T (ranging and indexing work through a pointer to an array)
func derefArray(t ast.Expr) ast.Expr {
	if st, ok := t.(*ast.StarExpr); ok {
		if _, ok := pidx.underlying(st.X).(*ast.ArrayType); ok {
			return st.X
		}
	}
	return t
}

const (
	isMap    = "map"
	notMap   = "notmap"
	maybeMap = "maybe"
)

// classify: is the type a map type?
func classify(t ast.Expr) string {
	switch u := pidx.underlying(derefArray(t)).(type) {
	case nil:
		return maybeMap
	case *ast.MapType:
		return isMap
	case *ast.ArrayType, *ast.ChanType, *ast.FuncType, *ast.StructType, *ast.InterfaceType, *ast.StarExpr:
		// func: a range-over-func iterator; struct / interface / pointer: not rangeable at all
		return notMap
	case *ast.Ident:
		if basicTypes[u.Name] {
			return notMap
		}
	}
	return maybeMap // type parameter, type of another package, …
}

// classifyRanged: a ranged expression.
func (s *scope) classifyRanged(e ast.Expr) string {
	return classify(s.typeOf(e))
}

// rangeVarTypes: key and value types of `for k, v := range x`.
func (s *scope) rangeVarTypes(x ast.Expr) (ast.Expr, ast.Expr) {
	switch t := pidx.underlying(derefArray(s.typeOf(x))).(type) {
	case *ast.MapType:
		return t.Key, t.Value
	case *ast.ArrayType:
		return ast.NewIdent("int"), t.Elt
	case *ast.ChanType:
		return t.Value, nil
	case *ast.Ident:
		if t.Name == "string" {
			return ast.NewIdent("int"), ast.NewIdent("rune")
		}
		if basicTypes[t.Name] {
			return t, nil
		}
	}
	return nil, nil
}

func (s *scope) declareFields(fl *ast.FieldList) {
	if fl == nil {
		return
	}
	for _, f := range fl.List {
		t := f.Type
		if el, ok := t.(*ast.Ellipsis); ok {
			t = &ast.ArrayType{Elt: el.Elt}
		}
		for _, nm := range f.Names {
			s.declare(nm, t)
		}
	}
}

// newScope: the local variables of a function with their declared / inferred types.  Two passes,
// so that a declaration that depends on a later one (closures) is resolved as well.
func newScope(fd *ast.FuncDecl) *scope {
	s := &scope{vars: map[*ast.Object]ast.Expr{}, clause: map[*ast.Ident]ast.Expr{}}
	s.declareFields(fd.Recv)
	s.declareFields(fd.Type.Params)
	s.declareFields(fd.Type.Results)
	// `switch v := x.(type) { case T: … }`: inside a clause with exactly one type, v has that type
	ast.Inspect(fd.Body, func(n ast.Node) bool {
		ts, ok := n.(*ast.TypeSwitchStmt)
		if !ok {
			return true
		}
		as, ok := ts.Assign.(*ast.AssignStmt)
		if !ok || len(as.Lhs) != 1 {
			return true
		}
		v, ok := as.Lhs[0].(*ast.Ident)
		if !ok {
			return true
		}
		for _, c := range ts.Body.List {
			cc := c.(*ast.CaseClause)
			if len(cc.List) != 1 {
				continue
			}
			if id, ok := cc.List[0].(*ast.Ident); ok && id.Name == "nil" {
				continue
			}
			for _, st := range cc.Body {
				ast.Inspect(st, func(m ast.Node) bool {
					// go/parser gives the implicit per-clause variable no object of its own: match by name,
					// unless the name is re-declared inside the clause (then the occurrence has another object)
					if id, ok := m.(*ast.Ident); ok && id.Name == v.Name && (id.Obj == nil || id.Obj == v.Obj) {
						s.clause[id] = cc.List[0]
					}
					return true
				})
			}
		}
		return true
	})
	for pass := 0; pass < 2; pass++ {
		ast.Inspect(fd.Body, func(n ast.Node) bool {
			switch x := n.(type) {
			case *ast.FuncLit:
				s.declareFields(x.Type.Params)
				s.declareFields(x.Type.Results)
			case *ast.AssignStmt:
				if x.Tok != token.DEFINE {
					return true
				}
				isDecl := func(l ast.Expr) *ast.Ident {
					if id, ok := l.(*ast.Ident); ok && id.Obj != nil && id.Obj.Decl == x {
						return id
					}
					return nil
				}
				if len(x.Lhs) == len(x.Rhs) {
					for i, l := range x.Lhs {
						if id := isDecl(l); id != nil {
							s.declare(id, s.typeOf(x.Rhs[i]))
						}
					}
					return true
				}
				if len(x.Rhs) != 1 {
					return true
				}
				var ts []ast.Expr
				switch r := x.Rhs[0].(type) {
				case *ast.CallExpr:
					ts, _ = s.callResults(r)
				case *ast.TypeAssertExpr:
					ts = []ast.Expr{r.Type, ast.NewIdent("bool")}
				case *ast.IndexExpr:
					ts = []ast.Expr{s.typeOf(r), ast.NewIdent("bool")}
				case *ast.UnaryExpr:
					ts = []ast.Expr{s.typeOf(r), ast.NewIdent("bool")}
				}
				for i, l := range x.Lhs {
					if id := isDecl(l); id != nil && i < len(ts) {
						s.declare(id, ts[i])
					}
				}
			case *ast.ValueSpec:
				for i, nm := range x.Names {
					switch {
					case x.Type != nil:
						s.declare(nm, x.Type)
					case len(x.Values) == len(x.Names):
						s.declare(nm, s.typeOf(x.Values[i]))
					case len(x.Values) == 1:
						if ce, ok := x.Values[0].(*ast.CallExpr); ok {
							if ts, ok := s.callResults(ce); ok && i < len(ts) {
								s.declare(nm, ts[i])
							}
						}
					}
				}
			case *ast.RangeStmt:
				if x.Tok != token.DEFINE {
					return true
				}
				k, v := s.rangeVarTypes(x.X)
				if id, ok := x.Key.(*ast.Ident); ok {
					s.declare(id, k)
				}
				if id, ok := x.Value.(*ast.Ident); ok {
					s.declare(id, v)
				}
			}
			return true
		})
	}
	return s
}

// ---------------------------------------------------------------------------------------------
// call graph

type callGraph struct {
	edges      map[string]map[string]bool
	unresolved map[string][]string // function -> callee expressions called through an unresolved / interface receiver
}

// ifaceMethodNames: the method names of an interface type of the package (embedded package
// interfaces included); ok = false if it embeds something this file cannot see through.
func (p *pkgIndex) ifaceMethodNames(t ast.Expr, depth int) (names []string, ok bool) {
	it, isIface := p.underlying(t).(*ast.InterfaceType)
	if !isIface || depth > 4 {
		return nil, false
	}
	ok = true
	for _, m := range it.Methods.List {
		if len(m.Names) > 0 {
			for _, nm := range m.Names {
				names = append(names, nm.Name)
			}
			continue
		}
		switch exprString(m.Type) {
		case "fmt.Stringer":
			names = append(names, "String")
			continue
		case "error":
			names = append(names, "Error")
			continue
		}
		sub, subOK := p.ifaceMethodNames(m.Type, depth+1)
		if !subOK {
			ok = false
		}
		names = append(names, sub...)
	}
	return names, ok
}

// implementers: the named types of the package that have every method (by NAME) of the interface.
func (p *pkgIndex) implementers(t ast.Expr) []string {
	names, _ := p.ifaceMethodNames(t, 0) // methods of an opaque embedded interface only narrow further
	var out []string
	for tn := range p.methods {
		all := true
		for _, m := range names {
			if p.lookupMethod(tn, m, 0) == nil {
				all = false
				break
			}
		}
		if all {
			out = append(out, tn)
		}
	}
	sort.Strings(out)
	return out
}

// methodTargets: the methods a selector `x.name` can denote.  exact = the receiver's type is a
// concrete named type of the package (one target, or none: a field / a method of an embedded foreign
// type); otherwise, for a receiver of an interface type of the package, the method of that name of
// every type that has all the interface's methods (by name); otherwise every method of that name.
func (s *scope) methodTargets(x ast.Expr, name string) (targets []string, exact bool) {
	rt := s.typeOf(x)
	if rt != nil {
		if pidx.isInterface(rt) {
			for _, tn := range pidx.implementers(rt) {
				if fd := pidx.lookupMethod(tn, name, 0); fd != nil {
					targets = append(targets, funcName(fd))
				}
			}
			return targets, false
		}
		if fd := pidx.lookupMethod(namedOf(rt), name, 0); fd != nil {
			return []string{funcName(fd)}, true
		}
		if pidx.fieldType(rt, name, 0) != nil {
			return nil, true // a field (of function type if it is called): a caller-supplied callback
		}
		if tn := namedOf(rt); tn != "" {
			if _, known := pidx.types[tn]; known && !pidx.typeParams[tn] {
				return nil, true // concrete package type without such a method (method of an embedded foreign type)
			}
		}
		if _, ext := stripStar(rt).(*ast.SelectorExpr); ext {
			return nil, true // a type of another package: its methods are not in this package
		}
	}
	for _, fd := range pidx.methodsByName[name] {
		targets = append(targets, funcName(fd))
	}
	return targets, false
}

func stripStar(t ast.Expr) ast.Expr {
	for {
		switch x := t.(type) {
		case *ast.StarExpr:
			t = x.X
		case *ast.ParenExpr:
			t = x.X
		default:
			return t
		}
	}
}

func buildCallGraph() *callGraph {
	g := &callGraph{edges: map[string]map[string]bool{}, unresolved: map[string][]string{}}
	forEachFunc(func(fd *ast.FuncDecl) {
		from := funcName(fd)
		if g.edges[from] == nil {
			g.edges[from] = map[string]bool{}
		}
		s := newScope(fd)
		add := func(to string) { g.edges[from][to] = true }
		selOf := map[*ast.Ident]bool{} // identifiers that are the Sel of a selector / a key of a struct literal
		funOf := map[ast.Expr]bool{}   // expressions in call position
		ast.Inspect(fd.Body, func(n ast.Node) bool {
			switch x := n.(type) {
			case *ast.SelectorExpr:
				selOf[x.Sel] = true
			case *ast.KeyValueExpr:
				if id, ok := x.Key.(*ast.Ident); ok {
					selOf[id] = true
				}
			case *ast.CallExpr:
				funOf[x.Fun] = true
			}
			return true
		})
		ast.Inspect(fd.Body, func(n ast.Node) bool {
			switch x := n.(type) {
			case *ast.Ident:
				if selOf[x] || isLocal(x) {
					return true
				}
				if _, ok := pidx.funcs[x.Name]; ok {
					add(x.Name) // call or function value
				}
			case *ast.SelectorExpr:
				if id, ok := x.X.(*ast.Ident); ok && !isLocal(id) && pidx.imports[id.Name] {
					return true
				}
				if id, ok := x.X.(*ast.Ident); ok && !isLocal(id) {
					if _, isType := pidx.types[id.Name]; isType { // method expression T.m
						if m := pidx.lookupMethod(id.Name, x.Sel.Name, 0); m != nil {
							add(funcName(m))
						}
						return true
					}
				}
				if pe, ok := x.X.(*ast.ParenExpr); ok { // method expression (*T).m
					if tn := namedOf(pe.X); tn != "" {
						if _, isType := pidx.types[tn]; isType {
							if m := pidx.lookupMethod(tn, x.Sel.Name, 0); m != nil {
								add(funcName(m))
								return true
							}
						}
					}
				}
				if len(pidx.methodsByName[x.Sel.Name]) == 0 {
					return true
				}
				targets, exact := s.methodTargets(x.X, x.Sel.Name)
				if !exact && !funOf[x] && pidx.fieldNames[x.Sel.Name] {
					// an unresolved `x.f` that is not called and names a struct field of the package: a field read
					return true
				}
				for _, t := range targets {
					add(t)
				}
				if !exact {
					g.unresolved[from] = append(g.unresolved[from], exprString(x))
				}
			}
			return true
		})
	})
	return g
}

func (g *callGraph) reachable(roots []string) map[string]bool {
	seen := map[string]bool{}
	var stack []string
	for _, r := range roots {
		if _, ok := g.edges[r]; ok && !seen[r] {
			seen[r] = true
			stack = append(stack, r)
		}
	}
	for len(stack) > 0 {
		f := stack[len(stack)-1]
		stack = stack[:len(stack)-1]
		for to := range g.edges[f] {
			if !seen[to] {
				seen[to] = true
				stack = append(stack, to)
			}
		}
	}
	return seen
}

// encodeRoots: `EncodeSlab`, every method named `Encode`, every method of `InlinedExtraData`, and
// the commit entry points of the two storages.
func encodeRoots() []string {
	set := map[string]bool{}
	forEachFunc(func(fd *ast.FuncDecl) {
		name := funcName(fd)
		switch {
		case name == "EncodeSlab":
			set[name] = true
		case fd.Recv != nil && fd.Name.Name == "Encode":
			set[name] = true
		case recvTypeName(fd) == "InlinedExtraData":
			set[name] = true
		case fd.Recv != nil && (fd.Name.Name == "Commit" || fd.Name.Name == "commit" || fd.Name.Name == "FastCommit" || fd.Name.Name == "NondeterministicFastCommit"):
			set[name] = true
		}
	})
	return sortedSet(set)
}

func leanPairs(rows [][2]string) string {
	if len(rows) == 0 {
		return "[]"
	}
	q := make([]string, len(rows))
	for i, r := range rows {
		q[i] = fmt.Sprintf("  (%q, %q)", r[0], r[1])
	}
	return "[\n" + strings.Join(q, ",\n") + "\n]"
}

func sortPairs(rows [][2]string) {
	sort.Slice(rows, func(i, j int) bool {
		if rows[i][0] != rows[j][0] {
			return rows[i][0] < rows[j][0]
		}
		return rows[i][1] < rows[j][1]
	})
}

func genRangeFacts() string {
	var b strings.Builder
	g := buildCallGraph()
	roots := encodeRoots()
	reach := g.reachable(roots)

	var inMap, inMaybe, outMap, outMaybe [][2]string
	total := 0
	forEachFunc(func(fd *ast.FuncDecl) {
		s := newScope(fd)
		name := funcName(fd)
		ast.Inspect(fd.Body, func(n ast.Node) bool {
			rs, ok := n.(*ast.RangeStmt)
			if !ok {
				return true
			}
			total++
			row := [2]string{name, exprString(rs.X)}
			switch s.classifyRanged(rs.X) {
			case isMap:
				if reach[name] {
					inMap = append(inMap, row)
				} else {
					outMap = append(outMap, row)
				}
			case maybeMap:
				if reach[name] {
					inMaybe = append(inMaybe, row)
				} else {
					outMaybe = append(outMaybe, row)
				}
			}
			return true
		})
	})
	sortPairs(inMap)
	sortPairs(inMaybe)
	sortPairs(outMap)
	sortPairs(outMaybe)

	fmt.Fprintf(&b, "/-- Roots of the encode / commit paths: `EncodeSlab`, every method named `Encode`, every method of\n    `InlinedExtraData`, every method named `Commit`, `commit`, `FastCommit` or `NondeterministicFastCommit`. -/\ndef encodePathRoots : List String := %s\n", leanStrList(roots))
	fmt.Fprintf(&b, "/-- The functions reachable from the roots in the intra-package static call graph (go/ast only:\n    calls and function values by name; a method call is narrowed to the receiver's declared type when that\n    is a concrete named type of the package, and goes to EVERY method of that name otherwise). -/\ndef encodePathFunctions : List String := %s\n", leanStrList(sortedSet(reach)))
	fmt.Fprintf(&b, "/-- Number of `for … range` statements in the package (all of them are classified below). -/\ndef rangeStmtCount : Nat := %d\n", total)
	fmt.Fprintf(&b, "/-- (function, ranged expression) of every `for … range e` with `e` of MAP type in a function reachable\n    from the roots: Go randomises the order of these loops. -/\ndef rangeOverMapInEncodePaths : List (String × String) := %s\n", leanPairs(inMap))
	fmt.Fprintf(&b, "/-- the same for ranged expressions whose type the extractor cannot resolve (possibly maps) -/\ndef rangeMaybeMapInEncodePaths : List (String × String) := %s\n", leanPairs(inMaybe))
	fmt.Fprintf(&b, "/-- `for … range e` with `e` of map type in the functions NOT reachable from the roots. -/\ndef rangeOverMapElsewhere : List (String × String) := %s\n", leanPairs(outMap))
	fmt.Fprintf(&b, "def rangeMaybeMapElsewhere : List (String × String) := %s\n\n", leanPairs(outMaybe))
	return b.String()
}

// ---------------------------------------------------------------------------------------------
// 2. buffer pools: what the holders of a pooled buffer do with it

var bufferGetters = map[string]string{"getBuffer": "putBuffer", "getTypeIDBuffer": "putTypeIDBuffer"}

// parents: child -> parent for every node under root.
func parentMap(root ast.Node) map[ast.Node]ast.Node {
	m := map[ast.Node]ast.Node{}
	var stack []ast.Node
	ast.Inspect(root, func(n ast.Node) bool {
		if n == nil {
			stack = stack[:len(stack)-1]
			return true
		}
		if len(stack) > 0 {
			m[n] = stack[len(stack)-1]
		}
		stack = append(stack, n)
		return true
	})
	return m
}

// useKind classifies one occurrence of the local variable `id` (other than its declaration).
//
//	"defer <put>(x)"          handed back by a deferred call of the matching put helper
//	"writer of <f>(x, …)"     passed as the io.Writer of a constructor of an encoder (call printed)
//	"copied by <call>"        x.Bytes() passed directly to a call that copies it, or x.String()
//	"method <m>"              any other method called on x
//	"returned", "assigned", "stored", "argument of <f>", "captured by go", "address", "other"
func useKind(id *ast.Ident, par map[ast.Node]ast.Node, put string) string {
	p := par[id]
	switch x := p.(type) {
	case *ast.CallExpr:
		for _, a := range x.Args {
			if a == id {
				callee := exprString(x.Fun)
				if d, ok := par[x].(*ast.DeferStmt); ok && d.Call == x && callee == put {
					return "defer " + put
				}
				if callee == put {
					return "call " + put + " (not deferred)"
				}
				if callee == "NewEncoder" || callee == "cbor.NewStreamEncoder" {
					return "writer of " + callee
				}
				return "argument of " + callee
			}
		}
	case *ast.SelectorExpr:
		if x.X != id {
			return "other"
		}
		call, isCall := par[x].(*ast.CallExpr)
		if !isCall || call.Fun != x {
			return "method value " + x.Sel.Name
		}
		switch x.Sel.Name {
		case "String":
			return "copied by String()"
		case "Len":
			return "method Len"
		case "Bytes":
			// the slice aliases the buffer: fine only as the direct argument of a copying call
			if outer, ok := par[call].(*ast.CallExpr); ok {
				for _, a := range outer.Args {
					if a == call {
						callee := exprString(outer.Fun)
						if strings.HasSuffix(callee, ".EncodeRawBytes") || strings.HasSuffix(callee, ".Write") || callee == "append" || callee == "copy" || callee == "string" {
							return "Bytes() copied by " + callee
						}
						return "Bytes() passed to " + callee
					}
				}
			}
			return "Bytes() kept"
		}
		return "method " + x.Sel.Name
	case *ast.ReturnStmt:
		return "returned"
	case *ast.AssignStmt:
		for _, l := range x.Lhs {
			if l == id {
				return "reassigned"
			}
		}
		return "assigned to " + exprString(x.Lhs[0])
	case *ast.UnaryExpr:
		if x.Op == token.AND {
			return "address"
		}
	case *ast.KeyValueExpr, *ast.CompositeLit:
		return "stored in literal"
	case *ast.SendStmt:
		return "sent"
	}
	return "other"
}

// insideGoOrLit: the occurrence is inside a function literal or a go statement of the function.
func insideGoOrLit(n ast.Node, par map[ast.Node]ast.Node) bool {
	for p := par[n]; p != nil; p = par[p] {
		switch p.(type) {
		case *ast.FuncLit, *ast.GoStmt:
			return true
		}
	}
	return false
}

// localUses: the classified occurrences of the variable declared by `decl` (an *ast.Ident with Obj).
func localUses(fd *ast.FuncDecl, obj *ast.Object, put string, par map[ast.Node]ast.Node) []string {
	set := map[string]bool{}
	ast.Inspect(fd.Body, func(n ast.Node) bool {
		id, ok := n.(*ast.Ident)
		if !ok || id.Obj != obj {
			return true
		}
		if as, ok := par[id].(*ast.AssignStmt); ok && as == obj.Decl {
			for _, l := range as.Lhs {
				if l == id {
					return true // the declaration itself
				}
			}
		}
		k := useKind(id, par, put)
		if insideGoOrLit(id, par) {
			k = "in closure: " + k
		}
		set[k] = true
		return true
	})
	return sortedSet(set)
}

// encoderUseKind classifies an occurrence of a local encoder that writes into a pooled buffer.
func encoderUseKind(id *ast.Ident, par map[ast.Node]ast.Node) string {
	switch x := par[id].(type) {
	case *ast.CallExpr:
		for _, a := range x.Args {
			if a == id {
				return "argument of " + exprString(x.Fun)
			}
		}
	case *ast.SelectorExpr:
		if x.X == id {
			// enc.CBOR.Flush(), enc.hasInlinedExtraData(), enc.inlinedExtraData().Encode(…): print the selector chain
			var n ast.Node = x
			for {
				p := par[n]
				if se, ok := p.(*ast.SelectorExpr); ok && se.X == n {
					n = se
					continue
				}
				if ce, ok := p.(*ast.CallExpr); ok && ce.Fun == n {
					n = ce
					if se, ok := par[n].(*ast.SelectorExpr); ok && se.X == n {
						n = se
						continue
					}
				}
				break
			}
			if ce, ok := n.(*ast.CallExpr); ok {
				return "call " + exprString(ce.Fun)
			}
			return "read " + exprString(n)
		}
	case *ast.ReturnStmt:
		return "returned"
	case *ast.AssignStmt:
		for _, l := range x.Lhs {
			if l == id {
				return "reassigned"
			}
		}
		return "assigned to " + exprString(x.Lhs[0])
	case *ast.UnaryExpr:
		if x.Op == token.AND {
			return "address"
		}
	case *ast.KeyValueExpr, *ast.CompositeLit:
		return "stored in literal"
	case *ast.SendStmt:
		return "sent"
	}
	return "other"
}

func leanStrListRows(rows [][]string) string {
	// rows: first two entries are strings, the rest is a list
	if len(rows) == 0 {
		return "[]"
	}
	q := make([]string, len(rows))
	for i, r := range rows {
		q[i] = fmt.Sprintf("  (%q, %q, %s)", r[0], r[1], leanStrList(r[2:]))
	}
	return "[\n" + strings.Join(q, ",\n") + "\n]"
}

func genBufferPoolFacts() string {
	var b strings.Builder
	var holders, encoders [][]string
	var getterRefs [][2]string
	pairedOK := true
	forEachFunc(func(fd *ast.FuncDecl) {
		name := funcName(fd)
		if _, isGetter := bufferGetters[name]; isGetter {
			return
		}
		par := parentMap(fd.Body)
		// every reference to a getter must be the right-hand side of `x := get()` as a top-level
		// statement of the function body, directly followed by `defer put(x)`
		ast.Inspect(fd.Body, func(n ast.Node) bool {
			id, ok := n.(*ast.Ident)
			if !ok || isLocal(id) {
				return true
			}
			put, isGetter := bufferGetters[id.Name]
			if !isGetter {
				return true
			}
			if se, ok := par[id].(*ast.SelectorExpr); ok && se.Sel == id {
				return true
			}
			getterRefs = append(getterRefs, [2]string{name, id.Name})
			shape := "not `x := " + id.Name + "()` as a statement of the function body"
			call, _ := par[id].(*ast.CallExpr)
			var as *ast.AssignStmt
			if call != nil && call.Fun == id && len(call.Args) == 0 {
				as, _ = par[call].(*ast.AssignStmt)
			}
			if as != nil && as.Tok == token.DEFINE && len(as.Lhs) == 1 && len(as.Rhs) == 1 && par[as] == ast.Node(fd.Body) {
				v, _ := as.Lhs[0].(*ast.Ident)
				for i, st := range fd.Body.List {
					if st != ast.Stmt(as) || v == nil {
						continue
					}
					shape = "no `defer " + put + "(" + v.Name + ")` directly after the get"
					if i+1 < len(fd.Body.List) {
						if d, ok := fd.Body.List[i+1].(*ast.DeferStmt); ok && exprString(d.Call) == put+"("+v.Name+")" {
							shape = "ok"
						}
					}
					row := append([]string{name, id.Name}, localUses(fd, v.Obj, put, par)...)
					holders = append(holders, row)
					// local encoders made from the buffer: y := NewEncoder(x, …) / cbor.NewStreamEncoder(x)
					ast.Inspect(fd.Body, func(m ast.Node) bool {
						as2, ok := m.(*ast.AssignStmt)
						if !ok || as2.Tok != token.DEFINE || len(as2.Lhs) != 1 || len(as2.Rhs) != 1 {
							return true
						}
						ce, ok := as2.Rhs[0].(*ast.CallExpr)
						if !ok || len(ce.Args) == 0 {
							return true
						}
						a0, ok := ce.Args[0].(*ast.Ident)
						if !ok || a0.Obj != v.Obj {
							return true
						}
						y, ok := as2.Lhs[0].(*ast.Ident)
						if !ok {
							return true
						}
						set := map[string]bool{}
						ast.Inspect(fd.Body, func(k ast.Node) bool {
							id2, ok := k.(*ast.Ident)
							if !ok || id2.Obj != y.Obj || id2 == y {
								return true
							}
							kind := encoderUseKind(id2, par)
							if insideGoOrLit(id2, par) {
								kind = "in closure: " + kind
							}
							set[kind] = true
							return true
						})
						encoders = append(encoders, append([]string{name, y.Name + " := " + exprString(ce.Fun) + "(" + v.Name + ", …)"}, sortedSet(set)...))
						return true
					})
				}
			}
			if shape != "ok" {
				pairedOK = false
				holders = append(holders, []string{name, id.Name, shape})
			}
			return true
		})
	})
	sort.Slice(holders, func(i, j int) bool { return holders[i][0]+holders[i][1] < holders[j][0]+holders[j][1] })
	sort.Slice(encoders, func(i, j int) bool { return encoders[i][0]+encoders[i][1] < encoders[j][0]+encoders[j][1] })
	sortPairs(getterRefs)

	// the pools are touched by their helpers only
	poolVars := []string{"bufferPool", "typeIDBufferPool"}
	allPools := []string{"basicDigesterPool", "bufferPool", "typeIDBufferPool"}
	var poolRefs [][2]string
	forEachFunc(func(fd *ast.FuncDecl) {
		ast.Inspect(fd.Body, func(n ast.Node) bool {
			if id, ok := n.(*ast.Ident); ok && !isLocal(id) {
				for _, pv := range allPools {
					if id.Name == pv {
						poolRefs = append(poolRefs, [2]string{funcName(fd), pv})
					}
				}
			}
			return true
		})
	})
	sortPairs(poolRefs)
	poolRefs = dedupPairs(poolRefs)

	// shape of the helpers: get = `return <pool>.Get().(*bytes.Buffer)`; New = new(bytes.Buffer), Grow, return
	getShape := true
	for get := range bufferGetters {
		fd := findFunc(get)
		if fd == nil || fd.Body == nil || len(fd.Body.List) != 1 {
			getShape = false
			continue
		}
		rs, ok := fd.Body.List[0].(*ast.ReturnStmt)
		if !ok || len(rs.Results) != 1 {
			getShape = false
			continue
		}
		src := exprString(rs.Results[0])
		if src != "bufferPool.Get().(*bytes.Buffer)" && src != "typeIDBufferPool.Get().(*bytes.Buffer)" {
			getShape = false
		}
	}
	newShape := true
	for _, pv := range poolVars {
		ok := false
		for _, f := range files {
			for _, d := range f.Decls {
				gd, isGen := d.(*ast.GenDecl)
				if !isGen || gd.Tok != token.VAR {
					continue
				}
				for _, s := range gd.Specs {
					vs := s.(*ast.ValueSpec)
					if len(vs.Names) != 1 || vs.Names[0].Name != pv || len(vs.Values) != 1 {
						continue
					}
					ast.Inspect(vs.Values[0], func(n ast.Node) bool {
						fl, isLit := n.(*ast.FuncLit)
						if !isLit || len(fl.Body.List) != 3 {
							return true
						}
						s0 := exprString(fl.Body.List[0])
						s1 := exprString(fl.Body.List[1])
						s2 := exprString(fl.Body.List[2])
						if s0 == "e := new(bytes.Buffer)" && strings.HasPrefix(s1, "e.Grow(") && s2 == "return e" {
							ok = true
						}
						return false
					})
				}
			}
		}
		if !ok {
			newShape = false
		}
	}

	fmt.Fprintf(&b, "/-- Every reference to `getBuffer` / `getTypeIDBuffer` outside the helpers: (function, getter). -/\ndef bufferGetterRefs : List (String × String) := %s\n", leanPairs(getterRefs))
	fmt.Fprintf(&b, "/-- Every such reference is the right-hand side of a top-level statement `x := get()` of the function\n    body, and the NEXT statement is `defer put(x)` with the matching put helper: the buffer goes back on\n    every path out of the function (return, error return, panic). -/\ndef bufferGetIsFollowedByDeferredPut : Bool := %s\n", leanBool(pairedOK && len(getterRefs) > 0))
	fmt.Fprintf(&b, "/-- Per holder: (function, getter, every OTHER kind of occurrence of the buffer variable).\n    `Bytes() copied by f`: the aliasing slice is the direct argument of `f`; `copied by String()`: a copy. -/\ndef bufferPoolUses : List (String × String × List String) := %s\n", leanStrListRows(holders))
	fmt.Fprintf(&b, "/-- Per local encoder that writes into a pooled buffer: (function, declaration, kinds of its occurrences). -/\ndef bufferPoolEncoderUses : List (String × String × List String) := %s\n", leanStrListRows(encoders))
	fmt.Fprintf(&b, "/-- (function, pool variable) for every function that mentions one of the three `sync.Pool` variables. -/\ndef poolVarRefs : List (String × String) := %s\n", leanPairs(poolRefs))
	fmt.Fprintf(&b, "/-- `getBuffer` / `getTypeIDBuffer` are `return <pool>.Get().(*bytes.Buffer)`. -/\ndef bufferGetShapeOk : Bool := %s\n", leanBool(getShape))
	fmt.Fprintf(&b, "/-- `New` of both pools is `e := new(bytes.Buffer); e.Grow(…); return e` (an EMPTY buffer). -/\ndef bufferPoolNewIsEmptyBuffer : Bool := %s\n\n", leanBool(newShape))
	return b.String()
}

func dedupPairs(rows [][2]string) [][2]string {
	var out [][2]string
	for i, r := range rows {
		if i == 0 || r != rows[i-1] {
			out = append(out, r)
		}
	}
	return out
}

// ---------------------------------------------------------------------------------------------
// 3. package-level variables and who writes them

// extraFiles: the files of the package that are NOT part of a plain build: `verif_hooks.go`
// (build tag `verif`) and the `_test.go` files.
func parseExtraFiles(repo string) (verif map[string]*ast.File, tests map[string]*ast.File) {
	verif, tests = map[string]*ast.File{}, map[string]*ast.File{}
	names, _ := filepath.Glob(filepath.Join(repo, "*.go"))
	sort.Strings(names)
	for _, n := range names {
		base := filepath.Base(n)
		isTest := strings.HasSuffix(base, "_test.go")
		if !isTest && base != "verif_hooks.go" {
			continue
		}
		f, err := parser.ParseFile(fset, n, nil, parser.ParseComments)
		if err != nil {
			continue
		}
		if f.Name.Name != "atree" {
			continue // external test package: cannot name unexported identifiers
		}
		if isTest {
			tests[base] = f
		} else {
			verif[base] = f
		}
	}
	return
}

// isPkgVarRef: the identifier denotes the package-level variable of that name (not a local, not a
// field selector).  For files other than the declaring one go/parser leaves Obj nil.
func isPkgVarRef(id *ast.Ident, name string, selOf map[*ast.Ident]bool) bool {
	if id.Name != name || selOf[id] {
		return false
	}
	if id.Obj == nil {
		return true
	}
	if vs, ok := id.Obj.Decl.(*ast.ValueSpec); ok {
		return pidx.varSpecs[vs]
	}
	return false
}

// rootIdent: the identifier at the root of x, x.f, x[i], *x, (x).
func rootIdent(e ast.Expr) *ast.Ident {
	for {
		switch x := e.(type) {
		case *ast.Ident:
			return x
		case *ast.SelectorExpr:
			e = x.X
		case *ast.IndexExpr:
			e = x.X
		case *ast.StarExpr:
			e = x.X
		case *ast.ParenExpr:
			e = x.X
		case *ast.SliceExpr:
			e = x.X
		default:
			return nil
		}
	}
}

// varWrites: how the function body writes the package-level variable `name`:
// "assign" (=, op=, ++/--, also through a field / index / dereference rooted at it), "address" (&v, &v.f),
// "clear/delete/copy-into" (builtin with it as the destination).
func varWrites(body ast.Node, name string) []string {
	set := map[string]bool{}
	selOf := map[*ast.Ident]bool{}
	ast.Inspect(body, func(n ast.Node) bool {
		switch x := n.(type) {
		case *ast.SelectorExpr:
			selOf[x.Sel] = true
		case *ast.KeyValueExpr:
			if id, ok := x.Key.(*ast.Ident); ok {
				selOf[id] = true
			}
		}
		return true
	})
	hit := func(e ast.Expr) bool {
		id := rootIdent(e)
		return id != nil && isPkgVarRef(id, name, selOf)
	}
	ast.Inspect(body, func(n ast.Node) bool {
		switch x := n.(type) {
		case *ast.AssignStmt:
			if x.Tok == token.DEFINE {
				return true
			}
			for _, l := range x.Lhs {
				if hit(l) {
					set["assign"] = true
				}
			}
		case *ast.IncDecStmt:
			if hit(x.X) {
				set["assign"] = true
			}
		case *ast.UnaryExpr:
			if x.Op == token.AND && hit(x.X) {
				set["address"] = true
			}
		case *ast.RangeStmt:
			if x.Tok == token.ASSIGN {
				if (x.Key != nil && hit(x.Key)) || (x.Value != nil && hit(x.Value)) {
					set["assign"] = true
				}
			}
		case *ast.CallExpr:
			if id, ok := x.Fun.(*ast.Ident); ok && len(x.Args) > 0 {
				switch id.Name {
				case "clear", "delete", "copy":
					if hit(x.Args[0]) {
						set[id.Name] = true
					}
				}
			}
		}
		return true
	})
	return sortedSet(set)
}

// refsIdent: the body mentions the package-level function `name` (call or value).
func refsFunc(body ast.Node, name string) bool {
	found := false
	selOf := map[*ast.Ident]bool{}
	ast.Inspect(body, func(n ast.Node) bool {
		if se, ok := n.(*ast.SelectorExpr); ok {
			selOf[se.Sel] = true
		}
		return true
	})
	ast.Inspect(body, func(n ast.Node) bool {
		if id, ok := n.(*ast.Ident); ok && id.Name == name && !selOf[id] && !isLocal(id) {
			found = true
		}
		return true
	})
	return found
}

var settingsVars = []string{
	"targetThreshold", "minThreshold", "maxThreshold", "maxInlineArrayElementSize", "maxInlineMapElementSize",
	"maxInlineMapKeySize", "maxCollisionLimitPerDigest",
}

func genSettingsFacts(repo string) string {
	var b strings.Builder
	verifFiles, testFiles := parseExtraFiles(repo)

	// every package-level variable of the plain build: (name, file, declared type or "" , writers)
	type row struct {
		name, file, kind string
		writers          []string
	}
	var rows []row
	writersOf := func(fileSet map[string]*ast.File, name string) []string {
		set := map[string]bool{}
		for _, f := range fileSet {
			for _, d := range f.Decls {
				switch x := d.(type) {
				case *ast.FuncDecl:
					if x.Body != nil && len(varWrites(x.Body, name)) > 0 {
						set[funcName(x)] = true
					}
				case *ast.GenDecl:
					// a package-level initialiser that takes the address of / writes another variable
					for _, s := range x.Specs {
						if vs, ok := s.(*ast.ValueSpec); ok {
							for _, v := range vs.Values {
								if len(varWrites(v, name)) > 0 {
									set["<initialiser of "+vs.Names[0].Name+">"] = true
								}
							}
						}
					}
				}
			}
		}
		return sortedSet(set)
	}
	for _, v := range pidx.varOrder {
		kind := "value"
		switch t := pidx.vars[v]; {
		case t == nil:
			kind = "unresolved"
		case exprString(t) == "sync.Pool":
			kind = "sync.Pool"
		default:
			switch pidx.underlying(t).(type) {
			case *ast.MapType, *ast.ChanType:
				kind = "reference"
			case *ast.ArrayType:
				if pidx.underlying(t).(*ast.ArrayType).Len == nil {
					kind = "slice"
				}
			case *ast.StarExpr:
				kind = "pointer"
			case *ast.FuncType:
				kind = "func"
			}
		}
		rows = append(rows, row{v, pidx.varFile[v], kind, writersOf(files, v)})
	}
	var q []string
	for _, r := range rows {
		q = append(q, fmt.Sprintf("  (%q, %q, %s)", r.name, r.kind, leanStrList(r.writers)))
	}
	fmt.Fprintf(&b, "/-- Every package-level variable of the plain build (no `_test.go`, no `verif` tag), its kind, and\n    the functions that WRITE it: an assignment / `op=` / `++` / `--` to it or through a field, index or\n    dereference rooted at it, its address taken, or `clear` / `delete` / `copy` with it as destination. -/\ndef packageVarWriters : List (String × String × List String) := [\n%s\n]\n", strings.Join(q, ",\n"))

	// variables that hold a pointer: methods of the pointee type that write through their receiver
	var mut [][2]string
	for _, f := range files {
		for _, d := range f.Decls {
			gd, ok := d.(*ast.GenDecl)
			if !ok || gd.Tok != token.VAR {
				continue
			}
			for _, sp := range gd.Specs {
				vs := sp.(*ast.ValueSpec)
				for i, nm := range vs.Names {
					if nm.Name == "_" || i >= len(vs.Values) {
						continue
					}
					ue, ok := vs.Values[i].(*ast.UnaryExpr)
					if !ok || ue.Op != token.AND {
						continue
					}
					cl, ok := ue.X.(*ast.CompositeLit)
					if !ok {
						continue
					}
					tn := namedOf(cl.Type)
					for mname, m := range pidx.methods[tn] {
						if m.Body == nil || len(m.Recv.List[0].Names) != 1 {
							continue
						}
						if writesReceiverState(m.Body, m.Recv.List[0].Names[0].Name) {
							mut = append(mut, [2]string{nm.Name, tn + "." + mname})
						}
					}
				}
			}
		}
	}
	sortPairs(mut)
	fmt.Fprintf(&b, "/-- For the package-level variables initialised with `&T{…}`: (variable, method of T that assigns through\n    its receiver). -/\ndef pointerVarPointeeMutators : List (String × String) := %s\n", leanPairs(mut))

	// the settings
	present := true
	for _, v := range settingsVars {
		if _, ok := pidx.vars[v]; !ok {
			present = false
		}
	}
	fmt.Fprintf(&b, "/-- The process-wide settings read by every operation. -/\ndef settingsVars : List String := %s\ndef settingsVarsDeclared : Bool := %s\n", leanStrList(settingsVars), leanBool(present))

	// direct writers in the plain build, then everything in the plain build that can reach one
	direct := map[string]bool{}
	for _, v := range settingsVars {
		for _, w := range writersOf(files, v) {
			direct[w] = true
		}
	}
	g := buildCallGraph()
	reachers := map[string]bool{}
	for fn := range g.edges {
		r := g.reachable([]string{fn})
		for w := range direct {
			if r[w] {
				reachers[fn] = true
			}
		}
	}
	// references from package-level initialisers (e.g. `var SetX = setThreshold`) in the plain build
	for _, f := range files {
		for _, d := range f.Decls {
			gd, ok := d.(*ast.GenDecl)
			if !ok {
				continue
			}
			for _, s := range gd.Specs {
				vs, ok := s.(*ast.ValueSpec)
				if !ok {
					continue
				}
				for _, val := range vs.Values {
					for w := range reachers {
						if pidx.funcs[w] != nil && refsFunc(val, w) {
							reachers["<initialiser of "+vs.Names[0].Name+">"] = true
						}
					}
				}
			}
		}
	}
	fmt.Fprintf(&b, "/-- Functions of the plain build that write a setting. -/\ndef settingsWriters : List String := %s\n", leanStrList(sortedSet(direct)))
	fmt.Fprintf(&b, "/-- Functions (and package-level initialisers) of the plain build from which a writer of a setting is\n    reachable in the static call graph (the writers themselves included). -/\ndef settingsWriterReachers : List String := %s\n", leanStrList(sortedSet(reachers)))

	// verif-only and test-only code
	extra := func(fileSet map[string]*ast.File) ([]string, []string) {
		ws, files2 := map[string]bool{}, map[string]bool{}
		for fname, f := range fileSet {
			for _, d := range f.Decls {
				switch x := d.(type) {
				case *ast.FuncDecl:
					if x.Body == nil {
						continue
					}
					hit := false
					for _, v := range settingsVars {
						if len(varWrites(x.Body, v)) > 0 {
							hit = true
						}
					}
					for w := range direct {
						if refsFunc(x.Body, w) {
							hit = true
						}
					}
					if hit {
						ws[funcName(x)] = true
						files2[fname] = true
					}
				case *ast.GenDecl:
					for _, s := range x.Specs {
						if vs, ok := s.(*ast.ValueSpec); ok {
							for _, val := range vs.Values {
								for w := range direct {
									if refsFunc(val, w) {
										ws["<initialiser of "+vs.Names[0].Name+">"] = true
										files2[fname] = true
									}
								}
							}
						}
					}
				}
			}
		}
		return sortedSet(ws), sortedSet(files2)
	}
	vw, _ := extra(verifFiles)
	tw, tf := extra(testFiles)
	tagged := len(verifFiles) > 0
	for _, f := range verifFiles {
		ok := false
		for _, cg := range f.Comments {
			if cg.Pos() < f.Package && strings.Contains(cg.Text(), "") {
				for _, c := range cg.List {
					if strings.TrimSpace(c.Text) == "//go:build verif" {
						ok = true
					}
				}
			}
		}
		if !ok {
			tagged = false
		}
	}
	fmt.Fprintf(&b, "/-- Functions of `verif_hooks.go` that write a setting or mention a writer of the plain build, and\n    whether that file carries the build constraint `//go:build verif` (it is not part of a plain build). -/\ndef settingsWritersVerifOnly : List String := %s\ndef verifHooksAreBuildTagged : Bool := %s\n", leanStrList(vw), leanBool(tagged || len(verifFiles) == 0))
	fmt.Fprintf(&b, "/-- The functions / initialisers of the `_test.go` files of package atree (compiled by `go test` only; the\n    files of package atree_test cannot name the unexported settings) that write a setting or mention a\n    writer, and their files. -/\ndef settingsWritersTestOnly : List String := %s\ndef settingsWriterTestFiles : List String := %s\n\n", leanStrList(tw), leanStrList(tf))
	return b.String()
}

var detRepo string

func genDetFacts() string {
	pidx = buildIndex(files)
	pidx.resolveVarTypes(files)
	return genRangeFacts() + genBufferPoolFacts() + genSettingsFacts(detRepo)
}
