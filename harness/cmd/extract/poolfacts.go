package main

// Syntactic facts about the worker pools of FastCommit / NondeterministicFastCommit / BatchPreload,
// about who can reach the BaseStorage, and about what the pooled digester's Reset clears.
// Everything here is go/ast only (no type information): identifiers are matched by name inside one
// function, which over-approximates (a shadowing variable of the same name is treated alike).

import (
	"fmt"
	"go/ast"
	"go/token"
	"sort"
	"strings"
)

var poolFuncs = []struct{ fn, worker string }{
	{"PersistentSlabStorage.FastCommit", "encoder"},
	{"PersistentSlabStorage.NondeterministicFastCommit", "encoder"},
	{"PersistentSlabStorage.BatchPreload", "decoder"},
}

// chanCapacity returns the capacity expression of `<name> := make(chan T, CAP)` in fd ("" if the
// variable is not made exactly once that way, "0" for an unbuffered make).
func chanCapacity(fd *ast.FuncDecl, name string) string {
	var caps []string
	ast.Inspect(fd.Body, func(n ast.Node) bool {
		as, ok := n.(*ast.AssignStmt)
		if !ok {
			return true
		}
		for i, l := range as.Lhs {
			id, ok := l.(*ast.Ident)
			if !ok || id.Name != name || i >= len(as.Rhs) {
				continue
			}
			ce, ok := as.Rhs[i].(*ast.CallExpr)
			if !ok {
				caps = append(caps, "?")
				continue
			}
			if f, ok := ce.Fun.(*ast.Ident); !ok || f.Name != "make" || len(ce.Args) == 0 {
				caps = append(caps, "?")
				continue
			}
			if _, ok := ce.Args[0].(*ast.ChanType); !ok {
				caps = append(caps, "?")
				continue
			}
			if len(ce.Args) == 1 {
				caps = append(caps, "0")
			} else {
				caps = append(caps, exprString(ce.Args[1]))
			}
		}
		return true
	})
	if len(caps) != 1 {
		return ""
	}
	return caps[0]
}

func isCallTo(n ast.Node, callee string) bool {
	es, ok := n.(*ast.ExprStmt)
	if !ok {
		return false
	}
	ce, ok := es.X.(*ast.CallExpr)
	return ok && exprString(ce) == callee
}

// cleanupWaitsBeforeClose: the function closes `results` exactly once, inside a deferred function
// literal, as a top-level statement of that literal, and an unconditional `wg.Wait()` is an earlier
// top-level statement of the same literal; the worker closure starts with `defer wg.Done()`.
func cleanupWaitsBeforeClose(fd *ast.FuncDecl, worker string) bool {
	closes := 0
	ast.Inspect(fd.Body, func(n ast.Node) bool {
		if ce, ok := n.(*ast.CallExpr); ok && exprString(ce) == "close(results)" {
			closes++
		}
		return true
	})
	if closes != 1 {
		return false
	}
	ok := false
	ast.Inspect(fd.Body, func(n ast.Node) bool {
		ds, isDefer := n.(*ast.DeferStmt)
		if !isDefer {
			return true
		}
		fl, isLit := ds.Call.Fun.(*ast.FuncLit)
		if !isLit {
			return true
		}
		waitAt, closeAt := -1, -1
		for i, s := range fl.Body.List {
			if isCallTo(s, "wg.Wait()") && waitAt < 0 {
				waitAt = i
			}
			if isCallTo(s, "close(results)") {
				closeAt = i
			}
		}
		if waitAt >= 0 && closeAt > waitAt {
			ok = true
		}
		return true
	})
	if !ok {
		return false
	}
	lits := funcLitsAssignedTo(fd, worker)
	if len(lits) != 1 || len(lits[0].Body.List) == 0 {
		return false
	}
	d, isDefer := lits[0].Body.List[0].(*ast.DeferStmt)
	return isDefer && exprString(d.Call) == "wg.Done()"
}

// ---------------------------------------------------------------------------------------------
// who reaches the BaseStorage

// baseFieldNames: struct fields declared with type BaseStorage; baseFuncNames: functions / methods
// whose single result has type BaseStorage.
func baseStorageNames() (fields, funcs map[string]bool) {
	fields, funcs = map[string]bool{}, map[string]bool{}
	for _, f := range files {
		ast.Inspect(f, func(n ast.Node) bool {
			switch x := n.(type) {
			case *ast.StructType:
				for _, fl := range x.Fields.List {
					if exprString(fl.Type) == "BaseStorage" {
						for _, nm := range fl.Names {
							fields[nm.Name] = true
						}
					}
				}
			case *ast.FuncDecl:
				if x.Type.Results != nil && len(x.Type.Results.List) == 1 && exprString(x.Type.Results.List[0].Type) == "BaseStorage" {
					funcs[x.Name.Name] = true
				}
			}
			return true
		})
	}
	return
}

type baseUse struct {
	methods map[string]bool // methods selected on a base-storage expression
	escapes bool            // a base-storage expression is used other than as the receiver of a selector / the source of a local alias
	getters map[string]bool // BaseStorage-returning functions called
}

// baseStorageUses analyses one function: which expressions denote the base storage (a field of
// type BaseStorage, a call of a BaseStorage-returning function, a parameter / variable declared
// BaseStorage, a local alias of any of these, parentheses / type assertions around them), which
// methods are selected on them and whether such an expression escapes.
func baseStorageUses(fd *ast.FuncDecl, fields, funcs map[string]bool) baseUse {
	u := baseUse{methods: map[string]bool{}, getters: map[string]bool{}}
	alias := map[string]bool{}
	declare := func(fl *ast.FieldList) {
		if fl == nil {
			return
		}
		for _, p := range fl.List {
			if exprString(p.Type) == "BaseStorage" {
				for _, nm := range p.Names {
					alias[nm.Name] = true
				}
			}
		}
	}
	declare(fd.Type.Params)
	var isBase func(e ast.Expr) bool
	isBase = func(e ast.Expr) bool {
		switch x := e.(type) {
		case *ast.ParenExpr:
			return isBase(x.X)
		case *ast.TypeAssertExpr:
			return isBase(x.X)
		case *ast.Ident:
			return alias[x.Name]
		case *ast.SelectorExpr:
			return fields[x.Sel.Name]
		case *ast.CallExpr:
			switch f := x.Fun.(type) {
			case *ast.SelectorExpr:
				return funcs[f.Sel.Name]
			case *ast.Ident:
				return funcs[f.Name]
			}
		}
		return false
	}
	// aliases, to a fixed point (flow-insensitive)
	for changed := true; changed; {
		changed = false
		ast.Inspect(fd.Body, func(n ast.Node) bool {
			add := func(l ast.Expr) {
				if id, ok := l.(*ast.Ident); ok && id.Name != "_" && !alias[id.Name] {
					alias[id.Name] = true
					changed = true
				}
			}
			switch x := n.(type) {
			case *ast.AssignStmt:
				if len(x.Lhs) == len(x.Rhs) {
					for i := range x.Lhs {
						if isBase(x.Rhs[i]) {
							add(x.Lhs[i])
						}
					}
				}
			case *ast.ValueSpec:
				if x.Type != nil && exprString(x.Type) == "BaseStorage" {
					for _, nm := range x.Names {
						add(nm)
					}
				}
				if len(x.Names) == len(x.Values) {
					for i := range x.Names {
						if isBase(x.Values[i]) {
							add(x.Names[i])
						}
					}
				}
			case *ast.FuncLit:
				before := len(alias)
				declare(x.Type.Params)
				if len(alias) != before {
					changed = true
				}
			}
			return true
		})
	}
	// uses, with the parent of every node
	var stack []ast.Node
	ast.Inspect(fd.Body, func(n ast.Node) bool {
		if n == nil {
			stack = stack[:len(stack)-1]
			return true
		}
		var parent ast.Node
		if len(stack) > 0 {
			parent = stack[len(stack)-1]
		}
		stack = append(stack, n)
		e, isExpr := n.(ast.Expr)
		if !isExpr || !isBase(e) {
			return true
		}
		if ce, ok := e.(*ast.CallExpr); ok {
			switch f := ce.Fun.(type) {
			case *ast.SelectorExpr:
				u.getters[f.Sel.Name] = true
			case *ast.Ident:
				u.getters[f.Name] = true
			}
		}
		switch p := parent.(type) {
		case *ast.SelectorExpr:
			if p.X == e {
				u.methods[p.Sel.Name] = true // method call or method value
				return true
			}
			// e is p itself seen from below (x.baseStorage's child is x): not a use of e
			return true
		case *ast.ParenExpr, *ast.TypeAssertExpr:
			return true // judged at the enclosing expression
		case *ast.AssignStmt:
			for i, r := range p.Rhs {
				if r == e && len(p.Lhs) == len(p.Rhs) {
					if id, ok := p.Lhs[i].(*ast.Ident); ok && (alias[id.Name] || id.Name == "_") {
						return true // local alias (tracked)
					}
				}
			}
			for _, l := range p.Lhs {
				if l == e {
					if _, ok := l.(*ast.Ident); ok {
						return true // the alias variable being assigned
					}
				}
			}
		case *ast.ValueSpec:
			for _, v := range p.Values {
				if v == e {
					return true
				}
			}
		case *ast.Field:
			return true
		}
		u.escapes = true
		return true
	})
	return u
}

func intersect(a, b []string) []string {
	in := map[string]bool{}
	for _, x := range b {
		in[x] = true
	}
	var out []string
	for _, x := range a {
		if in[x] {
			out = append(out, x)
		}
	}
	return out
}

func sortedSet(m map[string]bool) []string {
	l := make([]string, 0, len(m))
	for k := range m {
		l = append(l, k)
	}
	sort.Strings(l)
	return l
}

// baseStorageCallers lists the functions that select `method` on a base-storage expression.
func baseStorageCallers(method string) []string {
	fields, funcs := baseStorageNames()
	set := map[string]bool{}
	forEachFunc(func(fd *ast.FuncDecl) {
		if baseStorageUses(fd, fields, funcs).methods[method] {
			set[funcName(fd)] = true
		}
	})
	return sortedSet(set)
}

func forEachFunc(f func(fd *ast.FuncDecl)) {
	for _, file := range files {
		for _, d := range file.Decls {
			if fd, ok := d.(*ast.FuncDecl); ok && fd.Body != nil {
				f(fd)
			}
		}
	}
}

// ---------------------------------------------------------------------------------------------
// worker closures: calls through the storage receiver

// Calls `recv.<name>(...)` that cannot change the storage: accessors of immutable configuration and
// the caller-supplied decoder callbacks (fields of function type).
var readOnlyReceiverCalls = map[string]bool{
	"getCBOREncMode": true, "getCBORDecMode": true, "DecodeStorable": true, "DecodeTypeInfo": true,
}

// receiverCallsAndEscapes lists what a closure does THROUGH the receiver beyond reading its fields:
// calls whose callee is rooted at the receiver (`s.Retrieve(id)`, `s.cache.m()`), the receiver
// passed on as a value (`f(s)`, `x = s`, `return s`), and the address of one of its fields (`&s.cache`).
func receiverCallsAndEscapes(n ast.Node, recv string) []string {
	set := map[string]bool{}
	rooted := func(e ast.Expr) bool {
		for {
			switch x := e.(type) {
			case *ast.SelectorExpr:
				e = x.X
			case *ast.IndexExpr:
				e = x.X
			case *ast.ParenExpr:
				e = x.X
			case *ast.StarExpr:
				e = x.X
			case *ast.Ident:
				return x.Name == recv
			default:
				return false
			}
		}
	}
	var stack []ast.Node
	ast.Inspect(n, func(x ast.Node) bool {
		if x == nil {
			stack = stack[:len(stack)-1]
			return true
		}
		var parent ast.Node
		if len(stack) > 0 {
			parent = stack[len(stack)-1]
		}
		stack = append(stack, x)
		switch e := x.(type) {
		case *ast.CallExpr:
			if se, ok := e.Fun.(*ast.SelectorExpr); ok && rooted(se.X) && !readOnlyReceiverCalls[se.Sel.Name] {
				set["call "+exprString(e.Fun)] = true
			}
		case *ast.UnaryExpr:
			if e.Op == token.AND && rooted(e.X) {
				set["address "+exprString(e.X)] = true
			}
		case *ast.Ident:
			if e.Name != recv {
				return true
			}
			switch p := parent.(type) {
			case *ast.SelectorExpr:
				if p.X == e {
					return true // s.field
				}
			}
			set["value "+recv] = true
		}
		return true
	})
	return sortedSet(set)
}

// ---------------------------------------------------------------------------------------------
// pooled objects

// resetThenPutSameObject: top-level statements `<x>.Reset()` and `<pool>.Put(<x>)` on the SAME
// identifier, in this order, both unconditional.
func resetThenPutSameObject(fd *ast.FuncDecl) bool {
	if fd == nil || fd.Body == nil {
		return false
	}
	resetAt := map[string]int{}
	for i, s := range fd.Body.List {
		es, ok := s.(*ast.ExprStmt)
		if !ok {
			continue
		}
		ce, ok := es.X.(*ast.CallExpr)
		if !ok {
			continue
		}
		se, ok := ce.Fun.(*ast.SelectorExpr)
		if !ok {
			continue
		}
		if se.Sel.Name == "Reset" && len(ce.Args) == 0 {
			if id, ok := se.X.(*ast.Ident); ok {
				if _, seen := resetAt[id.Name]; !seen {
					resetAt[id.Name] = i
				}
			}
		}
		if se.Sel.Name == "Put" && len(ce.Args) == 1 {
			if id, ok := ce.Args[0].(*ast.Ident); ok {
				at, seen := resetAt[id.Name]
				return seen && at < i
			}
			return false
		}
	}
	return false
}

func structFields(typeName string) []string {
	var out []string
	for _, f := range files {
		ast.Inspect(f, func(n ast.Node) bool {
			ts, ok := n.(*ast.TypeSpec)
			if !ok || ts.Name.Name != typeName {
				return true
			}
			if st, ok := ts.Type.(*ast.StructType); ok {
				for _, fl := range st.Fields.List {
					for _, nm := range fl.Names {
						out = append(out, nm.Name)
					}
				}
			}
			return false
		})
	}
	return out
}

// fieldsAssignedUnconditionally: fields f with a top-level statement `<recv>.f = ...` in the method.
func fieldsAssignedUnconditionally(fd *ast.FuncDecl) []string {
	set := map[string]bool{}
	if fd == nil || fd.Body == nil || fd.Recv == nil || len(fd.Recv.List[0].Names) != 1 {
		return nil
	}
	recv := fd.Recv.List[0].Names[0].Name
	for _, s := range fd.Body.List {
		as, ok := s.(*ast.AssignStmt)
		if !ok || as.Tok != token.ASSIGN {
			continue
		}
		for _, l := range as.Lhs {
			if se, ok := l.(*ast.SelectorExpr); ok {
				if id, ok := se.X.(*ast.Ident); ok && id.Name == recv {
					set[se.Sel.Name] = true
				}
			}
		}
	}
	return sortedSet(set)
}

// fieldsReadByMethods: fields of typeName whose value is read (any occurrence of `<recv>.f` that is
// not the complete left-hand side of a plain assignment) in a method of the type other than `except`.
func fieldsReadByMethods(typeName, except string) []string {
	set := map[string]bool{}
	forEachFunc(func(fd *ast.FuncDecl) {
		if !strings.HasPrefix(funcName(fd), typeName+".") || fd.Name.Name == except || len(fd.Recv.List[0].Names) != 1 {
			return
		}
		recv := fd.Recv.List[0].Names[0].Name
		lhs := map[ast.Expr]bool{}
		ast.Inspect(fd.Body, func(n ast.Node) bool {
			if as, ok := n.(*ast.AssignStmt); ok && as.Tok == token.ASSIGN {
				for _, l := range as.Lhs {
					lhs[l] = true
				}
			}
			return true
		})
		ast.Inspect(fd.Body, func(n ast.Node) bool {
			se, ok := n.(*ast.SelectorExpr)
			if !ok || lhs[se] {
				return true
			}
			if id, ok := se.X.(*ast.Ident); ok && id.Name == recv {
				set[se.Sel.Name] = true
			}
			return true
		})
	})
	return sortedSet(set)
}

// pooledDigesterType: the concrete type putDigester insists on (`e.(*T)`).
func pooledDigesterType() string {
	fd := findFunc("putDigester")
	name := ""
	if fd == nil {
		return name
	}
	ast.Inspect(fd.Body, func(n ast.Node) bool {
		if ta, ok := n.(*ast.TypeAssertExpr); ok && ta.Type != nil {
			if st, ok := ta.Type.(*ast.StarExpr); ok {
				if id, ok := st.X.(*ast.Ident); ok {
					name = id.Name
				}
			}
		}
		return true
	})
	return name
}

func leanTriples(rows [][3]string) string {
	q := make([]string, len(rows))
	for i, r := range rows {
		q[i] = fmt.Sprintf("(%q, %q, %q)", r[0], r[1], r[2])
	}
	return "[" + strings.Join(q, ", ") + "]"
}

func genPoolFacts() string {
	var b strings.Builder

	// (a) capacities, (b) cleanup order
	var caps [][3]string
	capOK, cleanupOK := true, true
	for _, spec := range poolFuncs {
		fd := findFunc(spec.fn)
		if fd == nil {
			capOK, cleanupOK = false, false
			continue
		}
		r, j := chanCapacity(fd, "results"), chanCapacity(fd, "jobs")
		caps = append(caps, [3]string{spec.fn, r, j})
		if r == "" || r == "0" || r != j {
			capOK = false
		}
		if !cleanupWaitsBeforeClose(fd, spec.worker) {
			cleanupOK = false
		}
	}
	fmt.Fprintf(&b, "/-- Per worker pool: (function, capacity expression of `results := make(chan …, CAP)`, capacity\n    expression of `jobs := make(chan …, CAP)`).  Every job is put into `jobs` without blocking, so its\n    capacity is the job count. -/\ndef poolChannelCapacities : List (String × String × String) := %s\n", leanTriples(caps))
	fmt.Fprintf(&b, "/-- In all three pools the result queue is made exactly once, buffered, with the SAME capacity\n    expression as the job queue (a worker's send never blocks, also after the collector returned early). -/\ndef poolResultsCapacityIsJobCount : Bool := %s\n", leanBool(capOK && len(caps) == 3))
	fmt.Fprintf(&b, "/-- In all three pools `results` is closed exactly once, in a deferred function literal, after an\n    unconditional `wg.Wait()` in the same literal; the worker closure starts with `defer wg.Done()`. -/\ndef poolCleanupWaitsBeforeClose : Bool := %s\n\n", leanBool(cleanupOK))

	// (c) base storage reachability
	fields, funcs := baseStorageNames()
	var escapes []string
	getterCallers := map[string]bool{}
	methodsBy := map[string][]string{}
	forEachFunc(func(fd *ast.FuncDecl) {
		u := baseStorageUses(fd, fields, funcs)
		if u.escapes {
			escapes = append(escapes, funcName(fd))
		}
		if len(u.getters) > 0 {
			getterCallers[funcName(fd)] = true
		}
		if len(u.methods) > 0 {
			methodsBy[funcName(fd)] = sortedSet(u.methods)
		}
	})
	sort.Strings(escapes)
	fmt.Fprintf(&b, "/-- Struct fields of type BaseStorage / functions returning a BaseStorage. -/\ndef baseStorageFields : List String := %s\ndef baseStorageGetters : List String := %s\n", leanStrList(sortedSet(fields)), leanStrList(sortedSet(funcs)))
	fmt.Fprintf(&b, "/-- Functions in which an expression denoting the base storage (such a field, a call of such a\n    getter, a parameter or variable of that type, a local alias) is used other than as the receiver\n    of a method selector or the source of a tracked local alias: it is stored, returned or passed on. -/\ndef baseStorageEscapes : List String := %s\n", leanStrList(escapes))
	fmt.Fprintf(&b, "/-- Functions that call a BaseStorage-returning getter. -/\ndef baseStorageGetterCallers : List String := %s\n", leanStrList(sortedSet(getterCallers)))
	var rows []string
	var names []string
	for k := range methodsBy {
		names = append(names, k)
	}
	sort.Strings(names)
	for _, k := range names {
		rows = append(rows, fmt.Sprintf("  (%q, %s)", k, leanStrList(methodsBy[k])))
	}
	fmt.Fprintf(&b, "/-- Per function: the BaseStorage methods it selects on such an expression. -/\ndef baseStorageMethodUses : List (String × List String) := [\n%s\n]\n\n", strings.Join(rows, ",\n"))

	// (d) worker closures: what they do through the receiver
	rows = nil
	for _, spec := range poolFuncs {
		fd := findFunc(spec.fn)
		var l []string
		if fd == nil {
			l = []string{"missing"}
		} else {
			recv := "s"
			if fd.Recv != nil && len(fd.Recv.List[0].Names) == 1 {
				recv = fd.Recv.List[0].Names[0].Name
			}
			lits := funcLitsAssignedTo(fd, spec.worker)
			if len(lits) != 1 {
				l = []string{"missing"}
			}
			for _, fl := range lits {
				l = append(l, receiverCallsAndEscapes(fl, recv)...)
			}
		}
		rows = append(rows, fmt.Sprintf("  (%q, %s)", spec.fn, leanStrList(l)))
	}
	fmt.Fprintf(&b, "/-- Per worker closure: calls rooted at the storage receiver that are not on the read-only list\n    (getCBOREncMode, getCBORDecMode, the decoder callbacks), the receiver passed on as a value, and\n    addresses taken of its fields.  A call such as `s.Retrieve(id)` (which fills the cache) shows up here. -/\ndef workerClosureReceiverUses : List (String × List String) := [\n%s\n]\n\n", strings.Join(rows, ",\n"))

	// (e) what the pooled digester's Reset clears
	ty := pooledDigesterType()
	fmt.Fprintf(&b, "/-- The concrete type `putDigester` returns to its pool, its fields, the fields its `Reset` assigns\n    unconditionally, and the fields its other methods read (the state a reused object could leak). -/\ndef pooledDigesterType : String := %q\ndef pooledDigesterFields : List String := %s\ndef pooledDigesterResetClears : List String := %s\ndef pooledDigesterFieldsRead : List String := %s\n",
		ty, leanStrList(structFields(ty)), leanStrList(fieldsAssignedUnconditionally(findFunc(ty+".Reset"))), leanStrList(intersect(fieldsReadByMethods(ty, "Reset"), structFields(ty))))
	same := true
	for _, fn := range []string{"putBuffer", "putDigester", "putTypeIDBuffer"} {
		if !resetThenPutSameObject(findFunc(fn)) {
			same = false
		}
	}
	fmt.Fprintf(&b, "/-- In every pool `put*` helper, `x.Reset()` and `pool.Put(x)` are unconditional statements on the\n    same identifier, in this order. -/\ndef putResetsTheObjectItPuts : Bool := %s\n\n", leanBool(same))
	return b.String()
}
