package main

// C18, last sentence ("an error raised by a caller-supplied component ... is reported as an
// external error"): the CALL SITES, as a regenerated fact.
//
//   errWrapSites : List (String × String × String)
//
// one row (function, callee, how) for every call in package atree
//   * of a method through a value whose DECLARED type is an interface type of the package
//     (`SlabStorage.Retrieve`, `Value.Storable`, `Storable.StoredValue`, `Digester.Digest`, ... and
//     the package-internal interfaces `ArraySlab`, `MapSlab`, `element`, `elements` alike: the
//     classification "caller-supplied or not" is NOT made here, it is part of the Lean statement),
//   * of a value of function type (parameter, local variable, struct field: comparator,
//     hash-input provider, iteration / pop callbacks, element providers, decoder callbacks),
//   * of a method / function value whose receiver type this file cannot resolve (callee
//     "unresolved:<expr>"; never silently dropped),
// whose LAST result is of type `error`.  `how` says what the enclosing function does with that error:
//
//   wrapErrorfAsExternalErrorIfNeeded / wrapErrorAsExternalErrorIfNeeded
//                      every return guarded by the error hands it to that function,
//   raw                a return hands the error on as it is (`return err`, `return nil, err`,
//                      `return f(...)` with the call itself as the result),
//   ctor:<NewXError>   a return wraps it into that constructor,
//   ignored            the error is assigned to `_` / the call is an expression statement,
//   unguarded          no `if <err> != nil { ... return ... }` follows the call in its block,
//   other:<expr>       anything else (first 40 characters of the returned expression).
//
// If the guarded branch has several returns with different treatment, the worst one (anything but a
// wrap) is reported.  Everything is go/ast with the declared-type resolution of detfacts.go; the
// walk covers function literals (rows carry the name of the enclosing declaration).

import (
	"fmt"
	"go/ast"
	"go/token"
	"sort"
	"strings"
)

type wrapSite struct {
	fn, callee, how string
	pos             token.Pos
}

// calleeOfInterest classifies a call; "" = not an interface / function-value call.
func (s *scope) calleeOfInterest(ce *ast.CallExpr) string {
	switch f := ce.Fun.(type) {
	case *ast.Ident:
		if !isLocal(f) {
			// package-level variable of function type? (none today; resolved like a function)
			return ""
		}
		t := s.vars[f.Obj]
		if t == nil {
			return "unresolved:" + f.Name
		}
		if _, ok := pidx.underlying(t).(*ast.FuncType); ok {
			return "func:" + typeLabel(t)
		}
		return ""
	case *ast.SelectorExpr:
		if id := rootIdent(f.X); id != nil && !isLocal(id) && pidx.imports[id.Name] {
			return "" // function / variable of another package (binary.BigEndian.Uint64)
		}
		rt := s.typeOf(f.X)
		if rt == nil {
			return "unresolved:" + exprString(f)
		}
		if id, ok := rt.(*ast.Ident); ok && id.Name == "error" {
			return "" // err.Error(), errors of the universe: not a component
		}
		if _, ext := stripStar(rt).(*ast.SelectorExpr); ext {
			return "" // a type of another package (cbor encoder, ...): not a component of the caller of atree
		}
		if pidx.isInterface(rt) {
			return typeLabel(rt) + "." + f.Sel.Name
		}
		if fd := pidx.lookupMethod(namedOf(rt), f.Sel.Name, 0); fd != nil {
			return "" // method of a concrete type of the package
		}
		if ft := pidx.fieldType(rt, f.Sel.Name, 0); ft != nil {
			if _, ok := pidx.underlying(ft).(*ast.FuncType); ok {
				return "func:" + typeLabel(ft)
			}
			return ""
		}
		if tn := namedOf(rt); tn != "" {
			if _, known := pidx.types[tn]; known && !pidx.typeParams[tn] {
				return "" // promoted method of an embedded foreign type
			}
		}
		return "unresolved:" + exprString(f)
	}
	return ""
}

func typeLabel(t ast.Expr) string {
	if n := namedOf(t); n != "" {
		if _, ok := t.(*ast.StarExpr); !ok {
			return n
		}
	}
	l := exprString(t)
	l = strings.Join(strings.Fields(l), " ")
	if len(l) > 60 {
		l = l[:60]
	}
	return l
}

// lastResultIsError: the call's last result has type error (resolved signature), or - for an
// unresolved callee - the variable it is assigned to is tested against nil later (decided by caller).
func (s *scope) lastResultIsError(ce *ast.CallExpr) (known bool, isErr bool) {
	rs, ok := s.callResults(ce)
	if !ok {
		return false, false
	}
	if len(rs) == 0 {
		return true, false
	}
	id, isID := rs[len(rs)-1].(*ast.Ident)
	return true, isID && id.Name == "error"
}

func mentionsIdent(e ast.Node, name string) bool {
	found := false
	ast.Inspect(e, func(n ast.Node) bool {
		if id, ok := n.(*ast.Ident); ok && id.Name == name {
			found = true
		}
		return !found
	})
	return found
}

// condTestsNotNil: the condition contains `<name> != nil`.
func condTestsNotNil(c ast.Expr, name string) bool {
	found := false
	ast.Inspect(c, func(n ast.Node) bool {
		if be, ok := n.(*ast.BinaryExpr); ok && be.Op == token.NEQ {
			if id, ok := be.X.(*ast.Ident); ok && id.Name == name {
				if nl, ok := be.Y.(*ast.Ident); ok && nl.Name == "nil" {
					found = true
				}
			}
		}
		return !found
	})
	return found
}

// treatment of one returned expression that mentions the error variable
func returnTreatment(e ast.Expr, errName string) string {
	switch x := e.(type) {
	case *ast.Ident:
		if x.Name == errName {
			return "raw"
		}
	case *ast.CallExpr:
		name := exprString(x.Fun)
		if strings.HasPrefix(name, "wrapError") && len(x.Args) > 0 {
			if id, ok := x.Args[0].(*ast.Ident); ok && id.Name == errName {
				return name
			}
		}
		if strings.HasPrefix(name, "New") && strings.Contains(name, "Error") {
			return "ctor:" + name
		}
	}
	t := strings.Join(strings.Fields(exprString(e)), " ")
	if len(t) > 40 {
		t = t[:40]
	}
	return "other:" + t
}

func isWrap(how string) bool { return strings.HasPrefix(how, "wrapError") }

// guardTreatment: what the returns inside `body` do with errName.  "" = no return mentions it.
func guardTreatment(body ast.Node, errName string) string {
	res := ""
	ast.Inspect(body, func(n ast.Node) bool {
		switch x := n.(type) {
		case *ast.FuncLit:
			return false
		case *ast.ReturnStmt:
			for _, r := range x.Results {
				if !mentionsIdent(r, errName) {
					continue
				}
				t := returnTreatment(r, errName)
				if res == "" || (isWrap(res) && !isWrap(t)) {
					res = t
				}
			}
		case *ast.CallExpr:
			if id, ok := x.Fun.(*ast.Ident); ok && id.Name == "panic" && len(x.Args) == 1 && mentionsIdent(x.Args[0], errName) {
				if res == "" || isWrap(res) {
					res = "other:panic"
				}
			}
		}
		return true
	})
	return res
}

type wrapWalker struct {
	fn    string
	sc    *scope
	sites []wrapSite
}

func (w *wrapWalker) add(ce *ast.CallExpr, callee, how string) {
	w.sites = append(w.sites, wrapSite{fn: w.fn, callee: callee, how: how, pos: ce.Pos()})
}

// interestingCall: the call is of interest and returns an error last (or cannot be resolved).
func (w *wrapWalker) interestingCall(ce *ast.CallExpr) (string, bool) {
	callee := w.sc.calleeOfInterest(ce)
	if callee == "" {
		return "", false
	}
	known, isErr := w.sc.lastResultIsError(ce)
	if known && !isErr {
		return "", false
	}
	return callee, true
}

// rest: the statements that follow the call's statement in its block.
func (w *wrapWalker) afterAssign(ce *ast.CallExpr, callee string, lhs []ast.Expr, rest []ast.Stmt, sameIf *ast.IfStmt) {
	if len(lhs) == 0 {
		w.add(ce, callee, "ignored")
		return
	}
	id, ok := lhs[len(lhs)-1].(*ast.Ident)
	if !ok {
		w.add(ce, callee, "other:assigned to "+exprString(lhs[len(lhs)-1]))
		return
	}
	if id.Name == "_" {
		w.add(ce, callee, "ignored")
		return
	}
	name := id.Name
	if sameIf != nil { // `if err := call(); err != nil { ... }`
		if condTestsNotNil(sameIf.Cond, name) {
			if t := guardTreatment(sameIf.Body, name); t != "" {
				w.add(ce, callee, t)
				return
			}
		}
		w.add(ce, callee, "unguarded")
		return
	}
	for _, st := range rest {
		switch x := st.(type) {
		case *ast.IfStmt:
			if condTestsNotNil(x.Cond, name) {
				t := guardTreatment(x.Body, name)
				if t == "" {
					t = "unguarded"
				}
				w.add(ce, callee, t)
				return
			}
		case *ast.ReturnStmt:
			for _, r := range x.Results {
				if mentionsIdent(r, name) {
					w.add(ce, callee, returnTreatment(r, name))
					return
				}
			}
		}
		// the variable is overwritten before it is looked at
		if as, ok := st.(*ast.AssignStmt); ok {
			for _, l := range as.Lhs {
				if lid, ok := l.(*ast.Ident); ok && lid.Name == name {
					w.add(ce, callee, "unguarded")
					return
				}
			}
		}
	}
	w.add(ce, callee, "unguarded")
}

// callsIn: the interesting calls inside an expression that are NOT the expression itself
// (arguments of other calls, operands): their error cannot be assigned, they return one value.
func (w *wrapWalker) nestedCalls(e ast.Node, skip *ast.CallExpr) {
	if e == nil {
		return
	}
	ast.Inspect(e, func(n ast.Node) bool {
		switch x := n.(type) {
		case *ast.FuncLit:
			w.block(x.Body.List)
			return false
		case *ast.CallExpr:
			if x == skip {
				return true
			}
			if callee, ok := w.interestingCall(x); ok {
				known, _ := w.sc.lastResultIsError(x)
				if known {
					w.add(x, callee, "other:used inside an expression")
				}
				// unresolved calls inside expressions return a single non-error value almost always: not listed
			}
		}
		return true
	})
}

func (w *wrapWalker) block(stmts []ast.Stmt) {
	for i, st := range stmts {
		w.stmt(st, stmts[i+1:])
	}
}

func (w *wrapWalker) simple(st ast.Stmt, rest []ast.Stmt, sameIf *ast.IfStmt) {
	switch x := st.(type) {
	case nil:
	case *ast.AssignStmt:
		if len(x.Rhs) == 1 {
			if ce, ok := x.Rhs[0].(*ast.CallExpr); ok {
				if callee, ok := w.interestingCall(ce); ok {
					known, _ := w.sc.lastResultIsError(ce)
					if known || len(x.Lhs) >= 1 && isErrName(x.Lhs[len(x.Lhs)-1]) {
						w.afterAssign(ce, callee, x.Lhs, rest, sameIf)
					}
					w.nestedCalls(ce, ce)
					for _, l := range x.Lhs {
						w.nestedCalls(l, nil)
					}
					return
				}
			}
		}
		for _, r := range x.Rhs {
			w.nestedCalls(r, nil)
		}
		for _, l := range x.Lhs {
			w.nestedCalls(l, nil)
		}
	case *ast.ExprStmt:
		if ce, ok := x.X.(*ast.CallExpr); ok {
			if callee, ok := w.interestingCall(ce); ok {
				if known, _ := w.sc.lastResultIsError(ce); known {
					w.add(ce, callee, "ignored")
				}
				w.nestedCalls(ce, ce)
				return
			}
		}
		w.nestedCalls(x.X, nil)
	case *ast.DeclStmt:
		if gd, ok := x.Decl.(*ast.GenDecl); ok {
			for _, sp := range gd.Specs {
				if vs, ok := sp.(*ast.ValueSpec); ok {
					if len(vs.Values) == 1 {
						if ce, ok := vs.Values[0].(*ast.CallExpr); ok {
							if callee, ok := w.interestingCall(ce); ok {
								lhs := make([]ast.Expr, len(vs.Names))
								for i, n := range vs.Names {
									lhs[i] = n
								}
								w.afterAssign(ce, callee, lhs, rest, nil)
								w.nestedCalls(ce, ce)
								continue
							}
						}
					}
					for _, v := range vs.Values {
						w.nestedCalls(v, nil)
					}
				}
			}
		}
	case *ast.IncDecStmt:
		w.nestedCalls(x.X, nil)
	case *ast.SendStmt:
		w.nestedCalls(x.Chan, nil)
		w.nestedCalls(x.Value, nil)
	}
}

func isErrName(e ast.Expr) bool {
	id, ok := e.(*ast.Ident)
	return ok && (id.Name == "err" || strings.HasSuffix(id.Name, "Err") || strings.HasSuffix(id.Name, "err"))
}

func (w *wrapWalker) stmt(st ast.Stmt, rest []ast.Stmt) {
	switch x := st.(type) {
	case nil:
	case *ast.BlockStmt:
		w.block(x.List)
	case *ast.LabeledStmt:
		w.stmt(x.Stmt, rest)
	case *ast.IfStmt:
		w.simple(x.Init, nil, x)
		w.nestedCalls(x.Cond, nil)
		w.block(x.Body.List)
		if x.Else != nil {
			w.stmt(x.Else, nil)
		}
	case *ast.ForStmt:
		w.simple(x.Init, nil, nil)
		w.nestedCalls(x.Cond, nil)
		w.simple(x.Post, nil, nil)
		w.block(x.Body.List)
	case *ast.RangeStmt:
		w.nestedCalls(x.X, nil)
		w.block(x.Body.List)
	case *ast.SwitchStmt:
		w.simple(x.Init, nil, nil)
		w.nestedCalls(x.Tag, nil)
		for _, c := range x.Body.List {
			cc := c.(*ast.CaseClause)
			for _, e := range cc.List {
				w.nestedCalls(e, nil)
			}
			w.block(cc.Body)
		}
	case *ast.TypeSwitchStmt:
		w.simple(x.Init, nil, nil)
		w.simple(x.Assign, nil, nil)
		for _, c := range x.Body.List {
			w.block(c.(*ast.CaseClause).Body)
		}
	case *ast.SelectStmt:
		for _, c := range x.Body.List {
			cc := c.(*ast.CommClause)
			w.simple(cc.Comm, nil, nil)
			w.block(cc.Body)
		}
	case *ast.ReturnStmt:
		for i, r := range x.Results {
			if ce, ok := r.(*ast.CallExpr); ok {
				if callee, ok := w.interestingCall(ce); ok {
					known, _ := w.sc.lastResultIsError(ce)
					if known || (i == len(x.Results)-1) {
						w.add(ce, callee, "raw") // `return f(...)`: the results are handed on as they are
					}
					w.nestedCalls(ce, ce)
					continue
				}
			}
			w.nestedCalls(r, nil)
		}
	case *ast.DeferStmt:
		w.nestedCalls(x.Call, nil)
	case *ast.GoStmt:
		w.nestedCalls(x.Call, nil)
	default:
		w.simple(st, rest, nil)
	}
}

func collectWrapSites() []wrapSite {
	var all []wrapSite
	forEachFunc(func(fd *ast.FuncDecl) {
		w := &wrapWalker{fn: funcName(fd), sc: newScope(fd)}
		w.block(fd.Body.List)
		all = append(all, w.sites...)
	})
	sort.SliceStable(all, func(i, j int) bool {
		if all[i].fn != all[j].fn {
			return all[i].fn < all[j].fn
		}
		return all[i].pos < all[j].pos
	})
	return all
}

// genErrWrapFacts must run after genDetFacts (pidx).
func genErrWrapFacts() string {
	var b strings.Builder
	b.WriteString("/-- C18 (external-error clause): every call of package atree through a value of an interface type of the\n")
	b.WriteString("    package, through a function value, or through a receiver of unresolved type, whose last result is an\n")
	b.WriteString("    `error`: (enclosing function, interface type | \"func\" | \"unresolved\", method | function type | expression,\n")
	b.WriteString("    what the function does with the error), in source order per function.  See\n")
	b.WriteString("    harness/cmd/extract/errwrapfacts.go for the vocabulary of the last component. -/\n")
	b.WriteString("def errWrapSites : List (String × String × String × String) := [\n")
	sites := collectWrapSites()
	for i, s := range sites {
		sep := ","
		if i == len(sites)-1 {
			sep = ""
		}
		via, method := s.callee, ""
		if i := strings.Index(s.callee, ":"); i >= 0 && (strings.HasPrefix(s.callee, "func:") || strings.HasPrefix(s.callee, "unresolved:")) {
			via, method = s.callee[:i], s.callee[i+1:]
		} else if i := strings.LastIndex(s.callee, "."); i >= 0 {
			via, method = s.callee[:i], s.callee[i+1:]
		}
		fmt.Fprintf(&b, "  (%q, %q, %q, %q)%s\n", s.fn, via, method, s.how, sep)
	}
	b.WriteString("]\n\n")
	// the interface types of the package and the named function types (the vocabulary of the callee column)
	var ifaces, ftypes []string
	for n, t := range pidx.types {
		switch pidx.underlying(t).(type) {
		case *ast.InterfaceType:
			ifaces = append(ifaces, n)
		case *ast.FuncType:
			ftypes = append(ftypes, n)
		}
	}
	sort.Strings(ifaces)
	sort.Strings(ftypes)
	fmt.Fprintf(&b, "/-- the interface types declared in package atree -/\ndef pkgInterfaceTypes : List String := %s\n", leanStrList(ifaces))
	// closed interfaces: the method set (embedded interfaces of the package included) has an unexported
	// method, so no type outside package atree implements them
	var closed []string
	for _, n := range ifaces {
		names, _ := pidx.ifaceMethodNames(ast.NewIdent(n), 0)
		for _, m := range names {
			if m != "" && !ast.IsExported(m) {
				closed = append(closed, n)
				break
			}
		}
	}
	fmt.Fprintf(&b, "/-- the interface types of package atree with an unexported method (own or of an embedded interface of the\n    package): only types of package atree implement them -/\ndef pkgClosedInterfaceTypes : List String := %s\n", leanStrList(closed))
	fmt.Fprintf(&b, "/-- the named function types declared in package atree -/\ndef pkgFuncTypes : List String := %s\n\n", leanStrList(ftypes))
	return b.String()
}
