// Command extract reads the atree sources as they are now and regenerates the Lean inputs
// that tie the model to the source: constants (evaluated from the AST), syntactic facts and the
// error-category table.  It uses only go/parser and go/ast; the constant values it produces are
// cross-checked against the compiled package (VerifConsts) by cmd/trace.
//
// usage: extract -repo /repo -out /verif/lean/AtreeModel/Gen
package main

import (
	"bytes"
	"crypto/sha256"
	"encoding/hex"
	"encoding/json"
	"flag"
	"fmt"
	"go/ast"
	"go/parser"
	"go/printer"
	"go/token"
	"math/big"
	"os"
	"path/filepath"
	"sort"
	"strings"
)

type constDecl struct {
	name string
	expr ast.Expr
	iota int
	file string
}

var (
	consts = map[string]*constDecl{}
	values = map[string]*big.Int{}
	fset   = token.NewFileSet()
	files  = map[string]*ast.File{}
)

func main() {
	repo := flag.String("repo", "/repo", "atree source directory")
	out := flag.String("out", "", "output directory for generated Lean files")
	flag.Parse()
	if *out == "" {
		fmt.Fprintln(os.Stderr, "extract: -out required")
		os.Exit(2)
	}
	names, err := filepath.Glob(filepath.Join(*repo, "*.go"))
	if err != nil || len(names) == 0 {
		fmt.Fprintln(os.Stderr, "extract: no Go files in", *repo)
		os.Exit(2)
	}
	sort.Strings(names)
	for _, n := range names {
		base := filepath.Base(n)
		if strings.HasSuffix(base, "_test.go") || base == "verif_hooks.go" {
			continue
		}
		f, err := parser.ParseFile(fset, n, nil, parser.ParseComments)
		if err != nil {
			fmt.Fprintln(os.Stderr, "extract: parse error:", err)
			os.Exit(2)
		}
		files[base] = f
		collectConsts(base, f)
	}

	if err := os.MkdirAll(*out, 0o755); err != nil {
		panic(err)
	}
	writeIfChanged(filepath.Join(*out, "Consts.lean"), genConsts())
	writeIfChanged(filepath.Join(*out, "Facts.lean"), genFacts())
	writeIfChanged(filepath.Join(*out, "ErrTable.lean"), genErrTable())
	writeIfChanged(filepath.Join(*out, "SourceMap.json"), genSourceMap())
}

func writeIfChanged(path string, content string) {
	old, err := os.ReadFile(path)
	if err == nil && string(old) == content {
		return
	}
	if err := os.WriteFile(path, []byte(content), 0o644); err != nil {
		panic(err)
	}
}

// ---------------------------------------------------------------------------------------------
// constants

func collectConsts(file string, f *ast.File) {
	for _, d := range f.Decls {
		gd, ok := d.(*ast.GenDecl)
		if !ok {
			continue
		}
		if gd.Tok == token.CONST {
			var lastExprs []ast.Expr
			for i, s := range gd.Specs {
				vs := s.(*ast.ValueSpec)
				exprs := vs.Values
				if len(exprs) == 0 {
					exprs = lastExprs
				} else {
					lastExprs = exprs
				}
				for j, n := range vs.Names {
					if j < len(exprs) {
						consts[n.Name] = &constDecl{name: n.Name, expr: exprs[j], iota: i, file: file}
					}
				}
			}
		}
		// package variables initialised with a constant expression (e.g. maxCollisionLimitPerDigest)
		if gd.Tok == token.VAR {
			for _, s := range gd.Specs {
				vs := s.(*ast.ValueSpec)
				for j, n := range vs.Names {
					if j < len(vs.Values) {
						if _, ok := vs.Values[j].(*ast.CallExpr); ok {
							consts["var:"+n.Name] = &constDecl{name: n.Name, expr: vs.Values[j], file: file}
						}
					}
				}
			}
		}
	}
	// function-local constants, qualified by function name
	for _, d := range f.Decls {
		fd, ok := d.(*ast.FuncDecl)
		if !ok || fd.Body == nil {
			continue
		}
		fname := funcName(fd)
		ast.Inspect(fd.Body, func(n ast.Node) bool {
			ds, ok := n.(*ast.DeclStmt)
			if !ok {
				return true
			}
			gd, ok := ds.Decl.(*ast.GenDecl)
			if !ok || gd.Tok != token.CONST {
				return true
			}
			for i, s := range gd.Specs {
				vs := s.(*ast.ValueSpec)
				for j, n := range vs.Names {
					if j < len(vs.Values) {
						key := fname + "." + n.Name
						if _, dup := consts[key]; !dup {
							consts[key] = &constDecl{name: n.Name, expr: vs.Values[j], iota: i, file: file}
						}
					}
				}
			}
			return true
		})
	}
}

func funcName(fd *ast.FuncDecl) string {
	if fd.Recv != nil && len(fd.Recv.List) == 1 {
		t := fd.Recv.List[0].Type
		if st, ok := t.(*ast.StarExpr); ok {
			t = st.X
		}
		if id, ok := t.(*ast.Ident); ok {
			return id.Name + "." + fd.Name.Name
		}
	}
	return fd.Name.Name
}

var mathConsts = map[string]string{
	"MaxUint8": "255", "MaxUint16": "65535", "MaxUint32": "4294967295", "MaxUint64": "18446744073709551615",
	"MaxInt8": "127", "MaxInt16": "32767", "MaxInt32": "2147483647", "MaxInt64": "9223372036854775807",
}

func eval(key string) (*big.Int, bool) {
	if v, ok := values[key]; ok {
		return v, v != nil
	}
	c, ok := consts[key]
	if !ok {
		return nil, false
	}
	values[key] = nil // cycle guard
	v, ok := evalExpr(c.expr, c.iota)
	if !ok {
		return nil, false
	}
	values[key] = v
	return v, true
}

func evalExpr(e ast.Expr, iota int) (*big.Int, bool) {
	switch x := e.(type) {
	case *ast.BasicLit:
		if x.Kind == token.INT {
			v, ok := new(big.Int).SetString(strings.ReplaceAll(x.Value, "_", ""), 0)
			return v, ok
		}
		if x.Kind == token.CHAR && len(x.Value) == 3 {
			return big.NewInt(int64(x.Value[1])), true
		}
		return nil, false
	case *ast.Ident:
		if x.Name == "iota" {
			return big.NewInt(int64(iota)), true
		}
		return eval(x.Name)
	case *ast.ParenExpr:
		return evalExpr(x.X, iota)
	case *ast.SelectorExpr:
		if p, ok := x.X.(*ast.Ident); ok && p.Name == "math" {
			if s, ok := mathConsts[x.Sel.Name]; ok {
				v, _ := new(big.Int).SetString(s, 10)
				return v, true
			}
		}
		return nil, false
	case *ast.CallExpr:
		// type conversion of a constant: uint32(x), uint64(x), byte(x), int(x), Digest(x) ...
		if len(x.Args) == 1 {
			if id, ok := x.Fun.(*ast.Ident); ok {
				switch id.Name {
				case "uint8", "uint16", "uint32", "uint64", "uint", "int", "int32", "int64", "byte", "slabType", "slabArrayType", "slabMapType":
					return evalExpr(x.Args[0], iota)
				}
			}
		}
		return nil, false
	case *ast.UnaryExpr:
		v, ok := evalExpr(x.X, iota)
		if !ok {
			return nil, false
		}
		switch x.Op {
		case token.SUB:
			return new(big.Int).Neg(v), true
		case token.ADD:
			return v, true
		}
		return nil, false
	case *ast.BinaryExpr:
		a, ok1 := evalExpr(x.X, iota)
		b, ok2 := evalExpr(x.Y, iota)
		if !ok1 || !ok2 {
			return nil, false
		}
		r := new(big.Int)
		switch x.Op {
		case token.ADD:
			return r.Add(a, b), true
		case token.SUB:
			return r.Sub(a, b), true
		case token.MUL:
			return r.Mul(a, b), true
		case token.QUO:
			if b.Sign() == 0 {
				return nil, false
			}
			return r.Quo(a, b), true
		case token.REM:
			if b.Sign() == 0 {
				return nil, false
			}
			return r.Rem(a, b), true
		case token.SHL:
			return r.Lsh(a, uint(b.Uint64())), true
		case token.SHR:
			return r.Rsh(a, uint(b.Uint64())), true
		case token.AND:
			return r.And(a, b), true
		case token.OR:
			return r.Or(a, b), true
		case token.XOR:
			return r.Xor(a, b), true
		}
		return nil, false
	}
	return nil, false
}

func leanName(key string) string {
	key = strings.TrimPrefix(key, "var:")
	key = strings.ReplaceAll(key, ".", "_")
	return key
}

func genConsts() string {
	var keys []string
	for k := range consts {
		keys = append(keys, k)
	}
	sort.Strings(keys)
	var b strings.Builder
	b.WriteString("-- GENERATED by harness/cmd/extract from the atree sources on every check run. Do not edit.\n")
	b.WriteString("-- Every natural-number constant of package atree that the extractor can evaluate from the AST.\n")
	b.WriteString("namespace Atree.Gen\n\n")
	for _, k := range keys {
		v, ok := eval(k)
		if !ok || v.Sign() < 0 || consts[k].name == "_" {
			continue
		}
		fmt.Fprintf(&b, "/-- `%s` (%s) -/\ndef %s : Nat := %s\n", strings.TrimPrefix(k, "var:"), consts[k].file, leanName(k), v.String())
	}
	// name -> value table of the top-level constants (cross-checked against the compiled package)
	b.WriteString("\n/-- every top-level constant above, by its Go name -/\ndef constTable : List (String × Nat) := [\n")
	first := true
	for _, k := range keys {
		v, ok := eval(k)
		if !ok || v.Sign() < 0 || consts[k].name == "_" || strings.Contains(k, ".") {
			continue
		}
		if !first {
			b.WriteString(",\n")
		}
		first = false
		fmt.Fprintf(&b, "  (%q, %s)", strings.TrimPrefix(k, "var:"), leanName(k))
	}
	b.WriteString("\n]\n")
	b.WriteString("\nend Atree.Gen\n")
	return b.String()
}

// ---------------------------------------------------------------------------------------------
// syntactic facts

func findFunc(name string) *ast.FuncDecl {
	for _, f := range files {
		for _, d := range f.Decls {
			if fd, ok := d.(*ast.FuncDecl); ok && funcName(fd) == name {
				return fd
			}
		}
	}
	return nil
}

func exprString(e ast.Node) string {
	var buf bytes.Buffer
	_ = printer.Fprint(&buf, fset, e)
	return buf.String()
}

// funcLitsAssignedTo returns the function literals assigned (with :=) to the given variable name inside fd.
func funcLitsAssignedTo(fd *ast.FuncDecl, varName string) []*ast.FuncLit {
	var lits []*ast.FuncLit
	ast.Inspect(fd.Body, func(n ast.Node) bool {
		as, ok := n.(*ast.AssignStmt)
		if !ok {
			return true
		}
		for i, l := range as.Lhs {
			if id, ok := l.(*ast.Ident); ok && id.Name == varName && i < len(as.Rhs) {
				if fl, ok := as.Rhs[i].(*ast.FuncLit); ok {
					lits = append(lits, fl)
				}
			}
		}
		return true
	})
	return lits
}

// writesReceiverState reports whether the node contains an assignment, inc/dec or delete whose
// target mentions the receiver variable `recv` (e.g. s.cache[id] = x, delete(s.deltas, id)).
func writesReceiverState(n ast.Node, recv string) bool {
	found := false
	mentions := func(e ast.Expr) bool {
		m := false
		ast.Inspect(e, func(x ast.Node) bool {
			if se, ok := x.(*ast.SelectorExpr); ok {
				if id, ok := se.X.(*ast.Ident); ok && id.Name == recv {
					m = true
				}
			}
			return true
		})
		return m
	}
	ast.Inspect(n, func(x ast.Node) bool {
		switch s := x.(type) {
		case *ast.AssignStmt:
			for _, l := range s.Lhs {
				if mentions(l) {
					found = true
				}
			}
		case *ast.IncDecStmt:
			if mentions(s.X) {
				found = true
			}
		case *ast.CallExpr:
			if id, ok := s.Fun.(*ast.Ident); ok && (id.Name == "delete" || id.Name == "clear") && len(s.Args) > 0 && mentions(s.Args[0]) {
				found = true
			}
		}
		return true
	})
	return found
}

// callSites lists "Func" for every function of the package whose body contains a call whose
// callee prints as one of the given selector strings (e.g. "s.baseStorage.Store").
func callSites(callee string) []string {
	set := map[string]bool{}
	for _, f := range files {
		for _, d := range f.Decls {
			fd, ok := d.(*ast.FuncDecl)
			if !ok || fd.Body == nil {
				continue
			}
			ast.Inspect(fd.Body, func(n ast.Node) bool {
				if ce, ok := n.(*ast.CallExpr); ok && exprString(ce.Fun) == callee {
					set[funcName(fd)] = true
				}
				return true
			})
		}
	}
	var l []string
	for k := range set {
		l = append(l, k)
	}
	sort.Strings(l)
	return l
}

// resetBeforePut: in fd, a statement calling <x>.Reset() (or <x>.<f>.Reset()) precedes the pool Put.
func resetBeforePut(fd *ast.FuncDecl) bool {
	if fd == nil || fd.Body == nil {
		return false
	}
	sawReset := false
	ok := false
	ast.Inspect(fd.Body, func(n ast.Node) bool {
		ce, isCall := n.(*ast.CallExpr)
		if !isCall {
			return true
		}
		s := exprString(ce.Fun)
		if strings.HasSuffix(s, ".Reset") || strings.HasSuffix(s, ".reset") {
			sawReset = true
		}
		if strings.HasSuffix(s, ".Put") {
			ok = sawReset
		}
		return true
	})
	return ok
}

// orderedStorageCalls lists, in source order, the storeSlab / storage.Remove / GenerateSlabID call
// sites of a function (a cheap structural cross-check of the model's effect logs).
func orderedStorageCalls(fd *ast.FuncDecl) []string {
	var l []string
	if fd == nil || fd.Body == nil {
		return l
	}
	ast.Inspect(fd.Body, func(n ast.Node) bool {
		ce, ok := n.(*ast.CallExpr)
		if !ok {
			return true
		}
		s := exprString(ce.Fun)
		switch {
		case s == "storeSlab":
			l = append(l, "store")
		case strings.HasSuffix(s, "torage.Remove"):
			l = append(l, "remove")
		case strings.HasSuffix(s, "torage.GenerateSlabID"):
			l = append(l, "alloc")
		}
		return true
	})
	return l
}

func leanBool(b bool) string {
	if b {
		return "true"
	}
	return "false"
}

func leanStrList(l []string) string {
	q := make([]string, len(l))
	for i, s := range l {
		q[i] = fmt.Sprintf("%q", s)
	}
	return "[" + strings.Join(q, ", ") + "]"
}

func genFacts() string {
	var b strings.Builder
	b.WriteString("-- GENERATED by harness/cmd/extract from the atree sources on every check run. Do not edit.\n")
	b.WriteString("-- Syntactic facts about the source that the theorems use as premises.\n")
	b.WriteString("namespace Atree.Gen\n\n")

	// worker closures of the three pools never write the storage's own state
	workerFree := true
	nWorkers := 0
	for _, spec := range []struct{ fn, v string }{
		{"PersistentSlabStorage.FastCommit", "encoder"},
		{"PersistentSlabStorage.NondeterministicFastCommit", "encoder"},
		{"PersistentSlabStorage.BatchPreload", "decoder"},
	} {
		fd := findFunc(spec.fn)
		if fd == nil {
			workerFree = false
			continue
		}
		recv := "s"
		if fd.Recv != nil && len(fd.Recv.List[0].Names) == 1 {
			recv = fd.Recv.List[0].Names[0].Name
		}
		lits := funcLitsAssignedTo(fd, spec.v)
		if len(lits) != 1 {
			workerFree = false
		}
		for _, fl := range lits {
			nWorkers++
			if writesReceiverState(fl, recv) || len(receiverCallsAndEscapes(fl, recv)) > 0 {
				workerFree = false
			}
		}
	}
	fmt.Fprintf(&b, "/-- The encoder/decoder closures of FastCommit, NondeterministicFastCommit and BatchPreload\n    contain no assignment, inc/dec, delete or clear whose target mentions the storage receiver, no call\n    rooted at the receiver outside the read-only list, no use of the receiver as a value and no address of\n    one of its fields (see workerClosureReceiverUses). -/\ndef workerClosuresWriteFree : Bool := %s\n", leanBool(workerFree && nWorkers == 3))
	fmt.Fprintf(&b, "def workerClosureCount : Nat := %d\n\n", nWorkers)

	// base storage writes only in the commit functions
	// (alias-robust: any expression denoting the base storage, see poolfacts.go)
	stores := baseStorageCallers("Store")
	removes := baseStorageCallers("Remove")
	fmt.Fprintf(&b, "/-- Functions of package atree that call `s.baseStorage.Store`. -/\ndef baseStoreCallers : List String := %s\n", leanStrList(stores))
	fmt.Fprintf(&b, "/-- Functions of package atree that call `s.baseStorage.Remove`. -/\ndef baseRemoveCallers : List String := %s\n\n", leanStrList(removes))

	// pools: Reset precedes Put
	put := true
	var putFns []string
	for _, fn := range []string{"putBuffer", "putDigester", "putTypeIDBuffer"} {
		fd := findFunc(fn)
		if fd == nil {
			continue
		}
		putFns = append(putFns, fn)
		if !resetBeforePut(fd) || !resetThenPutSameObject(fd) {
			put = false
		}
	}
	fmt.Fprintf(&b, "/-- Every pool `put*` helper calls Reset before handing the object back to its sync.Pool. -/\ndef putResetsBeforePool : Bool := %s\n", leanBool(put && len(putFns) > 0))
	fmt.Fprintf(&b, "def poolPutHelpers : List String := %s\n\n", leanStrList(putFns))

	b.WriteString(genPoolFacts())

	// storage effect call sites, per function, in source order
	fmt.Fprintf(&b, "/-- Source-order list of storeSlab / storage.Remove / GenerateSlabID call sites per function. -/\ndef storageCallSites : List (String × List String) := [\n")
	fns := []string{
		"NewArray", "ArrayDataSlab.Set", "ArrayDataSlab.Insert", "ArrayDataSlab.Remove", "ArrayDataSlab.Split",
		"ArrayMetaDataSlab.Set", "ArrayMetaDataSlab.Insert", "ArrayMetaDataSlab.Remove", "ArrayMetaDataSlab.PopIterate",
		"ArrayMetaDataSlab.SplitChildSlab", "ArrayMetaDataSlab.rebalanceChildren", "ArrayMetaDataSlab.mergeChildren",
		"ArrayMetaDataSlab.Split", "Array.PopIterate", "Array.splitRoot", "Array.promoteChildAsNewRoot", "Array.SetType",
		"ArrayDataSlab.Inline", "ArrayDataSlab.Uninline", "NewStorableSlab",
	}
	for i, fn := range fns {
		sep := ","
		if i == len(fns)-1 {
			sep = ""
		}
		fmt.Fprintf(&b, "  (%q, %s)%s\n", fn, leanStrList(orderedStorageCalls(findFunc(fn))), sep)
	}
	b.WriteString("]\n\nend Atree.Gen\n")
	return b.String()
}

// ---------------------------------------------------------------------------------------------
// error categories

// errCategory returns "User"/"Fatal"/"External"/"" for a constructor function of errors.go by
// looking at the outermost call of its (single) return expression.
func errCategory(fd *ast.FuncDecl) string {
	cat := ""
	if fd.Body == nil {
		return cat
	}
	ast.Inspect(fd.Body, func(n ast.Node) bool {
		rs, ok := n.(*ast.ReturnStmt)
		if !ok || len(rs.Results) != 1 {
			return true
		}
		if ce, ok := rs.Results[0].(*ast.CallExpr); ok {
			switch exprString(ce.Fun) {
			case "NewUserError":
				cat = "User"
			case "NewFatalError":
				cat = "Fatal"
			case "NewExternalError":
				cat = "External"
			}
		}
		return true
	})
	return cat
}

func genErrTable() string {
	var b strings.Builder
	b.WriteString("-- GENERATED by harness/cmd/extract from errors.go on every check run. Do not edit.\n")
	b.WriteString("namespace Atree.Gen\n\n")
	b.WriteString("/-- For each `New…Error` constructor of errors.go: the category wrapper its result is passed to. -/\n")
	b.WriteString("def errCategoryTable : List (String × String) := [\n")
	f := files["errors.go"]
	var rows []string
	if f != nil {
		for _, d := range f.Decls {
			fd, ok := d.(*ast.FuncDecl)
			if !ok || fd.Recv != nil || !strings.HasPrefix(fd.Name.Name, "New") {
				continue
			}
			cat := errCategory(fd)
			if cat == "" {
				continue
			}
			rows = append(rows, fmt.Sprintf("  (%q, %q)", fd.Name.Name, cat))
		}
	}
	sort.Strings(rows)
	b.WriteString(strings.Join(rows, ",\n"))
	b.WriteString("\n]\n\n")

	// shape of wrapErrorfAsExternalErrorIfNeeded: categorised errors pass through, others become External
	shape := false
	if fd := findFunc("wrapErrorfAsExternalErrorIfNeeded"); fd != nil {
		src := exprString(fd.Body)
		shape = strings.Contains(src, "NewExternalError") &&
			strings.Contains(src, "UserError") && strings.Contains(src, "FatalError") && strings.Contains(src, "ExternalError")
	}
	fmt.Fprintf(&b, "/-- `wrapErrorfAsExternalErrorIfNeeded` passes User/Fatal/External errors through and wraps anything else as External. -/\ndef wrapShapeOk : Bool := %s\n", leanBool(shape))
	b.WriteString("\nend Atree.Gen\n")
	return b.String()
}

// ---------------------------------------------------------------------------------------------
// source map: hash of the normalised AST of every function (steers, never decides)

func genSourceMap() string {
	m := map[string]string{}
	for _, f := range files {
		for _, d := range f.Decls {
			fd, ok := d.(*ast.FuncDecl)
			if !ok || fd.Body == nil {
				continue
			}
			saved := fd.Doc
			fd.Doc = nil
			var buf bytes.Buffer
			cfg := printer.Config{Mode: printer.RawFormat}
			_ = cfg.Fprint(&buf, token.NewFileSet(), fd)
			fd.Doc = saved
			h := sha256.Sum256(buf.Bytes())
			m[funcName(fd)] = hex.EncodeToString(h[:8])
		}
	}
	out, _ := json.MarshalIndent(m, "", " ")
	return string(out) + "\n"
}
