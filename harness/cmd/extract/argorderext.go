package main

// C18, statement order, second fact (`argCheckPrefixExt`): the same walk as argCheckPrefix
// (main.go), with three more kinds of refusal site and the guarding condition of named refusals.
//
//   refuse:<callee>            a call of `Value.Storable` (declared receiver type `Value`): the caller's
//                              value may refuse the request there; pre = the kinds before the call;
//   propagate:<callee>         the `if <err> != nil` that tests the error of an earlier descend call
//                              (`descend:child.Insert`, ...) or of a `Value.Storable` call; pre = the kinds
//                              up to that test, the call itself and whatever stands between the call
//                              and the test included;
//   check:<Ctor>@<condition>   for the functions of argCheckFuncsExt only: a `return ..., New<X>Error(..)`
//                              with the condition of the innermost enclosing `if` (the negated condition
//                              in an else branch).
//
// For the functions of argCheckFuncs (main.go) only the refuse / propagate sites are listed (their
// check / descend sites are in argCheckPrefix); for argCheckFuncsExt every site is.

import (
	"fmt"
	"go/ast"
	"strings"
)

// request-level and open / enumerate-level functions whose named refusals are pinned with their guard
var argCheckFuncsExt = []string{
	"NewArrayWithRootID", "NewMapWithRootID", "getArraySlab", "getMapSlab",
	"readOnlyArrayIterator.Next", "readOnlyMapIterator.advance",
	"ArrayDataSlab.StoredValue", "ArrayMetaDataSlab.StoredValue", "MapDataSlab.StoredValue", "MapMetaDataSlab.StoredValue",
	"NewStorableSlab", "StorableSlab.Encode",
	"newSingleElement",
}

type extWalk struct {
	sc       *scope
	all      bool // list check / descend sites as well (functions of argCheckFuncsExt)
	quiet    bool // inside the silent pass over a loop body: no sites, no pending state
	conds    []string
	pendName string
	pendKind string
}

func (e *extWalk) silent() *extWalk {
	if e == nil {
		return nil
	}
	return &extWalk{sc: e.sc, all: e.all, quiet: true}
}

func (e *extWalk) push(c string) {
	if e != nil {
		e.conds = append(e.conds, strings.Join(strings.Fields(c), " "))
	}
}

func (e *extWalk) pop() {
	if e != nil {
		e.conds = e.conds[:len(e.conds)-1]
	}
}

// siteKind: how a site of the plain walk is listed here ("" = not listed).
func (e *extWalk) siteKind(kind string) string {
	if e.quiet {
		return ""
	}
	if strings.HasPrefix(kind, "refuse:") || strings.HasPrefix(kind, "propagate:") {
		return kind
	}
	if !e.all {
		return ""
	}
	if strings.HasPrefix(kind, "check:") {
		c := ""
		if len(e.conds) > 0 {
			c = e.conds[len(e.conds)-1]
		}
		return kind + "@" + c
	}
	return kind
}

// isValueStorable: a call of the caller's `Value.Storable`, or of the package helper that does nothing
// but call it for a key and a value (`newSingleElement`): the caller's value may refuse the request there.
func (e *extWalk) isValueStorable(ce *ast.CallExpr) bool {
	if id, ok := ce.Fun.(*ast.Ident); ok && id.Name == "newSingleElement" && !isLocal(id) {
		return true
	}
	return e.sc.calleeOfInterest(ce) == "Value.Storable"
}

func (e *extWalk) refuseSite(w *argWalker, ce *ast.CallExpr, pre []string) {
	if e == nil || !e.isValueStorable(ce) {
		return
	}
	w.emit("refuse:"+exprString(ce.Fun), pre)
}

// notePending: `..., err := <descend call | Value.Storable call>` - remember whose error `err` holds.
func (e *extWalk) notePending(as *ast.AssignStmt) {
	if e == nil || e.quiet {
		return
	}
	var last *ast.Ident
	if n := len(as.Lhs); n > 0 {
		last, _ = as.Lhs[n-1].(*ast.Ident)
	}
	// any assignment to the pending variable from something else ends the pending state
	if last != nil && last.Name == e.pendName {
		e.pendName, e.pendKind = "", ""
	}
	if last == nil || last.Name == "_" || len(as.Rhs) != 1 {
		return
	}
	ce, ok := as.Rhs[0].(*ast.CallExpr)
	if !ok {
		return
	}
	k := callKind(ce)
	switch {
	case e.isValueStorable(ce):
		e.pendName, e.pendKind = last.Name, "call:"+exprString(ce.Fun)
	case strings.HasPrefix(k, "descend:"):
		e.pendName, e.pendKind = last.Name, k
	}
}

func (e *extWalk) propagateSite(w *argWalker, cond ast.Expr, pre []string) {
	if e == nil || e.quiet || e.pendName == "" || !condTestsNotNil(cond, e.pendName) {
		return
	}
	w.emit("propagate:"+strings.TrimPrefix(strings.TrimPrefix(e.pendKind, "call:"), "descend:"), pre)
	e.pendName, e.pendKind = "", ""
}

func genArgCheckPrefixExt() string {
	var b strings.Builder
	b.WriteString("\n/-- C18, second statement-order fact (see harness/cmd/extract/argorderext.go): `refuse:<callee>` = a call of\n")
	b.WriteString("    `Value.Storable`; `propagate:<callee>` = the test of the error of an earlier descend / `Value.Storable`\n")
	b.WriteString("    call (everything up to the test is listed, the call included); for the open / enumerate-level\n")
	b.WriteString("    functions every named refusal with its guarding condition (`check:<Ctor>@<condition>`). -/\n")
	b.WriteString("def argCheckPrefixExt : List (String × String × List String) := [\n")
	first := true
	row := func(fn string, all bool) {
		fd := findFunc(fn)
		var ss []site
		if fd == nil || fd.Body == nil {
			ss = []site{{kind: "missing", pre: nil}}
		} else {
			ss = argSitesExt(fd, &extWalk{sc: newScope(fd), all: all})
			if len(ss) == 0 && all {
				ss = []site{{kind: "none", pre: nil}}
			}
		}
		for _, s := range ss {
			if !first {
				b.WriteString(",\n")
			}
			first = false
			fmt.Fprintf(&b, "  (%q, %q, %s)", fn, s.kind, leanStrList(s.pre))
		}
	}
	for _, fn := range argCheckFuncs {
		row(fn, false)
	}
	for _, fn := range argCheckFuncsExt {
		row(fn, true)
	}
	b.WriteString("\n]\n")
	return b.String()
}
