package main

// Directed scenarios of stream "batch" added for audit a1, findings F4 / F9 (C17):
//
//	scenarioMapLimit          bulk map build vs the collision limit (F4a, observation)
//	scenarioMapRejectLarge    rejected bulk build after large values were stored (F4b, finding)
//	scenarioArrayProviderFails  NewArrayFromBatchData whose element provider fails midway (F4b, arrays)
//	scenarioBytesNonByte      ByteArrayToByteSlice on an array holding a PLAIN non-byte value (F9)
//	scenarioBytesBoundary     byte fast path at estimate*n+5 = T and size+5 = T, -1/+0/+1 (F9)
//	scenarioMapBigKey         keys above the inline key limit are references: copy not offered (F9)

import (
	"errors"
	"fmt"
	"strings"

	"github.com/onflow/atree"

	"verifharness/hx"
)

// ---------------------------------------------------------------------------------------------
// F4a

// btGroupMax returns the size of the largest first-level digest group of kvs under builder b.
func btGroupMax(b atree.DigesterBuilder, kvs []btKV) int {
	n := map[uint64]int{}
	max := 0
	for _, p := range kvs {
		d, err := hx.Digests(b, p.k)
		if err != nil || len(d) == 0 {
			continue
		}
		n[d[0]]++
		if n[d[0]] > max {
			max = n[d[0]]
		}
	}
	return max
}

// scenarioMapLimit: collision limit `limit`, keys spread over two first-level digests with
// pairwise different second-level digests.
//
//	(a) single operations refuse the key that would be entry limit+2 of its group (C12);
//	(b) the enumeration of the map built in (a) - a LEGAL source - bulk-builds to a map that is
//	    within the limit (theorem C17.batch_map_within_limit_of_source);
//	(c) a caller-made stream with more than limit+1 keys per group (the enumeration of a map
//	    built under limit 255) is ACCEPTED by NewMapFromBatchData at limit `limit`: the loop
//	    calls prevElem.Set directly, the limit lives in hkeyElements.Set.  The result is
//	    structurally valid (VerifyMap, content, serialization, health) and single operations
//	    on it apply the limit again.  Counted as observation:batch-build-ignores-collision-limit;
//	    see INTEGRATION-fx9f.md for why this is not a violation of C17 / C12.
func (e *btEnv) scenarioMapLimit(limit uint32) {
	e.fresh()
	addrN := uint64(1 + e.rng.Intn(3))
	ty := hx.TI(uint64(e.rng.Intn(100)))
	L := uint(2 + e.rng.Intn(3))
	salt := uint64(e.rng.Int63())
	db := &hx.TableDigesterBuilder{L: L, Fn: func(k hx.TV, l uint) uint64 {
		if l == 0 {
			return 7 + (mix(k.Pay, 0, salt)%2)*1000003
		}
		return mix(k.Pay, uint64(l), salt) % (1 << 40)
	}}
	defer func() {
		atree.VerifSetMaxCollisionLimitPerDigest(255)
		e.climit = 255
	}()
	n := 2*int(limit) + 6 + e.rng.Intn(10)
	keys := make([]hx.TV, n)
	vals := make([]hx.TV, n)
	for i := range keys {
		keys[i] = e.mapKey()
		vals[i] = e.mapValue(e.rng.Intn(2))
	}
	build := func(lim uint32) (*btMap, int) {
		atree.VerifSetMaxCollisionLimitPerDigest(lim)
		m, err := atree.NewMap(e.rec, hx.MkAddr(5), db, btType(ty))
		if err != nil {
			e.st.HarnessErr = "NewMap: " + err.Error()
			return nil, 0
		}
		refused := 0
		for i := range keys {
			_, err := m.Set(hx.CompareKey, hx.HashInput, keys[i], vals[i])
			if err != nil {
				if hx.ErrKind(err) != "CollisionLimit:Fatal" {
					e.violation(fmt.Sprintf("collision-limit scenario: Set failed with %s", hx.ErrKind(err)))
					return nil, 0
				}
				refused++
			}
		}
		e.roots++
		kvs, err := e.readMap(m)
		if err != nil {
			e.st.HarnessErr = "source map iteration failed"
			return nil, 0
		}
		return &btMap{h: -1, m: m, b: db, addr: hx.MkAddr(5), ty: ty, L: L, kvs: kvs}, refused
	}
	all, r0 := build(255)
	if all == nil {
		return
	}
	legal, refused := build(limit)
	if legal == nil {
		return
	}
	e.climit = limit
	e.st.Hit(fmt.Sprintf("mlimit:limit=%d", limit))
	// (a)
	if r0 != 0 {
		e.violation("collision-limit scenario: a Set was refused under limit 255")
	}
	gAll, gLegal := btGroupMax(db, all.kvs), btGroupMax(db, legal.kvs)
	if gLegal > int(limit)+1 {
		e.violation(fmt.Sprintf("single operations under collision limit %d built a first-level group of %d entries", limit, gLegal))
	}
	if gAll > int(limit)+1 && refused == 0 {
		e.violation(fmt.Sprintf("single operations under collision limit %d refused nothing although a group has %d keys", limit, gAll))
	}
	// (b) legal source
	x := e.mapBatch(legal.kvs, db, db, L, legal.m.Seed(), addrN, ty, "")
	if x != nil && btGroupMax(db, x.kvs) > int(limit)+1 {
		e.violation("bulk build of a legal source exceeds the collision limit")
	}
	// (c) caller-made stream exceeding the limit
	if gAll <= int(limit)+1 {
		e.st.Hit("mlimit:no-excess")
		return
	}
	y := e.mapBatch(all.kvs, db, db, L, all.m.Seed(), addrN, ty, "?")
	if y == nil {
		e.st.Hit("mlimit:batch-build-enforces-collision-limit")
		return
	}
	e.st.Hit("observation:batch-build-ignores-collision-limit")
	// single operations on the over-limit map: a new key of a full group is refused, updates pass
	full := map[uint64]bool{}
	cnt := map[uint64]int{}
	for _, p := range y.kvs {
		d, _ := hx.Digests(db, p.k)
		cnt[d[0]]++
		if cnt[d[0]] > int(limit) {
			full[d[0]] = true
		}
	}
	var nk hx.TV
	for tries := 0; tries < 200; tries++ {
		nk = e.mapKey()
		d, _ := hx.Digests(db, nk)
		if full[d[0]] {
			break
		}
	}
	e.skip()
	v := e.mapValue(0)
	e.w.L("OP mset h=%d k=%s v=%d:%d", y.h, e.keyStr(db, nk), v.Size, v.Pay)
	_, err := y.m.Set(hx.CompareKey, hx.HashInput, nk, v)
	e.ops++
	e.w.L("OBS %s", btObsErr(err))
	if hx.ErrKind(err) != "CollisionLimit:Fatal" {
		e.violation(fmt.Sprintf("new colliding key on a bulk-built map that exceeds the collision limit: %s, want CollisionLimit:Fatal", hx.ErrKind(err)))
		return
	}
	if len(e.rec.Effs) != 0 {
		e.violation("refused insert touched storage: " + hx.NetEffect(e.rec.Effs))
	}
	e.emitEffects(false)
	up := y.kvs[e.rng.Intn(len(y.kvs))].k
	e.w.L("OP mset h=%d k=%s v=%d:%d", y.h, e.keyStr(db, up), v.Size, v.Pay)
	old, err := y.m.Set(hx.CompareKey, hx.HashInput, up, v)
	e.ops++
	if err != nil {
		e.w.L("OBS err:%s", btErrKind(err))
		e.emitEffects(false)
		e.violation(fmt.Sprintf("update of an existing key on a map that exceeds the collision limit failed: %v", err))
		return
	}
	e.w.L("OBS ok:%s", renderStorable(old))
	e.emitEffects(true)
	e.disposeTraced(old)
	for i := range y.kvs {
		if y.kvs[i].k == up {
			y.kvs[i].v = v
		}
	}
	e.w.L("MFULL h=%d %s", y.h, e.dumpTree(atree.VerifMapRoot(y.m)))
	e.checkMap("over-limit bulk-built map after an update", y, true)
	e.health("over-limit bulk-built map")
}

func btObsErr(err error) string {
	if err == nil {
		return "ok"
	}
	return "err:" + btErrKind(err)
}

// ---------------------------------------------------------------------------------------------
// F4b

// scenarioMapRejectLarge: n pairs whose values are above the inline limit (each stored in its
// own slab by the element loop), then a stream fault: the last key once more (DuplicateKey), or
// a first-level digest out of order (Hash).  The rejected build must leave nothing behind
// (C18 / C09): oracle rejectedBuildCheck in mapBatch.
func (e *btEnv) scenarioMapRejectLarge(n int, fault int) {
	e.fresh()
	addrN := uint64(1 + e.rng.Intn(3))
	ty := hx.TI(uint64(e.rng.Intn(100)))
	b := atree.NewDefaultDigesterBuilder()
	src, err := atree.NewMap(e.rec, hx.MkAddr(4), b, btType(ty))
	if err != nil {
		e.st.HarnessErr = "NewMap: " + err.Error()
		return
	}
	for i := 0; i < n; i++ {
		if _, err := src.Set(hx.CompareKey, hx.HashInput, e.mapKey(), e.tv(e.maxElem+1+uint32(e.rng.Intn(100)))); err != nil {
			e.st.HarnessErr = "source Set: " + err.Error()
			return
		}
	}
	e.roots++
	kvs, err := e.readMap(src)
	if err != nil || len(kvs) != n {
		e.st.HarnessErr = "source map iteration failed"
		return
	}
	want := "DuplicateKey:Fatal"
	if fault == 1 && n >= 2 {
		kvs[n-1], kvs[n-2] = kvs[n-2], kvs[n-1]
		want = "Hash:Fatal"
	} else {
		kvs = append(kvs, btKV{kvs[n-1].k, e.tv(e.maxElem + 7)})
	}
	e.st.Hit(fmt.Sprintf("mreject-large:fault=%d", fault))
	x := &btMap{h: -1, m: src, b: b, addr: hx.MkAddr(4), ty: ty, L: 4, kvs: kvs[:n]}
	srcDump := e.dumpTree(atree.VerifMapRoot(src))
	if y := e.mapBatch(kvs, b, atree.NewDefaultDigesterBuilder(), 4, src.Seed(), addrN, ty, want); y != nil {
		return
	}
	if d := e.dumpTree(atree.VerifMapRoot(src)); d != srcDump {
		e.violation("rejected bulk build changed the source map")
	}
	_ = x
}

// scenarioArrayProviderFails: the element provider of NewArrayFromBatchData fails after k values,
// some of them above the inline limit (model-free: the model has no failing provider).
func (e *btEnv) scenarioArrayProviderFails(k int, large bool) {
	e.fresh()
	addr := hx.MkAddr(uint64(1 + e.rng.Intn(3)))
	prof := 0
	if large {
		prof = 3
	}
	vals := e.arrValues(k, prof, 0)
	boom := errors.New("element provider failed")
	i := 0
	a, err := atree.NewArrayFromBatchData(e.rec, addr, btType(hx.TI(1)), func() (atree.Value, error) {
		if i == len(vals) {
			return nil, boom
		}
		i++
		return vals[i-1], nil
	})
	e.ops++
	e.st.Hit("op:abatch-provider-fails")
	if err == nil || a != nil {
		e.violation("NewArrayFromBatchData returned no error although its element provider failed")
		return
	}
	if hx.ErrCategory(err) != "External" || !errors.Is(err, boom) {
		e.violation(fmt.Sprintf("NewArrayFromBatchData: provider failure reported as %s", hx.ErrKind(err)))
	}
	e.rejectedBuildCheck(fmt.Sprintf("NewArrayFromBatchData(provider fails after %d elements)", k), err)
	e.rec.Reset()
}

// ---------------------------------------------------------------------------------------------
// F9: ByteArrayToByteSlice with a plain non-byte element

// scenarioBytesNonByte: a byte array (one slab or several), one element overwritten by a PLAIN
// value of another type with the encoded size of a byte element: ByteArrayToByteSlice must
// report UnexpectedElementTypeError (User) - also when the element sits in a later data slab -
// and leave the array as it was.  The op line names the payloads of the non-byte plain values
// (the model's elements carry no Go type).
func (e *btEnv) scenarioBytesNonByte(multi bool, pos int) {
	e.fresh()
	addrN := uint64(1 + e.rng.Intn(3))
	addr := hx.MkAddr(addrN)
	ty := hx.TI(uint64(e.rng.Intn(100)))
	n := 1 + e.rng.Intn(int(e.T)/5)
	if multi {
		n = int(e.T) + e.rng.Intn(int(e.T))
		if n > 5000 {
			n = 5000
		}
	}
	data := make([]byte, n)
	for i := range data {
		data[i] = byte(e.rng.Intn(256))
	}
	parts := make([]string, n)
	for i, b := range data {
		parts[i] = fmt.Sprintf("%d", b)
	}
	e.skip()
	h := e.handle()
	e.w.L("OP b2a h=%d addr=%d ty=%d est=0 sz0=3 sz1=4 n=%d bs=%s", h, addrN, uint64(ty), n, strings.Join(parts, ","))
	a, err := atree.ByteSliceToByteArray[BV](e.rec, addr, btType(ty), data, 0)
	e.ops++
	if err != nil {
		e.w.L("OBS err:%s", btErrKind(err))
		e.emitEffects(false)
		e.violation(fmt.Sprintf("ByteSliceToByteArray(%d bytes) failed: %v", n, err))
		return
	}
	e.w.L("OBS ok%s", e.callCounts())
	e.emitEffects(true)
	e.w.L("FULL h=%d %s", h, e.dumpTree(atree.VerifArrayRoot(a)))
	e.roots++
	var i int
	switch pos {
	case 0:
		i = 0
	case 1:
		i = n - 1
	default:
		i = e.rng.Intn(n)
	}
	// a plain value of another Go type, 3 or 4 encoded bytes like a byte element, payload >= 256
	v := hx.TV{Size: uint32(3 + e.rng.Intn(2)), Pay: 256 + uint64(e.rng.Intn(60000))}
	e.w.L("OP set h=%d i=%d v=%d:%d", h, i, v.Size, v.Pay)
	old, err := a.Set(uint64(i), v)
	e.ops++
	if err != nil {
		e.w.L("OBS err:%s", btErrKind(err))
		e.emitEffects(false)
		e.violation(fmt.Sprintf("Set on a byte array failed: %v", err))
		return
	}
	ob, _ := old.(BV)
	e.w.L("OBS ok:%d:v%d", old.ByteSize(), uint8(ob))
	e.emitEffects(true)
	dump := e.dumpTree(atree.VerifArrayRoot(a))
	e.w.L("FULL h=%d %s", h, dump)
	e.w.L("OP a2b h=%d nonbyte=%d", h, v.Pay)
	_, err = atree.ByteArrayToByteSlice[BV](a)
	e.ops++
	e.st.Hit(fmt.Sprintf("op:a2b-nonbyte multi=%v", !a.IsWithinSingleSlab()))
	e.w.L("OBS %s", btObsErr(err))
	if err == nil {
		e.violation("ByteArrayToByteSlice accepted an array holding a plain non-byte value")
		return
	}
	if btErrKind(err) != "UnexpectedElementType:User" {
		e.violation("ByteArrayToByteSlice on a plain non-byte element reported " + btErrKind(err))
	}
	if len(e.rec.Effs) != 0 || e.dumpTree(atree.VerifArrayRoot(a)) != dump {
		e.violation("rejected ByteArrayToByteSlice changed the array or touched storage")
	}
	e.rec.Reset()
	if err := atree.VerifyArray(a, addr, ty, btTIC, hx.HashInput, true); err != nil {
		e.violation("byte array with a non-byte element: VerifyArray: " + err.Error())
	}
	e.health("after rejected ByteArrayToByteSlice")
}

// callCounts renders the RAW numbers of GenerateSlabID / Store calls of the last operation (the
// net effect hides a slab stored twice: the fast path of ByteSliceToByteArray stores its root
// twice, the bulk-build fallback once).
func (e *btEnv) callCounts() string {
	a, s := 0, 0
	for _, f := range e.rec.Effs {
		switch f.Kind {
		case 'a':
			a++
		case 's':
			s++
		}
	}
	return fmt.Sprintf(":calls=%d/%d", a, s)
}

// ---------------------------------------------------------------------------------------------
// F9: byte fast-path boundaries
//
// ByteSliceToByteArray takes the fast path iff  est*n + 5 < T  (array_conversion.go:104)  and
// sum of element sizes + 5 < T  (:117).  Lengths with  c*n + 5 = T - 1 / T / T + 1  for
// c in {estimate, element size}:
//   - :117 decides alone when the estimate is an UNDER-estimate (est < element size): at
//     size*n + 5 = T the fast path would build a root slab of exactly T bytes;
//   - :104 decides alone when the estimate is an OVER-estimate (est > element size): at
//     est*n + 5 = T the result is the same slab either way, but the fast path stores it twice
//     (raw call counts in the OBS line).
func (e *btEnv) scenarioBytesBoundary() {
	T := int(e.T)
	type cse struct {
		est   uint32
		small int // 1: all bytes below 24 (3 bytes each), 2: all at/above 24 (4 bytes each)
		c     int // the coefficient whose boundary is probed
	}
	cases := []cse{
		{1, 1, 3}, {2, 1, 3}, {3, 2, 4}, {1, 2, 4}, {2, 2, 4}, // under-estimates: :117 decides
		{4, 1, 4}, {8, 1, 8}, {5, 2, 5}, {0, 1, 4}, // over-estimates: :104 decides
		{3, 1, 3}, {4, 2, 4}, {0, 2, 4}, // exact estimates
	}
	if T >= 8192 {
		cases = []cse{cases[0], cases[2], cases[5]} // 10k-byte inputs: three cases are enough
	}
	for _, cs := range cases {
		base := (T - 5) / cs.c
		for _, n := range []int{base - 1, base, base + 1} {
			if n < 1 || cs.c*n+5 < T-cs.c || cs.c*n+5 > T+cs.c {
				continue
			}
			e.bytesOnce(n, cs.est, cs.small)
			e.st.Hit(fmt.Sprintf("b2a-boundary:%d*n+5-T=%d", cs.c, cs.c*n+5-T))
			if cs.c*n+5 == T {
				if int(cs.est) < 3+cs.small-1 && cs.est != 0 {
					e.st.Hit("b2a-boundary:size-exactly-T-under-estimate")
				} else {
					e.st.Hit("b2a-boundary:estimate-exactly-T")
				}
			}
		}
	}
}

// bytesOnce: one traced ByteSliceToByteArray with the usual oracles.
func (e *btEnv) bytesOnce(n int, est uint32, small int) {
	e.fresh()
	addrN := uint64(1 + e.rng.Intn(3))
	addr := hx.MkAddr(addrN)
	ty := hx.TI(uint64(e.rng.Intn(100)))
	data := make([]byte, n)
	parts := make([]string, n)
	for i := range data {
		if small == 1 {
			data[i] = byte(e.rng.Intn(24))
		} else {
			data[i] = byte(24 + e.rng.Intn(232))
		}
		parts[i] = fmt.Sprintf("%d", data[i])
	}
	e.skip()
	h := e.handle()
	e.w.L("OP b2a h=%d addr=%d ty=%d est=%d sz0=3 sz1=4 n=%d bs=%s", h, addrN, uint64(ty), est, n, strings.Join(parts, ","))
	a, err := atree.ByteSliceToByteArray[BV](e.rec, addr, btType(ty), data, est)
	e.ops++
	e.st.Hit("op:b2a")
	if err != nil {
		e.w.L("OBS err:%s", btErrKind(err))
		e.emitEffects(false)
		e.violation(fmt.Sprintf("ByteSliceToByteArray(%d bytes) failed: %v", n, err))
		return
	}
	e.w.L("OBS ok%s", e.callCounts())
	e.emitEffects(true)
	e.w.L("FULL h=%d %s", h, e.dumpTree(atree.VerifArrayRoot(a)))
	e.roots++
	if err := atree.VerifyArray(a, addr, ty, btTIC, hx.HashInput, true); err != nil {
		e.violation("ByteSliceToByteArray: VerifyArray: " + err.Error())
	}
	if err := e.guardedVerifySerialization("VerifyArraySerialization", func() error { return atree.VerifyArraySerialization(a, hx.DecMode(), hx.EncMode(), btDecodeStorable, btDecodeTypeInfo, btCompareStorable) }); err != nil {
		e.violation("ByteSliceToByteArray: VerifyArraySerialization: " + err.Error())
	}
	e.health("ByteSliceToByteArray (boundary)")
	back, err := atree.ByteArrayToByteSlice[BV](a)
	if err != nil || string(back) != string(data) {
		e.violation(fmt.Sprintf("byte round trip differs at a fast-path boundary (%d bytes in, %d out, err %v)", n, len(back), err))
	}
}

// ---------------------------------------------------------------------------------------------
// F9: keys above the inline key limit

// scenarioMapBigKey (model-free: the map model keeps keys inline, see checklib's MAP_ASSUME): a
// single-slab map one of whose keys is larger than maxInlineMapKeySize.  The library stores such
// a key in its own slab, the element holds a REFERENCE: the copy must not be offered (C17: "a
// single slab whose elements are all plain non-reference values") and CopyNonRefSimple must fail
// with CopyError.  Also: a bulk build from such a map owns fresh key slabs.
func (e *btEnv) scenarioMapBigKey(bigKeys int) {
	e.fresh()
	addr := hx.MkAddr(uint64(1 + e.rng.Intn(3)))
	ty := hx.TI(uint64(e.rng.Intn(100)))
	b := atree.NewDefaultDigesterBuilder()
	m, err := atree.NewMap(e.rec, addr, b, btType(ty))
	if err != nil {
		e.st.HarnessErr = "NewMap: " + err.Error()
		return
	}
	e.roots++
	want := map[hx.TV]hx.TV{}
	n := bigKeys + e.rng.Intn(4)
	if n == 0 {
		n = 1
	}
	for i := 0; i < n; i++ {
		k, v := e.mapKey(), e.mapValue(0)
		if i < bigKeys {
			k = hx.TV{Size: e.maxKey + 1 + uint32(e.rng.Intn(20)), Pay: k.Pay}
		}
		if _, err := m.Set(hx.CompareKey, hx.HashInput, k, v); err != nil {
			e.st.HarnessErr = "big-key source Set: " + err.Error()
			return
		}
		want[k] = v
	}
	if !m.IsWithinSingleSlab() {
		e.st.Hit("mbigkey:not-single-slab")
		return
	}
	root := atree.VerifMapRoot(m)
	refKeys := 0
	var walk func(ss []atree.Storable)
	walk = func(ss []atree.Storable) {
		for _, s := range ss {
			if _, ok := s.(atree.SlabIDStorable); ok {
				refKeys++
			} else if s != nil {
				walk(s.ChildStorables())
			}
		}
	}
	walk(root.ChildStorables())
	e.st.Hit(fmt.Sprintf("mbigkey:keys-as-references=%d", refKeys))
	if refKeys != bigKeys {
		e.violation(fmt.Sprintf("map with %d keys above the inline key limit holds %d references (values are small)", bigKeys, refKeys))
	}
	can := m.CanCopyNonRefSimple()
	e.ops++
	if can != (bigKeys == 0) {
		e.violation(fmt.Sprintf("map with %d keys stored as references: CanCopyNonRefSimple() = %v", bigKeys, can))
	}
	e.rec.Reset()
	cp, err := m.CopyNonRefSimple(addr, atree.NewDefaultDigesterBuilder())
	e.ops++
	if bigKeys > 0 {
		if err == nil {
			e.violation("CopyNonRefSimple succeeded on a map whose key is a reference")
			e.roots++
		} else if btErrKind(err) != "Copy:Fatal" {
			e.violation("CopyNonRefSimple on a map whose key is a reference reported " + btErrKind(err))
		}
	} else if err != nil {
		e.violation(fmt.Sprintf("copy of a single-slab map of plain keys and values failed: %v", err))
	} else {
		e.roots++
		e.typeIndependence("map copy (small keys)", m.Type(), cp.Type())
	}
	e.health("big-key map after copy attempt")
	// bulk build from the big-key map: content, validity, own slabs
	var kvs []btKV
	kvs, err = e.readMap(m)
	if err != nil {
		e.violation("big-key map iteration failed: " + err.Error())
		return
	}
	i := 0
	bm, err := atree.NewMapFromBatchData(e.rec, addr, atree.NewDefaultDigesterBuilder(), btType(ty), hx.CompareKey, hx.HashInput, m.Seed(),
		func() (atree.Value, atree.Value, error) {
			if i == len(kvs) {
				return nil, nil, nil
			}
			i++
			return kvs[i-1].k, kvs[i-1].v, nil
		})
	e.ops++
	if err != nil {
		e.violation(fmt.Sprintf("bulk build from a map with keys above the inline limit failed: %v", err))
		return
	}
	e.roots++
	y := &btMap{h: -1, m: bm, b: b, addr: addr, ty: ty, L: 4, kvs: kvs}
	e.checkMap("bulk build with keys above the inline limit", y, true)
	if sh := btShared(e.slabIDs(root), e.slabIDs(atree.VerifMapRoot(bm))); len(sh) != 0 {
		e.violation(fmt.Sprintf("bulk build with big keys: source and result share slab IDs %v", sh))
	}
	e.health("bulk build with keys above the inline limit")
	e.rec.Reset()
}
