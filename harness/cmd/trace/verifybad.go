package main

// Stream "verifybad": the REJECTING paths of atree's own structural checker VerifyArray.
//
// A valid array is built through the public API (the usual OP/OBS/EFF/SLB lines, replayed on the
// model), then, experiment by experiment, one or a few unexported fields of live slab objects are
// overwritten (reflection in the harness; nothing is added to the package under test):
//
//	BAD h=0 id=<slab> f=<field> [i=<n>] [v=<n>] [nid=<slab id>]     one overwritten field
//	FULL h=0 <tree dump>                                             both sides now hold the same corrupted tree
//	VFY h=0 [addr=<n>] [ty=<n>] [nostore=<id>] r=<ok|err:class>      verdict of the Go verifier
//	UNDO h=0                                                         fields restored
//
// The replayer applies the same overwrite to the model tree (AtreeModel/Verify/Corrupt.lean), runs
// the Lean transcription of the verifier (AtreeModel/Verify/Array.lean) and must reach the same
// verdict INCLUDING the error class (= which check fired first).

import (
	"fmt"
	"math/rand"
	"path/filepath"
	"reflect"

	"github.com/onflow/atree"

	"verifharness/hx"
)

func init() {
	streams["verifybad"] = verifyBadStream
}

type vbSlab struct {
	id     atree.SlabID
	slab   atree.Slab
	level  int
	parent *vbSlab
	k      int // position among the parent's children
	kids   []*vbSlab
}

type vbEnv struct {
	*arrEnv
	root   *vbSlab
	all    []*vbSlab
	undo   hx.Undo
	nExp   int
	accept int
}

func tyEq(a, b atree.TypeInfo) bool { return a == b }

// walk collects the slab objects of the tree through the child headers.
func (e *vbEnv) walk(s atree.Slab, level int, parent *vbSlab, k int) *vbSlab {
	n := &vbSlab{id: s.SlabID(), slab: s, level: level, parent: parent, k: k}
	e.all = append(e.all, n)
	for i, id := range atree.VerifChildSlabIDs(s) {
		c, ok, err := e.ps.Retrieve(id)
		if err != nil || !ok {
			continue
		}
		n.kids = append(n.kids, e.walk(c, level+1, n, i))
	}
	return n
}

func (e *vbEnv) val(n *vbSlab) reflect.Value { return reflect.ValueOf(n.slab) }

func isData(n *vbSlab) bool { _, ok := n.slab.(*atree.ArrayDataSlab); return ok }

// --- the overwrites (each writes its BAD line) -------------------------------------------------

func (e *vbEnv) bad(n *vbSlab, f string, extra string) {
	e.w.L("BAD h=0 id=%s f=%s%s", hx.IDStr(n.id), f, extra)
}

func (e *vbEnv) setSize(n *vbSlab, v uint32) {
	e.undo.SetUint(hx.Field(e.val(n), "header", "size"), uint64(v))
	e.bad(n, "size", fmt.Sprintf(" v=%d", v))
}
func (e *vbEnv) setCount(n *vbSlab, v uint32) {
	e.undo.SetUint(hx.Field(e.val(n), "header", "count"), uint64(v))
	e.bad(n, "count", fmt.Sprintf(" v=%d", v))
}
func (e *vbEnv) setID(n *vbSlab, id atree.SlabID) {
	e.undo.SetField(hx.Field(e.val(n), "header", "slabID"), reflect.ValueOf(id))
	e.bad(n, "id", " nid="+hx.IDStr(id))
	old := n.id
	n.id = id
	e.undo.Add(func() { n.id = old })
}
func (e *vbEnv) setNext(n *vbSlab, id atree.SlabID) {
	e.undo.SetField(hx.Field(e.val(n), "next"), reflect.ValueOf(id))
	e.bad(n, "next", " nid="+hx.IDStr(id))
}
func (e *vbEnv) setInlined(n *vbSlab, b bool) {
	e.undo.SetBool(hx.Field(e.val(n), "inlined"), b)
	e.bad(n, "inlined", fmt.Sprintf(" v=%d", b2i(b)))
}
func (e *vbEnv) setExtra(n *vbSlab, present bool) {
	f := hx.Field(e.val(n), "extraData")
	if present {
		e.undo.SetField(f, hx.Field(e.val(e.root), "extraData"))
	} else {
		e.undo.SetField(f, reflect.Zero(f.Type()))
	}
	e.bad(n, "extra", fmt.Sprintf(" v=%d", b2i(present)))
}
func (e *vbEnv) setElemSize(n *vbSlab, i int, size uint32) bool {
	el := hx.Field(e.val(n), "elements").Index(i)
	tv, ok := el.Interface().(hx.TV)
	if !ok {
		return false
	}
	e.undo.SetField(el, reflect.ValueOf(hx.TV{Size: size, Pay: tv.Pay}))
	e.bad(n, "elemsize", fmt.Sprintf(" i=%d v=%d", i, size))
	return true
}
func (e *vbEnv) dropElem(n *vbSlab) {
	e.undo.DropLast(hx.Field(e.val(n), "elements"))
	e.bad(n, "dropelem", "")
}
func (e *vbEnv) childHdr(n *vbSlab, i int) reflect.Value {
	return hx.Field(e.val(n), "childrenHeaders").Index(i)
}
func (e *vbEnv) setChildSize(n *vbSlab, i int, v uint32) {
	e.undo.SetUint(hx.Field(e.childHdr(n, i).Addr(), "size"), uint64(v))
	e.bad(n, "childsize", fmt.Sprintf(" i=%d v=%d", i, v))
}
func (e *vbEnv) setChildCount(n *vbSlab, i int, v uint32) {
	e.undo.SetUint(hx.Field(e.childHdr(n, i).Addr(), "count"), uint64(v))
	e.bad(n, "childcount", fmt.Sprintf(" i=%d v=%d", i, v))
}
func (e *vbEnv) setChildID(n *vbSlab, i int, id atree.SlabID) {
	e.undo.SetField(hx.Field(e.childHdr(n, i).Addr(), "slabID"), reflect.ValueOf(id))
	e.bad(n, "childid", fmt.Sprintf(" i=%d nid=%s", i, hx.IDStr(id)))
}
func (e *vbEnv) setCountSum(n *vbSlab, i int, v uint32) {
	e.undo.SetUint(hx.Field(e.val(n), "childrenCountSum").Index(i), uint64(v))
	e.bad(n, "countsum", fmt.Sprintf(" i=%d v=%d", i, v))
}
func (e *vbEnv) dropCountSum(n *vbSlab) {
	e.undo.DropLast(hx.Field(e.val(n), "childrenCountSum"))
	e.bad(n, "dropcountsum", "")
}
func (e *vbEnv) dropChildHdr(n *vbSlab) {
	e.undo.DropLast(hx.Field(e.val(n), "childrenHeaders"))
	e.bad(n, "dropchildhdr", "")
}

// dropChild removes the i-th child slab (the last one) from storage.
func (e *vbEnv) dropChild(n *vbSlab, i int) {
	c := n.kids[i]
	_ = e.ps.Remove(c.id)
	e.undo.Add(func() { _ = e.ps.Store(c.id, c.slab) })
	e.bad(n, "dropchild", fmt.Sprintf(" i=%d", i))
}

func hdrOf(n *vbSlab) atree.ArraySlabHeader { return n.slab.(atree.ArraySlab).Header() }

func hsize(n *vbSlab) uint32 { return n.slab.ByteSize() }
func hcount(n *vbSlab) uint32 {
	return uint32(reflect.ValueOf(hdrOf(n)).FieldByName("count").Uint())
}

// verdict runs the Go verifier on the (corrupted) array, writes FULL (optional) and VFY, restores.
func (e *vbEnv) verdict(name string, full bool, addr *atree.Address, ty *hx.TI, nostore bool) {
	e.nExp++
	if nostore {
		rid := e.root.id
		_ = e.ps.Remove(rid)
		rs := e.root.slab
		e.undo.Add(func() { _ = e.ps.Store(rid, rs) })
	}
	if full {
		e.w.L("FULL h=0 %s", hx.DumpTree(e.ps, e.root.slab))
	}
	a, t := e.addr, e.ty
	opt := ""
	if addr != nil {
		a = *addr
		opt += fmt.Sprintf(" addr=%d", hx.MkID(a, 0).AddressAsUint64())
	}
	if ty != nil {
		t = *ty
	}
	opt += fmt.Sprintf(" ty=%d", uint64(t))
	if nostore {
		opt += " nostore=" + hx.IDStr(e.root.id)
	}
	v, msg := hx.RunVerify(func() error { return atree.VerifyArray(e.arr, a, t, tyEq, nil, true) })
	e.w.L("VFY h=0%s r=%s", opt, v)
	e.st.Hit("verdict:" + v)
	e.st.Hit("exp:" + name + "=" + v)
	if v == "ok" {
		e.accept++
		if len(name) > 6 && name[:6] == "chain-" {
			// the checker accepted a tree whose sibling links were overwritten: does the read-only
			// iterator (which follows them) still see every element?
			got := 0
			err := e.arr.IterateReadOnly(func(atree.Value) (bool, error) { got++; return true, nil })
			if err != nil || uint64(got) != e.arr.Count() {
				e.st.Hit("observation:verifier-accepts-broken-sibling-links:read-only-iterator-incomplete")
				if len(e.st.Samples) < 8 {
					e.st.Samples = append(e.st.Samples, fmt.Sprintf("%s accepted by VerifyArray; IterateReadOnly yields %d of %d elements (err=%v)", name, got, e.arr.Count(), err))
				}
			}
		}
	}
	if len(v) > 16 && v[:16] == "err:UNCLASSIFIED" {
		e.st.HarnessErr = "unclassified verifier message: " + msg
	}
	e.undo.Run()
	e.w.L("UNDO h=0")
}

func (e *vbEnv) exp(name string, f func() bool) {
	if f() {
		e.verdict(name, true, nil, nil, false)
	} else {
		e.undo.Run()
		e.w.L("UNDO h=0")
	}
}

func verifyBadStream(cfg *Config) *hx.Stats {
	st := hx.NewStats("verifybad", cfg.Seed)
	rng := rand.New(rand.NewSource(cfg.Seed*104729 + 5))
	w := hx.NewW(filepath.Join(cfg.Out, fmt.Sprintf("verifybad-%d.trace", cfg.Seed)))
	defer w.Close()
	st.TraceFiles = append(st.TraceFiles, w.Path)
	// (threshold, number of elements, element size profile): single data slab, root index slab
	// over 2 leaves, over several leaves, three levels
	type prog struct {
		T    uint32
		n    int
		prof int
	}
	progs := []prog{
		{256, 2, 6}, {1024, 5, 1}, {256, 4, 5},
		{256, 6, 6}, {512, 9, 6},
		{256, 40, 1}, {1024, 60, 1}, {256, 30, 6},
		{256, 400, 0}, {256, 1500, 5}, {512, 1500, 0},
	}
	rounds := int(cfg.Scale + 0.5)
	if rounds < 1 {
		rounds = 1
	}
	p := 0
	for r := 0; r < rounds; r++ {
		for _, pg := range progs {
			a := &arrEnv{w: w, st: st, cfg: cfg, rng: rng, T: pg.T, prog: p}
			e := &vbEnv{arrEnv: a}
			e.run(pg.n+rng.Intn(3)*r, pg.prof)
			st.Programs++
			p++
			if st.HarnessErr != "" {
				break
			}
		}
	}
	st.TraceLines = w.Lines
	st.Distinct = 0
	for k := range st.Dist {
		if len(k) > 8 && k[:8] == "verdict:" {
			st.Distinct++
		}
	}
	atree.VerifSetThreshold(1024)
	return st
}

func (e *vbEnv) run(n int, prof int) {
	_, _, maxInl, _ := atree.VerifSetThreshold(e.T)
	minThr, maxThr := e.T/2, uint32(float64(e.T)*1.5)
	e.maxInl = maxInl
	e.ledger = hx.NewLedger()
	e.ps = hx.NewStorage(e.ledger)
	e.rec = hx.NewRecStorage(e.ps)
	e.addr = hx.MkAddr(uint64(1 + e.rng.Intn(3)))
	e.ty = hx.TI(uint64(e.rng.Intn(100)))
	w := e.w
	w.L("CFG T=%d", e.T)
	a, err := atree.NewArray(e.rec, e.addr, e.ty)
	if err != nil {
		e.st.HarnessErr = "NewArray: " + err.Error()
		return
	}
	e.arr = a
	w.L("NEW h=0 addr=%d ty=%d", e.addr[7], uint64(e.ty))
	e.emitEffects()
	for i := 0; i < n; i++ {
		v := e.genValue(prof)
		if v.Size > maxInl { // keep every element inline: no large-value slabs in these trees
			v = e.genValue(0)
		}
		w.L("OP app h=0 v=%d:%d", v.Size, v.Pay)
		if err := e.arr.Append(v); err != nil {
			e.obsErr(err)
			e.st.HarnessErr = "append failed: " + err.Error()
			return
		}
		w.L("OBS ok")
		e.emitEffects()
	}
	e.st.Ops += n
	e.root = e.walk(atree.VerifArrayRoot(e.arr), 0, nil, 0)
	depth := 0
	var leaves, metas []*vbSlab
	for _, s := range e.all {
		if s.level > depth {
			depth = s.level
		}
		if isData(s) {
			leaves = append(leaves, s)
		} else if s.level > 0 {
			metas = append(metas, s)
		}
	}
	e.st.Hit(fmt.Sprintf("shape:depth=%d", depth))

	// the untouched tree is accepted by both
	e.verdict("valid", true, nil, nil, false)
	if e.accept != 1 {
		e.violation("C05", "VerifyArray rejects a container built through the public API")
		return
	}

	other := hx.MkAddr(uint64(e.addr[7]) + 1)
	otherTy := e.ty + 1
	fresh := hx.MkID(e.addr, 1_000_000)
	root := e.root

	// ---- root checks ------------------------------------------------------------------------
	e.verdict("expected-address", false, &other, nil, false)
	e.verdict("expected-type", false, nil, &otherTy, false)
	e.exp("root-no-extra", func() bool { e.setExtra(root, false); return true })
	e.exp("root-size+1", func() bool { e.setSize(root, hsize(root)+1); return true })
	e.exp("root-size-1", func() bool { e.setSize(root, hsize(root)-1); return true })
	e.exp("root-count+1", func() bool { e.setCount(root, hcount(root)+1); return true })
	e.exp("root-overflow", func() bool { e.setSize(root, maxThr+1); return true })
	e.exp("root-addr", func() bool { e.setID(root, hx.MkID(other, root.id.IndexAsUint64())); return true })
	{
		e.setID(root, atree.SlabIDUndefined)
		zero := atree.Address{}
		e.verdict("root-id-undefined", true, &zero, nil, false)
	}

	if isData(root) {
		sz := hsize(root)
		e.exp("root-inlined-in-storage", func() bool { e.setInlined(root, true); return true })
		e.setInlined(root, true)
		e.verdict("root-inlined-not-stored-size", true, nil, nil, true)
		e.setInlined(root, true)
		e.setSize(root, sz+12) // inlined prefix 17 instead of root prefix 5
		e.verdict("root-inlined-not-stored", true, nil, nil, true)
		e.setInlined(root, true)
		e.setSize(root, sz+12)
		e.setNext(root, fresh)
		e.verdict("root-inlined-has-next", true, nil, nil, true)
		e.exp("root-next", func() bool { e.setNext(root, fresh); return true })
		if hcount(root) > 0 {
			e.exp("root-dropelem", func() bool { e.dropElem(root); return true })
			e.exp("root-elemsize", func() bool { return e.setElemSize(root, 0, maxInl+1) })
			e.exp("root-elem-too-large", func() bool {
				el := hx.Field(e.val(root), "elements").Index(0).Interface().(atree.Storable)
				if !e.setElemSize(root, 0, maxInl+1) {
					return false
				}
				e.setSize(root, sz-el.ByteSize()+maxInl+1)
				return true
			})
			e.exp("root-elem-empty", func() bool {
				el := hx.Field(e.val(root), "elements").Index(0).Interface().(atree.Storable)
				if !e.setElemSize(root, 0, 0) {
					return false
				}
				e.setSize(root, sz-el.ByteSize())
				return true
			})
		}
	} else {
		nk := len(root.kids)
		e.exp("root-countsum", func() bool { e.setCountSum(root, e.rng.Intn(nk), 7); return true })
		e.exp("root-dropcountsum", func() bool { e.dropCountSum(root); return true })
		e.exp("root-dropchildhdr", func() bool { e.dropChildHdr(root); return true })
		{
			e.dropChild(root, nk-1)
			e.verdict("root-child-missing", false, nil, nil, false)
		}
		e.exp("root-childid-next-sibling", func() bool { e.setChildID(root, 0, root.kids[1].id); return true })
		e.exp("root-childid-prev-sibling", func() bool { e.setChildID(root, nk-1, root.kids[0].id); return true })
		{
			e.setChildID(root, nk-1, fresh)
			e.verdict("root-childid-unknown", false, nil, nil, false)
		}
		k := e.rng.Intn(nk)
		e.exp("root-childsize", func() bool { e.setChildSize(root, k, hsize(root.kids[k])+1); return true })
		e.exp("root-childcount", func() bool { e.setChildCount(root, k, hcount(root.kids[k])+1); return true })
	}

	// ---- non-root slabs -----------------------------------------------------------------------
	pick := func(l []*vbSlab) []*vbSlab {
		if len(l) <= 3 {
			return l
		}
		return []*vbSlab{l[0], l[len(l)-1], l[1+e.rng.Intn(len(l)-2)]}
	}
	for _, s := range append(pick(leaves), pick(metas)...) {
		if s.level == 0 {
			continue
		}
		s := s
		par := s.parent
		tag := "leaf"
		if !isData(s) {
			tag = "meta"
		}
		sz, cnt := hsize(s), hcount(s)
		e.exp(tag+"-underflow", func() bool { e.setSize(s, minThr-1); return true })
		e.exp(tag+"-overflow", func() bool { e.setSize(s, maxThr+1); return true })
		e.exp(tag+"-size+1", func() bool { e.setSize(s, sz+1); return true })
		e.exp(tag+"-count+1", func() bool { e.setCount(s, cnt+1); return true })
		e.exp(tag+"-count+1-consistent", func() bool {
			e.setCount(s, cnt+1)
			e.setChildCount(par, s.k, cnt+1)
			return true
		})
		e.exp(tag+"-size+1-consistent", func() bool {
			if sz+1 > maxThr {
				return false
			}
			e.setSize(s, sz+1)
			e.setChildSize(par, s.k, sz+1)
			return true
		})
		e.exp(tag+"-extra", func() bool { e.setExtra(s, true); return true })
		e.exp(tag+"-addr", func() bool { e.setID(s, hx.MkID(other, s.id.IndexAsUint64())); return true })
		e.exp(tag+"-id-fresh", func() bool { e.setID(s, fresh); return true })
		e.exp(tag+"-id-root", func() bool { e.setID(s, root.id); return true })
		if s.k > 0 {
			e.exp(tag+"-id-prev-sibling", func() bool { e.setID(s, par.kids[s.k-1].id); return true })
		}
		if isData(s) {
			e.exp("leaf-inlined", func() bool { e.setInlined(s, true); return true })
			e.exp("leaf-next-undef", func() bool { e.setNext(s, atree.SlabIDUndefined); return true })
			e.exp("leaf-next-self", func() bool { e.setNext(s, s.id); return true })
			e.exp("leaf-next-fresh", func() bool { e.setNext(s, fresh); return true })
			e.exp("leaf-dropelem", func() bool { e.dropElem(s); return true })
			e.exp("leaf-elem-too-large", func() bool {
				el := hx.Field(e.val(s), "elements").Index(0).Interface().(atree.Storable)
				nsz := sz - el.ByteSize() + maxInl + 1
				if nsz > maxThr || !e.setElemSize(s, 0, maxInl+1) {
					return false
				}
				e.setSize(s, nsz)
				e.setChildSize(par, s.k, nsz)
				return true
			})
		} else {
			nk := len(s.kids)
			e.exp("meta-countsum", func() bool { e.setCountSum(s, e.rng.Intn(nk), 3); return true })
			e.exp("meta-dropcountsum", func() bool { e.dropCountSum(s); return true })
			e.exp("meta-childcount", func() bool { e.setChildCount(s, 0, hcount(s.kids[0])+1); return true })
			{
				e.dropChild(s, nk-1)
				e.verdict("meta-child-missing", false, nil, nil, false)
			}
		}
	}

	// ---- the sibling links: what the comparison of the two ID lists cannot see -----------------
	if len(leaves) >= 2 {
		first, last := leaves[0], leaves[len(leaves)-1]
		e.exp("chain-first-undef-last-self", func() bool {
			e.setNext(first, atree.SlabIDUndefined)
			e.setNext(last, last.id)
			return true
		})
		e.exp("chain-first-undef", func() bool { e.setNext(first, atree.SlabIDUndefined); return true })
		e.exp("chain-last-defined", func() bool { e.setNext(last, fresh); return true })
		if len(leaves) >= 3 {
			// rotate the links: the LIST of defined links is unchanged, their owners are not
			e.exp("chain-rotated", func() bool {
				e.setNext(first, atree.SlabIDUndefined)
				for i := 1; i < len(leaves); i++ {
					e.setNext(leaves[i], leaves[i].id)
				}
				return true
			})
		}
	}

	// after all experiments the tree is the valid one again
	e.verdict("restored", true, nil, nil, false)
	if v, _ := hx.RunVerify(func() error { return atree.VerifyArray(e.arr, e.addr, e.ty, tyEq, nil, true) }); v != "ok" {
		e.st.HarnessErr = "restore failed: " + v
	}
	if len(e.st.Samples) < 4 {
		e.st.Samples = append(e.st.Samples, fmt.Sprintf("T=%d elements=%d depth=%d slabs=%d experiments=%d accepted-corrupted=%d",
			e.T, n, depth, len(e.all), e.nExp, e.accept-2))
	}
}
