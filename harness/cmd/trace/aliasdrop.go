package main

import (
	"fmt"
	"math/rand"
	"sort"
	"strings"

	"github.com/onflow/atree"

	"verifharness/hx"
)

func init() { streams["aliasdrop"] = aliasDropStream }

// aliasDropStream: real arrays and maps on one PersistentSlabStorage.  Per round: commit; mutate
// through the container handles (which mutates, IN PLACE, slab objects that the read cache also
// holds); then drop the write set and the read cache and read every container back through fresh
// handles: the property's claim (C15 "dropping the write set and cache reverts the view to the last
// commit", C08 "served from write set, cache or ledger never changes the outcome") must hold.
//
// What DropDeltas ALONE and RetrieveIgnoringDeltas give in that situation is recorded as
// OBSERVATION counters, not judged: the value-level model answers "the committed slab", the code
// answers with whatever object the cache holds, which is the mutated one (see DESIGN / INTEGRATION-fx2).
type adElem struct {
	v       hx.TV
	isChild bool
	child   []hx.TV
}

func (e adElem) String() string {
	if !e.isChild {
		return fmt.Sprintf("%d:%d", e.v.Size, e.v.Pay)
	}
	var parts []string
	for _, c := range e.child {
		parts = append(parts, fmt.Sprintf("%d:%d", c.Size, c.Pay))
	}
	return "[" + strings.Join(parts, " ") + "]"
}

type adArr struct {
	id         atree.SlabID
	h          *atree.Array
	live, comm []adElem
	committed  bool
}

type adMap struct {
	id         atree.SlabID
	h          *atree.OrderedMap
	live, comm map[uint64]hx.TV
	committed  bool
}

func adRenderElems(l []adElem) string {
	parts := make([]string, len(l))
	for i, e := range l {
		parts[i] = e.String()
	}
	return strings.Join(parts, ",")
}

func adRenderPairs(m map[uint64]hx.TV) string {
	keys := make([]uint64, 0, len(m))
	for k := range m {
		keys = append(keys, k)
	}
	sort.Slice(keys, func(i, j int) bool { return keys[i] < keys[j] })
	parts := make([]string, len(keys))
	for i, k := range keys {
		parts[i] = fmt.Sprintf("%d=%d:%d", k, m[k].Size, m[k].Pay)
	}
	return strings.Join(parts, ",")
}

// adReadArray renders what a handle shows ("ERR:<kind>" when iteration fails, e.g. on a dangling reference).
func adReadArray(a *atree.Array) (out string) {
	defer func() {
		if r := recover(); r != nil {
			out = fmt.Sprintf("PANIC:%v", r)
		}
	}()
	var parts []string
	err := a.IterateReadOnly(func(v atree.Value) (bool, error) {
		switch x := v.(type) {
		case hx.TV:
			parts = append(parts, fmt.Sprintf("%d:%d", x.Size, x.Pay))
		case *atree.Array:
			var cs []string
			if err := x.IterateReadOnly(func(c atree.Value) (bool, error) {
				if tv, ok := c.(hx.TV); ok {
					cs = append(cs, fmt.Sprintf("%d:%d", tv.Size, tv.Pay))
				} else {
					cs = append(cs, fmt.Sprintf("?%T", c))
				}
				return true, nil
			}); err != nil {
				return false, err
			}
			parts = append(parts, "["+strings.Join(cs, " ")+"]")
		default:
			parts = append(parts, fmt.Sprintf("?%T", v))
		}
		return true, nil
	})
	if err != nil {
		return "ERR:" + hx.ErrKind(err)
	}
	if uint64(len(parts)) != a.Count() {
		return fmt.Sprintf("ERR:count %d but %d elements iterated", a.Count(), len(parts))
	}
	return strings.Join(parts, ",")
}

func adReadMap(m *atree.OrderedMap) (out string) {
	defer func() {
		if r := recover(); r != nil {
			out = fmt.Sprintf("PANIC:%v", r)
		}
	}()
	got := map[uint64]hx.TV{}
	n := 0
	err := m.IterateReadOnly(func(k, v atree.Value) (bool, error) {
		kt, ok1 := k.(hx.TV)
		vt, ok2 := v.(hx.TV)
		if !ok1 || !ok2 {
			return false, fmt.Errorf("unexpected pair %T %T", k, v)
		}
		got[kt.Pay] = vt
		n++
		return true, nil
	})
	if err != nil {
		return "ERR:" + hx.ErrKind(err)
	}
	if uint64(n) != m.Count() || n != len(got) {
		return fmt.Sprintf("ERR:count %d but %d pairs (%d distinct keys) iterated", m.Count(), n, len(got))
	}
	return adRenderPairs(got)
}

type adEnv struct {
	st     *hx.Stats
	cfg    *Config
	rng    *rand.Rand
	prog   int
	round  int
	T      uint32
	ledger *hx.Ledger
	ps     *atree.PersistentSlabStorage
	arrs   []*adArr
	maps   []*adMap
	pay    uint64
	hip    atree.HashInputProvider
}

func (e *adEnv) violation(what string) {
	// the claim belongs to both properties
	for _, p := range []string{"C15", "C08"} {
		e.st.Violations = append(e.st.Violations, hx.Violation{Property: p, Stream: "aliasdrop", Seed: e.cfg.Seed, Program: e.prog, Step: e.round, What: what})
	}
}

func (e *adEnv) val() hx.TV {
	e.pay++
	size := uint32(9 + e.rng.Intn(int(e.T/6)))
	if e.rng.Intn(12) == 0 {
		size = e.T/2 + uint32(e.rng.Intn(20)) // stored in a slab of its own
	}
	for !hx.ValidTV(size, e.pay) {
		size++
	}
	return hx.TV{Size: size, Pay: e.pay}
}

func (e *adEnv) dispose(s atree.Storable) {
	if id, ok := s.(atree.SlabIDStorable); ok {
		_ = e.ps.Remove(atree.SlabID(id))
	}
}

func (e *adEnv) newArray(n int) error {
	h, err := atree.NewArray(e.ps, hx.MkAddr(1), hx.TI(1))
	if err != nil {
		return err
	}
	a := &adArr{id: h.SlabID(), h: h}
	e.arrs = append(e.arrs, a)
	for i := 0; i < n; i++ {
		if err := e.mutateArray(a, 0); err != nil {
			return err
		}
	}
	return nil
}

func (e *adEnv) newMap(n int) error {
	h, err := atree.NewMap(e.ps, hx.MkAddr(2), atree.NewDefaultDigesterBuilder(), hx.TI(2))
	if err != nil {
		return err
	}
	m := &adMap{id: h.SlabID(), h: h, live: map[uint64]hx.TV{}}
	e.maps = append(e.maps, m)
	for i := 0; i < n; i++ {
		if err := e.mutateMap(m, 0); err != nil {
			return err
		}
	}
	return nil
}

// mutateArray applies one random mutation through the handle (bias 0: growth only).
func (e *adEnv) mutateArray(a *adArr, bias int) error {
	r := e.rng.Intn(100)
	n := len(a.live)
	if bias == 0 {
		r = r % 55
	}
	switch {
	case r < 35 || n == 0:
		v := e.val()
		i := n
		if e.rng.Intn(3) == 0 {
			i = e.rng.Intn(n + 1)
		}
		if err := a.h.Insert(uint64(i), v); err != nil {
			return err
		}
		a.live = append(a.live[:i], append([]adElem{{v: v}}, a.live[i:]...)...)
	case r < 45:
		// a small child array (inlined in its parent's slab)
		c, err := atree.NewArray(e.ps, hx.MkAddr(1), hx.TI(7))
		if err != nil {
			return err
		}
		var cv []hx.TV
		for j := e.rng.Intn(3); j > 0; j-- {
			v := hx.TV{Size: 9, Pay: e.pay + 1}
			e.pay++
			if err := c.Append(v); err != nil {
				return err
			}
			cv = append(cv, v)
		}
		i := e.rng.Intn(n + 1)
		if err := a.h.Insert(uint64(i), c); err != nil {
			return err
		}
		a.live = append(a.live[:i], append([]adElem{{isChild: true, child: cv}}, a.live[i:]...)...)
	case r < 55:
		// mutate a child through a handle obtained from the parent
		i := e.rng.Intn(n)
		if !a.live[i].isChild {
			return e.mutateArray(a, 0)
		}
		cv, err := a.h.Get(uint64(i))
		if err != nil {
			return err
		}
		c, ok := cv.(*atree.Array)
		if !ok {
			return fmt.Errorf("element %d is %T, expected a child array", i, cv)
		}
		v := hx.TV{Size: 9, Pay: e.pay + 1}
		e.pay++
		if err := c.Append(v); err != nil {
			return err
		}
		nc := append(append([]hx.TV(nil), a.live[i].child...), v)
		a.live[i] = adElem{isChild: true, child: nc}
	case r < 75:
		i := e.rng.Intn(n)
		if a.live[i].isChild {
			return nil
		}
		v := e.val()
		old, err := a.h.Set(uint64(i), v)
		if err != nil {
			return err
		}
		e.dispose(old)
		a.live[i] = adElem{v: v}
	default:
		i := e.rng.Intn(n)
		if a.live[i].isChild {
			return nil
		}
		old, err := a.h.Remove(uint64(i))
		if err != nil {
			return err
		}
		e.dispose(old)
		a.live = append(a.live[:i:i], a.live[i+1:]...)
	}
	return nil
}

func (e *adEnv) mutateMap(m *adMap, bias int) error {
	r := e.rng.Intn(100)
	if bias == 0 {
		r = r % 70
	}
	k := hx.TV{Size: 9, Pay: uint64(1 + e.rng.Intn(150))}
	switch {
	case r < 70 || len(m.live) == 0:
		v := e.val()
		old, err := m.h.Set(hx.CompareKey, e.hip, k, v)
		if err != nil {
			return err
		}
		if old != nil {
			e.dispose(old)
		}
		m.live[k.Pay] = v
	default:
		if _, ok := m.live[k.Pay]; !ok {
			return nil
		}
		_, v, err := m.h.Remove(hx.CompareKey, e.hip, k)
		if err != nil {
			return err
		}
		e.dispose(v)
		delete(m.live, k.Pay)
	}
	return nil
}

func copyElems(l []adElem) []adElem { return append([]adElem(nil), l...) }
func copyPairs(m map[uint64]hx.TV) map[uint64]hx.TV {
	c := make(map[uint64]hx.TV, len(m))
	for k, v := range m {
		c[k] = v
	}
	return c
}

// refetch replaces every handle by a fresh one from the CURRENT storage; containers that do not
// exist in the last commit must not be found.
func (e *adEnv) refetch(afterDrop bool) error {
	var arrs []*adArr
	for _, a := range e.arrs {
		h, err := atree.NewArrayWithRootID(e.ps, a.id)
		if !a.committed && afterDrop {
			if err == nil {
				e.violation(fmt.Sprintf("array %s was created after the last commit, yet it can be opened after DropDeltas+DropCache", hx.IDStr(a.id)))
			}
			continue
		}
		if err != nil {
			return fmt.Errorf("array %s cannot be opened: %w", hx.IDStr(a.id), err)
		}
		a.h = h
		arrs = append(arrs, a)
	}
	e.arrs = arrs
	var maps []*adMap
	for _, m := range e.maps {
		h, err := atree.NewMapWithRootID(e.ps, m.id, atree.NewDefaultDigesterBuilder())
		if !m.committed && afterDrop {
			if err == nil {
				e.violation(fmt.Sprintf("map %s was created after the last commit, yet it can be opened after DropDeltas+DropCache", hx.IDStr(m.id)))
			}
			continue
		}
		if err != nil {
			return fmt.Errorf("map %s cannot be opened: %w", hx.IDStr(m.id), err)
		}
		m.h = h
		maps = append(maps, m)
	}
	e.maps = maps
	return nil
}

func (e *adEnv) commit() error {
	var err error
	if e.rng.Intn(2) == 0 {
		err = e.ps.FastCommit(1 + e.rng.Intn(8))
	} else {
		err = e.ps.NondeterministicFastCommit(1 + e.rng.Intn(8))
	}
	if err != nil {
		return err
	}
	for _, a := range e.arrs {
		a.comm, a.committed = copyElems(a.live), true
	}
	for _, m := range e.maps {
		m.comm, m.committed = copyPairs(m.live), true
	}
	return nil
}

func classify(got, comm, live string) string {
	switch {
	case got == comm && got == live:
		return "unchanged"
	case got == comm:
		return "committed-content"
	case got == live:
		return "uncommitted-content"
	case strings.HasPrefix(got, "ERR:") || strings.HasPrefix(got, "PANIC:"):
		return "unreadable(" + strings.SplitN(got, " ", 2)[0] + ")"
	}
	return "a-mix-of-both"
}

// observe records (never judges) what the cache-bypassing read and a fresh handle show while
// uncommitted in-place mutations exist; phase names the moment.
func (e *adEnv) observeRoots(phase string) {
	decode := func(id atree.SlabID) string {
		b, ok := e.ledger.Seg[id]
		if !ok {
			return "absent"
		}
		s, err := atree.DecodeSlab(id, b, hx.DecMode(), hx.DecodeStorable, hx.DecodeTypeInfo)
		if err != nil {
			return "undecodable"
		}
		return atree.VerifDumpSlab(s, hx.Describe)
	}
	one := func(id atree.SlabID, liveRoot atree.Slab) {
		comm := decode(id)
		live := atree.VerifDumpSlab(liveRoot, hx.Describe)
		s, found, err := e.ps.RetrieveIgnoringDeltas(id, e.rng.Intn(2) == 0)
		got := "absent"
		if err != nil {
			got = "ERR:" + hx.ErrKind(err)
		} else if found {
			got = atree.VerifDumpSlab(s, hx.Describe)
		}
		e.st.Hit(phase + ":RetrieveIgnoringDeltas(root)=" + classify(got, comm, live))
	}
	for _, a := range e.arrs {
		if a.committed {
			one(a.id, atree.VerifArrayRoot(a.h))
		}
	}
	for _, m := range e.maps {
		if m.committed {
			one(m.id, atree.VerifMapRoot(m.h))
		}
	}
}

func (e *adEnv) observeViews(phase string) {
	for _, a := range e.arrs {
		if !a.committed {
			continue
		}
		got := "ERR:cannot-open"
		if h, err := atree.NewArrayWithRootID(e.ps, a.id); err == nil {
			got = adReadArray(h)
		}
		e.st.Hit(phase + ":fresh-handle-view=" + classify(got, adRenderElems(a.comm), adRenderElems(a.live)))
	}
	for _, m := range e.maps {
		if !m.committed {
			continue
		}
		got := "ERR:cannot-open"
		if h, err := atree.NewMapWithRootID(e.ps, m.id, atree.NewDefaultDigesterBuilder()); err == nil {
			got = adReadMap(h)
		}
		e.st.Hit(phase + ":fresh-handle-view=" + classify(got, adRenderPairs(m.comm), adRenderPairs(m.live)))
	}
}

func aliasDropStream(cfg *Config) *hx.Stats {
	st := hx.NewStats("aliasdrop", cfg.Seed)
	rng := rand.New(rand.NewSource(cfg.Seed*6151 + 3))
	nProg := int(30 * cfg.Scale)
	if nProg < 1 {
		nProg = 1
	}
	for p := 0; p < nProg; p++ {
		e := &adEnv{st: st, cfg: cfg, rng: rng, prog: p, T: []uint32{256, 512, 1024}[p%3], hip: hx.HashInput}
		if p%2 == 1 {
			e.hip = hx.HashInputBucket
		}
		atree.VerifSetThreshold(e.T)
		if err := e.run(); err != nil {
			// a set-up step or an operation through a handle failed: the scenario itself is broken
			e.violation(fmt.Sprintf("round %d: %v", e.round, err))
		}
		st.Programs++
		if len(st.Violations) > 10 {
			break
		}
	}
	st.Distinct = st.Programs + 1
	st.Samples = append(st.Samples, "arrays (with inlined child arrays and externalised values) and maps (injective and bucketed hash inputs) at T in {256,512,1024}: commit (optionally drop cache / reopen); 1-40 mutations through the handles; cache-bypassing reads and fresh-handle views recorded as observations; DropDeltas+DropCache in either order (or DropDeltas, commit, DropCache): every container read through a fresh handle, and through a brand-new storage, equals the last commit, containers born after it are gone, the ledger is byte-identical to the last commit, structure verified; then the history continues")
	atree.VerifSetThreshold(1024)
	return st
}

func (e *adEnv) run() error {
	e.ledger = hx.NewLedger()
	e.ps = hx.NewStorage(e.ledger)
	for i := 1 + e.rng.Intn(2); i > 0; i-- {
		if err := e.newArray([]int{0, 3, 30, 150}[e.rng.Intn(4)]); err != nil {
			return err
		}
	}
	for i := 1 + e.rng.Intn(2); i > 0; i-- {
		if err := e.newMap([]int{0, 3, 30, 120}[e.rng.Intn(4)]); err != nil {
			return err
		}
	}
	rounds := 3 + e.rng.Intn(4)
	for e.round = 0; e.round < rounds; e.round++ {
		if err := e.commit(); err != nil {
			return fmt.Errorf("commit: %w", err)
		}
		regs := regsOf(e.ledger)
		// where the slab objects come from: still the ones the handles built (now in the cache), or
		// decoded ones (cache dropped / storage re-created)
		switch e.rng.Intn(3) {
		case 1:
			e.ps.DropCache()
			if err := e.refetch(false); err != nil {
				return err
			}
			e.st.Hit("objects:decoded-after-dropcache")
		case 2:
			e.ps = hx.NewStorage(e.ledger)
			if err := e.refetch(false); err != nil {
				return err
			}
			e.st.Hit("objects:decoded-by-new-storage")
		default:
			e.st.Hit("objects:built-by-handles")
		}
		// uncommitted mutations through the handles
		nMut := []int{1, 3, 10, 40}[e.rng.Intn(4)]
		for i := 0; i < nMut; i++ {
			if len(e.arrs) > 0 && (len(e.maps) == 0 || e.rng.Intn(2) == 0) {
				if err := e.mutateArray(e.arrs[e.rng.Intn(len(e.arrs))], 1); err != nil {
					return fmt.Errorf("array mutation: %w", err)
				}
			} else if len(e.maps) > 0 {
				if err := e.mutateMap(e.maps[e.rng.Intn(len(e.maps))], 1); err != nil {
					return fmt.Errorf("map mutation: %w", err)
				}
			}
		}
		if e.rng.Intn(3) == 0 {
			// a container born after the commit
			var err error
			if e.rng.Intn(2) == 0 {
				err = e.newArray(e.rng.Intn(20))
			} else {
				err = e.newMap(e.rng.Intn(20))
			}
			if err != nil {
				return err
			}
		}
		e.st.Ops += nMut
		if e.round == rounds-1 {
			break // the last round ends with the mutations pending; final commit below
		}
		// OBSERVATIONS with the mutations pending
		e.observeRoots("pending")
		order := e.rng.Intn(4)
		switch order {
		case 0, 1:
			e.ps.DropDeltas()
			e.observeRoots("after-DropDeltas-alone")
			e.observeViews("after-DropDeltas-alone")
			if e.ps.Deltas() != 0 || e.ps.HasUnsavedChanges(hx.MkAddr(1)) || e.ps.HasUnsavedChanges(hx.MkAddr(2)) {
				e.violation("after DropDeltas the write set still reports pending changes")
			}
			if order == 1 {
				// a commit now has nothing to write: the in-place mutations live only in cached objects
				e.ledger.ResetCalls()
				if err := e.ps.FastCommit(2); err != nil {
					return fmt.Errorf("commit after DropDeltas: %w", err)
				}
				if len(e.ledger.Log) == 0 {
					e.st.Hit("after-DropDeltas-alone:commit-writes-nothing")
				} else {
					e.st.Hit("after-DropDeltas-alone:commit-writes-something")
				}
			}
			e.ps.DropCache()
			e.st.Hit("drop-order:deltas-then-cache")
		case 2:
			e.ps.DropCache()
			e.observeViews("after-DropCache-alone") // write set still there: the view is the uncommitted one
			e.ps.DropDeltas()
			e.st.Hit("drop-order:cache-then-deltas")
		default:
			e.ps.DropDeltas()
			e.ps.DropCache()
			e.st.Hit("drop-order:deltas-then-cache")
		}
		// THE CLAIM: write set and cache dropped => the view is the last commit
		if d := diffRegs(regs, regsOf(e.ledger)); d != "" {
			e.violation("dropped, uncommitted changes reached the ledger: " + d)
		}
		if err := e.refetch(true); err != nil {
			e.violation("after DropDeltas+DropCache: " + err.Error())
			return nil
		}
		cold := hx.NewStorage(e.ledger)
		for _, a := range e.arrs {
			want := adRenderElems(a.comm)
			if got := adReadArray(a.h); got != want {
				e.violation(fmt.Sprintf("after DropDeltas+DropCache array %s read through a fresh handle is not the last commit (%s): got %.200s want %.200s", hx.IDStr(a.id), classify(got, want, adRenderElems(a.live)), got, want))
			}
			if err := atree.VerifyArray(a.h, hx.MkAddr(1), hx.TI(1), func(x, y atree.TypeInfo) bool { return x == y }, hx.HashInput, true); err != nil {
				e.violation(fmt.Sprintf("after DropDeltas+DropCache array %s is not structurally valid: %v", hx.IDStr(a.id), err))
			}
			if c, err := atree.NewArrayWithRootID(cold, a.id); err != nil || adReadArray(c) != want {
				e.violation(fmt.Sprintf("a brand-new storage does not show the last commit of array %s", hx.IDStr(a.id)))
			}
			a.live = copyElems(a.comm)
			e.st.Hit("reverted-containers-checked")
		}
		for _, m := range e.maps {
			want := adRenderPairs(m.comm)
			if got := adReadMap(m.h); got != want {
				e.violation(fmt.Sprintf("after DropDeltas+DropCache map %s read through a fresh handle is not the last commit (%s): got %.200s want %.200s", hx.IDStr(m.id), classify(got, want, adRenderPairs(m.live)), got, want))
			}
			if err := atree.VerifyMap(m.h, hx.MkAddr(2), hx.TI(2), func(x, y atree.TypeInfo) bool { return x == y }, e.hip, true); err != nil {
				e.violation(fmt.Sprintf("after DropDeltas+DropCache map %s is not structurally valid: %v", hx.IDStr(m.id), err))
			}
			if c, err := atree.NewMapWithRootID(cold, m.id, atree.NewDefaultDigesterBuilder()); err != nil || adReadMap(c) != want {
				e.violation(fmt.Sprintf("a brand-new storage does not show the last commit of map %s", hx.IDStr(m.id)))
			}
			m.live = copyPairs(m.comm)
			e.st.Hit("reverted-containers-checked")
		}
	}
	// the history continued on the reverted state: its end is durable
	if err := e.commit(); err != nil {
		return fmt.Errorf("final commit: %w", err)
	}
	cold := hx.NewStorage(e.ledger)
	for _, a := range e.arrs {
		if c, err := atree.NewArrayWithRootID(cold, a.id); err != nil || adReadArray(c) != adRenderElems(a.live) {
			e.violation(fmt.Sprintf("after the final commit a brand-new storage does not show array %s as the handles left it", hx.IDStr(a.id)))
		}
	}
	for _, m := range e.maps {
		if c, err := atree.NewMapWithRootID(cold, m.id, atree.NewDefaultDigesterBuilder()); err != nil || adReadMap(c) != adRenderPairs(m.live) {
			e.violation(fmt.Sprintf("after the final commit a brand-new storage does not show map %s as the handles left it", hx.IDStr(m.id)))
		}
	}
	return nil
}
