package main

import (
	"encoding/binary"
	"encoding/hex"
	"errors"
	"fmt"
	"math/rand"
	"path/filepath"
	"strings"
	"sync"

	"github.com/fxamacker/circlehash"
	"github.com/onflow/atree"
	"github.com/zeebo/blake3"

	"verifharness/hx"
)

func init() { streams["digester"] = digesterStream }

// The digester stream drives hash.go through the exported API only:
//
//   - digesters are built with atree.NewDefaultDigesterBuilder() / SetSeed / Digest(hip, value) and
//     queried with Digest / DigestPrefix / Levels / Reset in random order (levels repeated, out of
//     range, prefix before and after single levels);
//   - the process-wide pool is driven through OrderedMap operations (getBasicDigester/putDigester are
//     unexported): every Get/Set/Remove/Has takes one or two digesters and returns them before it
//     returns; the next build of the harness then re-acquires such an object for ANOTHER key;
//   - object identity is observed without hooks: the HashInputProvider is handed the digester's
//     scratch array, which Reset does not clear, so the provider stamps bytes 24..31 with a fresh
//     number and reports the number it found (0 = a new object);
//   - circlehash.Hash64, blake3.Sum256 and circlehash.Hash64Uint64x2 are also called DIRECTLY and
//     written as ORA lines: the Lean replayer runs the model with these tables as its hash functions;
//   - seed plumbing: NewMap / NewMapWithRootID / CopyNonRefSimple / NewMapFromBatchData /
//     MapDataSlab.StoredValue with private and with shared builder objects; the builder's fields are
//     read back with %+v.
//
// Model-free oracles (violations are found on the implementation alone):
//   every digest equals the direct library call (C04 / C02: a digest is a function of seed and
//   message whatever object computes it); DigestPrefix(l)[i] == Digest(i); error exactly for level
//   >= Levels() (prefix: > Levels()); the pool never hands out an object the harness still holds
//   (C16); maps driven with a colliding provider agree with a Go map (C02 / C12); the same under
//   concurrent goroutines (C16).

type dKey struct {
	id    int
	msg   []byte
	fail  bool
	alias bool
	out   *uint64 // receives the stamp the provider wrote into the digester it was called for
}

var _ atree.Value = dKey{}

func (k dKey) Storable(atree.SlabStorage, atree.Address, uint32) (atree.Storable, error) {
	return nil, errors.New("dKey is never stored")
}

type digHipCall struct {
	prev, new uint64
	msg       []byte
	fail      bool
	alias     bool
	buflen    int
	bufcap    int
}

type digSlot struct {
	d        atree.Digester
	k0       uint64
	msg      []byte
	stamp    uint64
	reset    bool
	recycled bool // the pool handed out an object some earlier holder had used
}

type digEnv struct {
	w     *hx.W
	st    *hx.Stats
	cfg   *Config
	rng   *rand.Rand
	prog  int
	step  int
	ctr   uint64
	calls []digHipCall
	slots []*digSlot
	held  map[uint64]int // stamp -> slot of a digester the harness holds (never put back)
	oraC  map[string]bool
	oraB  map[string]bool
	oraC2 map[string]bool
	seen  map[string]uint64 // (k0,msg,level) -> first digest observed
	mu    sync.Mutex
	conc  bool
	// builder objects of all seed programs (the model numbers them globally) and the number of maps
	// created by earlier seed programs
	builders []atree.DigesterBuilder
	mapBase  int
}

func (e *digEnv) violation(prop, what string) {
	e.mu.Lock()
	defer e.mu.Unlock()
	if len(e.st.Violations) > 40 {
		return
	}
	e.st.Violations = append(e.st.Violations, hx.Violation{
		Property: prop, Stream: e.st.Stream, Seed: e.cfg.Seed, Program: e.prog, Step: e.step, What: what, Trace: e.w.Path, Line: e.w.Lines,
	})
}

// refusal: an oracle about a request the digester has to REFUSE (unset seed, level beyond
// Levels()).  The clause is C18's, but no check that runs this stream is C18: the violation is
// filed under every property that does run it (their digester theorems all rest on these refusals:
// spec(k0, msg, level) is defined for a set seed and level < Levels() only), and under C18.
func (e *digEnv) refusal(what string) {
	for _, p := range []string{"C02", "C04", "C12", "C16", "C18"} {
		e.violation(p, what)
	}
}

func digHex(b []byte) string {
	if len(b) == 0 {
		return "-"
	}
	return hex.EncodeToString(b)
}

// digBucketMsg is the message of a TV map key: non-injective (keys of one bucket collide on ALL levels)
func digBucketMsg(k hx.TV) []byte {
	return []byte{byte(k.Pay % 5), 0xAB, byte(k.Size % 2)}
}

// hip is the instrumented HashInputProvider.
func (e *digEnv) hip(v atree.Value, buf []byte) ([]byte, error) {
	e.mu.Lock()
	defer e.mu.Unlock()
	c := digHipCall{buflen: len(buf), bufcap: cap(buf)}
	if len(buf) >= 32 {
		c.prev = binary.BigEndian.Uint64(buf[24:32])
		e.ctr++
		c.new = e.ctr
		binary.BigEndian.PutUint64(buf[24:32], c.new)
	}
	if slot, ok := e.held[c.prev]; ok && c.prev != 0 {
		e.st.Violations = append(e.st.Violations, hx.Violation{
			Property: "C16", Stream: e.st.Stream, Seed: e.cfg.Seed, Program: e.prog, Step: e.step, Trace: e.w.Path, Line: e.w.Lines,
			What: fmt.Sprintf("the digester pool handed out the object stamped %d while slot %d still holds it", c.prev, slot)})
	}
	switch k := v.(type) {
	case dKey:
		c.msg, c.fail, c.alias = k.msg, k.fail, k.alias && len(k.msg) <= 24
	case hx.TV:
		c.msg = digBucketMsg(k)
	default:
		return nil, fmt.Errorf("hip: unexpected key %T", v)
	}
	if !e.conc {
		e.calls = append(e.calls, c)
	}
	if k, ok := v.(dKey); ok && k.out != nil {
		*k.out = c.new
	}
	if c.fail {
		return nil, errors.New("hash input provider failure (injected)")
	}
	if c.alias {
		n := copy(buf, c.msg)
		return buf[:n], nil
	}
	return append([]byte(nil), c.msg...), nil
}

func (e *digEnv) oracle(msg []byte, k0 uint64) {
	kc := fmt.Sprintf("%x/%d", msg, k0)
	if !e.oraC[kc] {
		e.oraC[kc] = true
		e.w.L("ORA circle msg=%s k0=%d v=%d", digHex(msg), k0, circlehash.Hash64(msg, k0))
	}
	kb := fmt.Sprintf("%x", msg)
	if !e.oraB[kb] {
		e.oraB[kb] = true
		sum := blake3.Sum256(msg)
		e.w.L("ORA blake msg=%s sum=%s", digHex(msg), hex.EncodeToString(sum[:]))
	}
}

// want is the digest by direct library calls (the definition the property texts rely on).
func digWant(msg []byte, k0 uint64, level uint) uint64 {
	if level == 0 {
		return circlehash.Hash64(msg, k0)
	}
	sum := blake3.Sum256(msg)
	return binary.BigEndian.Uint64(sum[8*(level-1):])
}

func digBuilderFields(b atree.DigesterBuilder) (uint64, uint64) {
	var k0, k1 uint64
	s := fmt.Sprintf("%+v", b)
	if _, err := fmt.Sscanf(s, "&{k0:%d k1:%d}", &k0, &k1); err != nil {
		panic("digester stream: cannot read builder fields from " + s)
	}
	return k0, k1
}

func (e *digEnv) randMsg() []byte {
	switch e.rng.Intn(6) {
	case 0:
		return nil
	case 1:
		return []byte{byte(e.rng.Intn(3))}
	case 2:
		b := make([]byte, 24) // exactly the aliasing limit of the provider
		e.rng.Read(b)
		return b
	case 3:
		b := make([]byte, 25+e.rng.Intn(60)) // longer than the scratch buffer
		e.rng.Read(b)
		return b
	default:
		b := make([]byte, 1+e.rng.Intn(12))
		for i := range b {
			b[i] = byte(e.rng.Intn(4))
		}
		return b
	}
}

func (e *digEnv) randLevel() uint {
	switch e.rng.Intn(12) {
	case 0:
		return 4
	case 1:
		return 5 + uint(e.rng.Intn(4))
	case 2:
		return ^uint(0) - uint(e.rng.Intn(2))
	default:
		return uint(e.rng.Intn(4))
	}
}

// build makes a digester through the exported API and records it.
func (e *digEnv) build(b atree.DigesterBuilder, k0, k1 uint64, key dKey) *digSlot {
	b.SetSeed(k0, k1)
	return e.buildWith(b, k0, k1, key)
}

// buildWith builds with whatever seed the builder object carries (k0, k1 as read from it).
func (e *digEnv) buildWith(b atree.DigesterBuilder, k0, k1 uint64, key dKey) *digSlot {
	if k0 != 0 && !key.fail {
		e.oracle(key.msg, k0)
	}
	e.calls = e.calls[:0]
	d, err := b.Digest(e.hip, key)
	slot := len(e.slots)
	res := "ok"
	if err != nil {
		res = "err:" + digErrKind(err)
	}
	if len(e.calls) == 0 {
		e.w.L("BUILD h=%d k0=%d k1=%d nohip=1 r=%s", slot, k0, k1, res)
		if k0 != 0 {
			e.violation("C02", "DigesterBuilder.Digest did not call the hash input provider although the seed is set")
		}
	} else {
		c := e.calls[0]
		if c.buflen != 32 || c.bufcap != 32 {
			e.violation("C16", fmt.Sprintf("hash input provider was handed a buffer of len %d cap %d (the digester's 32-byte scratch expected)", c.buflen, c.bufcap))
		}
		e.w.L("BUILD h=%d k0=%d k1=%d msg=%s fail=%d alias=%d prev=%d new=%d r=%s", slot, k0, k1, digHex(c.msg), digB2i(c.fail), digB2i(c.alias), c.prev, c.new, res)
		if c.prev != 0 {
			e.st.Hit("build:recycled-object")
		} else {
			e.st.Hit("build:new-object")
		}
		if k0 == 0 {
			e.refusal("DigesterBuilder.Digest with an unset seed reached the hash input provider")
		}
	}
	want := "ok"
	switch {
	case k0 == 0:
		want = "err:seedUninitialized"
	case key.fail:
		want = "err:external"
	}
	if res != want {
		e.refusal(fmt.Sprintf("DigesterBuilder.Digest(k0=%d, fail=%v) returned %s, want %s", k0, key.fail, res, want))
	}
	s := &digSlot{d: d, k0: k0, msg: key.msg}
	if err != nil {
		s.d = nil
	} else if len(e.calls) > 0 {
		s.stamp = e.calls[0].new
		s.recycled = e.calls[0].prev != 0
		e.held[s.stamp] = slot
	}
	e.slots = append(e.slots, s)
	e.st.Ops++
	return s
}

// checkMapHashes: a map handle must hash keys with the seed its root slab stores (model-free).
func (e *digEnv) checkMapHashes(m *atree.OrderedMap, prop, how string) {
	b := atree.VerifMapDigesterBuilder(m)
	k0, k1 := digBuilderFields(b)
	msg := []byte{0xC5, byte(e.rng.Intn(256))}
	if m.Seed() != 0 {
		e.oracle(msg, m.Seed())
	}
	s := e.buildWith(b, k0, k1, dKey{msg: msg})
	if s.d == nil {
		if m.Seed() != 0 {
			e.violation(prop, fmt.Sprintf("%s: the new handle cannot hash keys although its root slab stores seed %d", how, m.Seed()))
		}
		return
	}
	i := len(e.slots) - 1
	x, err := s.d.Digest(0)
	if err != nil {
		e.w.L("DIG h=%d l=0 r=err:%s", i, digErrKind(err))
		return
	}
	e.w.L("DIG h=%d l=0 r=ok:%d", i, uint64(x))
	if want := circlehash.Hash64(msg, m.Seed()); uint64(x) != want {
		e.violation(prop, fmt.Sprintf("%s: the new handle hashes message %x to %d at level 0; with the seed %d stored in its root slab the hash is %d (its builder carries %d)",
			how, msg, uint64(x), m.Seed(), want, k0))
	}
}

func digB2i(b bool) int {
	if b {
		return 1
	}
	return 0
}

func digErrKind(err error) string {
	var hl *atree.HashLevelError
	var hs *atree.HashSeedUninitializedError
	var ext *atree.ExternalError
	switch {
	case errors.As(err, &hl):
		return "hashLevel"
	case errors.As(err, &hs):
		return "seedUninitialized"
	case errors.As(err, &ext):
		return "external"
	}
	return "other(" + strings.ReplaceAll(err.Error(), " ", "_") + ")"
}

// wrongDigest: a digest that is not the function of (seed, message, level) it must be.  That breaks
// determinism (C04) and, when the object came out of the process-wide pool after another holder used
// it, also "every holder obtains the results it would obtain alone despite the digester pool" (C16).
func (e *digEnv) wrongDigest(s *digSlot, what string) {
	e.violation("C04", what)
	if s.recycled {
		e.violation("C16", what+" [object recycled through the process-wide digester pool]")
	}
}

// mapWrong: dictionary semantics lost on a map whose keys collide on all digest levels (C02, C12).
func (e *digEnv) mapWrong(what string) {
	e.violation("C02", what)
	e.violation("C12", what+" [keys of one bucket collide on every digest level]")
}

func (e *digEnv) liveSlot() (int, *digSlot) {
	var live []int
	for i, s := range e.slots {
		if s.d != nil {
			live = append(live, i)
		}
	}
	if len(live) == 0 {
		return -1, nil
	}
	// prefer recent slots (they are the recycled objects)
	i := live[len(live)-1-e.rng.Intn(min(len(live), 4))]
	return i, e.slots[i]
}

func (e *digEnv) expect(s *digSlot, level uint) uint64 {
	if s.reset {
		if level == 0 {
			return 0
		}
		return digWant(nil, 0, level)
	}
	return digWant(s.msg, s.k0, level)
}

func (e *digEnv) digest(i int, s *digSlot, level uint) {
	if s.reset {
		e.oracle(nil, 0)
	}
	x, err := s.d.Digest(level)
	e.st.Ops++
	if err != nil {
		e.w.L("DIG h=%d l=%d r=err:%s", i, level, digErrKind(err))
		if level < s.d.Levels() {
			e.violation("C02", fmt.Sprintf("Digest(%d) failed below Levels(): %v", level, err))
		}
		e.st.Hit("digest:out-of-range")
		return
	}
	e.w.L("DIG h=%d l=%d r=ok:%d", i, level, uint64(x))
	if level >= s.d.Levels() {
		e.refusal(fmt.Sprintf("Digest(%d) succeeded although Levels() = %d", level, s.d.Levels()))
		return
	}
	e.st.Hit(fmt.Sprintf("digest:level%d", level))
	if w := e.expect(s, level); uint64(x) != w {
		e.wrongDigest(s, fmt.Sprintf("digest at level %d of message %x under seed %d is %d on the digester object stamped %d; the hash functions give %d",
			level, s.msg, s.k0, uint64(x), s.stamp, w))
	}
	if !s.reset {
		k := fmt.Sprintf("%d/%x/%d", s.k0, s.msg, level)
		if prev, ok := e.seen[k]; ok && prev != uint64(x) {
			e.wrongDigest(s, fmt.Sprintf("same (seed, message, level) = (%d, %x, %d) gave digest %d earlier and %d now", s.k0, s.msg, level, prev, uint64(x)))
		}
		e.seen[k] = uint64(x)
	}
}

func (e *digEnv) prefix(i int, s *digSlot, level uint) {
	if s.reset {
		e.oracle(nil, 0)
	}
	xs, err := s.d.DigestPrefix(level)
	e.st.Ops++
	if err != nil {
		e.w.L("PRE h=%d l=%d r=err:%s", i, level, digErrKind(err))
		if level <= s.d.Levels() {
			e.violation("C02", fmt.Sprintf("DigestPrefix(%d) failed although Levels() = %d: %v", level, s.d.Levels(), err))
		}
		e.st.Hit("prefix:out-of-range")
		return
	}
	parts := make([]string, len(xs))
	for j, x := range xs {
		parts[j] = fmt.Sprintf("%d", uint64(x))
	}
	r := strings.Join(parts, ",")
	if len(xs) == 0 {
		r = "-"
	}
	e.w.L("PRE h=%d l=%d r=ok:%s", i, level, r)
	e.st.Hit(fmt.Sprintf("prefix:%d", level))
	if level > s.d.Levels() {
		e.refusal(fmt.Sprintf("DigestPrefix(%d) succeeded although Levels() = %d", level, s.d.Levels()))
		return
	}
	if uint(len(xs)) != level {
		e.violation("C02", fmt.Sprintf("DigestPrefix(%d) returned %d digests", level, len(xs)))
		return
	}
	for j, x := range xs {
		if w := e.expect(s, uint(j)); uint64(x) != w {
			e.wrongDigest(s, fmt.Sprintf("DigestPrefix(%d)[%d] of message %x under seed %d is %d; the hash functions give %d", level, j, s.msg, s.k0, uint64(x), w))
		}
	}
}

// mapOp runs one OrderedMap operation with the instrumented provider and records the digesters it
// took from (and returned to) the pool.
func (e *digEnv) mapOp(m *atree.OrderedMap, shadow map[hx.TV]hx.TV, keys []hx.TV) {
	k := keys[e.rng.Intn(len(keys))]
	e.oracle(digBucketMsg(k), m.Seed())
	e.calls = e.calls[:0]
	var what string
	switch op := e.rng.Intn(10); {
	case op < 5:
		v := hx.TV{Size: 3, Pay: uint64(e.rng.Intn(60000))}
		old, err := m.Set(hx.CompareKey, e.hip, k, v)
		what = "set"
		if err != nil {
			e.mapWrong(fmt.Sprintf("Set(%v) failed: %v", k, err))
		} else {
			prev, had := shadow[k]
			if had != (old != nil) || (had && old != atree.Storable(prev)) {
				e.mapWrong(fmt.Sprintf("Set(%v) returned previous value %v, dictionary had %v (present %v)", k, old, prev, had))
			}
			shadow[k] = v
		}
	case op < 8:
		got, err := m.Get(hx.CompareKey, e.hip, k)
		what = "get"
		want, had := shadow[k]
		var knf *atree.KeyNotFoundError
		switch {
		case had && (err != nil || got != atree.Value(want)):
			e.mapWrong(fmt.Sprintf("Get(%v) = %v, %v; dictionary has %v", k, got, err, want))
		case !had && !errors.As(err, &knf):
			e.mapWrong(fmt.Sprintf("Get(%v) of an absent key = %v, %v", k, got, err))
		}
	case op < 9:
		ok, err := m.Has(hx.CompareKey, e.hip, k)
		what = "has"
		if _, had := shadow[k]; err != nil || ok != had {
			e.mapWrong(fmt.Sprintf("Has(%v) = %v, %v; dictionary: %v", k, ok, err, had))
		}
	default:
		_, _, err := m.Remove(hx.CompareKey, e.hip, k)
		what = "rem"
		_, had := shadow[k]
		var knf *atree.KeyNotFoundError
		if had != (err == nil) || (!had && !errors.As(err, &knf)) {
			e.mapWrong(fmt.Sprintf("Remove(%v): %v; dictionary had it: %v", k, err, had))
		}
		delete(shadow, k)
	}
	var hs []string
	for _, c := range e.calls {
		hs = append(hs, fmt.Sprintf("%d:%d:%s", c.prev, c.new, digHex(c.msg)))
		if c.msg != nil {
			e.oracle(c.msg, m.Seed())
		}
	}
	e.w.L("MAPOP k0=%d kind=%s hips=%s", m.Seed(), what, strings.Join(hs, ";"))
	e.st.Hit(fmt.Sprintf("mapop:%s:%d-digesters", what, len(e.calls)))
	e.st.Ops++
}

func digMapBuilderObs(m *atree.OrderedMap) string {
	k0, k1 := digBuilderFields(atree.VerifMapDigesterBuilder(m))
	return fmt.Sprintf("%d:%d:%d", m.Seed(), k0, k1)
}

func (e *digEnv) oracle2(id atree.SlabID) {
	ra, ri := id.Address(), id.Index()
	a, b := binary.LittleEndian.Uint64(ra[:]), binary.LittleEndian.Uint64(ri[:])
	k := fmt.Sprintf("%d/%d", a, b)
	if !e.oraC2[k] {
		e.oraC2[k] = true
		e.w.L("ORA circle2 a=%d b=%d v=%d", a, b, circlehash.Hash64Uint64x2(a, b, 0))
	}
}

// seedProgram exercises every constructor that seeds a builder, with private and shared builders.
func (e *digEnv) seedProgram() {
	ledger := hx.NewLedger()
	ps := hx.NewStorage(ledger)
	builders := e.builders
	defer func() { e.builders = builders }()
	newB := func() int {
		builders = append(builders, atree.NewDefaultDigesterBuilder())
		e.w.L("BNEW b=%d", len(builders)-1)
		return len(builders) - 1
	}
	mb := e.mapBase
	type mrec struct {
		m *atree.OrderedMap
		b int
	}
	var maps []mrec
	touched := map[int]bool{}
	pickB0 := func() int {
		// one time in four: a builder object some other map already uses (caller mistake the model
		// must predict exactly)
		if len(builders) > 0 && e.rng.Intn(4) == 0 {
			e.st.Hit("seed:shared-builder")
			return e.rng.Intn(len(builders))
		}
		return newB()
	}
	pickB := func() int { b := pickB0(); touched[b] = true; return b }
	queryAll := func() {
		for i, b := range builders {
			if !touched[i] {
				continue
			}
			k0, k1 := digBuilderFields(b)
			e.w.L("BQ b=%d r=%d:%d", i, k0, k1)
		}
	}
	n := 6 + e.rng.Intn(10)
	for i := 0; i < n; i++ {
		e.step = i
		switch op := e.rng.Intn(10); {
		case op < 4 || len(maps) == 0:
			addr := hx.MkAddr(uint64(1 + e.rng.Intn(1<<16))<<uint(8*e.rng.Intn(7)))
			// the slab ID NewMap is going to get: ask the ledger's allocator state through a probe map
			b := pickB()
			m, err := atree.NewMap(ps, addr, builders[b], hx.TI(7))
			if err != nil {
				e.st.HarnessErr = "NewMap: " + err.Error()
				return
			}
			id := m.SlabID()
			e.oracle2(id)
			ra, ri := id.Address(), id.Index()
			e.w.L("MNEW m=%d addr=%d idx=%d b=%d r=%s", mb+len(maps), binary.BigEndian.Uint64(ra[:]), binary.BigEndian.Uint64(ri[:]), b, digMapBuilderObs(m))
			a, bb := binary.LittleEndian.Uint64(ra[:]), binary.LittleEndian.Uint64(ri[:])
			if m.Seed() != circlehash.Hash64Uint64x2(a, bb, 0) {
				e.violation("C04", fmt.Sprintf("map seed %d is not Hash64Uint64x2 of its root slab ID %s", m.Seed(), hx.IDStr(id)))
			}
			maps = append(maps, mrec{m, b})
			e.checkMapHashes(m, "C04", "NewMap")
			e.st.Hit("seed:newmap")
		case op < 6:
			src := e.rng.Intn(len(maps))
			b := pickB()
			m, err := atree.NewMapWithRootID(ps, maps[src].m.SlabID(), builders[b])
			if err != nil {
				e.st.HarnessErr = "NewMapWithRootID: " + err.Error()
				return
			}
			e.w.L("MOPEN m=%d src=%d b=%d r=%s", mb+len(maps), mb+src, b, digMapBuilderObs(m))
			if m.Seed() != maps[src].m.Seed() {
				e.violation("C03", "a re-opened map reports another seed than the map it was opened from")
			}
			maps = append(maps, mrec{m, b})
			e.checkMapHashes(m, "C03", "NewMapWithRootID")
			e.st.Hit("seed:reopen")
		case op < 8:
			src := e.rng.Intn(len(maps))
			b := pickB()
			m, err := maps[src].m.CopyNonRefSimple(hx.MkAddr(uint64(2+e.rng.Intn(5))), builders[b])
			if err != nil {
				e.st.HarnessErr = "CopyNonRefSimple: " + err.Error()
				return
			}
			e.w.L("MCOPY m=%d src=%d b=%d r=%s", mb+len(maps), mb+src, b, digMapBuilderObs(m))
			if m.Seed() != maps[src].m.Seed() {
				e.violation("C17", fmt.Sprintf("copy has seed %d, source has %d", m.Seed(), maps[src].m.Seed()))
			}
			maps = append(maps, mrec{m, b})
			e.checkMapHashes(m, "C17", "CopyNonRefSimple")
			e.st.Hit("seed:copy")
		case op < 9:
			seed := maps[e.rng.Intn(len(maps))].m.Seed()
			if e.rng.Intn(4) == 0 {
				seed = 0
			}
			b := pickB()
			m, err := atree.NewMapFromBatchData(ps, hx.MkAddr(3), builders[b], hx.TI(9), hx.CompareKey, e.hip, seed,
				func() (atree.Value, atree.Value, error) { return nil, nil, nil })
			if err != nil {
				e.w.L("MBATCH m=%d seed=%d b=%d r=err:%s", mb+len(maps), seed, b, digErrKind(err))
				if seed != 0 {
					e.st.HarnessErr = "NewMapFromBatchData: " + err.Error()
					return
				}
				e.st.Hit("seed:batch-zero-refused")
				break
			}
			e.w.L("MBATCH m=%d seed=%d b=%d r=%s", mb+len(maps), seed, b, digMapBuilderObs(m))
			if m.Seed() != seed || seed == 0 {
				e.violation("C17", fmt.Sprintf("bulk-built map has seed %d, the caller passed %d", m.Seed(), seed))
			}
			maps = append(maps, mrec{m, b})
			e.checkMapHashes(m, "C17", "NewMapFromBatchData")
			e.st.Hit("seed:batch")
		default:
			src := maps[e.rng.Intn(len(maps))].m
			root, ok := atree.VerifMapRoot(src).(*atree.MapDataSlab)
			if !ok {
				break
			}
			v, err := root.StoredValue(ps)
			if err != nil {
				e.st.HarnessErr = "StoredValue: " + err.Error()
				return
			}
			m := v.(*atree.OrderedMap)
			e.w.L("MCHILD m=%d seed=%d r=%s", mb+len(maps), src.Seed(), digMapBuilderObs(m))
			// (the model allocates a builder object for it, so the harness must too)
			builders = append(builders, atree.VerifMapDigesterBuilder(m))
			maps = append(maps, mrec{m, len(builders) - 1})
			e.checkMapHashes(m, "C10", "MapDataSlab.StoredValue")
			e.st.Hit("seed:child-handle")
		}
		e.st.Ops++
		if e.rng.Intn(3) == 0 {
			queryAll()
		}
	}
	queryAll()
	e.mapBase += len(maps)
}

// poolProgram: random calls on digesters; the pool is churned through map operations in between.
func (e *digEnv) poolProgram(nOps int) {
	ledger := hx.NewLedger()
	ps := hx.NewStorage(ledger)
	atree.VerifSetThreshold(1024)
	m, err := atree.NewMap(ps, hx.MkAddr(uint64(1+e.rng.Intn(3))), atree.NewDefaultDigesterBuilder(), hx.TI(1))
	if err != nil {
		e.st.HarnessErr = "NewMap: " + err.Error()
		return
	}
	shadow := map[hx.TV]hx.TV{}
	var keys []hx.TV
	for i := 0; i < 12+e.rng.Intn(20); i++ {
		keys = append(keys, hx.TV{Size: uint32(3 + e.rng.Intn(4)), Pay: uint64(i + 1)})
	}
	builder := atree.NewDefaultDigesterBuilder()
	msgs := [][]byte{}
	for i := 0; i < 6; i++ {
		msgs = append(msgs, e.randMsg())
	}
	seeds := []uint64{1, 2, ^uint64(0), uint64(e.rng.Int63()) | 1, m.Seed()}
	id := 0
	for e.step = 0; e.step < nOps; e.step++ {
		switch op := e.rng.Intn(20); {
		case op < 5:
			msg := msgs[e.rng.Intn(len(msgs))]
			if e.rng.Intn(4) == 0 {
				msg = e.randMsg()
				msgs[e.rng.Intn(len(msgs))] = msg
			}
			k0 := seeds[e.rng.Intn(len(seeds))]
			if e.rng.Intn(15) == 0 {
				k0 = 0
			}
			b := builder
			if e.rng.Intn(3) == 0 {
				b = atree.NewDefaultDigesterBuilder()
			}
			id++
			e.build(b, k0, uint64(e.rng.Int63()), dKey{id: id, msg: msg, fail: e.rng.Intn(12) == 0, alias: e.rng.Intn(2) == 0})
		case op < 11:
			if i, s := e.liveSlot(); s != nil {
				e.digest(i, s, e.randLevel())
			}
		case op < 14:
			if i, s := e.liveSlot(); s != nil {
				l := e.randLevel()
				if e.rng.Intn(3) == 0 {
					l = 4
				}
				e.prefix(i, s, l)
			}
		case op < 15:
			if i, s := e.liveSlot(); s != nil && e.rng.Intn(3) == 0 {
				s.d.Reset()
				s.reset = true
				e.w.L("RST h=%d", i)
				e.st.Hit("holder-reset")
			}
		case op < 16:
			if i, s := e.liveSlot(); s != nil {
				if n := s.d.Levels(); n != 4 {
					e.violation("C12", fmt.Sprintf("Levels() = %d on slot %d", n, i))
				}
			}
		default:
			// churn the pool: 1..4 map operations (each takes and returns one or two digesters),
			// typically followed by a build that re-acquires one of those objects for another message
			for j := 1 + e.rng.Intn(4); j > 0; j-- {
				e.mapOp(m, shadow, keys)
			}
		}
	}
}

// concProgram: goroutines with their own storages and maps hammer the shared pool; every digest a
// goroutine observes must be the one it would observe alone.  Oracle only (no trace lines).
func (e *digEnv) concProgram(workers, nOps int) {
	e.conc = true
	var wg sync.WaitGroup
	for g := 0; g < workers; g++ {
		wg.Add(1)
		go func(g int) {
			defer wg.Done()
			rng := rand.New(rand.NewSource(e.cfg.Seed*977 + int64(g)*31 + int64(e.prog)))
			ledger := hx.NewLedger()
			ps := hx.NewStorage(ledger)
			m, err := atree.NewMap(ps, hx.MkAddr(uint64(1+g)), atree.NewDefaultDigesterBuilder(), hx.TI(1))
			if err != nil {
				e.violation("C16", "NewMap under concurrency: "+err.Error())
				return
			}
			shadow := map[hx.TV]hx.TV{}
			b := atree.NewDefaultDigesterBuilder()
			for i := 0; i < nOps; i++ {
				if rng.Intn(2) == 0 {
					k := hx.TV{Size: 3, Pay: uint64(rng.Intn(40))}
					if rng.Intn(3) > 0 {
						v := hx.TV{Size: 3, Pay: uint64(rng.Intn(60000))}
						if _, err := m.Set(hx.CompareKey, e.hip, k, v); err != nil {
							e.violation("C16", fmt.Sprintf("goroutine %d: Set failed: %v", g, err))
						}
						shadow[k] = v
					} else {
						got, err := m.Get(hx.CompareKey, e.hip, k)
						want, had := shadow[k]
						if had && (err != nil || got != atree.Value(want)) {
							e.violation("C16", fmt.Sprintf("goroutine %d: Get(%v) = %v, %v; alone it would be %v", g, k, got, err, want))
						}
					}
					continue
				}
				msg := make([]byte, 1+rng.Intn(30))
				rng.Read(msg)
				k0 := uint64(rng.Int63()) | 1
				b.SetSeed(k0, 0)
				var stamp uint64
				d, err := b.Digest(e.hip, dKey{msg: msg, alias: rng.Intn(2) == 0, out: &stamp})
				if err != nil {
					e.violation("C16", fmt.Sprintf("goroutine %d: Digest failed: %v", g, err))
					continue
				}
				e.mu.Lock()
				e.held[stamp] = -1 - g
				e.mu.Unlock()
				for _, l := range rng.Perm(4) {
					x, err := d.Digest(uint(l))
					if err != nil || uint64(x) != digWant(msg, k0, uint(l)) {
						e.violation("C16", fmt.Sprintf("goroutine %d: digest level %d of %x = %d, %v; alone it would be %d", g, l, msg, uint64(x), err, digWant(msg, k0, uint(l))))
					}
				}
				// (this digester is never returned: it must never be handed to anybody else — checked in hip)
				e.mu.Lock()
				e.st.Ops += 5
				e.mu.Unlock()
			}
		}(g)
	}
	wg.Wait()
	e.conc = false
}

func digesterStream(cfg *Config) *hx.Stats {
	st := hx.NewStats("digester", cfg.Seed)
	rng := rand.New(rand.NewSource(cfg.Seed*7919 + 5))
	w := hx.NewW(filepath.Join(cfg.Out, fmt.Sprintf("%s-%d.trace", digesterTraceTag, cfg.Seed)))
	defer w.Close()
	st.TraceFiles = append(st.TraceFiles, w.Path)
	probe, _ := func() (atree.Digester, error) {
		b := atree.NewDefaultDigesterBuilder()
		b.SetSeed(1, 1)
		return b.Digest(func(atree.Value, []byte) ([]byte, error) { return []byte{1}, nil }, dKey{})
	}()
	// typicalRandomConstant is not exported: read it from the builder NewMap has just seeded
	pb := atree.NewDefaultDigesterBuilder()
	if _, err := atree.NewMap(hx.NewStorage(hx.NewLedger()), hx.MkAddr(1), pb, hx.TI(0)); err != nil {
		st.HarnessErr = "NewMap: " + err.Error()
		return st
	}
	_, k1 := digBuilderFields(pb)
	w.L("LEVELS n=%d k1=%d", probe.Levels(), k1)
	e := &digEnv{w: w, st: st, cfg: cfg, rng: rng, held: map[uint64]int{}, oraC: map[string]bool{}, oraB: map[string]bool{},
		oraC2: map[string]bool{}, seen: map[string]uint64{}}
	// stamps are unique per process run of this stream and never 0
	e.ctr = (uint64(cfg.Seed)&0xffff)<<40 | 1<<39
	nProg := int(12 * cfg.Scale)
	for p := 0; p < nProg && len(st.Violations) <= 20 && st.HarnessErr == ""; p++ {
		e.prog = p
		switch p % 4 {
		case 0, 1:
			w.L("CFG digester prog=%d kind=pool", p)
			e.poolProgram(300 + rng.Intn(400))
		case 2:
			w.L("CFG digester prog=%d kind=seed", p)
			e.seedProgram()
		case 3:
			e.concProgram(2+rng.Intn(6), 300)
		}
		st.Programs++
	}
	if st.HarnessErr == "" && st.Dist["build:recycled-object"] == 0 && nProg >= 4 {
		st.HarnessErr = "the digester pool never handed a recycled object to the harness: the stream did not exercise pool reuse"
	}
	st.TraceLines = w.Lines
	st.Distinct = len(e.seen)
	st.Samples = append(st.Samples, fmt.Sprintf("%d distinct (seed, message, level) triples; %d builds on recycled objects, %d on new ones",
		len(e.seen), st.Dist["build:recycled-object"], st.Dist["build:new-object"]))
	return st
}
