package main

import (
	"fmt"
	"math/rand"
	"path/filepath"
	"strings"

	"github.com/onflow/atree"

	"verifharness/hx"
)

func init() {
	streams["array"] = func(c *Config) *hx.Stats { return arrayStreamX(c, "array", false) }
	streams["persist"] = func(c *Config) *hx.Stats { return arrayStreamX(c, "persist", true) }
}

// renderStorable renders a storable as "<size>:<desc>".
func renderStorable(s atree.Storable) string {
	if s == nil {
		return "0:nil"
	}
	switch x := s.(type) {
	case atree.SlabIDStorable:
		return fmt.Sprintf("%d:R%s", s.ByteSize(), hx.IDStr(atree.SlabID(x)))
	case hx.TV:
		return fmt.Sprintf("%d:v%d", x.Size, x.Pay)
	case hx.SomeStorable:
		return fmt.Sprintf("%d:W(%s)", s.ByteSize(), renderStorable(x.S))
	case atree.Slab:
		return fmt.Sprintf("%d:%s", s.ByteSize(), atree.VerifDumpSlab(x, hx.Describe))
	}
	return fmt.Sprintf("%d:%s", s.ByteSize(), hx.Describe.Storable(s))
}

func renderValue(v atree.Value) string {
	switch x := v.(type) {
	case hx.TV:
		return fmt.Sprintf("%d:v%d", x.Size, x.Pay)
	}
	return fmt.Sprintf("?%T", v)
}

type arrEnv struct {
	w       *hx.W
	st      *hx.Stats
	cfg     *Config
	rng     *rand.Rand
	T       uint32
	maxInl  uint32
	ledger  *hx.Ledger
	ps      *atree.PersistentSlabStorage
	rec     *hx.RecStorage
	arr     *atree.Array
	addr    atree.Address
	ty      hx.TI
	shadow  []hx.TV
	nextPay uint64
	prog    int
	step    int
	// persistence stream (C03): commits, crashes, reopen on a fresh storage
	persist     bool
	committed   []hx.TV // content at the last successful commit
	committedTy hx.TI
	hasCommit   bool
}

func (e *arrEnv) violation(prop, what string) {
	e.st.Violations = append(e.st.Violations, hx.Violation{
		Property: prop, Stream: e.st.Stream, Seed: e.cfg.Seed, Program: e.prog, Step: e.step, What: what, Trace: e.w.Path, Line: e.w.Lines,
	})
}

// emitEffects writes the EFF line and one SLB line per slab whose last action was a store.
func (e *arrEnv) emitEffects() {
	e.w.L("EFF %s", hx.NetEffect(e.rec.Effs))
	for _, id := range hx.StoredIDs(e.rec.Effs) {
		s, ok, err := e.ps.Retrieve(id)
		if err != nil || !ok {
			e.w.L("SLB MISSING(%s)", hx.IDStr(id))
			continue
		}
		e.w.L("SLB %s", atree.VerifDumpSlab(s, hx.Describe))
	}
	e.rec.Reset()
}

// dispose releases what the library handed back (the caller's duty of C09): a reference to a
// large-value slab is removed from storage.
func (e *arrEnv) dispose(s atree.Storable) {
	if id, ok := s.(atree.SlabIDStorable); ok {
		e.w.L("DSP id=%s", hx.IDStr(atree.SlabID(id)))
		_ = e.ps.Remove(atree.SlabID(id))
	}
}

func (e *arrEnv) genSize(prof int) uint32 {
	m := e.maxInl
	r := e.rng
	switch prof {
	case 0: // tiny
		return uint32(2 + r.Intn(10))
	case 1: // mid
		return uint32(10 + r.Intn(int(m/2)))
	case 2: // at and around the inline limit
		return m - uint32(r.Intn(3))
	case 3: // just over the limit: externalised
		return m + 1 + uint32(r.Intn(40))
	case 4: // just under half of T
		return e.T/2 - 21 - uint32(r.Intn(8))
	case 5: // fixed small
		return 9
	case 6: // quarter
		return m/2 + uint32(r.Intn(5))
	default: // mixture
		return e.genSize(r.Intn(7))
	}
}

func (e *arrEnv) genValue(prof int) hx.TV {
	size := e.genSize(prof)
	if size < 2 {
		size = 2
	}
	if size > e.T*2 {
		size = e.T * 2
	}
	e.nextPay++
	pay := e.nextPay
	for !hx.ValidTV(size, pay) {
		pay = pay % 200
		if !hx.ValidTV(size, pay) {
			size++
		}
	}
	return hx.TV{Size: size, Pay: pay}
}

func (e *arrEnv) genIndex(prof int, n int, inclusiveEnd bool) uint64 {
	if n == 0 {
		return 0
	}
	hi := n
	if !inclusiveEnd {
		hi = n - 1
	}
	switch prof {
	case 0:
		return 0
	case 1:
		return uint64(hi)
	case 2:
		return uint64(hi / 2)
	default:
		return uint64(e.rng.Intn(hi + 1))
	}
}

func (e *arrEnv) obsErr(err error) { e.w.L("OBS err:%s", hx.ErrKind(err)) }

// expected storable form of a shadow value under the current threshold
func (e *arrEnv) checkReturned(prop string, got atree.Storable, want hx.TV) {
	var tv hx.TV
	switch x := got.(type) {
	case hx.TV:
		tv = x
	case atree.SlabIDStorable:
		s, ok, err := e.ps.Retrieve(atree.SlabID(x))
		if err != nil || !ok {
			e.violation(prop, fmt.Sprintf("returned reference %s does not resolve", hx.IDStr(atree.SlabID(x))))
			return
		}
		cs := s.ChildStorables()
		if len(cs) != 1 {
			e.violation(prop, "large-value slab without single storable")
			return
		}
		tv, _ = cs[0].(hx.TV)
	default:
		e.violation(prop, fmt.Sprintf("unexpected storable %T", got))
		return
	}
	if tv != want {
		e.violation(prop, fmt.Sprintf("returned element %v, sequence says %v", tv, want))
	}
}

func arrayStreamX(cfg *Config, name string, persist bool) *hx.Stats {
	st := hx.NewStats(name, cfg.Seed)
	rng := rand.New(rand.NewSource(cfg.Seed*7919 + 11 + int64(len(name))))
	nProg := int(24 * cfg.Scale)
	if persist {
		nProg = int(16 * cfg.Scale)
	}
	seen := map[string]bool{}
	w := hx.NewW(filepath.Join(cfg.Out, fmt.Sprintf("%s-%d.trace", name, cfg.Seed)))
	defer w.Close()
	st.TraceFiles = append(st.TraceFiles, w.Path)
	thresholds := []uint32{256, 256, 256, 1024, 1024, 512, 257, 511, 32768, 1023}
	for p := 0; p < nProg; p++ {
		T := thresholds[p%len(thresholds)]
		if p%len(thresholds) == len(thresholds)-1 {
			T = 256 + uint32(rng.Intn(32768-256+1))
		}
		nOps := 300 + rng.Intn(500)
		if T >= 16384 {
			nOps = 150
		}
		e := &arrEnv{w: w, st: st, cfg: cfg, rng: rng, T: T, prog: p, persist: persist}
		if persist && nOps > 400 {
			nOps = 400
		}
		runArrayProgram(e, nOps, rng.Intn(8), rng.Intn(5), rng.Intn(4))
		st.Programs++
		key := fmt.Sprintf("%d/%d", T, e.step)
		if !seen[key] {
			seen[key] = true
		}
	}
	st.TraceLines = w.Lines
	st.Distinct = len(seen)
	atree.VerifSetThreshold(1024)
	return st
}

func runArrayProgram(e *arrEnv, nOps, sizeProf, posProf, opProf int) {
	_, _, maxInl, _ := atree.VerifSetThreshold(e.T)
	e.maxInl = maxInl
	e.ledger = hx.NewLedger()
	e.ps = hx.NewStorage(e.ledger)
	e.rec = hx.NewRecStorage(e.ps)
	e.addr = hx.MkAddr(uint64(1 + e.rng.Intn(3)))
	e.ty = hx.TI(uint64(e.rng.Intn(100)))
	w := e.w
	w.L("CFG T=%d", e.T)
	a, err := atree.NewArray(e.rec, e.addr, e.ty)
	if err != nil {
		e.st.HarnessErr = "NewArray: " + err.Error()
		return
	}
	e.arr = a
	w.L("NEW h=0 addr=%d ty=%d", e.addr[7], uint64(e.ty))
	e.emitEffects()
	e.st.Dist[fmt.Sprintf("T=%d", e.T)]++
	e.st.Dist[fmt.Sprintf("sizeProf=%d", sizeProf)]++
	e.st.Dist[fmt.Sprintf("opProf=%d", opProf)]++

	for e.step = 0; e.step < nOps; e.step++ {
		if e.persist && e.persistStep() {
			continue
		}
		n := len(e.shadow)
		// choose an operation
		r := e.rng.Intn(100)
		var op string
		switch opProf {
		case 0: // grow mostly
			switch {
			case r < 55:
				op = "ins"
			case r < 65:
				op = "app"
			case r < 75:
				op = "set"
			case r < 85:
				op = "rem"
			default:
				op = "read"
			}
		case 1: // sawtooth: grow for a while then shrink
			phase := (e.step / 60) % 2
			if phase == 0 {
				if r < 80 {
					op = "ins"
				} else if r < 90 {
					op = "set"
				} else {
					op = "read"
				}
			} else {
				if r < 80 {
					op = "rem"
				} else if r < 90 {
					op = "set"
				} else {
					op = "read"
				}
			}
		case 2: // overwrite heavy after initial fill
			if n < 40 || r < 15 {
				op = "app"
			} else if r < 75 {
				op = "set"
			} else if r < 85 {
				op = "rem"
			} else {
				op = "read"
			}
		default: // balanced with pops and type changes
			switch {
			case r < 35:
				op = "ins"
			case r < 60:
				op = "rem"
			case r < 75:
				op = "set"
			case r < 77:
				op = "pop"
			case r < 80:
				op = "type"
			case r < 86:
				op = "bad"
			default:
				op = "read"
			}
		}
		if n == 0 && (op == "rem" || op == "set") {
			op = "app"
		}
		e.st.Hit("op:" + op)
		switch op {
		case "ins", "app":
			v := e.genValue(sizeProf)
			var i uint64
			if op == "app" {
				i = uint64(n)
				w.L("OP app h=0 v=%d:%d", v.Size, v.Pay)
				err = e.arr.Append(v)
			} else {
				i = e.genIndex(posProf, n, true)
				w.L("OP ins h=0 i=%d v=%d:%d", i, v.Size, v.Pay)
				err = e.arr.Insert(i, v)
			}
			if err != nil {
				e.obsErr(err)
				e.violation("C01", fmt.Sprintf("in-range insert at %d of %d failed: %v", i, n, err))
			} else {
				w.L("OBS ok")
				e.shadow = append(e.shadow, hx.TV{})
				copy(e.shadow[i+1:], e.shadow[i:])
				e.shadow[i] = v
			}
			e.emitEffects()
		case "set":
			v := e.genValue(sizeProf)
			i := e.genIndex(posProf, n, false)
			w.L("OP set h=0 i=%d v=%d:%d", i, v.Size, v.Pay)
			old, err := e.arr.Set(i, v)
			if err != nil {
				e.obsErr(err)
				e.violation("C01", fmt.Sprintf("in-range set at %d of %d failed: %v", i, n, err))
			} else {
				w.L("OBS ok:%s", renderStorable(old))
				e.checkReturned("C01", old, e.shadow[i])
				e.shadow[i] = v
			}
			e.emitEffects()
			if err == nil {
				e.dispose(old)
			}
		case "rem":
			i := e.genIndex(posProf, n, false)
			w.L("OP rem h=0 i=%d", i)
			old, err := e.arr.Remove(i)
			if err != nil {
				e.obsErr(err)
				e.violation("C01", fmt.Sprintf("in-range remove at %d of %d failed: %v", i, n, err))
			} else {
				w.L("OBS ok:%s", renderStorable(old))
				e.checkReturned("C01", old, e.shadow[i])
				e.shadow = append(e.shadow[:i], e.shadow[i+1:]...)
			}
			e.emitEffects()
			if err == nil {
				e.dispose(old)
			}
		case "pop":
			w.L("OP pop h=0")
			var got []atree.Storable
			err := e.arr.PopIterate(func(s atree.Storable) { got = append(got, s) })
			if err != nil {
				e.obsErr(err)
				e.violation("C01", "PopIterate failed: "+err.Error())
			} else {
				parts := make([]string, len(got))
				for k, s := range got {
					parts[k] = renderStorable(s)
				}
				w.L("OBS ok:[%s]", strings.Join(parts, ","))
				if len(got) != n {
					e.violation("C13", fmt.Sprintf("pop yielded %d elements, sequence has %d", len(got), n))
				} else {
					for k, s := range got {
						e.checkReturned("C13", s, e.shadow[n-1-k])
					}
				}
				e.shadow = e.shadow[:0]
			}
			e.emitEffects()
			for _, s := range got {
				e.dispose(s)
			}
		case "type":
			e.ty = hx.TI(uint64(e.rng.Intn(100)))
			w.L("OP type h=0 ty=%d", uint64(e.ty))
			err := e.arr.SetType(e.ty)
			if err != nil {
				e.obsErr(err)
			} else {
				w.L("OBS ok")
			}
			e.emitEffects()
		case "bad":
			// a request that must be rejected: index past the end
			k := e.rng.Intn(4)
			i := uint64(n + 1 + e.rng.Intn(3))
			// every third rejected request uses an index far outside: the largest index, 2^32, count + 2^32
			// (i is the insert position; the other requests use i-1)
			if e.step%3 == 0 {
				i = []uint64{^uint64(0), 1 << 32, uint64(n) + 1<<32, 1<<32 + 1, 1 << 63}[(e.step/3)%5]
				e.st.Hit("bad:huge-index")
			}
			// the tree and the pending write set immediately before the request
			snapBefore := hx.DumpTree(e.ps, atree.VerifArrayRoot(e.arr)) + "\n" + deltaKeys(e.ps)
			// every second rejected write carries a value too large to inline: a request that is
			// refused must not have allocated a slab for its value first
			badProf := sizeProf
			if e.rng.Intn(2) == 0 {
				badProf = 3
			}
			var err error
			switch k {
			case 0:
				w.L("OP get h=0 i=%d", i-1)
				_, err = e.arr.Get(i - 1)
			case 1:
				v := e.genValue(badProf)
				w.L("OP set h=0 i=%d v=%d:%d", i-1, v.Size, v.Pay)
				_, err = e.arr.Set(i-1, v)
			case 2:
				v := e.genValue(badProf)
				w.L("OP ins h=0 i=%d v=%d:%d", i, v.Size, v.Pay)
				err = e.arr.Insert(i, v)
			default:
				w.L("OP rem h=0 i=%d", i-1)
				_, err = e.arr.Remove(i - 1)
			}
			if err == nil {
				w.L("OBS ok")
				e.violation("C18", fmt.Sprintf("out-of-range request (kind %d, index %d, count %d) was accepted", k, i, n))
			} else {
				e.obsErr(err)
				if hx.ErrKind(err) != "IndexOutOfBounds:User" {
					e.violation("C18", fmt.Sprintf("out-of-range request reported %s", hx.ErrKind(err)))
				} else {
					// "an error naming that cause": the index that was asked for and the bounds it violates
					asked := i - 1
					if k == 2 {
						asked = i
					}
					if d := hx.ErrNames(err, "IndexOutOfBounds", asked, 0, n); d != "" {
						e.violation("C18", fmt.Sprintf("out-of-range request (kind %d, index %d, count %d): %s", k, asked, n, d))
					}
				}
				// ... and immediately after it: nothing may have moved, not even inside a slab that is
				// already in the write set; the model compares its own tree with the same dump
				if after := hx.DumpTree(e.ps, atree.VerifArrayRoot(e.arr)) + "\n" + deltaKeys(e.ps); after != snapBefore {
					e.violation("C18", fmt.Sprintf("rejected request (kind %d, index %d, count %d) changed the array or the pending write set", k, i, n))
				}
			}
			if k != 0 {
				if len(e.rec.Effs) != 0 {
					e.violation("C18", fmt.Sprintf("rejected request touched storage: %s", hx.NetEffect(e.rec.Effs)))
				}
				e.emitEffects()
			}
			if err != nil {
				w.L("FULL h=0 %s", hx.DumpTree(e.ps, atree.VerifArrayRoot(e.arr)))
			}
		case "read":
			k := e.rng.Intn(10)
			switch {
			case k < 6 && n > 0:
				i := e.genIndex(3, n, false)
				w.L("OP get h=0 i=%d", i)
				v, err := e.arr.Get(i)
				if err != nil {
					e.obsErr(err)
					e.violation("C01", fmt.Sprintf("in-range get at %d of %d failed: %v", i, n, err))
				} else {
					w.L("OBS ok:%s", renderValue(v))
					if tv, _ := v.(hx.TV); tv != e.shadow[i] {
						e.violation("C01", fmt.Sprintf("get(%d) = %v, sequence says %v", i, v, e.shadow[i]))
					}
				}
			case k < 7:
				w.L("OP cnt h=0")
				w.L("OBS ok:%d", e.arr.Count())
				if int(e.arr.Count()) != n {
					e.violation("C01", fmt.Sprintf("count %d, sequence has %d", e.arr.Count(), n))
				}
			default:
				e.iterate(k)
			}
		}
		if len(e.st.Violations) > 20 {
			return
		}
		// periodic full dump + structural validation of the implementation
		if e.step%25 == 24 || e.step == nOps-1 {
			w.L("FULL h=0 %s", hx.DumpTree(e.ps, atree.VerifArrayRoot(e.arr)))
			err := atree.VerifyArray(e.arr, e.addr, e.ty, func(a, b atree.TypeInfo) bool { return a == b }, nil, true)
			// the verdict of the library's own checker, matched by its Lean transcription on the replayed tree
			w.L("VFY h=0 ty=%d r=%s", uint64(e.ty), hx.VerifyClass(err))
			if err != nil {
				e.violation("C05", "VerifyArray: "+err.Error())
			}
			if bad := hx.ArraySizeBand(e.ps, atree.VerifArrayRoot(e.arr)); bad != "" {
				e.violation("C05", "size band: "+bad)
			}
			// C09: one live array, everything handed back has been disposed of: exactly its slabs remain
			e.health()
			// C18: elements whose large-value slab is absent are reported, not dereferenced (dangling.go)
			e.danglingProbe()
			e.st.Ops += 0
		}
	}
	e.st.Ops += nOps
	if len(e.st.Samples) < 3 {
		e.st.Samples = append(e.st.Samples, fmt.Sprintf("T=%d ops=%d sizeProf=%d posProf=%d opProf=%d final-count=%d", e.T, nOps, sizeProf, posProf, opProf, len(e.shadow)))
	}
}

// iterate exercises one iterator flavour and compares with the shadow sequence.
func (e *arrEnv) iterate(k int) {
	n := len(e.shadow)
	w := e.w
	var got []atree.Value
	collect := func(v atree.Value) (bool, error) { got = append(got, v); return true, nil }
	lo, hi := uint64(0), uint64(n)
	var err error
	mode := ""
	switch k {
	case 7:
		mode = "ro"
		w.L("OP iter h=0 mode=ro")
		err = e.arr.IterateReadOnly(collect)
	case 8:
		mode = "mut"
		w.L("OP iter h=0 mode=mut")
		err = e.arr.Iterate(collect)
	default:
		lo = uint64(e.rng.Intn(n + 2))
		hi = uint64(e.rng.Intn(n + 2))
		if e.rng.Intn(3) > 0 && lo > hi {
			lo, hi = hi, lo
		}
		if e.rng.Intn(2) == 0 {
			mode = "rorange"
			w.L("OP iter h=0 mode=rorange lo=%d hi=%d", lo, hi)
			err = e.arr.IterateReadOnlyRange(lo, hi, collect)
		} else {
			mode = "mutrange"
			w.L("OP iter h=0 mode=mutrange lo=%d hi=%d", lo, hi)
			err = e.arr.IterateRange(lo, hi, collect)
		}
	}
	e.st.Hit("iter:" + mode)
	if err != nil {
		e.obsErr(err)
		valid := lo <= hi && hi <= uint64(n)
		if valid {
			e.violation("C13", fmt.Sprintf("valid range [%d,%d) of %d rejected: %v", lo, hi, n, err))
		} else if hx.ErrCategory(err) != "User" {
			e.violation("C18", fmt.Sprintf("invalid range [%d,%d) of %d rejected with %s, not as a caller mistake", lo, hi, n, hx.ErrKind(err)))
		}
		return
	}
	parts := make([]string, len(got))
	for i, v := range got {
		parts[i] = renderValue(v)
	}
	w.L("OBS ok:[%s]", strings.Join(parts, ","))
	if lo > hi || hi > uint64(n) {
		e.violation("C13", fmt.Sprintf("invalid range [%d,%d) of %d accepted", lo, hi, n))
		e.violation("C18", fmt.Sprintf("%s: invalid range [%d,%d) of %d accepted instead of being rejected as a caller mistake", mode, lo, hi, n))
		return
	}
	if uint64(len(got)) != hi-lo {
		e.violation("C13", fmt.Sprintf("%s iterator yielded %d elements for [%d,%d)", mode, len(got), lo, hi))
		return
	}
	for i, v := range got {
		if tv, _ := v.(hx.TV); tv != e.shadow[int(lo)+i] {
			e.violation("C13", fmt.Sprintf("%s iterator element %d is %v, sequence says %v", mode, int(lo)+i, v, e.shadow[int(lo)+i]))
			return
		}
	}
}

// persistStep occasionally commits, crashes (abandons the in-memory storage) or reopens the array
// from the ledger on a brand-new storage.  It returns true when it consumed the step.
func (e *arrEnv) persistStep() bool {
	w := e.w
	r := e.rng.Intn(100)
	commitEvery := []int{4, 8, 15, 40}[e.prog%4]
	switch {
	case r < commitEvery:
		e.ledger.ResetCalls()
		workers := []int{1, 2, 3, 8}[e.rng.Intn(4)]
		w.L("COMMIT workers=%d", workers)
		err := e.ps.FastCommit(workers)
		w.L("OBS %s", obsErr(err))
		var parts []string
		for _, c := range e.ledger.Log {
			if c.Kind == 'S' {
				parts = append(parts, "S:"+hx.IDStr(c.ID))
			} else {
				parts = append(parts, "R:"+hx.IDStr(c.ID))
			}
			if c.ID.AddressAsUint64() == 0 {
				e.violation("C03", "a slab owned by the temporary address was written to the ledger")
			}
		}
		if len(parts) == 0 {
			parts = []string{"-"}
		}
		w.L("LOG %s", strings.Join(parts, " "))
		e.ledger.ResetCalls()
		if err != nil {
			e.violation("C03", "fault-free commit failed: "+err.Error())
			return true
		}
		e.committed = append([]hx.TV(nil), e.shadow...)
		e.committedTy = e.ty
		e.hasCommit = true
		// every register, decoded by a brand-new storage using nothing but the ledger
		fresh := hx.NewStorage(e.ledger)
		for _, id := range e.ledger.SortedIDs() {
			s, ok, err := fresh.Retrieve(id)
			if err != nil || !ok {
				w.L("REG %s=UNDECODABLE", hx.IDStr(id))
				e.violation("C03", fmt.Sprintf("register %s does not decode after commit: %v", hx.IDStr(id), err))
				continue
			}
			w.L("REG %s", atree.VerifDumpSlab(s, hx.Describe))
		}
		w.L("ENDREG")
		e.checkReload("after commit", e.shadow)
		e.st.Hit("persist:commit")
		return true
	case r < commitEvery+2 && e.hasCommit:
		// crash: abandon storage and handle, reopen from the ledger
		if len(e.ledger.Log) != 0 {
			e.violation("C03", fmt.Sprintf("the ledger was written outside a commit (%d calls)", len(e.ledger.Log)))
		}
		w.L("CRASH")
		rootID := e.arr.SlabID()
		e.ps = hx.NewStorage(e.ledger)
		e.rec = hx.NewRecStorage(e.ps)
		a, err := atree.NewArrayWithRootID(e.rec, rootID)
		if err != nil {
			e.violation("C03", "cannot reopen array after crash: "+err.Error())
			e.st.HarnessErr = "reopen failed"
			return true
		}
		e.arr = a
		e.shadow = append([]hx.TV(nil), e.committed...)
		e.ty = e.committedTy
		w.L("FULL h=0 %s", hx.DumpTree(e.ps, atree.VerifArrayRoot(e.arr)))
		e.checkReload("after crash", e.shadow)
		e.st.Hit("persist:crash")
		return true
	}
	if len(e.ledger.Log) != 0 {
		e.violation("C03", fmt.Sprintf("the ledger was written outside a commit (%d calls)", len(e.ledger.Log)))
		e.ledger.ResetCalls()
	}
	return false
}

// checkReload opens the array on a brand-new storage over the ledger and compares its content
// with the expected sequence (model-free oracle of C03).
func (e *arrEnv) checkReload(when string, want []hx.TV) {
	if !e.hasCommit {
		return
	}
	fresh := hx.NewStorage(e.ledger)
	a, err := atree.NewArrayWithRootID(fresh, e.arr.SlabID())
	if err != nil {
		e.violation("C03", "reload "+when+": "+err.Error())
		return
	}
	want = e.committed
	if a.Count() != uint64(len(want)) {
		e.violation("C03", fmt.Sprintf("reload %s: count %d, committed content has %d", when, a.Count(), len(want)))
		return
	}
	i := 0
	err = a.IterateReadOnly(func(v atree.Value) (bool, error) {
		if tv, _ := v.(hx.TV); tv != want[i] {
			e.violation("C03", fmt.Sprintf("reload %s: element %d is %v, committed content says %v", when, i, v, want[i]))
			return false, nil
		}
		i++
		return true, nil
	})
	if err != nil {
		e.violation("C03", "reload "+when+": iteration failed: "+err.Error())
	}
	// the reloaded tree must be structurally valid using nothing but the registers
	if err := atree.VerifyArray(a, e.addr, e.committedTy, func(x, y atree.TypeInfo) bool { return x == y }, nil, true); err != nil {
		e.violation("C03", "reload "+when+": the committed registers do not form a valid array: "+err.Error())
	}
	if ty, ok := a.Type().(hx.TI); !ok || ty != e.committedTy {
		e.violation("C03", fmt.Sprintf("reload %s: type %v, committed type is %v", when, a.Type(), e.committedTy))
	}
}
