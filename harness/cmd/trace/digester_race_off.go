//go:build !race

package main

const digesterTraceTag = "digester"
