package main

import (
	"fmt"
	"strconv"
	"strings"

	"github.com/onflow/atree"

	"verifharness/hx"
)

// Model-free oracles on the STORE SET of a request of the nested stream (sweep s2, section 3: the
// mutants MG3, MG4, Ms4, AG5, As6 - a parent callback that captured an inline budget larger than the
// slot's - were noticed by the model replay only).
//
//   (i)  no ancestor write: a request through the handle of a child container that is a separate slab
//        before the request and after it, and that does not fit its slot (Inlinable(slot budget) is
//        false afterwards), has nothing to tell its parent: the parent keeps holding the same
//        reference.  Its store set must not contain a slab of any ancestor's tree - whether the bytes
//        changed or not.  (array.go / map.go setCallbackWithChild: "Avoid unnecessary write operation
//        on parent container"; C10 mechanism "re-set the child in the parent when it is or becomes
//        inlinable"; C09 theorems *_effects_complete: "nothing else touched".)
//   (ii) no same-bytes store: every slab a request stores is new or differs from what the previous
//        store of that identifier held.  The unchanged tree has exceptions (requests that are
//        identities: a type set to the type it already has; the root of an emptied container; ...);
//        they are COUNTED per request kind (`observation:same-bytes-store:<kind>:<whose>`), and the
//        kinds that are clean on the unchanged tree are violations (sameBytesClean).

type storeWatch struct {
	last    map[atree.SlabID]string // what the last store of the identifier held (dump of the slab)
	pending map[atree.SlabID]string // stores of the request being closed
	same    []atree.SlabID          // ... of which these hold what the previous store held
}

func (e *nestEnv) watch() *storeWatch {
	if e.sw == nil {
		e.sw = &storeWatch{last: map[atree.SlabID]string{}, pending: map[atree.SlabID]string{}}
	}
	return e.sw
}

// noteStore: slab id, rendered as dump, is in the store set of the request being closed.
func (e *nestEnv) noteStore(id atree.SlabID, dump string) {
	sw := e.watch()
	if old, ok := sw.last[id]; ok && old == dump {
		sw.same = append(sw.same, id)
	}
	sw.pending[id] = dump
}

// opHandle parses "OP <kind> h=<n> ..." and returns the request kind and the container it went through.
func (e *nestEnv) opHandle() (string, *node) {
	f := strings.Fields(e.w.LastOp)
	if len(f) < 3 || f[0] != "OP" || !strings.HasPrefix(f[2], "h=") {
		return "", nil
	}
	h, err := strconv.Atoi(f[2][2:])
	if err != nil || h < 0 || h >= len(e.nodes) {
		return f[1], nil
	}
	return f[1], e.nodes[h]
}

func (n *node) rootSlab() atree.Slab {
	if n.kind == 'a' {
		return atree.VerifArrayRoot(n.arr)
	}
	return atree.VerifMapRoot(n.mp)
}

func (n *node) inlinedNow() bool {
	if n.kind == 'a' {
		return n.arr.Inlined()
	}
	return n.mp.Inlined()
}

// sameBytesClean: request kinds (by relation of the stored slab to the container the request went
// through) for which the unchanged tree never stores a slab with the bytes it already had (60 seeds):
// an insertion into / a removal from an array changes the count or size in every slab on the path and
// in every sibling it merges or rebalances with.  Everything else has legitimate exceptions on the
// unchanged tree, which are counted: an index slab is stored by every Set below it although its headers
// are unchanged; a container whose changed element lives in an external collision group or in a
// referenced slab is re-set in its parent although its own bytes are unchanged; requests that are
// identities (a type set to itself, a value overwritten by an equal one, PopIterate of an empty
// container) store what was there.
var sameBytesClean = map[string]bool{"ains:own": true, "arem:own": true}

// closeStores applies the two oracles to the request whose effects were just emitted.
func (e *nestEnv) closeStores(effs []hx.Eff) {
	sw := e.watch()
	kind, n := e.opHandle()
	e.w.LastOp = ""
	defer func() {
		for id, d := range sw.pending {
			sw.last[id] = d
		}
		for _, ef := range effs {
			if ef.Kind == 'r' {
				if _, again := sw.pending[ef.ID]; !again {
					delete(sw.last, ef.ID)
				}
			}
		}
		sw.pending, sw.same = map[atree.SlabID]string{}, nil
	}()
	if !e.ext || len(sw.pending) == 0 {
		return
	}
	// whose slab is it: the container's own tree, an ancestor's tree, something else
	owner := func(id atree.SlabID) (string, *node) {
		if n == nil || !n.live {
			return "other", nil
		}
		for x, rel := n, "own"; x != nil; x, rel = x.parent, "ancestor" {
			if x.inlinedNow() {
				continue // lives in the slab of the container holding it
			}
			if treeIDs(e.ps, x.rootSlab())[id] {
				return rel, x
			}
		}
		return "other", nil
	}
	// (i)
	if n != nil && n.live && n.parent != nil && !n.inlinedNow() {
		_, standaloneBefore := sw.last[n.vidSlabID()]
		b := slotBudget(n.parent, n.wrap)
		if standaloneBefore && !n.inlinable(b) && !e.ancestorWriteReported {
			for id := range sw.pending {
				if rel, x := owner(id); rel == "ancestor" {
					e.ancestorWriteReported = true
					changed := "with the bytes it already held"
					if old, ok := sw.last[id]; !ok || old != sw.pending[id] {
						changed = "with changed content"
					}
					e.violations([]string{"C10", "C09"}, fmt.Sprintf("request %q through the handle of container %d, which is a separate slab before and after the request and does not fit its slot in container %d (Inlinable(%d) = false: the parent keeps the same reference), stored slab %s of ancestor container %d %s (store set: %s): superfluous write of an ancestor",
						kind, n.h, n.parent.h, b, hx.IDStr(id), x.h, changed, hx.NetEffect(effs)))
					break
				}
			}
		}
	}
	// (ii)
	for _, id := range sw.same {
		rel, _ := owner(id)
		tag := kind + ":" + rel + ":" + strings.SplitN(sw.pending[id], "(", 2)[0]
		if kind == "" {
			tag = "no-request:" + rel
		}
		e.st.Hit("observation:same-bytes-store:" + tag)
		if sameBytesClean[kind+":"+rel] && !e.sameBytesReported {
			e.sameBytesReported = true
			e.violations([]string{"C10", "C09"}, fmt.Sprintf("request %q stored slab %s (%s) with exactly the content its previous store held (store set: %s): superfluous write", kind, hx.IDStr(id), rel, hx.NetEffect(effs)))
		}
	}
}

// ------------------------------------------------------------------------------------------------
// Generator: landing EXACTLY on the inline limit (the +1 budget mutants AG5, As6, MG4, AI9 need a
// stand-alone child whose inlined form is exactly one byte larger than its slot's budget).

// inlinedSize is the size container n would have as an inlined element: the smallest budget under
// which the library's own predicate Inlinable accepts it (0, false: it is not a single data slab).
func (n *node) inlinedSize(T uint32) (uint32, bool) {
	hi := 2 * T
	if !n.inlinable(hi) {
		return 0, false
	}
	lo := uint32(0) // invariant: !inlinable(lo-1) or lo == 0; inlinable(hi)
	for lo < hi {
		mid := (lo + hi) / 2
		if n.inlinable(mid) {
			hi = mid
		} else {
			lo = mid + 1
		}
	}
	return lo, true
}

// landOn overwrites one plain element of c (array: Set(i, v); map: Set(existing key, v)) by a value
// whose size differs by exactly target - (current inlined size).  Returns whether a request was made.
func (e *nestEnv) landOn(c *node, target uint32) bool {
	s, ok := c.inlinedSize(e.T)
	if !ok || s == target {
		return false
	}
	delta := int(target) - int(s)
	mk := func(old uint32) (hx.TV, bool) {
		size := int(old) + delta
		if size < 2 || size > 23 {
			return hx.TV{}, false
		}
		e.nextPay++
		return hx.TV{Size: uint32(size), Pay: e.nextPay % 200}, true
	}
	w := e.w
	defer e.guardOthers("a plain mutation", c)()
	if c.kind == 'a' {
		for i, el := range c.elems {
			if el.child != nil {
				continue
			}
			v, ok := mk(el.tv.Size)
			if !ok {
				continue
			}
			w.L("OP aset h=%d i=%d v=%d:%d", c.h, i, v.Size, v.Pay)
			old, err := c.arr.Set(uint64(i), v)
			if err != nil {
				w.L("OBS err:%s", hx.ErrKind(err))
				e.emitEffects()
				e.violation("C10", fmt.Sprintf("set in container %d failed: %v", c.h, err))
				return true
			}
			w.L("OBS ok:%s", renderStorable(old))
			e.emitEffects()
			e.disposeStorable(old)
			c.elems[i] = sval{tv: v}
			e.afterLanding(c, target)
			return true
		}
		return false
	}
	for _, k := range e.sortedKeys(c) {
		el := c.kv[k]
		if el.child != nil {
			continue
		}
		v, ok := mk(el.tv.Size)
		if !ok {
			continue
		}
		w.L("OP mset h=%d k=%s v=%d:%d", c.h, e.keyStr(c, k), v.Size, v.Pay)
		old, err := c.mp.Set(hx.CompareKey, e.hi(), k, v)
		if err != nil {
			w.L("OBS err:%s", hx.ErrKind(err))
			e.emitEffects()
			e.violation("C10", fmt.Sprintf("map set in container %d failed: %v", c.h, err))
			return true
		}
		if old != nil {
			w.L("OBS ok:%s", renderStorable(old))
		} else {
			w.L("OBS ok:none")
		}
		e.emitEffects()
		if old != nil {
			e.disposeStorable(old)
		}
		c.kv[k] = sval{tv: v}
		e.afterLanding(c, target)
		return true
	}
	return false
}

func (e *nestEnv) afterLanding(c *node, target uint32) {
	e.mutatedDetached(c)
	e.checkInlineRule(c)
	if c.parent == nil {
		return
	}
	b := slotBudget(c.parent, c.wrap)
	if s, ok := c.inlinedSize(e.T); ok && s == target {
		switch {
		case s == b+1:
			e.st.Hit(fmt.Sprintf("landed:limit+1:%c-in-%c", c.kind, c.parent.kind))
		case s == b:
			e.st.Hit(fmt.Sprintf("landed:limit:%c-in-%c", c.kind, c.parent.kind))
		}
	}
}

// landExactly brings the inlined size of c to exactly target with tiny plain values: removals / insertions
// until one overwrite can absorb the difference, then that overwrite (e.tiny must be set).
func (e *nestEnv) landExactly(c *node, target uint32) bool {
	nv := len(e.st.Violations)
	defer func(f int) { e.force = f }(e.force)
	for i := 0; i < 60 && len(e.st.Violations) == nv && e.st.HarnessErr == ""; i++ {
		s, ok := c.inlinedSize(e.T)
		if !ok {
			return false
		}
		if s == target {
			return true
		}
		if e.landOn(c, target) {
			continue
		}
		if s > target {
			e.force = 2
		} else {
			e.force = 1
		}
		e.mutatePlain(c, "C10")
		if !e.mutated {
			return false
		}
	}
	return false
}

// landNear: c is a stand-alone child close above its slot budget: go to exactly budget+1 (still a
// separate slab: the parent must not be written), then to exactly the budget (inlined).
func (e *nestEnv) landNear(c *node) bool {
	if !e.ext || c.parent == nil || c.inlinedNow() {
		return false
	}
	b := slotBudget(c.parent, c.wrap)
	s, ok := c.inlinedSize(e.T)
	if !ok || s <= b {
		return false
	}
	if s == b+1 {
		return e.landOn(c, b)
	}
	if s <= b+16 {
		return e.landOn(c, b+1)
	}
	return false
}

// opNewChildStandalone: C10 "a handle obtained on INSERTION".  A new container is filled, while it is
// still on its own, to a little more than the budget of the slot it is about to get, inserted (as a
// reference), and then - through the handle that was used to build it, whose parent callback was
// installed by the insertion - brought down to exactly budget+1 and to exactly the budget.
func (e *nestEnv) opNewChildStandalone() {
	p := e.pickContainer(func(n *node) bool { return e.target(n) && e.depth(n) < 4 })
	if p == nil {
		return
	}
	kind := byte('a')
	if e.rng.Intn(3) == 0 {
		kind = 'm'
	}
	c := e.newNode(kind)
	if c == nil {
		return
	}
	wrap := 0
	if e.rng.Intn(4) == 0 {
		wrap = 1 + e.rng.Intn(2)
	}
	b := slotBudget(p, wrap)
	nv := len(e.st.Violations)
	ok := func() bool { return len(e.st.Violations) == nv && e.st.HarnessErr == "" }
	e.tiny, e.force = true, 1
	for i := 0; i < 600 && ok(); i++ {
		if s, single := c.inlinedSize(e.T); !single || s > b+uint32(2+e.rng.Intn(12)) {
			break
		}
		e.mutatePlain(c, "C10")
	}
	// the size at the moment of insertion: often EXACTLY budget+1 (must stay a separate slab) or exactly the
	// budget (must be inlined) - the insertion-time decisions of array_data_slab.go / map_element.go
	switch e.rng.Intn(10) {
	case 0, 1, 2:
		e.landExactly(c, b+1)
	case 3, 4:
		e.landExactly(c, b)
	}
	e.tiny, e.force = false, 0
	if !ok() {
		return
	}
	if s, single := c.inlinedSize(e.T); single && (s == b || s == b+1) {
		e.st.Hit(fmt.Sprintf("inserted-at:limit%+d:%c-in-%c", int(s)-int(b), kind, p.kind))
	}
	func() {
		defer e.guardOthers("inserting a new child container", p, c)()
		e.st.Hit(fmt.Sprintf("new-standalone-child-%c-in-%c-wrap%d", kind, p.kind, wrap))
		e.insertInto(p, sval{child: c, wrap: wrap})
	}()
	if c.parent != p || !ok() {
		return
	}
	e.handleState()
	// half of the time the handle is obtained again by LOOKUP in the parent first (the callback then is the one
	// Array.Get / OrderedMap.Get install), otherwise it stays the one the insertion installed
	if e.rng.Intn(2) == 0 {
		e.st.Hit("new-standalone-child:handle-by-lookup")
		if p.kind == 'a' {
			for i, v := range p.elems {
				if v.child == c && !e.getChildArr(p, i) {
					return
				}
			}
		} else {
			for _, k := range e.sortedKeys(p) {
				if p.kv[k].child == c && !e.getChildMap(p, k) {
					return
				}
			}
		}
		if !e.refetchBelow(c) {
			return
		}
	} else {
		e.st.Hit("new-standalone-child:handle-by-insertion")
	}
	e.tiny, e.force = true, 2
	defer func() { e.tiny, e.force = false, 0 }()
	for i := 0; i < 40 && ok() && !c.inlinedNow(); i++ {
		if !e.landNear(c) {
			e.mutatePlain(c, "C10")
		}
		e.handleState()
	}
	if ok() {
		e.opReadBack()
		e.verifyRoot(fmt.Sprintf("after bringing container %d, inserted as a separate slab, down to its slot's budget", c.h))
	}
}
