package main

// fx13c (sweep s4, mutant p18: map.go:367 `len(slabs) == 1` -> `== 0`): DIRECTED bulk builds of maps
// whose element stream closes j+1 data slabs, the last one underfull and its left neighbour unable
// to lend, so that NewMapFromBatchData MERGES the last two data slabs.  The twin of
// scenarioArrayMergeProne with forced j = 1, 2, 3:
//
//	j = 1  the two data slabs become ONE: the result must be a single data-slab root (the mutant
//	       stores the merged slab and wraps it into an index root with one child),
//	j = 2  three data slabs become two under an index root,
//	j = 3  four become three.
//
// The keys are sorted by the REAL digest order: a source map is built first (Set, untraced), its
// iteration order is read back, then a value size is chosen per position, written into the source
// (Set) and the keys the plan does not use are removed from the source (Remove).  The element stream
// is what the iteration over the source yields.  The build itself goes through mapBatch (OP mbatch /
// OBS / EFF / SLB / MFULL lines that the Lean batch driver replays, VerifyMap, serialization, health
// with the exact root count); this file adds the root-shape oracle and the REQUIRED branch
// "two data slabs merged into one", observed on the real result (an identifier the build allocated
// and the resulting tree does not use).
//
// Shape of the penultimate data slab L and the last one R (sizes are element sizes incl. the
// 8-byte digest; p = data-slab head + elements head = 26):
//
//	L = a1..ak  BIG  s..s      with p + sum(a) < T/2  (what is left after lending BIG is under the minimum)
//	                           BIG = a pair at the inline limit, s = tiny pairs up to the close-out (size >= T)
//	R = s [s]                  underfull by more than the tiny tail of L can cover
//
// (sweep s4 demo zz_s4_p18_test.go: T = 256, sizes 90,115,14,14 | 14).

import (
	"fmt"
	"strings"

	"github.com/onflow/atree"

	"verifharness/hx"
)

// batchRequired: branch tags every run of stream "batch" must reach, at ANY scale (the stream runs
// with scale 0.34 = 4 programs under C05 / C06 / C09): a run in which the directed merge never
// happened is a broken run, not a pass.
var batchRequired = []string{
	"mbatch:merge-prone:j=1:two-data-slabs-merged-into-root",
	"mbatch:merge-prone:j=2:last-two-data-slabs-merged",
	"mbatch:merge-prone:j=3:last-two-data-slabs-merged",
}

func batchCheckRequired(st *hx.Stats) {
	if st.HarnessErr != "" {
		return
	}
	for _, v := range st.Violations {
		if v.Sig == "" {
			return // a failing input is reported; occurrences of a KNOWN finding (stable signature) do not excuse a missed branch
		}
	}
	var missing []string
	for _, t := range batchRequired {
		if st.Dist[t] == 0 {
			missing = append(missing, t)
		}
	}
	if len(missing) > 0 {
		st.HarnessErr = "required bulk-build situations never reached: " + strings.Join(missing, "; ")
	}
}

// btAllocated lists the identifiers allocated in an effect list.
func btAllocated(effs []hx.Eff) []atree.SlabID {
	var ids []atree.SlabID
	for _, f := range effs {
		if f.Kind == 'a' {
			ids = append(ids, f.ID)
		}
	}
	return ids
}

// violationAlso files a violation under C17 and the given further properties.
func (e *btEnv) violationAlso(what string, also ...string) {
	if len(e.st.Violations) > 40 {
		return
	}
	for _, p := range append([]string{"C17"}, also...) {
		e.st.Violations = append(e.st.Violations, hx.Violation{
			Property: p, Stream: e.st.Stream, Seed: e.cfg.Seed, Program: e.prog, Step: e.step, What: what, Trace: e.w.Path, Line: e.w.Lines,
		})
	}
}

// mapRootShape is the model-free statement of C05's root clause for a bulk-built map: a root that
// is an index slab has at least two children (a tree that fits one data slab IS that data slab),
// every child of an index slab is in storage, and IsWithinSingleSlab agrees with the kind of the
// root.  Returns the number of data slabs of the tree proper.
func (e *btEnv) mapRootShape(when string, m *atree.OrderedMap) (leaves int) {
	root := atree.VerifMapRoot(m)
	_, rootIsIndex := root.(*atree.MapMetaDataSlab)
	if rootIsIndex {
		if n := len(atree.VerifChildSlabIDs(root)); n < 2 {
			e.violationAlso(fmt.Sprintf("%s: root shape: the root %s is an index slab with %d child(ren); a root index slab has at least two children (a map that fits one data slab must be a single data-slab root)",
				when, hx.IDStr(root.SlabID()), n), "C05")
		}
	}
	if m.IsWithinSingleSlab() == rootIsIndex {
		e.violationAlso(fmt.Sprintf("%s: root shape: IsWithinSingleSlab() = %v but the root is an index slab: %v", when, m.IsWithinSingleSlab(), rootIsIndex), "C05")
	}
	var rec func(s atree.Slab)
	rec = func(s atree.Slab) {
		if _, ok := s.(*atree.MapMetaDataSlab); !ok {
			leaves++
			return
		}
		for _, id := range atree.VerifChildSlabIDs(s) {
			c, ok, err := e.ps.Retrieve(id)
			if err != nil || !ok {
				e.violationAlso(fmt.Sprintf("%s: root shape: child %s of index slab %s is not in storage", when, hx.IDStr(id), hx.IDStr(s.SlabID())), "C05")
				continue
			}
			rec(c)
		}
	}
	rec(root)
	return leaves
}

// btMergePlan is the element stream of one directed build: per position of the source's iteration
// order the value, and the predicted slab boundaries (harness-side arithmetic on the compiled size
// constants; the prediction only STEERS, the required tags are read off the real result).
type btMergePlan struct {
	vals  []hx.TV
	slabs [][]uint32 // element sizes (incl. digest) per data slab the close-out rule produces
}

// planMapMergeProne chooses the values for the keys (given in digest order).  ok=false: the keys do
// not suffice or the arithmetic did not come out (never expected; counted).
func (e *btEnv) planMapMergeProne(keys []hx.TV, j int) (plan btMergePlan, ok bool) {
	c := atree.VerifConsts()
	prefix := uint32(c["mapDataSlabPrefixSize"] + c["hkeyElementsPrefixSize"])
	over := uint32(c["digestSize"] + c["singleElementPrefixSize"])
	sid := uint32(c["slabIDStorableSize"])
	T, minT, maxT, _, _, _ := atree.VerifThresholds()
	pos := 0
	cur := prefix
	var slab []uint32
	// add appends the pair (keys[pos], value of size vsz) as the library's close-out rule does
	// (map.go NewMapFromBatchData: a data slab is closed when it has reached T, or when the new
	// element would take it over the maximum, BEFORE the new element is appended).
	add := func(vsz uint32) bool {
		if pos >= len(keys) {
			return false
		}
		k := keys[pos]
		v := e.tv(vsz)
		stored := v.Size
		if stored > atree.VerifMaxInlineMapValueSize(k.Size) {
			stored = sid
		}
		slot := over + k.Size + stored
		if cur >= T || cur+slot > maxT {
			plan.slabs = append(plan.slabs, slab)
			slab = nil
			cur = prefix
		}
		slab = append(slab, slot)
		cur += slot
		plan.vals = append(plan.vals, v)
		pos++
		return true
	}
	minSlot := func() uint32 { // the smallest element the key at pos can make
		if pos >= len(keys) {
			return 0
		}
		return over + keys[pos].Size + 2
	}
	valFor := func(slot uint32) uint32 { return slot - over - keys[pos].Size }
	// j-1 slab-fulls of ordinary pairs (a sixth to a third of a slab each, one in six externalised)
	for s := 0; s < j-1; s++ {
		for first := true; first || cur < T; first = false {
			if pos >= len(keys) {
				return plan, false
			}
			if e.rng.Intn(6) == 0 {
				if !add(atree.VerifMaxInlineMapValueSize(keys[pos].Size) + 1 + uint32(e.rng.Intn(20))) {
					return plan, false
				}
				continue
			}
			slot := T/6 + uint32(e.rng.Intn(int(T/6)))
			if slot < minSlot() {
				slot = minSlot()
			}
			if !add(valFor(slot)) {
				return plan, false
			}
		}
	}
	// L: a1..ak with prefix + sum < T/2
	budget := minT - prefix - 1 - uint32(e.rng.Intn(6))
	nA := 1 + e.rng.Intn(3)
	for a := 0; a < nA; a++ {
		if pos >= len(keys) {
			return plan, false
		}
		slot := budget
		if a < nA-1 {
			slot = minSlot() + uint32(e.rng.Intn(8))
			if budget < slot+over+8+2+8 { // the rest would not make another element: this one takes all
				slot = budget
				nA = a + 1
			}
		}
		if slot < minSlot() {
			return plan, false
		}
		budget -= slot
		if !add(valFor(slot)) {
			return plan, false
		}
	}
	// BIG: a pair at (or just under) the inline limit
	if pos >= len(keys) || !add(atree.VerifMaxInlineMapValueSize(keys[pos].Size)-uint32(e.rng.Intn(4))) {
		return plan, false
	}
	// tiny pairs up to the close-out
	for cur < T {
		if !add(uint32(2 + e.rng.Intn(4))) {
			return plan, false
		}
	}
	// R: one or two tiny pairs
	for t := 1 + e.rng.Intn(2); t > 0; t-- {
		if !add(uint32(2 + e.rng.Intn(4))) {
			return plan, false
		}
	}
	plan.slabs = append(plan.slabs, slab)
	if len(plan.slabs) != j+1 {
		return plan, false
	}
	// prediction of the close-out step (MapDataSlab.IsUnderflow / hkeyElements.CanLendToRight): R is
	// underfull and L cannot lend
	size := func(s []uint32) uint32 {
		n := prefix
		for _, x := range s {
			n += x
		}
		return n
	}
	L, R := plan.slabs[j-1], plan.slabs[j]
	if size(R) >= minT {
		return plan, false
	}
	need := minT - size(R)
	lend := uint32(0)
	for i := len(L) - 1; i >= 0; i-- {
		lend += L[i]
		if size(L)-lend < minT {
			return plan, true // cannot lend: merge
		}
		if lend >= need {
			return plan, false
		}
	}
	return plan, true
}

// scenarioMapMergeProne: see the head of this file.  forceJ > 0 fixes the number of data slabs of
// the result.  table = true uses a collision-free table digester instead of the library's.
func (e *btEnv) scenarioMapMergeProne(forceJ int, table bool) {
	j := forceJ
	if j <= 0 {
		j = 1 + e.rng.Intn(24)
		if e.T >= 8192 {
			j = 1 + e.rng.Intn(4)
		}
	}
	e.fresh()
	e.st.Hit("mbatch:merge-prone")
	addrN := uint64(1 + e.rng.Intn(3))
	srcAddrN := addrN
	if e.rng.Intn(2) == 0 {
		srcAddrN = uint64(4 + e.rng.Intn(2))
	}
	ty := hx.TI(uint64(e.rng.Intn(100)))
	var b atree.DigesterBuilder = atree.NewDefaultDigesterBuilder()
	L := uint(4)
	if table {
		salt := uint64(e.rng.Int63())
		b = &hx.TableDigesterBuilder{L: L, Fn: func(k hx.TV, l uint) uint64 { return mix(k.Pay, uint64(l), salt) }}
	}
	// the source: more keys than any plan needs (at most 8 pairs per ordinary slab-full at the
	// smallest threshold, far fewer per slab at larger ones: T/6 per pair), tiny values
	nKeys := 8*j + 24
	addr := hx.MkAddr(srcAddrN)
	m, err := atree.NewMap(e.rec, addr, b, btType(ty))
	if err != nil {
		e.st.HarnessErr = "NewMap: " + err.Error()
		return
	}
	for i := 0; i < nKeys; i++ {
		size := uint32(3 + e.rng.Intn(6))
		e.keyPay++
		for !hx.ValidTV(size, e.keyPay) {
			size++
		}
		if old, err := m.Set(hx.CompareKey, hx.HashInput, hx.TV{Size: size, Pay: e.keyPay}, e.tv(2)); err != nil || old != nil {
			e.st.HarnessErr = fmt.Sprintf("merge-prone source Set: %v (previous value %v)", err, old)
			return
		}
	}
	e.roots++
	order, err := e.readMap(m)
	if err != nil || len(order) != nKeys {
		e.st.HarnessErr = "merge-prone source map iteration failed"
		return
	}
	keys := make([]hx.TV, len(order))
	var prev uint64
	for i, p := range order {
		keys[i] = p.k
		d, err := hx.Digests(b, p.k)
		if err != nil || len(d) == 0 {
			e.st.HarnessErr = "merge-prone source: digest failed"
			return
		}
		if i > 0 && d[0] <= prev {
			// two keys under one first-level digest (2^-64 per pair with either builder): the element
			// sizes of a collision group are not what the plan assumes
			e.st.Hit("mbatch:merge-prone:first-level-collision-skipped")
			return
		}
		prev = d[0]
	}
	var plan btMergePlan
	ok := false
	for try := 0; try < 6 && !ok; try++ {
		plan, ok = e.planMapMergeProne(keys, j)
	}
	if !ok {
		e.st.Hit("mbatch:merge-prone:plan-failed")
		return
	}
	// write the plan into the source: values of the used positions, unused keys removed
	for i, k := range keys {
		if i < len(plan.vals) {
			old, err := m.Set(hx.CompareKey, hx.HashInput, k, plan.vals[i])
			if err != nil || old == nil {
				e.st.HarnessErr = fmt.Sprintf("merge-prone source overwrite: %v", err)
				return
			}
			continue
		}
		if _, _, err := m.Remove(hx.CompareKey, hx.HashInput, k); err != nil {
			e.st.HarnessErr = "merge-prone source Remove: " + err.Error()
			return
		}
	}
	kvs, err := e.readMap(m)
	if err != nil || len(kvs) != len(plan.vals) {
		e.st.HarnessErr = "merge-prone source: iteration after the plan was written failed"
		return
	}
	for i, p := range kvs {
		if p.k != keys[i] || p.v != plan.vals[i] {
			e.st.HarnessErr = fmt.Sprintf("merge-prone source: position %d holds %v=%v, planned %v=%v", i, p.k, p.v, keys[i], plan.vals[i])
			return
		}
	}
	src := &btMap{h: -1, m: m, b: b, addr: addr, ty: ty, L: L, kvs: kvs}
	e.checkMap("merge-prone source map", src, true)

	x := e.mapBatch(src.kvs, src.b, btNewBuilderLike(src.b), src.L, src.m.Seed(), addrN, ty, "")
	if x == nil {
		return
	}
	alloc := e.alloc
	leaves := e.mapRootShape("merge-prone map batch build", x.m)
	// REQUIRED branch, read off the real result: the build allocated an identifier that the
	// resulting tree does not use (the right one of the two merged data slabs), and the tree has
	// the j data slabs the stream was made for
	used := e.slabIDs(atree.VerifMapRoot(x.m))
	unused := 0
	for _, id := range alloc {
		if !used[id] {
			unused++
		}
	}
	if unused > 0 {
		e.st.Hit("mbatch:merged-last-two-data-slabs")
	}
	if unused == 1 && leaves == j {
		switch {
		case j == 1 && x.m.IsWithinSingleSlab():
			e.st.Hit("mbatch:merge-prone:j=1:two-data-slabs-merged-into-root")
		case j == 2, j == 3:
			e.st.Hit(fmt.Sprintf("mbatch:merge-prone:j=%d:last-two-data-slabs-merged", j))
		case j > 3:
			e.st.Hit("mbatch:merge-prone:j>3:last-two-data-slabs-merged")
		}
	} else {
		e.st.Hit(fmt.Sprintf("mbatch:merge-prone:unexpected:unused-ids=%d,leaves=%d,planned=%d", unused, leaves, j))
	}
	if len(kvs) <= 200 {
		e.skip()
		e.w.L("OP miter h=%d", x.h)
		got, _ := e.readMap(x.m)
		parts := make([]string, len(got))
		for i, p := range got {
			parts[i] = fmt.Sprintf("%d:v%d=%d:v%d", p.k.Size, p.k.Pay, p.v.Size, p.v.Pay)
		}
		e.w.L("OBS ok:[%s]", strings.Join(parts, ","))
	}
	switch e.rng.Intn(3) {
	case 0:
		e.mapIndependence("merge-prone map batch build", src, x, false)
		e.mapRootShape("merge-prone map batch build after mutations", x.m)
	case 1:
		e.mutateMapTraced(x, 1+e.rng.Intn(4))
		e.checkMap("merge-prone bulk-built map after single operations", x, false)
		e.health("merge-prone bulk-built map after single operations")
	}
}
