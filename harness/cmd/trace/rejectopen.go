package main

// callbackfail extension: refused OPENS (see rejectext.go).  A storage holding multi-level arrays and maps,
// large-value slabs (StorableSlab), external collision-group slabs and stand-alone nested containers; for
// EVERY slab identifier of that storage NewArrayWithRootID / NewMapWithRootID / Slab.StoredValue are asked:
// a container comes back only for the root of a container of the right kind, anything else is refused
// with the error the slab's kind calls for, nothing panics, nothing changes.

import (
	"fmt"
	"strings"

	"github.com/onflow/atree"

	"verifharness/hx"
)

// slabKind classifies a slab by its Go type (arrD arrM mapD mapM mapG=collision group, val=StorableSlab).
func slabKind(s atree.Slab) string {
	switch v := s.(type) {
	case *atree.ArrayDataSlab:
		return "arrD"
	case *atree.ArrayMetaDataSlab:
		return "arrM"
	case *atree.MapDataSlab:
		if strings.HasSuffix(strings.SplitN(atree.VerifDumpSlab(v, hx.Describe), ")", 2)[0], ",1") {
			return "mapG" // d(id,next,size,first,inl,any,GRP)
		}
		return "mapD"
	case *atree.MapMetaDataSlab:
		return "mapM"
	case *atree.StorableSlab:
		return "val"
	}
	return fmt.Sprintf("?%T", s)
}

// wantOpen: the outcome the unchanged library gives for opening a slab of this kind as an array / a map
// ("ok" = a container).  rootOf is "array" / "map" for the identifiers the harness created containers
// with, "" for every other slab.
func wantOpen(as, kind, rootOf string) string {
	family := map[string]string{"arrD": "array", "arrM": "array", "mapD": "map", "mapM": "map", "mapG": "map"}[kind]
	switch {
	case family != as:
		return "SlabData:Fatal" // not a slab of this container kind at all
	case rootOf == as:
		return "ok"
	}
	return "NotValue:Fatal" // a slab of this kind that is not the root of a value
}

func (x *cbx) refusedOpens() {
	atree.VerifSetThreshold(256)
	_, _, _, _, maxMapElem, _ := atree.VerifThresholds()
	s := newXStore()
	rootOf := map[atree.SlabID]string{}
	counts := map[atree.SlabID]uint64{}
	fail := func(err error) bool {
		if err != nil {
			x.st.HarnessErr = "refused-opens setup: " + err.Error()
			return true
		}
		return false
	}
	regA := func(a *atree.Array) {
		rootOf[a.SlabID()], counts[a.SlabID()] = "array", a.Count()
		s.arrays = append(s.arrays, a)
	}
	regM := func(m *atree.OrderedMap) {
		rootOf[m.SlabID()], counts[m.SlabID()] = "map", m.Count()
		s.maps = append(s.maps, m)
	}
	a1, err := fillArray(s, 600, 20) // three levels, large values
	if fail(err) {
		return
	}
	m1, err := fillMap(s, plainBuilder(), 420, 16) // three levels, large values
	if fail(err) {
		return
	}
	m2, err := atree.NewMap(s.rec, hx.MkAddr(3), groupBuilder(), hx.TI(3)) // external collision groups
	for k := uint64(1); k <= 24 && err == nil; k++ {
		_, err = m2.Set(hx.CompareKey, hx.HashInput, tvs(9, k), tvs(maxMapElem/2, k))
	}
	if fail(err) {
		return
	}
	a2, err := fillArray(s, 3, 10) // a single data slab
	if fail(err) {
		return
	}
	m3, err := fillMap(s, plainBuilder(), 2, 10)
	if fail(err) {
		return
	}
	// a parent holding stand-alone children (too large to be inlined): their roots are values too
	p, err := atree.NewArray(s.rec, hx.MkAddr(4), hx.TI(4))
	if fail(err) {
		return
	}
	ca, err := atree.NewArray(s.rec, hx.MkAddr(4), hx.TI(5))
	for i := 0; i < 60 && err == nil; i++ {
		err = ca.Append(tvs(20, uint64(i)))
	}
	if err == nil {
		err = p.Append(ca)
	}
	cm, err2 := atree.NewMap(s.rec, hx.MkAddr(4), plainBuilder(), hx.TI(6))
	for k := uint64(1); k <= 40 && err2 == nil; k++ {
		_, err2 = cm.Set(hx.CompareKey, hx.HashInput, tvs(9, k), tvs(16, k))
	}
	if err2 == nil {
		err2 = p.Append(cm)
	}
	if fail(err) || fail(err2) {
		return
	}
	if ca.Inlined() || cm.Inlined() {
		x.st.HarnessErr = "refused-opens setup: a child meant to stand alone was inlined"
		return
	}
	regA(a1)
	regM(m1)
	regM(m2)
	regA(a2)
	regM(m3)
	regA(p)
	regA(ca)
	regM(cm)

	storageDump := func(ids []atree.SlabID) string {
		var b strings.Builder
		for _, id := range ids {
			sl, ok, err := s.ps.Retrieve(id)
			if err != nil || !ok {
				fmt.Fprintf(&b, "MISSING(%s) ", hx.IDStr(id))
				continue
			}
			b.WriteString(atree.VerifDumpSlab(sl, hx.Describe))
			b.WriteByte(' ')
		}
		return b.String() + deltaKeys(s.ps)
	}

	for pass := 0; pass < 2 && !x.stop(); pass++ {
		var ids []atree.SlabID
		if pass == 0 {
			for id := range atree.VerifDeltas(s.ps) {
				ids = append(ids, id)
			}
			hx.SortIDs(ids)
		} else {
			if err := s.ps.FastCommit(2); err != nil {
				x.st.HarnessErr = "refused-opens commit: " + err.Error()
				return
			}
			s.ps.DropCache()
			ids = s.ledger.SortedIDs()
		}
		state := []string{"uncommitted", "committed"}[pass]
		before := storageDump(ids)
		s.rec.Reset()
		for _, id := range ids {
			if x.stop() {
				return
			}
			slab, ok, err := s.ps.Retrieve(id)
			if err != nil || !ok {
				x.st.HarnessErr = fmt.Sprintf("refused-opens: slab %s cannot be read: %v", hx.IDStr(id), err)
				return
			}
			kind := slabKind(slab)
			label := kind
			if rootOf[id] != "" {
				label += "-root"
			}
			x.st.Ops += 3
			x.st.Hit("open/" + label)
			x.e.distinct["open"+label+state] = true
			where := fmt.Sprintf("slab %s (%s, %s)", hx.IDStr(id), label, state)

			// as an array
			var a *atree.Array
			err = x.guard("NewArrayWithRootID of "+where, func() (err error) { a, err = atree.NewArrayWithRootID(s.rec, id); return })
			if err != errPanicked {
				got, want := hx.ErrKind(err), wantOpen("array", kind, rootOf[id])
				switch {
				case got != want && got == "ok":
					x.viol(fmt.Sprintf("NewArrayWithRootID of %s handed out an array (%d elements); it must be refused with %s", where, a.Count(), want))
				case got != want:
					x.viol(fmt.Sprintf("NewArrayWithRootID of %s: %s, want %s", where, got, want))
				case err != nil && a != nil:
					x.viol(fmt.Sprintf("NewArrayWithRootID of %s returned an array next to its error", where))
				case err == nil && (a == nil || a.Count() != counts[id] || a.SlabID() != id):
					x.viol(fmt.Sprintf("NewArrayWithRootID of %s: the array opened is not the one stored (%d elements expected)", where, counts[id]))
				}
			}
			// as a map
			var m *atree.OrderedMap
			err = x.guard("NewMapWithRootID of "+where, func() (err error) { m, err = atree.NewMapWithRootID(s.rec, id, plainBuilder()); return })
			if err != errPanicked {
				got, want := hx.ErrKind(err), wantOpen("map", kind, rootOf[id])
				switch {
				case got != want && got == "ok":
					x.viol(fmt.Sprintf("NewMapWithRootID of %s handed out a map (%d elements); it must be refused with %s", where, m.Count(), want))
				case got != want:
					x.viol(fmt.Sprintf("NewMapWithRootID of %s: %s, want %s", where, got, want))
				case err != nil && m != nil:
					x.viol(fmt.Sprintf("NewMapWithRootID of %s returned a map next to its error", where))
				case err == nil && (m == nil || m.Count() != counts[id] || m.SlabID() != id):
					x.viol(fmt.Sprintf("NewMapWithRootID of %s: the map opened is not the one stored (%d elements expected)", where, counts[id]))
				}
			}
			// the slab's own StoredValue: a value for roots and large-value slabs, NotValue for inner slabs
			var v atree.Value
			err = x.guard("StoredValue of "+where, func() (err error) { v, err = slab.StoredValue(s.rec); return })
			if err != errPanicked {
				got := hx.ErrKind(err)
				switch {
				case kind == "val":
					if _, ok := v.(hx.TV); err != nil || !ok {
						x.viol(fmt.Sprintf("StoredValue of %s: %s, %T; want the stored value", where, got, v))
					}
				case rootOf[id] == "array":
					if va, ok := v.(*atree.Array); err != nil || !ok || va.Count() != counts[id] {
						x.viol(fmt.Sprintf("StoredValue of %s: %s, %T; want the array", where, got, v))
					}
				case rootOf[id] == "map":
					if vm, ok := v.(*atree.OrderedMap); err != nil || !ok || vm.Count() != counts[id] {
						x.viol(fmt.Sprintf("StoredValue of %s: %s, %T; want the map", where, got, v))
					}
				case err == nil:
					x.viol(fmt.Sprintf("StoredValue of %s handed out a %T; an inner slab is not a value (want NotValue:Fatal)", where, v))
				case got != "NotValue:Fatal":
					x.viol(fmt.Sprintf("StoredValue of %s: %s, want NotValue:Fatal", where, got))
				case v != nil:
					x.viol(fmt.Sprintf("StoredValue of %s returned a value next to its error", where))
				}
			}
			if len(s.rec.Effs) != 0 {
				x.viol(fmt.Sprintf("opening %s touched storage: %s", where, hx.NetEffect(s.rec.Effs)))
				s.rec.Reset()
			}
		}
		if storageDump(ids) != before {
			x.viol(fmt.Sprintf("opening every slab of the %s storage changed a slab or the pending write set", state))
		}
	}
}

// slab kinds every run must have tried to open (appended to callbackRequired)
var callbackRequiredOpen = []string{
	"open/arrD-root", "open/arrM-root", "open/arrD", "open/arrM", "open/mapD-root", "open/mapM-root", "open/mapD", "open/mapM",
	"open/mapG", "open/val",
}
