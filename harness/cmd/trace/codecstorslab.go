package main

// Directed programs of the `codec` stream for the large-value slab (StorableSlab, storable_slab.go):
// the two refusals no random program reaches.  Model-free: the programs write only CFG / LOG lines
// (ignored by the codec replayer), never ENC / DEC lines for the slabs they build.
//
//  1. The size limit (C06).  NewStorableSlab(storage, address, storable, storableSize) must accept
//     storableSize exactly when head + storableSize still is a uint32 (head = the 2-byte version+flag
//     head every slab starts with), because the slab reports ByteSize() = head + storable.ByteSize().
//     The limit is computed HERE, MaxUint32 - VerifConsts()["versionAndFlagSize"]; the library's
//     MaxStorableSizeInStorableSlab() is compared with it, never used.  Requests at limit-2 .. MaxUint32
//     (and a few random sizes in the upper half of the range) are made with a small storable that CLAIMS
//     the size (ByteSize() returns the claim; nothing of that size is allocated, nothing is encoded):
//     - accepted: the result is the reference to a fresh identifier (the next one of the address), the
//       stored slab is a StorableSlab holding the storable, and its ByteSize() is head + storableSize
//       as a 64-bit sum (no wrap-around);
//     - refused: an error of the library's user category, a nil result, no identifier allocated, the
//       write set and the ledger untouched.
//  2. The inlined-container refusal (C07).  A storable that carries an INLINED child (the child's root
//     data slab itself: what a parent container embeds) is written with a reference into the shared
//     inlined-extra-data section of the enclosing slab; a StorableSlab has no such section, so
//     StorableSlab.Encode must refuse it.  Cases: the inlined array / map directly, wrapped once and
//     twice (hx.SomeStorable).  EncodeSlab, FastCommit and NondeterministicFastCommit must fail with an encoding error,
//     the ledger stays untouched.  If an encoding IS produced, the ordinary C06 / C07 slab oracles run
//     on it (the register has no extra-data section: it does not decode).
//
// Every case is a REQUIRED branch of the stream (codecStorSlabRequired).

import (
	"bytes"
	"encoding/hex"
	"fmt"
	"math"
	"math/rand"

	"github.com/onflow/atree"

	"verifharness/hx"
)

var codecStorSlabRequired = []string{
	"storslab:limit-2:accepted", "storslab:limit-1:accepted", "storslab:limit:accepted",
	"storslab:limit+1:refused", "storslab:MaxUint32:refused", "storslab:random-below-limit:accepted",
	"storslab:inlined-array:refused", "storslab:inlined-map:refused",
	"storslab:wrapped-inlined-array:refused", "storslab:wrapped-inlined-map:refused",
	"storslab:wrapped-twice-inlined-array:refused",
}

// claimedStorable is a small storable whose ByteSize() is whatever the test claims.  It is never
// encoded (the storages holding it are dropped without a commit).
type claimedStorable struct {
	size uint32
	pay  uint64
}

var _ atree.Storable = claimedStorable{}

func (c claimedStorable) Encode(*atree.Encoder) error {
	return fmt.Errorf("claimedStorable must never be encoded")
}
func (c claimedStorable) ByteSize() uint32 { return c.size }
func (c claimedStorable) StoredValue(atree.SlabStorage) (atree.Value, error) {
	return hx.TV{Size: 9, Pay: c.pay}, nil
}
func (c claimedStorable) ChildStorables() []atree.Storable { return nil }
func (c claimedStorable) CanCopyNonRefSimple() bool        { return false }
func (c claimedStorable) CopyNonRefSimple() (atree.Storable, error) {
	return nil, fmt.Errorf("claimedStorable cannot be copied")
}
func (c claimedStorable) String() string { return fmt.Sprintf("claimed(%d)", c.size) }

func ledgerSnapshot(l *hx.Ledger) (map[atree.SlabID][]byte, int) {
	m := make(map[atree.SlabID][]byte, len(l.Seg))
	for k, v := range l.Seg {
		m[k] = append([]byte(nil), v...)
	}
	return m, len(l.Log)
}

func ledgerSame(l *hx.Ledger, seg map[atree.SlabID][]byte, nLog int) string {
	if len(l.Log) != nLog {
		c := l.Log[nLog]
		return fmt.Sprintf("%d call(s) reached the ledger, first: %c %s", len(l.Log)-nLog, c.Kind, hx.IDStr(c.ID))
	}
	if len(l.Seg) != len(seg) {
		return fmt.Sprintf("%d registers, %d before", len(l.Seg), len(seg))
	}
	for k, v := range seg {
		if !bytes.Equal(l.Seg[k], v) {
			return "register " + hx.IDStr(k) + " changed"
		}
	}
	return ""
}

// ---------------------------------------------------------------------------------------------
// 1. the size limit

func (e *codecEnv) runStorableSlabLimitProgram(rng *rand.Rand, emit bool) {
	atree.VerifSetThreshold(1024)
	head, ok := atree.VerifConsts()["versionAndFlagSize"]
	if !ok || head == 0 || head > 16 {
		e.directedFail(fmt.Sprintf("storable-slab limit: versionAndFlagSize = %d (present %v)", head, ok))
		return
	}
	limit := uint64(math.MaxUint32) - head // the harness's own number
	if emit {
		e.w.L("CFG T=1024 directed storable-slab-limit head=%d limit=%d", head, limit)
	}
	if got := uint64(atree.MaxStorableSizeInStorableSlab()); got != limit {
		e.violation("C06", fmt.Sprintf("MaxStorableSizeInStorableSlab() is %d; a StorableSlab reports head (%d) + storable size as a uint32, so the largest storable it can report truthfully has %d bytes",
			got, head, limit))
	}

	type req struct {
		size uint64
		tag  string
	}
	reqs := []req{{limit - 2, "limit-2"}, {limit - 1, "limit-1"}, {limit, "limit"}}
	for s := limit + 1; s <= math.MaxUint32; s++ {
		tag := fmt.Sprintf("limit+%d", s-limit)
		if s == math.MaxUint32 {
			tag = "MaxUint32"
		}
		reqs = append(reqs, req{s, tag})
	}
	for i := 0; i < 4; i++ {
		reqs = append(reqs, req{1<<31 + uint64(rng.Int63n(int64(limit-2-1<<31))), "random-below-limit"})
	}
	reqs = append(reqs, req{uint64(20 + rng.Intn(5000)), "random-below-limit"})
	rng.Shuffle(len(reqs), func(i, j int) { reqs[i], reqs[j] = reqs[j], reqs[i] })

	// one storage for all requests: a refused request must leave no trace in it
	ledger := hx.NewLedger()
	ps := hx.NewStorage(ledger)
	addr := hx.MkAddr(uint64(1 + rng.Intn(1<<16)))
	for i, r := range reqs {
		e.step = i
		wantOK := r.size <= limit
		if emit {
			e.w.L("LOG storable-slab-limit NewStorableSlab storableSize=%d (%s) expect=%s", r.size, r.tag, map[bool]string{true: "accepted", false: "refused"}[wantOK])
		}
		st := claimedStorable{size: uint32(r.size), pay: uint64(1000 + i)}
		seg, nLog := ledgerSnapshot(ledger)
		idxBefore := ledger.Idx[addr]
		nDeltas := len(atree.VerifDeltas(ps))

		var res atree.Storable
		var err error
		pan := ""
		func() {
			defer func() {
				if x := recover(); x != nil {
					pan = fmt.Sprint(x)
				}
			}()
			res, err = atree.NewStorableSlab(ps, addr, st, uint32(r.size))
		}()
		if pan != "" {
			e.violation("C06", fmt.Sprintf("NewStorableSlab(storableSize=%d, %s) panicked: %s", r.size, r.tag, pan))
			continue
		}
		if d := ledgerSame(ledger, seg, nLog); d != "" {
			e.violation("C06", fmt.Sprintf("NewStorableSlab(storableSize=%d, %s) touched the ledger: %s", r.size, r.tag, d))
		}
		switch {
		case wantOK && err != nil:
			e.violation("C06", fmt.Sprintf("NewStorableSlab refuses storableSize=%d (%s) with %s (%v): head %d + %d = %d fits a uint32, the slab could report its size truthfully; limit computed by the harness %d",
				r.size, r.tag, hx.ErrKind(err), err, head, r.size, head+r.size, limit))
		case wantOK:
			id := hx.MkID(addr, idxBefore+1)
			ref, isRef := res.(atree.SlabIDStorable)
			if !isRef || atree.SlabID(ref) != id || ledger.Idx[addr] != idxBefore+1 {
				e.violation("C06", fmt.Sprintf("NewStorableSlab(storableSize=%d) returned %v, expected a reference to the next identifier %s (allocated: %d)", r.size, res, hx.IDStr(id), ledger.Idx[addr]-idxBefore))
				continue
			}
			slab, found, rerr := ps.Retrieve(id)
			ss, isSS := slab.(*atree.StorableSlab)
			if rerr != nil || !found || !isSS {
				e.violation("C06", fmt.Sprintf("NewStorableSlab(storableSize=%d): slab %s is not a stored StorableSlab (found %v, %T, %v)", r.size, hx.IDStr(id), found, slab, rerr))
				continue
			}
			if cs := ss.ChildStorables(); len(cs) != 1 || cs[0] != atree.Storable(st) {
				e.violation("C06", fmt.Sprintf("NewStorableSlab(storableSize=%d): the stored slab holds %v, not the storable given", r.size, cs))
			}
			if got, want := uint64(ss.ByteSize()), head+r.size; got != want {
				e.violation("C06", fmt.Sprintf("StorableSlab holding a storable of %d bytes (%s) reports ByteSize() %d; head %d + %d = %d (wrap-around of the reported size)",
					r.size, r.tag, got, head, r.size, want))
			}
			if n := len(atree.VerifDeltas(ps)); n != nDeltas+1 {
				e.violation("C06", fmt.Sprintf("NewStorableSlab(storableSize=%d): write set grew by %d slabs", r.size, n-nDeltas))
			}
			e.st.Hit("storslab:" + r.tag + ":accepted")
		default: // must be refused
			if err == nil {
				got := "?"
				if ref, isRef := res.(atree.SlabIDStorable); isRef {
					if slab, found, _ := ps.Retrieve(atree.SlabID(ref)); found && slab != nil {
						got = fmt.Sprintf("%d", slab.ByteSize())
					}
				}
				e.violation("C06", fmt.Sprintf("NewStorableSlab accepts storableSize=%d (%s): head %d + %d = %d does not fit the uint32 the slab reports its size in (ByteSize() of the stored slab: %s); limit computed by the harness %d",
					r.size, r.tag, head, r.size, head+r.size, got, limit))
				continue
			}
			if hx.ErrCategory(err) != "User" {
				e.violation("C06", fmt.Sprintf("NewStorableSlab(storableSize=%d, %s) is refused with %s (%v); a request refused for its argument is a user error", r.size, r.tag, hx.ErrKind(err), err))
			}
			if res != nil {
				e.violation("C06", fmt.Sprintf("refused NewStorableSlab(storableSize=%d) returned %v next to its error", r.size, res))
			}
			if ledger.Idx[addr] != idxBefore {
				e.violation("C06", fmt.Sprintf("refused NewStorableSlab(storableSize=%d) allocated %d identifier(s)", r.size, ledger.Idx[addr]-idxBefore))
			}
			if n := len(atree.VerifDeltas(ps)); n != nDeltas {
				e.violation("C06", fmt.Sprintf("refused NewStorableSlab(storableSize=%d) changed the write set (%d -> %d slabs)", r.size, nDeltas, n))
			}
			e.st.Hit("storslab:" + r.tag + ":refused")
		}
	}
	e.st.Ops += len(reqs)
	// (the storage is dropped: the claimed sizes are not the sizes of the encodings)
}

// ---------------------------------------------------------------------------------------------
// 2. a StorableSlab around an inlined container

func (e *codecEnv) runStorableSlabInlinedProgram(rng *rand.Rand, emit bool) {
	const T = 1024
	atree.VerifSetThreshold(T)
	if emit {
		e.w.L("CFG T=%d directed storable-slab-inlined", T)
	}
	cases := []struct {
		tag   string
		isMap bool
		wraps int
	}{
		{"inlined-array", false, 0}, {"inlined-map", true, 0},
		{"wrapped-inlined-array", false, 1}, {"wrapped-inlined-map", true, 1},
		{"wrapped-twice-inlined-array", false, 2},
	}
	for ci, c := range cases {
		e.step = ci
		ledger := hx.NewLedger()
		ps := hx.NewStorage(ledger)
		addr := hx.MkAddr(uint64(1 + rng.Intn(1<<16)))
		nElem := 1 + rng.Intn(4)
		if emit {
			e.w.L("LOG storable-slab-inlined case=%s elements=%d: NewStorableSlab around the inlined child, then EncodeSlab / FastCommit / NondeterministicFastCommit must fail", c.tag, nElem)
		}
		// the inlined form of a child container: what a parent would embed
		var inl atree.Storable
		var err error
		if c.isMap {
			var m *atree.OrderedMap
			m, err = atree.NewMap(ps, addr, atree.NewDefaultDigesterBuilder(), hx.TI(uint64(50+ci)))
			for i := 0; err == nil && i < nElem; i++ {
				_, err = m.Set(hx.CompareKey, hx.HashInput, hx.TV{Size: 9, Pay: uint64(100 + i)}, hx.TV{Size: uint32(2 + rng.Intn(20)), Pay: uint64(i)})
			}
			if err == nil {
				inl, err = m.Storable(ps, addr, atree.MaxInlineMapElementSize())
			}
			if err == nil && !m.Inlined() {
				err = fmt.Errorf("child map is not inlined")
			}
		} else {
			var a *atree.Array
			a, err = atree.NewArray(ps, addr, hx.TI(uint64(50+ci)))
			for i := 0; err == nil && i < nElem; i++ {
				err = a.Append(hx.TV{Size: uint32(2 + rng.Intn(20)), Pay: uint64(i)})
			}
			if err == nil {
				inl, err = a.Storable(ps, addr, atree.MaxInlineArrayElementSize())
			}
			if err == nil && !a.Inlined() {
				err = fmt.Errorf("child array is not inlined")
			}
		}
		if err != nil {
			e.directedFail("storable-slab-inlined " + c.tag + ": " + err.Error())
			return
		}
		switch inl.(type) {
		case *atree.ArrayDataSlab, *atree.MapDataSlab:
		default:
			e.directedFail(fmt.Sprintf("storable-slab-inlined %s: child.Storable gave %T", c.tag, inl))
			return
		}
		// the removal of the child's own (never committed) root slab is flushed first, so that the
		// write set holds nothing but the StorableSlab
		if err := ps.FastCommit(1); err != nil {
			e.directedFail("storable-slab-inlined " + c.tag + ": commit before the case: " + err.Error())
			return
		}
		stor := inl
		for i := 0; i < c.wraps; i++ {
			stor = hx.SomeStorable{S: stor}
		}
		res, err := atree.NewStorableSlab(ps, addr, stor, stor.ByteSize())
		if err != nil {
			// (NewStorableSlab does not look into the storable; a refusal HERE would be fine too, but is not what the library does)
			e.directedFail("storable-slab-inlined " + c.tag + ": NewStorableSlab: " + err.Error())
			return
		}
		id := atree.SlabID(res.(atree.SlabIDStorable))
		slab, found, rerr := ps.Retrieve(id)
		if rerr != nil || !found {
			e.directedFail("storable-slab-inlined " + c.tag + ": slab not stored")
			return
		}
		seg, nLog := ledgerSnapshot(ledger)
		good := true

		reg, encErr, pan := guardedEncode(slab)
		switch {
		case pan != "":
			good = false
			e.violation("C07", fmt.Sprintf("EncodeSlab panics on a StorableSlab holding %s: %s", c.tag, pan))
		case encErr == nil:
			good = false
			o := guardedDecode(id, reg)
			e.violation("C07", fmt.Sprintf("EncodeSlab writes a register for a StorableSlab whose storable carries an inlined container (%s; %s): a StorableSlab has no inlined-extra-data section, the register %s cannot describe the child (DecodeSlab: %s %s)",
				c.tag, atree.VerifDumpSlab(slab, hx.Describe), hex.EncodeToString(reg), o.class, o.detail))
			// the ordinary slab oracles on that register (size law, flags, decode, round trip)
			e.oracleSlab(slab)
		case hx.ErrKind(encErr) != "Encoding:Fatal":
			good = false
			e.violation("C07", fmt.Sprintf("EncodeSlab of a StorableSlab holding %s fails with %s (%v), expected the encoder's own refusal (Encoding:Fatal)", c.tag, hx.ErrKind(encErr), encErr))
		}
		for _, how := range []string{"FastCommit", "NondeterministicFastCommit"} {
			var cerr error
			cpan := ""
			func() {
				defer func() {
					if x := recover(); x != nil {
						cpan = fmt.Sprint(x)
					}
				}()
				if how == "FastCommit" {
					cerr = ps.FastCommit(2)
				} else {
					cerr = ps.NondeterministicFastCommit(2) // (one modified slab: the sequential commit loop)
				}
			}()
			d := ledgerSame(ledger, seg, nLog)
			switch {
			case cpan != "":
				good = false
				e.violation("C07", fmt.Sprintf("%s panics with a StorableSlab holding %s in the write set: %s", how, c.tag, cpan))
			case cerr == nil || d != "":
				good = false
				what := ""
				if r, ok := ledger.Seg[id]; ok {
					o := guardedDecode(id, r)
					what = fmt.Sprintf("; register %s = %s, DecodeSlab: %s %s", hx.IDStr(id), hex.EncodeToString(r), o.class, o.detail)
				}
				e.violation("C07", fmt.Sprintf("%s with a StorableSlab holding %s in the write set: error %v, ledger: %s%s (expected: an encoding error and an untouched ledger)",
					how, c.tag, cerr, map[bool]string{true: "untouched", false: d}[d == ""], what))
			case hx.ErrKind(cerr) != "Encoding:Fatal":
				good = false
				e.violation("C07", fmt.Sprintf("%s with a StorableSlab holding %s fails with %s (%v), expected Encoding:Fatal", how, c.tag, hx.ErrKind(cerr), cerr))
			}
			if !good {
				break
			}
		}
		if good {
			e.st.Hit("storslab:" + c.tag + ":refused")
		}
		e.st.Ops++
	}
}

func (e *codecEnv) runStorableSlabPrograms(rng *rand.Rand, emit bool) {
	e.prog = 470
	e.runStorableSlabLimitProgram(rng, emit)
	e.st.Programs++
	e.prog = 471
	e.runStorableSlabInlinedProgram(rng, emit)
	e.st.Programs++
	e.step = 0
}
