package main

import (
	"fmt"
	"math/rand"
	"path/filepath"
	"regexp"
	"strconv"
	"strings"

	"github.com/onflow/atree"

	"verifharness/hx"
)

// Directed array programs (audit a1 / F5): the array twin of stream mapmeta.
//
//   arrmeta   three slab levels (root index slab -> index slabs -> data slabs).  The program reads the shape of
//             the REAL tree after every request and steers removals so that one chosen non-root index slab
//             underflows under a chosen sibling configuration: the decision table of
//             ArrayMetaDataSlab.MergeOrRebalanceChildSlab (no left / both / no right sibling x siblings that can /
//             cannot lend, incl. the exact sizes 12 + 14k == T/2 at which IsUnderflow and CanLendToLeft/Right are
//             decided ON the boundary: T = 276 (k = 9) and T = 304 (k = 10); T = 256 and 1024 have no such k).
//             Which of ArrayMetaDataSlab.Merge / LendToRight / BorrowFromRight ran is read off the change of the
//             real tree; every (configuration, function) pair of the table, the index-level Split, an index slab
//             of exactly minThreshold bytes that must NOT be rebalanced, and the two root promotions
//             (3 -> 2 -> 1 levels) of the deep-shrink sweeps are REQUIRED tags.  They are required TWICE:
//               * Go side (st.Dist, read off the dumps of the real slabs): a missing tag is a harness error;
//               * model side: the replayer (Replay/Array.lean, ArrBranch.lean) reports the branches the MODEL took
//                 on the same requests; the `REQ <tag>` lines written at the end of the trace make a missing model
//                 tag a replay mismatch.
//             Go-side oracles after every phase: VerifyArray (C05), the shadow sequence against BOTH positional
//             access at every index and sequential traversal (C01; their mutual agreement is C05's last clause),
//             CheckStorageHealth with exactly one root (C09).
//
// The stream writes array traces (driver "array"): every request is replayed on the model.

func init() { streams["arrmeta"] = arrMetaStream }

const arrHdrSize, arrMetaPrefix = 14, 12 // arraySlabHeaderSize, arrayMetaDataSlabPrefixSize (compared with the package by cmd/extract)

// ---------------------------------------------------------------------------------------------
// traced requests (same trace lines as runArrayProgram)

func (e *arrEnv) dOpen() bool {
	_, _, maxInl, _ := atree.VerifSetThreshold(e.T)
	e.maxInl = maxInl
	e.ledger = hx.NewLedger()
	e.ps = hx.NewStorage(e.ledger)
	e.rec = hx.NewRecStorage(e.ps)
	e.addr = hx.MkAddr(uint64(1 + e.rng.Intn(3)))
	e.ty = hx.TI(uint64(e.rng.Intn(100)))
	e.w.L("CFG T=%d", e.T)
	a, err := atree.NewArray(e.rec, e.addr, e.ty)
	if err != nil {
		e.st.HarnessErr = "NewArray: " + err.Error()
		return false
	}
	e.arr = a
	e.w.L("NEW h=0 addr=%d ty=%d", e.addr[7], uint64(e.ty))
	e.emitEffects()
	return true
}

func (e *arrEnv) dVal(size uint32) hx.TV {
	if size < 2 {
		size = 2
	}
	e.nextPay++
	pay := e.nextPay
	for !hx.ValidTV(size, pay) {
		pay = pay % 200
		if !hx.ValidTV(size, pay) {
			size++
		}
	}
	return hx.TV{Size: size, Pay: pay}
}

func (e *arrEnv) dIns(i uint64, v hx.TV) bool {
	e.step++
	n := uint64(len(e.shadow))
	var err error
	if i == n && e.rng.Intn(2) == 0 {
		e.w.L("OP app h=0 v=%d:%d", v.Size, v.Pay)
		err = e.arr.Append(v)
	} else {
		e.w.L("OP ins h=0 i=%d v=%d:%d", i, v.Size, v.Pay)
		err = e.arr.Insert(i, v)
	}
	if err != nil {
		e.obsErr(err)
		e.violation("C01", fmt.Sprintf("in-range insert at %d of %d failed: %v", i, n, err))
		e.emitEffects()
		return false
	}
	e.w.L("OBS ok")
	e.shadow = append(e.shadow, hx.TV{})
	copy(e.shadow[i+1:], e.shadow[i:])
	e.shadow[i] = v
	e.emitEffects()
	return true
}

func (e *arrEnv) dRem(i uint64) bool {
	e.step++
	e.w.L("OP rem h=0 i=%d", i)
	old, err := e.arr.Remove(i)
	if err != nil {
		e.obsErr(err)
		e.violation("C01", fmt.Sprintf("in-range remove at %d of %d failed: %v", i, len(e.shadow), err))
		e.emitEffects()
		return false
	}
	e.w.L("OBS ok:%s", renderStorable(old))
	e.checkReturned("C01", old, e.shadow[i])
	e.shadow = append(e.shadow[:i], e.shadow[i+1:]...)
	e.emitEffects()
	e.dispose(old)
	return true
}

func (e *arrEnv) dGet(i uint64) {
	e.step++
	e.w.L("OP get h=0 i=%d", i)
	v, err := e.arr.Get(i)
	if err != nil {
		e.obsErr(err)
		e.violation("C01", fmt.Sprintf("in-range get at %d of %d failed: %v", i, len(e.shadow), err))
		return
	}
	e.w.L("OBS ok:%s", renderValue(v))
	if tv, _ := v.(hx.TV); tv != e.shadow[i] {
		e.violation("C01", fmt.Sprintf("get(%d) = %v, sequence says %v", i, v, e.shadow[i]))
	}
}

// dPhase: full dump (compared with the model's tree), the library's own verifier, positional access at EVERY index
// and one sequential traversal against the shadow sequence, storage health with exactly one root.
func (e *arrEnv) dPhase() {
	e.w.L("FULL h=0 %s", hx.DumpTree(e.ps, atree.VerifArrayRoot(e.arr)))
	err := atree.VerifyArray(e.arr, e.addr, e.ty, func(a, b atree.TypeInfo) bool { return a == b }, nil, true)
	e.w.L("VFY h=0 ty=%d r=%s", uint64(e.ty), hx.VerifyClass(err))
	if err != nil {
		e.violation("C05", "VerifyArray: "+err.Error())
		e.violation("C01", "VerifyArray: "+err.Error())
	}
	n := len(e.shadow)
	if int(e.arr.Count()) != n {
		e.violation("C01", fmt.Sprintf("count %d, sequence has %d", e.arr.Count(), n))
	}
	var seq []hx.TV
	if err := e.arr.IterateReadOnly(func(v atree.Value) (bool, error) {
		tv, _ := v.(hx.TV)
		seq = append(seq, tv)
		return true, nil
	}); err != nil {
		e.violation("C01", "sequential traversal failed: "+err.Error())
		e.violation("C05", "sequential traversal failed: "+err.Error())
	}
	bad := len(seq) != n
	for i := 0; i < n && !bad; i++ {
		v, err := e.arr.Get(uint64(i))
		tv, _ := v.(hx.TV)
		switch {
		case err != nil:
			e.violation("C01", fmt.Sprintf("in-range get at %d of %d failed: %v", i, n, err))
			e.violation("C05", fmt.Sprintf("positional access at %d of %d failed: %v", i, n, err))
			bad = true
		case tv != seq[i]:
			e.violation("C05", fmt.Sprintf("positional access and sequential traversal disagree at %d: %v vs %v", i, tv, seq[i]))
			e.violation("C01", fmt.Sprintf("get(%d) = %v, sequence says %v", i, tv, e.shadow[i]))
			bad = true
		case tv != e.shadow[i]:
			e.violation("C01", fmt.Sprintf("element %d is %v, sequence says %v", i, tv, e.shadow[i]))
			bad = true
		}
	}
	if len(seq) != n {
		e.violation("C01", fmt.Sprintf("sequential traversal yielded %d elements, sequence has %d", len(seq), n))
		e.violation("C05", fmt.Sprintf("sequential traversal yielded %d elements, the root counts %d", len(seq), e.arr.Count()))
	}
	e.health()
	e.st.Hit("phase-check")
}

// health: C09 - the storage holds exactly the slabs of the one live array (everything handed back has been disposed of).
func (e *arrEnv) health() {
	// a storage the reference checker cannot even walk (it panics on a slab object left behind in an invalid state) is not healthy
	defer func() {
		if r := recover(); r != nil {
			e.violation("C09", fmt.Sprintf("CheckStorageHealth (one root expected) panicked: %v", r))
		}
	}()
	roots, err := atree.CheckStorageHealth(e.ps, 1)
	if err != nil {
		e.violation("C09", "CheckStorageHealth (one root expected): "+err.Error())
		return
	}
	if _, ok := roots[e.arr.SlabID()]; !ok || len(roots) != 1 {
		e.violation("C09", fmt.Sprintf("CheckStorageHealth found roots %v, the array is %s", roots, hx.IDStr(e.arr.SlabID())))
		return
	}
	e.st.Hit("health:ok")
}

// ---------------------------------------------------------------------------------------------
// shape of the real tree

type aKid struct {
	id          string
	size, count uint32
}

type aMeta struct {
	aKid
	kids []aKid
}

var aKidRe = regexp.MustCompile(`(\d+\.\d+)/(\d+)/(\d+)`)

// parseArrMeta reads the canonical dump M(id,size,count)[T(ty)]{id/size/count;...}{sums} of an array index slab.
func parseArrMeta(d string) (m aMeta, ok bool) {
	if !strings.HasPrefix(d, "M(") {
		return m, false
	}
	head := strings.Split(d[2:strings.Index(d, ")")], ",")
	if len(head) != 3 {
		return m, false
	}
	sz, _ := strconv.ParseUint(head[1], 10, 32)
	cn, _ := strconv.ParseUint(head[2], 10, 32)
	m.aKid = aKid{head[0], uint32(sz), uint32(cn)}
	open := strings.Index(d, "{")
	body := d[open : open+strings.Index(d[open:], "}")]
	for _, x := range aKidRe.FindAllStringSubmatch(body, -1) {
		s, _ := strconv.ParseUint(x[2], 10, 32)
		c, _ := strconv.ParseUint(x[3], 10, 32)
		m.kids = append(m.kids, aKid{x[1], uint32(s), uint32(c)})
	}
	return m, true
}

func (e *arrEnv) slabDump(id string) string {
	s, ok, err := e.ps.Retrieve(parseIDStr(id))
	if err != nil || !ok {
		return ""
	}
	return atree.VerifDumpSlab(s, hx.Describe)
}

// shape returns the number of slab levels (1 = a single data slab) and, when there are exactly three, the index
// slabs below the root with their children.
func (e *arrEnv) shape() (int, []aMeta) {
	root, ok := parseArrMeta(atree.VerifDumpSlab(atree.VerifArrayRoot(e.arr), hx.Describe))
	if !ok {
		return 1, nil
	}
	var l1 []aMeta
	for _, k := range root.kids {
		m, ok := parseArrMeta(e.slabDump(k.id))
		if !ok {
			return 2, nil
		}
		l1 = append(l1, m)
	}
	if len(l1) == 0 || len(l1[0].kids) == 0 {
		return 2, nil
	}
	if strings.HasPrefix(e.slabDump(l1[0].kids[0].id), "M(") {
		return 4, nil
	}
	return 3, l1
}

// span returns the index range [lo, hi) of the elements below index slab idx.
func span(l1 []aMeta, idx int) (lo, hi uint64) {
	for i := 0; i < idx; i++ {
		lo += uint64(l1[i].count)
	}
	return lo, lo + uint64(l1[idx].count)
}

func within(l1 []aMeta, idx, where int) uint64 {
	lo, hi := span(l1, idx)
	switch where {
	case 0:
		return lo
	case 1:
		return (lo + hi) / 2
	}
	return hi - 1
}

func sameArrL1(a, b []aMeta) bool {
	if len(a) != len(b) {
		return false
	}
	for i := range a {
		if a[i].id != b[i].id || len(a[i].kids) != len(b[i].kids) {
			return false
		}
	}
	return true
}

// ---------------------------------------------------------------------------------------------
// the documented rule of ArrayMetaDataSlab.IsUnderflow / CanLendToLeft / CanLendToRight

type arrRule struct{ T, minT uint32 }

func (r arrRule) canLend(size, under uint32) (can, boundary bool) {
	n := (under + arrHdrSize - 1) / arrHdrSize
	if size < arrHdrSize*n {
		return false, false
	}
	return size-arrHdrSize*n > r.minT, size-arrHdrSize*n == r.minT
}

// lendMin is the smallest number of children with which a sibling can lend one child.
func (r arrRule) lendMin() int {
	for n := 2; ; n++ {
		if c, _ := r.canLend(uint32(arrMetaPrefix+arrHdrSize*n), 1); c {
			return n
		}
	}
}

// underMin is the largest number of children with which an index slab underflows.
func (r arrRule) underMin() int {
	n := 0
	for uint32(arrMetaPrefix+arrHdrSize*(n+1)) < r.minT {
		n++
	}
	return n
}

func (r arrRule) sibKids(code int) int {
	switch code {
	case sibCannot:
		return r.lendMin() - 1
	case sibCan:
		return r.lendMin()
	case sibCanPlus:
		return r.lendMin() + 2
	case sibSmallest:
		return r.underMin() + 1
	}
	return 0
}

// describeEvent compares the index slabs below the root before and after a removal routed to index slab idx and names
// the configuration and the function that must have run.  The tag format is shared with the model replayer
// (AtreeModel/Replay/ArrBranch.lean).
func (r arrRule) describeEvent(before, after []aMeta, depthAfter, idx int) (cfg string, fns []string) {
	under := r.minT - (before[idx].size - arrHdrSize)
	hasL, hasR := idx > 0, idx+1 < len(before)
	var lCan, rCan, lB, rB bool
	sib := ""
	if hasL {
		sib += "L"
		lCan, lB = r.canLend(before[idx-1].size, under)
		fns = append(fns, fmt.Sprintf("left.CanLendToRight=%v", lCan))
		if lB {
			fns = append(fns, "left.CanLendToRight@boundary")
		}
	}
	if hasR {
		sib += "R"
		rCan, rB = r.canLend(before[idx+1].size, under)
		fns = append(fns, fmt.Sprintf("right.CanLendToLeft=%v", rCan))
		if rB {
			fns = append(fns, "right.CanLendToLeft@boundary")
		}
	}
	lend := ""
	if lCan {
		lend += "L"
	}
	if rCan {
		lend += "R"
	}
	if lend == "" {
		lend = "none"
	}
	cfg = "siblings=" + sib + " can-lend=" + lend
	if hasL && hasR && lCan == rCan {
		switch {
		case before[idx-1].size > before[idx+1].size:
			cfg += " bigger=L"
		case before[idx-1].size < before[idx+1].size:
			cfg += " bigger=R"
		default:
			cfg += " bigger=none"
		}
	}
	gone := func() string {
		alive := map[string]bool{}
		for _, m := range after {
			alive[m.id] = true
		}
		for _, m := range before {
			if !alive[m.id] {
				return m.id
			}
		}
		return ""
	}
	switch {
	case depthAfter < 3:
		fns = append(fns, "root-collapse-after-Merge")
		if idx == 0 {
			fns = append(fns, "child.Merge(right)")
		} else {
			fns = append(fns, "left.Merge(child)")
		}
	case len(after) == len(before)-1:
		switch g := gone(); {
		case g == before[idx].id:
			fns = append(fns, "left.Merge(child)")
		case hasR && g == before[idx+1].id:
			fns = append(fns, "child.Merge(right)")
		default:
			fns = append(fns, "unexplained-merge")
		}
	case len(after) == len(before):
		switch {
		case hasR && len(after[idx+1].kids) < len(before[idx+1].kids):
			fns = append(fns, "child.BorrowFromRight(right)")
		case hasL && len(after[idx-1].kids) < len(before[idx-1].kids):
			fns = append(fns, "left.LendToRight(child)")
		default:
			fns = append(fns, "unexplained-rebalance")
		}
	default:
		fns = append(fns, "unexplained-change")
	}
	return cfg, fns
}

// ---------------------------------------------------------------------------------------------
// arrmeta

// required (configuration, function) pairs: the decision table of ArrayMetaDataSlab.MergeOrRebalanceChildSlab for an
// index-slab child, the boundary decisions, the index-level split and the two root promotions.  Checked on the Go side
// (st.Dist) and, through REQ lines, on the model side.
var arrMetaRequired = []string{
	"siblings=R can-lend=none -> child.Merge(right)",
	"siblings=R can-lend=R -> child.BorrowFromRight(right)",
	"siblings=L can-lend=none -> left.Merge(child)",
	"siblings=L can-lend=L -> left.LendToRight(child)",
	"siblings=LR can-lend=none bigger=none -> child.Merge(right)",
	"siblings=LR can-lend=none bigger=R -> left.Merge(child)",
	"siblings=LR can-lend=none bigger=L -> child.Merge(right)",
	"siblings=LR can-lend=L -> left.LendToRight(child)",
	"siblings=LR can-lend=R -> child.BorrowFromRight(right)",
	"siblings=LR can-lend=LR bigger=L -> left.LendToRight(child)",
	"siblings=LR can-lend=LR bigger=R -> child.BorrowFromRight(right)",
	"siblings=LR can-lend=LR bigger=none -> child.BorrowFromRight(right)",
	"fn:right.CanLendToLeft=true", "fn:right.CanLendToLeft=false", "fn:right.CanLendToLeft@boundary",
	"fn:left.CanLendToRight=true", "fn:left.CanLendToRight=false", "fn:left.CanLendToRight@boundary",
	"fn:root-collapse-after-Merge",
	"fn:IsUnderflow@boundary=false",
	"fn:index.Split",
	"fn:root-promote:3->2", "fn:root-promote:2->1",
	"fn:root-split:1->2", "fn:root-split:2->3",
	// T = 260: 12 + 14*27 == maxThreshold (390): an index slab of exactly maxThreshold bytes is NOT full (`size > maxThreshold`)
	"fn:IsFull@boundary=false",
	// data slabs (T = 256): a sibling whose size minus the underflow is EXACTLY minThreshold and whose outermost
	// element has exactly the missing size must lend (ArrayDataSlab.CanLendToLeft/Right: `size-need < minThreshold`)
	"data:right.CanLendToLeft@boundary -> child.BorrowFromRight(right)",
	"data:left.CanLendToRight@boundary -> left.LendToRight(child)",
}

type arrScenario struct {
	T     uint32
	pos   int // 0 first child of the root, 1 a middle child, 2 the last child
	l, r  int // sibling size codes (sibCannot ...)
	where int
	tiny  bool
	two   bool
}

func arrMetaStream(cfg *Config) *hx.Stats {
	st := hx.NewStats("arrmeta", cfg.Seed)
	rng := rand.New(rand.NewSource(cfg.Seed*6343 + 17))
	w := hx.NewW(filepath.Join(cfg.Out, fmt.Sprintf("arrmeta-%d.trace", cfg.Seed)))
	defer w.Close()
	st.TraceFiles = append(st.TraceFiles, w.Path)
	var scen []arrScenario
	// T=256, 1024: 12 + 14k never equals T/2; T=276 (k=9), 304 (k=10): it does - IsUnderflow (`minThreshold > size`) and
	// CanLendToLeft/Right (`size - 14n > minThreshold`) are decided AT the boundary
	for _, T := range []uint32{256, 276, 304} {
		scen = append(scen,
			arrScenario{T: T, pos: 0, r: sibCannot}, arrScenario{T: T, pos: 0, r: sibCan},
			arrScenario{T: T, pos: 2, l: sibCannot}, arrScenario{T: T, pos: 2, l: sibCan},
			arrScenario{T: T, pos: 1, l: sibCannot, r: sibCannot},
			arrScenario{T: T, pos: 1, l: sibCan, r: sibCannot}, arrScenario{T: T, pos: 1, l: sibCannot, r: sibCan},
			arrScenario{T: T, pos: 1, l: sibCanPlus, r: sibCan}, arrScenario{T: T, pos: 1, l: sibCan, r: sibCanPlus},
			arrScenario{T: T, pos: 1, l: sibCan, r: sibCan})
		scen = append(scen, arrScenario{T: T, pos: 0, r: sibCannot, two: true}, arrScenario{T: T, pos: 2, l: sibCannot, two: true})
		if T != 256 {
			// "cannot lend" has two sizes here (the smaller one is exactly minThreshold bytes): merge with the smaller sibling
			scen = append(scen,
				arrScenario{T: T, pos: 1, l: sibSmallest, r: sibCannot}, arrScenario{T: T, pos: 1, l: sibCannot, r: sibSmallest},
				arrScenario{T: T, pos: 0, r: sibSmallest}, arrScenario{T: T, pos: 2, l: sibSmallest})
		}
	}
	// the default slab size once per run (index slabs of 36..109 children)
	scen = append(scen, arrScenario{T: 1024, pos: 1, l: sibCan, r: sibCannot}, arrScenario{T: 1024, pos: 0, r: sibCannot, two: true})
	if cfg.Scale < 1 {
		scen = scen[:int(float64(len(scen))*cfg.Scale)+1]
	}
	rounds := 1
	if cfg.Scale > 1 {
		rounds = int(cfg.Scale)
	}
	p := 0
	for round := 0; round < rounds; round++ {
		for i, sc := range scen {
			sc.where = rng.Intn(3)
			sc.tiny = sc.T != 1024 && (i+int(cfg.Seed)+round)%7 == 0
			e := &arrEnv{w: w, st: st, cfg: cfg, rng: rng, T: sc.T, prog: p}
			runArrMetaScenario(e, sc)
			st.Programs++
			st.Ops += e.step
			p++
			if len(st.Violations) > 20 || st.HarnessErr != "" {
				break
			}
		}
		for k := 0; k < 4 && len(st.Violations) <= 20 && st.HarnessErr == ""; k++ {
			where := k
			if k == 3 {
				where = rng.Intn(3)
			}
			e := &arrEnv{w: w, st: st, cfg: cfg, rng: rng, T: []uint32{256, 276, 304, 260}[k], prog: p}
			runArrMetaSweep(e, where)
			st.Programs++
			st.Ops += e.step
			p++
		}
		for side := 0; side < 2 && len(st.Violations) <= 20 && st.HarnessErr == ""; side++ {
			e := &arrEnv{w: w, st: st, cfg: cfg, rng: rng, T: 256, prog: p}
			runArrDataBoundary(e, side)
			st.Programs++
			st.Ops += e.step
			p++
		}
	}
	if cfg.Scale >= 1 && st.HarnessErr == "" && len(st.Violations) == 0 {
		var missing []string
		for _, t := range arrMetaRequired {
			if st.Dist[t] == 0 {
				missing = append(missing, t)
			}
		}
		if len(missing) > 0 {
			st.HarnessErr = "required array index-slab branches never reached: " + strings.Join(missing, "; ")
		}
	}
	if cfg.Scale >= 1 {
		// the same tags must have been reported by the MODEL's run of the same requests
		for _, t := range arrMetaRequired {
			w.L("REQ %s", t)
		}
	}
	st.TraceLines = w.Lines
	st.Distinct = len(st.Dist)
	st.Samples = append(st.Samples, "arrays of three slab levels at T in {256,276,304,1024}; one non-root index slab driven to underflow under every sibling configuration (can / cannot lend, the exact boundary 12+14k = T/2, bigger / smaller / equal siblings); deep-shrink sweeps from the left, the middle, the right down to a single data slab")
	atree.VerifSetThreshold(1024)
	return st
}

// elemSize: elements of about a third of the inline limit up to the limit (a data slab holds 2..6 of them), every
// twelfth one too large to inline (stored in its own slab, released by the caller when it is handed back); `tiny`: 2..11 bytes.
func (e *arrEnv) elemSize(tiny bool) uint32 {
	if e.rng.Intn(12) == 0 {
		return e.maxInl + 1 + uint32(e.rng.Intn(30))
	}
	if tiny {
		return uint32(2 + e.rng.Intn(10))
	}
	return e.maxInl/3 + uint32(e.rng.Intn(int(e.maxInl-e.maxInl/3)+1))
}

// buildThreeLevels inserts elements until the tree has three slab levels with at least wantMetas index slabs below
// the root, each with at least minKids children.  Index-level splits (root and non-root) are tagged as they happen.
func (e *arrEnv) buildThreeLevels(wantMetas, minKids int, tiny bool) ([]aMeta, bool) {
	mode := e.rng.Intn(3) // append, insert at the front, insert at random positions
	_, _, maxT, _, _, _ := atree.VerifThresholds()
	prevDepth, prevL1 := 1, 0
	for i := 0; i < 40000; i++ {
		var pos uint64
		switch mode {
		case 0:
			pos = uint64(len(e.shadow))
		case 1:
			pos = 0
		default:
			pos = uint64(e.rng.Intn(len(e.shadow) + 1))
		}
		// keep every index slab below the root growing once there are three levels
		if prevDepth == 3 && i%2 == 1 {
			_, l1 := e.shape()
			if l1 != nil {
				small := 0
				for j := range l1 {
					if len(l1[j].kids) < len(l1[small].kids) {
						small = j
					}
				}
				pos = within(l1, small, e.rng.Intn(3))
			}
		}
		if !e.dIns(pos, e.dVal(e.elemSize(tiny))) {
			return nil, false
		}
		depth, l1 := e.shape()
		if depth > prevDepth {
			e.st.Hit(fmt.Sprintf("fn:root-split:%d->%d", prevDepth, depth))
			e.w.L("TAG root-split:%d->%d", prevDepth, depth)
		} else if depth == 3 && len(l1) > prevL1 && prevL1 > 0 {
			e.st.Hit("fn:index.Split")
			e.w.L("TAG index.Split")
		}
		prevDepth, prevL1 = depth, len(l1)
		for _, m := range l1 {
			if m.size == maxT {
				// an index slab below the root of exactly maxThreshold bytes: it was not split
				e.st.Hit("fn:IsFull@boundary=false")
			}
		}
		if depth > 3 {
			break
		}
		if depth == 3 && len(l1) >= wantMetas {
			ok := true
			for _, m := range l1 {
				ok = ok && len(m.kids) >= minKids
			}
			if ok {
				e.dPhase()
				return l1, true
			}
		}
	}
	e.st.HarnessErr = fmt.Sprintf("arrmeta: could not build a three-level tree (T=%d)", e.T)
	return nil, false
}

// shrinkTo removes elements below index slab idx until it has n children.
func (e *arrEnv) shrinkTo(idx, n, where int) bool {
	for guard := 0; guard < 20000; guard++ {
		depth, l1 := e.shape()
		if depth != 3 || idx >= len(l1) {
			e.st.HarnessErr = "arrmeta: tree changed shape while a sibling was being shrunk"
			return false
		}
		if len(l1[idx].kids) <= n {
			return len(l1[idx].kids) == n
		}
		if l1[idx].count == 0 {
			return false
		}
		if !e.dRem(within(l1, idx, where)) {
			return false
		}
	}
	return false
}

func runArrMetaScenario(e *arrEnv, sc arrScenario) {
	rule := arrRule{T: sc.T, minT: sc.T / 2}
	if !e.dOpen() {
		return
	}
	e.st.Dist[fmt.Sprintf("T=%d", e.T)]++
	wantMetas, minKids := 4, rule.lendMin()+2
	if sc.two {
		wantMetas, minKids = 2, rule.lendMin()
	}
	l1, ok := e.buildThreeLevels(wantMetas, minKids, sc.tiny)
	if !ok {
		return
	}
	idx := 0
	switch sc.pos {
	case 1:
		idx = 1 + e.rng.Intn(len(l1)-2)
	case 2:
		idx = len(l1) - 1
	}
	fail := func(what string) {
		if e.st.HarnessErr == "" && len(e.st.Violations) == 0 {
			e.st.HarnessErr = fmt.Sprintf("arrmeta program %d (T=%d pos=%d l=%d r=%d): %s", e.prog, sc.T, sc.pos, sc.l, sc.r, what)
		}
	}
	if sc.l != sibNone && idx > 0 && !e.shrinkTo(idx-1, rule.sibKids(sc.l), e.rng.Intn(3)) {
		fail("left sibling could not be shaped")
		return
	}
	if sc.r != sibNone && idx+1 < len(l1) && !e.shrinkTo(idx+1, rule.sibKids(sc.r), e.rng.Intn(3)) {
		fail("right sibling could not be shaped")
		return
	}
	if !e.shrinkTo(idx, rule.underMin()+1, sc.where) {
		fail("the chosen index slab could not be brought to the smallest legal size")
		return
	}
	// the smallest legal index slab: at T = 276, 304 it has EXACTLY minThreshold bytes and must be left alone
	if _, at := e.shape(); at != nil && at[idx].size == rule.minT {
		e.st.Hit("fn:IsUnderflow@boundary=false")
		e.w.L("TAG IsUnderflow@boundary=false")
	}
	e.dPhase()
	// one more child less: the index slab underflows
	for guard := 0; guard < 4000; guard++ {
		depth, before := e.shape()
		if depth != 3 {
			fail("tree left three levels before the underflow")
			return
		}
		if before[idx].count == 0 {
			fail("no element left below the chosen index slab")
			return
		}
		if !e.dRem(within(before, idx, sc.where)) {
			return
		}
		depthAfter, after := e.shape()
		if depthAfter == 3 && sameArrL1(before, after) {
			continue
		}
		cfg, fns := rule.describeEvent(before, after, depthAfter, idx)
		e.w.L("TAG %s -> %s", cfg, strings.Join(fns, ","))
		for _, f := range fns {
			e.st.Hit("fn:" + f)
		}
		e.st.Hit(cfg + " -> " + fns[len(fns)-1])
		if depthAfter == 2 {
			e.st.Hit("fn:root-promote:3->2")
		}
		e.dPhase()
		// the rest of the array must still answer (replayed on the model)
		for k := 0; k < 12 && len(e.shadow) > 0; k++ {
			e.dGet(uint64(e.rng.Intn(len(e.shadow))))
		}
		if len(e.st.Samples) < 2 {
			e.st.Samples = append(e.st.Samples, fmt.Sprintf("T=%d index slab %d of %d under the root, %s: %s", sc.T, idx, len(before), cfg, strings.Join(fns, ",")))
		}
		return
	}
	fail("the chosen index slab never underflowed")
}

// runArrMetaSweep: the deep-shrink program.  Builds three levels and removes every element from one end / from the
// middle until a single data slab is left: every index-level event on the way is tagged, the root is promoted twice.
func runArrMetaSweep(e *arrEnv, where int) {
	rule := arrRule{T: e.T, minT: e.T / 2}
	if !e.dOpen() {
		return
	}
	if _, ok := e.buildThreeLevels(3, 2, false); !ok {
		return
	}
	e.st.Hit([]string{"sweep:left", "sweep:middle", "sweep:right"}[where])
	for n := 0; len(e.shadow) > 0; n++ {
		depth, before := e.shape()
		var pos uint64
		switch where {
		case 0:
			pos = 0
		case 1:
			pos = uint64(len(e.shadow) / 3)
		default:
			pos = uint64(len(e.shadow) - 1)
		}
		idx := 0
		if depth == 3 {
			for idx = 0; idx+1 < len(before); idx++ {
				if _, hi := span(before, idx); pos < hi {
					break
				}
			}
		}
		if !e.dRem(pos) {
			return
		}
		depthAfter, after := e.shape()
		if depthAfter < depth {
			e.st.Hit(fmt.Sprintf("fn:root-promote:%d->%d", depth, depthAfter))
			e.w.L("TAG root-promote:%d->%d", depth, depthAfter)
			e.dPhase()
		} else if depth == 3 && !sameArrL1(before, after) {
			if len(before[idx].kids) == rule.underMin()+1 {
				cfg, fns := rule.describeEvent(before, after, depthAfter, idx)
				e.w.L("TAG sweep %s -> %s", cfg, strings.Join(fns, ","))
				e.st.Hit("sweep: " + cfg + " -> " + fns[len(fns)-1])
			}
			e.dPhase()
		}
		if n%60 == 59 {
			e.dPhase()
		}
	}
	e.dPhase()
}

// ---------------------------------------------------------------------------------------------
// data-slab lending boundary (sweep survivors #16 / #20 of audit a1)

var dataElemRe = regexp.MustCompile(`(?:\[|,)(\d+):`)

// dataSizes returns the element sizes of a data slab from its dump D(id,next,size,count,inl)[size:desc,...].
func (e *arrEnv) dataSizes(id string) []uint32 {
	d := e.slabDump(id)
	if !strings.HasPrefix(d, "D(") {
		return nil
	}
	var out []uint32
	for _, m := range dataElemRe.FindAllStringSubmatch(d[strings.Index(d, "["):], -1) {
		n, _ := strconv.ParseUint(m[1], 10, 32)
		out = append(out, uint32(n))
	}
	return out
}

func (e *arrEnv) dExact(size uint32) hx.TV {
	e.nextPay++
	return hx.TV{Size: size, Pay: e.nextPay % 250}
}

func (e *arrEnv) dSet(i uint64, v hx.TV) bool {
	e.step++
	e.w.L("OP set h=0 i=%d v=%d:%d", i, v.Size, v.Pay)
	old, err := e.arr.Set(i, v)
	if err != nil {
		e.obsErr(err)
		e.violation("C01", fmt.Sprintf("in-range set at %d of %d failed: %v", i, len(e.shadow), err))
		e.emitEffects()
		return false
	}
	e.w.L("OBS ok:%s", renderStorable(old))
	e.checkReturned("C01", old, e.shadow[i])
	e.shadow[i] = v
	e.emitEffects()
	e.dispose(old)
	return true
}

// runArrDataBoundary: two slab levels at T = 256.  side 0: the FIRST data slab is made to underflow by u bytes while
// its right sibling has exactly minThreshold + u bytes and a first element of exactly u bytes; side 1: the LAST data
// slab underflows by u while its left sibling has minThreshold + u bytes and a last element of u bytes.  The sibling
// can lend exactly on the boundary of `size - need < minThreshold`: the rule says borrow / lend, not merge.
func runArrDataBoundary(e *arrEnv, side int) {
	const u = 10
	minT := e.T / 2
	if !e.dOpen() {
		return
	}
	fail := func(what string) {
		if e.st.HarnessErr == "" && len(e.st.Violations) == 0 {
			e.st.HarnessErr = fmt.Sprintf("arrmeta data-boundary program (side %d): %s", side, what)
		}
	}
	var root aMeta
	for i := 0; i < 60; i++ {
		if !e.dIns(uint64(len(e.shadow)), e.dExact(100)) {
			return
		}
		var ok bool
		if root, ok = parseArrMeta(atree.VerifDumpSlab(atree.VerifArrayRoot(e.arr), hx.Describe)); ok && len(root.kids) >= 3 {
			break
		}
	}
	if len(root.kids) < 3 {
		fail("could not build three data slabs")
		return
	}
	n := len(root.kids)
	ai, si := 0, 1 // the slab that will underflow, the sibling that will lend
	if side == 1 {
		ai, si = n-1, n-2
	}
	start := func(k int) uint64 {
		var s uint64
		for j := 0; j < k; j++ {
			s += uint64(root.kids[j].count)
		}
		return s
	}
	sum := func(xs []uint32) (t uint32) {
		for _, x := range xs {
			t += x
		}
		return t
	}
	A, S := e.dataSizes(root.kids[ai].id), e.dataSizes(root.kids[si].id)
	if len(A) < 2 || len(S) < 2 {
		fail("data slabs with fewer than two elements")
		return
	}
	prefix := int(root.kids[si].size - sum(S)) // arrayDataSlabPrefixSize, read off the real slab
	// sibling: [u, x, rest...] (side 0) resp. [rest..., x, u] (side 1) with prefix + sum == minThreshold + u
	outer, inner := 0, 1
	if side == 1 {
		outer, inner = len(S)-1, len(S)-2
	}
	x := int(minT) - prefix - int(sum(S)-S[outer]-S[inner])
	if x < 2 || x > int(e.maxInl) {
		fail(fmt.Sprintf("sibling cannot be tuned (inner element would need %d bytes)", x))
		return
	}
	if !e.dSet(start(si)+uint64(inner), e.dExact(uint32(x))) || !e.dSet(start(si)+uint64(outer), e.dExact(u)) {
		return
	}
	// underflowing slab: after the removal of its outer element prefix + sum == minThreshold - u
	aOuter, aInner := 0, 1
	if side == 1 {
		aOuter, aInner = len(A)-1, 0
	}
	y := int(minT) - u - prefix - int(sum(A)-A[aOuter]-A[aInner])
	if y < 2 || y > int(e.maxInl) {
		fail(fmt.Sprintf("underflowing slab cannot be tuned (element would need %d bytes)", y))
		return
	}
	if !e.dSet(start(ai)+uint64(aInner), e.dExact(uint32(y))) {
		return
	}
	before, _ := parseArrMeta(atree.VerifDumpSlab(atree.VerifArrayRoot(e.arr), hx.Describe))
	S2 := e.dataSizes(before.kids[si].id)
	if len(before.kids) != n || before.kids[si].size != minT+u || before.kids[ai].size-A[aOuter] != minT-u || S2[outer] != u {
		fail("tuned slabs do not have the intended sizes")
		return
	}
	e.dPhase()
	if !e.dRem(start(ai) + uint64(aOuter)) {
		return
	}
	after, _ := parseArrMeta(atree.VerifDumpSlab(atree.VerifArrayRoot(e.arr), hx.Describe))
	fn := "unexplained"
	switch {
	case len(after.kids) == n-1 && side == 0:
		fn = "child.Merge(right)"
	case len(after.kids) == n-1:
		fn = "left.Merge(child)"
	case len(after.kids) == n && after.kids[si].size < before.kids[si].size && side == 0:
		fn = "child.BorrowFromRight(right)"
	case len(after.kids) == n && after.kids[si].size < before.kids[si].size:
		fn = "left.LendToRight(child)"
	}
	tag := []string{"data:right.CanLendToLeft@boundary", "data:left.CanLendToRight@boundary"}[side] + " -> " + fn
	e.w.L("TAG %s", tag)
	e.st.Hit(tag)
	e.dPhase()
	// shrink to nothing: the rest of the program is a plain drain from the chosen end
	for len(e.shadow) > 0 {
		pos := uint64(0)
		if side == 1 {
			pos = uint64(len(e.shadow) - 1)
		}
		if !e.dRem(pos) {
			return
		}
	}
	e.dPhase()
}
