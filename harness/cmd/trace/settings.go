package main

import (
	"fmt"
	"path/filepath"

	"github.com/onflow/atree"

	"verifharness/hx"
)

func init() { streams["settings"] = settingsStream }

// settingsStream dumps the compiled values of the package constants and the result of the real
// setThreshold for EVERY legal slab size; the Lean driver compares them with the regenerated
// constants and with the model's Settings.lean (exhaustive: 32513 thresholds).
func settingsStream(cfg *Config) *hx.Stats {
	st := hx.NewStats("settings", cfg.Seed)
	w := hx.NewW(filepath.Join(cfg.Out, fmt.Sprintf("settings-%d.trace", cfg.Seed)))
	defer w.Close()
	st.TraceFiles = append(st.TraceFiles, w.Path)
	consts := atree.VerifConsts()
	for _, k := range hx.SortedKeys(consts) {
		w.L("CONST %s=%d", k, consts[k])
	}
	// (not in VerifConsts(): the exported getter; cross-checked against the regenerated constant like the others)
	w.L("CONST maxStorableSizeInStorableSlab=%d", atree.MaxStorableSizeInStorableSlab())
	bounds := newSettingsBounds(st, w, cfg.Seed, consts) // settingsbounds.go: model-free oracle (C05)
	for T := uint32(256); T <= 32768; T++ {
		r0, r1, r2, r3 := atree.VerifSetThreshold(T)
		target, minT, maxT, arr, mapElem, mapKey := atree.VerifThresholds()
		w.L("SET T=%d min=%d max=%d arr=%d mapelem=%d mapkey=%d mapval9=%d", target, minT, maxT, arr, mapElem, mapKey, atree.VerifMaxInlineMapValueSize(9))
		bounds.check(T, r0, r1, r2, r3)
		st.Ops++
	}
	bounds.finish()
	atree.VerifSetThreshold(1024)
	st.Programs = 1
	st.Distinct = int(st.Ops)
	st.Exhaustive = true
	st.TraceLines = w.Lines
	st.Samples = append(st.Samples, "setThreshold(T) for every T in 256..32768 and every constant of VerifConsts()")
	return st
}
