package main

import (
	"fmt"
	"math/rand"
	"os"
	"path/filepath"
	"sort"
	"strings"
	"time"

	"github.com/onflow/atree"

	"verifharness/hx"
)

func init() { streams["storage"] = storageStream }

const (
	verBad     = 999 // a slab whose Encode fails
	verGarbage = 998 // a register that does not decode
)

// badStorable fails to encode (an EncodeSlab failure during commit).
type badStorable struct{ hx.TV }

func (b badStorable) Encode(*atree.Encoder) error { return fmt.Errorf("unencodable") }

type storEnv struct {
	w      *hx.W
	st     *hx.Stats
	cfg    *Config
	rng    *rand.Rand
	ledger *hx.Ledger
	ps     *atree.PersistentSlabStorage
	ids    []atree.SlabID
	bad    atree.Slab
	prog   int
	step   int
	// model-free oracle: a Go-map overlay
	pend map[atree.SlabID]int // -1 = pending deletion
	comm map[atree.SlabID]int
}

func mkSlab(id atree.SlabID, ver int) atree.Slab {
	tv := hx.TV{Size: 10, Pay: uint64(ver)}
	b, err := atree.EncodeSlab(mustStorableSlab(id, tv), hx.EncMode())
	if err != nil {
		panic(err)
	}
	s, err := atree.DecodeSlab(id, b, hx.DecMode(), hx.DecodeStorable, hx.DecodeTypeInfo)
	if err != nil {
		panic(err)
	}
	return s
}

// mustStorableSlab builds a StorableSlab through the public constructor on a scratch storage.
func mustStorableSlab(id atree.SlabID, st atree.Storable) atree.Slab {
	scratch := hx.NewStorage(hx.NewLedger())
	ref, err := atree.NewStorableSlab(scratch, id.Address(), st, st.ByteSize())
	if err != nil {
		panic(err)
	}
	s, ok, err := scratch.Retrieve(atree.SlabID(ref.(atree.SlabIDStorable)))
	if err != nil || !ok {
		panic("scratch slab missing")
	}
	return s
}

func slabVer(s atree.Slab) string {
	if s == nil {
		return "-"
	}
	cs := s.ChildStorables()
	if len(cs) == 1 {
		switch x := cs[0].(type) {
		case hx.TV:
			return fmt.Sprintf("%d", x.Pay)
		case slowTV:
			return fmt.Sprintf("%d", x.Pay)
		case badStorable:
			return fmt.Sprintf("%d", verBad)
		}
	}
	return "?"
}

func (e *storEnv) violation(prop, what string) {
	e.st.Violations = append(e.st.Violations, hx.Violation{
		Property: prop, Stream: e.st.Stream, Seed: e.cfg.Seed, Program: e.prog, Step: e.step, What: what, Trace: e.w.Path, Line: e.w.Lines,
	})
}

// guard runs a call into the library that starts worker goroutines under a watchdog: a commit or
// preload that never returns (workers blocked on a full result queue while the caller waits for
// them) would otherwise hang the stream; in a -race build the runtime does not report the deadlock.
func (e *storEnv) guard(what string, f func() error) error {
	done := make(chan error, 1)
	go func() { done <- f() }()
	select {
	case err := <-done:
		return err
	case <-time.After(90 * time.Second):
		for _, p := range []string{"C16", "C14"} {
			e.violation(p, what+" did not return within 90 s (hang)")
		}
		e.w.Close()
		e.st.TraceFiles = []string{} // the trace ends mid-operation: nothing to replay
		e.st.Emit()
		os.Exit(0)
		return nil
	}
}

func (e *storEnv) regVer(b []byte) int {
	s, err := atree.DecodeSlab(atree.SlabID{}, b, hx.DecMode(), hx.DecodeStorable, hx.DecodeTypeInfo)
	if err != nil {
		return verGarbage
	}
	var v int
	fmt.Sscanf(slabVer(s), "%d", &v)
	return v
}

func (e *storEnv) emitView() {
	deltas := atree.VerifDeltas(e.ps)
	cache := atree.VerifCache(e.ps)
	var parts []string
	for _, id := range e.ids {
		var s string
		if v, ok := deltas[id]; ok {
			s = "D" + slabVer(v)
		} else if v, ok := cache[id]; ok {
			s = "C" + slabVer(v)
		} else if b, ok := e.ledger.Seg[id]; ok {
			s = fmt.Sprintf("B%d", e.regVer(b))
		} else {
			s = "."
		}
		// what the ledger holds, always
		if b, ok := e.ledger.Seg[id]; ok {
			s += fmt.Sprintf("/%d", e.regVer(b))
		} else {
			s += "/-"
		}
		parts = append(parts, hx.IDStr(id)+"="+s)
	}
	e.w.L("VIEW %s", strings.Join(parts, " "))
	b2i := func(b bool) int {
		if b {
			return 1
		}
		return 0
	}
	e.w.L("CNT deltas=%d nontemp=%d size=%d unsaved0=%d unsaved1=%d unsaved2=%d",
		e.ps.Deltas(), e.ps.DeltasWithoutTempAddresses(), e.ps.DeltasSizeWithoutTempAddresses(),
		b2i(e.ps.HasUnsavedChanges(hx.MkAddr(0))), b2i(e.ps.HasUnsavedChanges(hx.MkAddr(1))), b2i(e.ps.HasUnsavedChanges(hx.MkAddr(2))))
	// model-free: the observers of the write set against the write set itself (hook VerifDeltas)
	var owned, size uint64
	has := map[uint64]bool{}
	for id, s := range deltas {
		has[id.AddressAsUint64()] = true
		if id.AddressAsUint64() != 0 {
			owned++
			if s != nil {
				size += uint64(s.ByteSize())
			}
		}
	}
	if got := uint64(e.ps.Deltas()); got != uint64(len(deltas)) {
		e.violation("C15", fmt.Sprintf("Deltas() = %d, the write set holds %d entries", got, len(deltas)))
	}
	if got := uint64(e.ps.DeltasWithoutTempAddresses()); got != owned {
		e.violation("C15", fmt.Sprintf("DeltasWithoutTempAddresses() = %d, the write set holds %d entries under owned addresses", got, owned))
	}
	if got := e.ps.DeltasSizeWithoutTempAddresses(); got != size {
		e.violation("C15", fmt.Sprintf("DeltasSizeWithoutTempAddresses() = %d, the pending slabs under owned addresses have %d bytes", got, size))
	}
	for a := uint64(0); a <= 2; a++ {
		if got := e.ps.HasUnsavedChanges(hx.MkAddr(a)); got != has[a] {
			e.violation("C15", fmt.Sprintf("HasUnsavedChanges(%d) = %v, the write set holds an entry under that address: %v", a, got, has[a]))
		}
	}
}

// readObs renders what a retrieve flavour returned: the slab (version), the found flag and, next
// to an error, whether a slab value came back with it.
func readObs(s atree.Slab, found bool, err error) string {
	f := 0
	if found {
		f = 1
	}
	if err != nil {
		v := "nil"
		if s != nil {
			v = "set"
		}
		return fmt.Sprintf("err:%s found=%d slab=%s", hx.ErrKind(err), f, v)
	}
	return fmt.Sprintf("slab:%s found=%d", slabVer(s), f)
}

// checkReadErr: model-free reading of the three results of a FAILED read.  No slab comes back with
// an error; the found flag is the base storage's answer: the flag the ledger returned next to its
// own failure, true for a register that exists but does not decode.
func (e *storEnv) checkReadErr(what string, id atree.SlabID, s atree.Slab, found bool, err error, ledgerFound bool) {
	if err == nil {
		return
	}
	if s != nil {
		e.violation("C15", fmt.Sprintf("%s(%s) returned a slab value (%T) together with the error %s", what, hx.IDStr(id), s, hx.ErrKind(err)))
	}
	if found != ledgerFound {
		e.violation("C15", fmt.Sprintf("%s(%s) failed with %s and found=%v; the base storage answered found=%v", what, hx.IDStr(id), hx.ErrKind(err), found, ledgerFound))
	}
}

// cacheEffect: who populates the read cache.  A read served from the write set or the cache, a
// cache-bypassing read and a failed read leave it alone; a successful read that reached the ledger
// with caching on adds exactly the decoded slab it returns.  No read touches the write set.
func (e *storEnv) cacheEffect(what string, id atree.SlabID, before layers, s atree.Slab, found bool, err error, viaDeltas, caching bool) {
	after := e.snap()
	if !sameLayer(before.deltas, after.deltas) {
		e.violation("C15", what+": the write set changed")
	}
	_, inD := before.deltas[id]
	_, inC := before.cache[id]
	if (viaDeltas && inD) || inC || !caching || err != nil || !found {
		if !sameLayer(before.cache, after.cache) {
			e.violation("C15", fmt.Sprintf("%s(%s): the read cache changed (%d -> %d entries) although the read was served from memory, bypasses the cache, found nothing or failed", what, hx.IDStr(id), len(before.cache), len(after.cache)))
		}
		return
	}
	if c, ok := after.cache[id]; !ok || c != s {
		e.violation("C15", fmt.Sprintf("%s(%s) read the slab from the ledger but the read cache does not hold the returned slab afterwards", what, hx.IDStr(id)))
	}
	delete(after.cache, id)
	if !sameLayer(before.cache, after.cache) {
		e.violation("C15", fmt.Sprintf("%s(%s): other entries of the read cache changed", what, hx.IDStr(id)))
	}
}

// oracle view
func (e *storEnv) oview(id atree.SlabID) (int, bool) {
	if v, ok := e.pend[id]; ok {
		return v, v >= 0
	}
	v, ok := e.comm[id]
	return v, ok
}

func (e *storEnv) checkRead(what string, id atree.SlabID, got atree.Slab, found bool) {
	want, ok := e.oview(id)
	if want == verGarbage {
		return
	}
	if ok != found {
		e.violation("C15", fmt.Sprintf("%s(%s): found=%v, overlay says %v", what, hx.IDStr(id), found, ok))
		return
	}
	if ok && slabVer(got) != fmt.Sprintf("%d", want) {
		e.violation("C15", fmt.Sprintf("%s(%s) = version %s, overlay says %d", what, hx.IDStr(id), slabVer(got), want))
	}
}

func storageStream(cfg *Config) (res *hx.Stats) {
	st := hx.NewStats("storage", cfg.Seed)
	rng := rand.New(rand.NewSource(cfg.Seed*104729 + 5))
	w := hx.NewW(filepath.Join(cfg.Out, fmt.Sprintf("storage-%d.trace", cfg.Seed)))
	defer w.Close()
	st.TraceFiles = append(st.TraceFiles, w.Path)
	defer recoverAsViolation(st, w, &res)
	nProg := int(120 * cfg.Scale)
	seen := map[string]bool{}
	for p := 0; p < nProg; p++ {
		e := &storEnv{w: w, st: st, cfg: cfg, rng: rng, prog: p}
		sig := runStorageProgram(e, 40+rng.Intn(120), p)
		st.Programs++
		seen[sig] = true
		if len(st.Violations) > 20 {
			break
		}
	}
	st.TraceLines = w.Lines
	st.Distinct = len(seen)
	return st
}

func runStorageProgram(e *storEnv, nOps int, p int) string {
	w := e.w
	e.ledger = hx.NewLedger()
	e.ps = hx.NewStorage(e.ledger)
	e.pend = map[atree.SlabID]int{}
	e.comm = map[atree.SlabID]int{}
	// identifier universe: a temporary-address one, several owned ones under two owners
	nIDs := 3 + e.rng.Intn(4)
	if p%7 == 0 {
		nIDs = 14 // enough for the parallel preload path
	}
	e.ids = []atree.SlabID{hx.MkIDn(0, 1)}
	for i := 0; i < nIDs; i++ {
		e.ids = append(e.ids, hx.MkIDn(uint64(1+i%2), uint64(1+i/2)))
	}
	hx.SortIDs(e.ids)
	e.bad = mustStorableSlab(hx.MkIDn(1, 77), badStorable{hx.TV{Size: 10, Pay: verBad}})
	w.L("ST new ids=%s", strings.Join(idStrs(e.ids), ","))
	var sig strings.Builder
	withBad := p%5 == 4
	// an undecodable register is only planted when preloads take the sequential (< 11 ids) path:
	// in the parallel path the set of entries cached before the failing result arrives depends on the schedule
	withGarbage := p%6 == 5 && len(e.ids) <= 10
	ver := 0
	// every third program lets its write set grow before it commits (fault positions deep in a commit)
	// (not in programs with unencodable slabs: there the size of the write set after a failed
	// order-relaxed commit depends on the schedule, and the generated history must not)
	lazyCommit := p%3 == 1 && p%5 != 4
	for e.step = 0; e.step < nOps; e.step++ {
		id := e.ids[e.rng.Intn(len(e.ids))]
		r := e.rng.Intn(100)
		did := true
		if lazyCommit && r >= 61 && r < 79 {
			// (the draws do not depend on the storage's state: the history is a function of the seed)
			want, keep, alt := 2+e.rng.Intn(len(e.ids)), e.rng.Intn(4) == 0, e.rng.Intn(32)
			if int(e.ps.DeltasWithoutTempAddresses()) < want && !keep {
				r = alt // a store or a removal instead of the commit
			}
		}
		switch {
		case r < 22:
			ver++
			v := ver
			var slab atree.Slab
			if withBad && e.rng.Intn(12) == 0 && id.AddressAsUint64() != 0 {
				v = verBad
				slab = e.bad
			} else {
				slab = mkSlab(id, v)
			}
			if e.rng.Intn(40) == 0 {
				id = atree.SlabIDUndefined
			}
			w.L("ST store id=%s ver=%d", hx.IDStr(id), v)
			err := e.ps.Store(id, slab)
			w.L("OBS %s", obsErr(err))
			if id == atree.SlabIDUndefined && hx.ErrKind(err) != "SlabIDUndefined:Fatal" {
				e.violation("C15", "Store under the undefined identifier: "+obsErr(err)+", want a fatal SlabIDError")
			}
			if err == nil {
				e.pend[id] = v
			} else if id != atree.SlabIDUndefined {
				e.violation("C15", "Store failed: "+err.Error())
			}
			sig.WriteByte('s')
		case r < 32:
			if e.rng.Intn(40) == 0 {
				id = atree.SlabIDUndefined
			}
			w.L("ST remove id=%s", hx.IDStr(id))
			err := e.ps.Remove(id)
			w.L("OBS %s", obsErr(err))
			if id == atree.SlabIDUndefined && hx.ErrKind(err) != "SlabIDUndefined:Fatal" {
				e.violation("C15", "Remove of the undefined identifier: "+obsErr(err)+", want a fatal SlabIDError")
			}
			if err == nil {
				e.pend[id] = -1
			} else if id != atree.SlabIDUndefined {
				e.violation("C15", "Remove failed: "+err.Error())
			}
			sig.WriteByte('r')
		case r < 47:
			w.L("ST get id=%s", hx.IDStr(id))
			before := e.snap()
			s, found, err := e.ps.Retrieve(id)
			w.L("OBS %s", readObs(s, found, err))
			e.cacheEffect("Retrieve", id, before, s, found, err, true, true)
			if err != nil {
				_, inLedger := e.ledger.Seg[id]
				e.checkReadErr("Retrieve", id, s, found, err, inLedger)
			} else {
				e.checkRead("Retrieve", id, s, found)
				if found != (s != nil) {
					e.violation("C15", "Retrieve: found flag disagrees with slab")
				}
			}
			sig.WriteByte('g')
		case r < 54:
			w.L("ST getloaded id=%s", hx.IDStr(id))
			before := e.snap()
			s := e.ps.RetrieveIfLoaded(id)
			w.L("OBS slab:%s", slabVer(s))
			if s != nil {
				e.checkRead("RetrieveIfLoaded", id, s, true)
			}
			// exactly what the in-memory layers hold: the pending entry if there is one, else the cached one
			want, ok := before.deltas[id]
			if !ok {
				want = before.cache[id]
			}
			if s != want {
				e.violation("C15", fmt.Sprintf("RetrieveIfLoaded(%s) = version %s, the write set / cache hold version %s", hx.IDStr(id), slabVer(s), slabVer(want)))
			}
			e.noTrace(fmt.Sprintf("RetrieveIfLoaded(%s)", hx.IDStr(id)), before, false)
			sig.WriteByte('l')
		case r < 61:
			c := e.rng.Intn(2)
			w.L("ST getnodelta id=%s cache=%d", hx.IDStr(id), c)
			before := e.snap()
			s, found, err := e.ps.RetrieveIgnoringDeltas(id, c == 1)
			w.L("OBS %s", readObs(s, found, err))
			e.cacheEffect("RetrieveIgnoringDeltas", id, before, s, found, err, false, c == 1)
			if err != nil {
				_, inLedger := e.ledger.Seg[id]
				e.checkReadErr("RetrieveIgnoringDeltas", id, s, found, err, inLedger)
			} else {
				if found != (s != nil) {
					e.violation("C15", "RetrieveIgnoringDeltas: found flag disagrees with slab")
				}
				if cv, ok := e.comm[id]; ok && cv != verGarbage && slabVer(s) != fmt.Sprintf("%d", cv) {
					e.violation("C15", fmt.Sprintf("RetrieveIgnoringDeltas(%s) = %s, ledger has %d", hx.IDStr(id), slabVer(s), cv))
				}
			}
			sig.WriteByte('n')
		case r < 79:
			e.commit(&sig)
		case r < 82:
			w.L("ST dropdeltas")
			e.ps.DropDeltas()
			e.pend = map[atree.SlabID]int{}
			sig.WriteByte('D')
		case r < 86:
			w.L("ST dropcache")
			e.ps.DropCache()
			sig.WriteByte('C')
		case r < 91:
			// preload a random subset (all ids when the universe is large: parallel path)
			var ids []atree.SlabID
			for _, x := range e.ids {
				if len(e.ids) > 12 || e.rng.Intn(2) == 0 {
					ids = append(ids, x)
				}
			}
			workers := 1 + e.rng.Intn(8)
			if len(ids) > 0 && e.rng.Intn(4) == 0 {
				e.failingPreload(ids, workers)
				sig.WriteByte('P')
				break
			}
			w.L("ST preload ids=%s workers=%d", strings.Join(idStrs(ids), ","), workers)
			err := e.guard(fmt.Sprintf("BatchPreload of %d identifiers, %d workers", len(ids), workers), func() error { return e.ps.BatchPreload(ids, workers) })
			w.L("OBS %s", obsErr(err))
			sig.WriteByte('p')
		case r < 93:
			w.L("ST recreate")
			e.ps = hx.NewStorage(e.ledger)
			e.pend = map[atree.SlabID]int{}
			sig.WriteByte('R')
		case r < 95:
			e.failingGenID(uint64(e.rng.Intn(3)))
			sig.WriteByte('I')
		case r < 97:
			a := uint64(e.rng.Intn(3))
			w.L("ST genid addr=%d", a)
			nid, err := e.ps.GenerateSlabID(hx.MkAddr(a))
			if err != nil {
				w.L("OBS err:%s", hx.ErrKind(err))
			} else {
				w.L("OBS id:%s", hx.IDStr(nid))
			}
			sig.WriteByte('i')
		default:
			did = false
			if !withGarbage {
				e.failingRead(id)
				sig.WriteByte('F')
				did = true
			} else if id.AddressAsUint64() != 0 {
				// external corruption of a register that is neither pending nor cached
				if _, d := atree.VerifDeltas(e.ps)[id]; !d {
					if _, c := atree.VerifCache(e.ps)[id]; !c {
						w.L("ST corrupt id=%s", hx.IDStr(id))
						forms := garbageRegisters()
						e.ledger.Seg[id] = forms[(e.prog+e.step)%len(forms)] // (no draw here: the history stays a function of the seed)
						e.comm[id] = verGarbage
						sig.WriteByte('x')
						did = true
					}
				}
			}
		}
		if did {
			e.emitView()
		}
		if e.step%10 == 9 {
			// C15: every identifier reads as the overlay says
			for _, x := range e.ids {
				if want, _ := e.oview(x); want == verGarbage {
					continue
				}
				s, found, err := e.ps.Retrieve(x)
				if err == nil {
					e.checkRead("sweep Retrieve", x, s, found)
				}
			}
			// the sweep may have populated the cache; tell the model
			w.L("ST sweep")
			e.emitView()
		}
	}
	e.st.Ops += nOps
	if len(e.st.Samples) < 3 {
		e.st.Samples = append(e.st.Samples, fmt.Sprintf("ids=%d ops=%s", len(e.ids), sig.String()))
	}
	return sig.String()
}

var garbageForms [][]byte

// garbageRegisters: registers that do not decode, of every shape DecodeSlab tells apart: too short
// for a head, and a valid head of each container slab kind (array data / index slab, map data /
// index slab) followed by a payload that is cut off - the decoder of that kind runs and fails.  (The
// payload of a large-value slab is decoded by the caller's StorableDecoder alone.)
func garbageRegisters() [][]byte {
	if garbageForms != nil {
		return garbageForms
	}
	forms := [][]byte{{0x10}}
	// (the longest prefix the LIBRARY's decoder rejects: a prefix that fails inside the caller's
	// StorableDecoder / TypeInfoDecoder comes back as an external error, which is another outcome)
	cut := func(b []byte) {
		for n := len(b) - 1; n >= 2; n-- {
			if _, err := atree.DecodeSlab(atree.SlabID{}, b[:n], hx.DecMode(), hx.DecodeStorable, hx.DecodeTypeInfo); err != nil && hx.ErrKind(err) == "Decoding:Fatal" {
				forms = append(forms, append([]byte(nil), b[:n]...))
				return
			}
		}
	}
	enc := func(s atree.Slab) []byte {
		b, err := atree.EncodeSlab(s, hx.EncMode())
		if err != nil {
			panic(err)
		}
		return b
	}
	addr := hx.MkAddr(1)
	for _, n := range []int{5, 400} { // one data slab; an index slab over several data slabs
		scratch := hx.NewStorage(hx.NewLedger())
		a, err := atree.NewArray(scratch, addr, hx.TI(1))
		if err != nil {
			panic(err)
		}
		m, err := atree.NewMap(scratch, addr, atree.NewDefaultDigesterBuilder(), hx.TI(2))
		if err != nil {
			panic(err)
		}
		for i := 0; i < n; i++ {
			if err := a.Append(hx.TV{Size: 20, Pay: uint64(i)}); err != nil {
				panic(err)
			}
			if _, err := m.Set(hx.CompareKey, hx.HashInput, hx.TV{Size: 9, Pay: uint64(i + 1)}, hx.TV{Size: 20, Pay: uint64(i)}); err != nil {
				panic(err)
			}
		}
		cut(enc(atree.VerifArrayRoot(a)))
		cut(enc(atree.VerifMapRoot(m)))
	}
	if len(forms) < 5 {
		panic(fmt.Sprintf("only %d of 5 garbage register forms could be built", len(forms)))
	}
	garbageForms = forms
	return forms
}

// snapshot of the in-memory layers (object identity included) for "left no trace" oracles
type layers struct {
	deltas, cache map[atree.SlabID]atree.Slab
	temp         uint64
	regs         map[string]string
	calls        int
}

func (e *storEnv) snap() layers {
	return layers{atree.VerifDeltas(e.ps), atree.VerifCache(e.ps), atree.VerifTempSlabIndex(e.ps), regsOf(e.ledger), len(e.ledger.Log)}
}

func sameLayer(a, b map[atree.SlabID]atree.Slab) bool {
	if len(a) != len(b) {
		return false
	}
	for k, v := range a {
		if w, ok := b[k]; !ok || w != v {
			return false
		}
	}
	return true
}

func (e *storEnv) noTrace(what string, before layers, cacheMayGrow bool) {
	after := e.snap()
	if !sameLayer(before.deltas, after.deltas) {
		e.violation("C15", what+": the write set changed")
	}
	if !cacheMayGrow && !sameLayer(before.cache, after.cache) {
		e.violation("C15", what+": the read cache changed")
	}
	if before.temp != after.temp {
		e.violation("C15", what+": the temporary-identifier counter changed")
	}
	if diffRegs(before.regs, after.regs) != "" || before.calls != after.calls {
		e.violation("C15", what+": the ledger was written")
	}
}

// failingRead (D6): Retrieve / RetrieveIgnoringDeltas while the ledger read of id fails.  Served from
// the write set or the cache the call never reaches the ledger; otherwise the failure must come back
// as an external error and leave no trace.
func (e *storEnv) failingRead(id atree.SlabID) {
	mode := e.rng.Intn(3)
	// the found flag the ledger returns next to its failure: RetrieveIgnoringDeltas hands it on
	bfound := e.rng.Intn(2)
	e.w.L("ST failget id=%s mode=%d bfound=%d", hx.IDStr(id), mode, bfound)
	before := e.snap()
	_, inDeltas := before.deltas[id]
	_, inCache := before.cache[id]
	e.ledger.ReadFail[id] = true
	e.ledger.ReadFailFound = bfound == 1
	defer func() { e.ledger.ReadFailFound = false }()
	var s atree.Slab
	var found bool
	var err error
	if mode == 0 {
		s, found, err = e.ps.Retrieve(id)
	} else {
		s, found, err = e.ps.RetrieveIgnoringDeltas(id, mode == 2)
	}
	delete(e.ledger.ReadFail, id)
	what := fmt.Sprintf("read of %s (mode %d) with a failing ledger read", hx.IDStr(id), mode)
	if (mode == 0 && inDeltas) || inCache {
		e.st.Hit("failing-read:served-in-memory")
		e.w.L("OBS %s", readObs(s, found, err))
		if err != nil {
			e.violation("C15", what+": failed although the identifier is served from memory: "+hx.ErrKind(err))
		} else {
			if mode == 0 {
				e.checkRead("Retrieve", id, s, found)
			}
			if found != (s != nil) {
				e.violation("C15", what+": found flag disagrees with slab")
			}
		}
	} else {
		e.st.Hit("failing-read:reached-the-ledger")
		e.w.L("OBS %s", readObs(s, found, err))
		if err == nil {
			e.violation("C15", what+": returned no error")
		} else {
			if hx.ErrKind(err) != "Injected:External" {
				e.violation("C15", what+": reported as "+hx.ErrKind(err))
			}
			e.checkReadErr(what, id, s, found, err, bfound == 1)
		}
	}
	e.noTrace(what, before, false)
}

// failingGenID (D6): GenerateSlabID while the ledger's allocation fails: external error, nothing
// allocated (the next successful allocation continues where the last one stopped: compared with the
// model by the following genid lines); temporary identifiers never reach the ledger.
func (e *storEnv) failingGenID(a uint64) {
	e.w.L("ST failgenid addr=%d", a)
	before := e.snap()
	idx := map[atree.Address]uint64{}
	for k, v := range e.ledger.Idx {
		idx[k] = v
	}
	e.ledger.AllocFail = true
	nid, err := e.ps.GenerateSlabID(hx.MkAddr(a))
	e.ledger.AllocFail = false
	what := fmt.Sprintf("GenerateSlabID(%d) with a failing ledger allocation", a)
	if a == 0 {
		e.st.Hit("failing-alloc:temporary-address")
		if err != nil {
			e.violation("C15", what+": a temporary identifier needed the ledger: "+hx.ErrKind(err))
			e.w.L("OBS err:%s", hx.ErrKind(err))
		} else {
			e.w.L("OBS id:%s", hx.IDStr(nid))
		}
		before.temp = atree.VerifTempSlabIndex(e.ps)
	} else {
		e.st.Hit("failing-alloc:owned-address")
		if err == nil {
			e.violation("C15", what+": returned no error")
			e.w.L("OBS id:%s", hx.IDStr(nid))
		} else {
			e.w.L("OBS err:%s", hx.ErrKind(err))
			if hx.ErrKind(err) != "Injected:External" {
				e.violation("C15", what+": reported as "+hx.ErrKind(err))
			}
		}
	}
	for k, v := range e.ledger.Idx {
		if idx[k] != v {
			e.violation("C15", what+": the ledger's index counter moved")
		}
	}
	e.noTrace(what, before, false)
}

// failingPreload (D6/D4): BatchPreload while the ledger read of one requested identifier fails.
func (e *storEnv) failingPreload(ids []atree.SlabID, workers int) {
	fail := ids[e.rng.Intn(len(ids))]
	e.w.L("ST failpreload ids=%s workers=%d fail=%s", strings.Join(idStrs(ids), ","), workers, hx.IDStr(fail))
	before := e.snap()
	e.ledger.ReadFail[fail] = true
	err := e.guard(fmt.Sprintf("BatchPreload of %d identifiers, %d workers, with a failing ledger read", len(ids), workers), func() error { return e.ps.BatchPreload(ids, workers) })
	delete(e.ledger.ReadFail, fail)
	e.w.L("OBS %s", obsErr(err))
	what := fmt.Sprintf("BatchPreload of %d identifiers with a failing ledger read", len(ids))
	if err == nil {
		e.violation("C15", what+": returned no error")
	} else if k := hx.ErrKind(err); k != "Injected:External" && k != "Decoding:Fatal" {
		e.violation("C15", what+": reported as "+k)
	}
	if len(ids) >= 11 {
		e.st.Hit("failing-preload:parallel-path")
		e.noTrace(what, before, false)
	} else {
		e.st.Hit("failing-preload:sequential-path")
		e.noTrace(what, before, true)
	}
	// the view is unchanged either way (every cached entry is the decoding of its register)
	for _, x := range e.ids {
		if want, _ := e.oview(x); want == verGarbage {
			continue
		}
		if s := e.ps.RetrieveIfLoaded(x); s != nil {
			e.checkRead("RetrieveIfLoaded after a failed preload", x, s, true)
		}
	}
}

func obsErr(err error) string {
	if err == nil {
		return "ok"
	}
	return "err:" + hx.ErrKind(err)
}

func idStrs(ids []atree.SlabID) []string {
	s := make([]string, len(ids))
	for i, id := range ids {
		s[i] = hx.IDStr(id)
	}
	return s
}

func (e *storEnv) commit(sig *strings.Builder) {
	w := e.w
	kind := "det"
	if e.rng.Intn(3) == 0 {
		kind = "nondet"
	}
	workers := []int{1, 2, 3, 8, 64}[e.rng.Intn(5)]
	e.ledger.ResetCalls()
	var faults []int
	// fault plan: positions among the ledger calls this commit can issue (one per owned pending
	// entry), so that a planned fault fires unless an earlier one or an encode failure stops the commit
	// first; the larger the write set, the more often a plan is drawn
	pendingOwned := int(e.ps.DeltasWithoutTempAddresses())
	pFault := []int{5, 25, 40, 50}[min(pendingOwned, 3)]
	if pendingOwned >= 5 {
		pFault = 65
	}
	// (a fixed number of draws per commit, whatever the state)
	roll, n, raw := e.rng.Intn(100), 1+e.rng.Intn(2), [2]int{e.rng.Intn(1 << 20), e.rng.Intn(1 << 20)}
	if roll < pFault {
		for i := 0; i < n; i++ {
			f := raw[i] % max(pendingOwned, 1)
			if !e.ledger.FailAt[f] {
				e.ledger.FailAt[f] = true
				faults = append(faults, f)
			}
		}
		sort.Ints(faults)
	}
	// what a fault-free commit must leave in the ledger (oracle for C14/C15)
	fs := make([]string, len(faults))
	for i, f := range faults {
		fs[i] = fmt.Sprintf("%d", f)
	}
	err := e.guard(fmt.Sprintf("commit kind=%s workers=%d with %d owned pending entries", kind, workers, pendingOwned), func() error {
		if kind == "det" {
			return e.ps.FastCommit(workers)
		}
		return e.ps.NondeterministicFastCommit(workers)
	})
	var logParts, mo, dlo []string
	for _, c := range e.ledger.Log {
		s := ""
		if c.Kind == 'S' {
			s = fmt.Sprintf("S:%s:%d", hx.IDStr(c.ID), e.regVer(c.Data))
			mo = append(mo, hx.IDStr(c.ID))
		} else {
			s = "R:" + hx.IDStr(c.ID)
			dlo = append(dlo, hx.IDStr(c.ID))
		}
		if !c.OK {
			s += "!"
		}
		logParts = append(logParts, s)
	}
	if err != nil && kind == "nondet" && hx.ErrKind(err) == "Other:External" {
		// the failing encoder result arrived after the stores seen so far: tell the model which key it was
		var bad []atree.SlabID
		for id, v := range e.pend {
			if v == verBad && id.AddressAsUint64() != 0 {
				bad = append(bad, id)
			}
		}
		hx.SortIDs(bad)
		if len(bad) > 0 {
			mo = append(mo, hx.IDStr(bad[0]))
		}
	}
	w.L("ST commit kind=%s workers=%d faults=%s mo=%s do=%s", kind, workers, strings.Join(fs, ","), strings.Join(mo, ","), strings.Join(dlo, ","))
	w.L("OBS %s", obsErr(err))
	if len(logParts) == 0 {
		w.L("LOG -")
	} else {
		w.L("LOG %s", strings.Join(logParts, " "))
	}
	sig.WriteByte('c')
	e.st.Hit("commit:" + kind)
	// oracle: the ledger is only written by successful calls; C04: deterministic commit issues ascending IDs
	if kind == "det" {
		for i := 1; i < len(e.ledger.Log); i++ {
			if !hx.IDLess(e.ledger.Log[i-1].ID, e.ledger.Log[i].ID) {
				e.violation("C04", fmt.Sprintf("deterministic commit issued %s before %s", hx.IDStr(e.ledger.Log[i-1].ID), hx.IDStr(e.ledger.Log[i].ID)))
			}
		}
	}
	for _, c := range e.ledger.Log {
		if c.ID.AddressAsUint64() == 0 {
			e.violation("C03", "a slab owned by the temporary address was written to the ledger: "+hx.IDStr(c.ID))
		}
		if !c.OK {
			continue
		}
		want, pending := e.pend[c.ID]
		if !pending {
			e.violation("C14", fmt.Sprintf("commit wrote %s which is not pending", hx.IDStr(c.ID)))
			continue
		}
		if c.Kind == 'S' {
			if e.regVer(c.Data) != want {
				e.violation("C14", fmt.Sprintf("commit wrote version %d for %s, latest is %d", e.regVer(c.Data), hx.IDStr(c.ID), want))
			}
			e.comm[c.ID] = want
		} else {
			if want != -1 {
				e.violation("C14", fmt.Sprintf("commit deleted %s whose latest value is %d", hx.IDStr(c.ID), want))
			}
			delete(e.comm, c.ID)
		}
		delete(e.pend, c.ID)
	}
	faulted := false
	for _, c := range e.ledger.Log {
		if !c.OK {
			faulted = true
		}
	}
	if len(faults) > 0 {
		e.st.Hit("commit-faults:planned")
		bucket := []string{"0", "1", "2-3", "2-3", "4+"}[min(pendingOwned, 4)]
		if faulted {
			e.st.Hit("commit-faults:fired")
			e.st.Hit("commit-faults:fired:pending=" + bucket)
			if len(e.ledger.Log) > 1 {
				e.st.Hit("commit-faults:fired-after-successful-calls")
			}
		} else {
			e.st.Hit("commit-faults:not-reached:pending=" + bucket)
		}
	}
	if faulted && err == nil {
		e.violation("C14", "a ledger call failed but the commit reported success")
	}
	if faulted && err != nil && hx.ErrCategory(err) != "External" {
		e.violation("C14", "ledger failure reported as "+hx.ErrKind(err))
	}
	if err == nil {
		for id, v := range e.pend {
			if id.AddressAsUint64() != 0 && v != verBad {
				e.violation("C14", fmt.Sprintf("commit succeeded but %s is still pending", hx.IDStr(id)))
			}
		}
	}
	if err == nil {
		// C15 / C03: a successful commit leaves nothing owned in the write set (every observer agrees)
		if got := int(e.ps.DeltasWithoutTempAddresses()); got != 0 {
			for _, p := range []string{"C15", "C03"} {
				e.violation(p, fmt.Sprintf("after a successful commit the write set still reports %d owned entries", got))
			}
		}
		for a := uint64(1); a <= 2; a++ {
			if e.ps.HasUnsavedChanges(hx.MkAddr(a)) {
				e.violation("C15", fmt.Sprintf("after a successful commit HasUnsavedChanges(%d) is still true", a))
			}
		}
	}
	// what stays pending must still be in the write set
	deltas := atree.VerifDeltas(e.ps)
	for id, v := range e.pend {
		d, ok := deltas[id]
		if !ok {
			e.violation("C14", fmt.Sprintf("%s (version %d) neither durable nor pending after commit", hx.IDStr(id), v))
		} else if v >= 0 && slabVer(d) != fmt.Sprintf("%d", v) {
			e.violation("C14", fmt.Sprintf("%s pending with version %s, latest is %d", hx.IDStr(id), slabVer(d), v))
		}
	}
	e.ledger.ResetCalls()
}
