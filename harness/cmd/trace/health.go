package main

import (
	"fmt"
	"math/rand"
	"os"
	"os/exec"
	"path/filepath"
	"regexp"
	"strings"
	"time"

	"github.com/onflow/atree"

	"verifharness/hx"
)

func init() {
	streams["health"] = healthStream
	streams["healthcycle-child"] = healthCycleChild
}

// RefV is a value whose storable is a bare reference to an existing slab (used to fabricate
// double references and foreign-owner references).
type RefV struct{ ID atree.SlabID }

func (r RefV) Storable(atree.SlabStorage, atree.Address, uint32) (atree.Storable, error) {
	return atree.SlabIDStorable(r.ID), nil
}

// world kinds
const (
	hwArrays  = iota // 1-3 arrays, large values in their own slabs
	hwMaps           // 1-2 maps with the real digester: large values, oversized keys (stored as references)
	hwCollide        // maps with digest tables: inline and EXTERNAL collision groups
	hwNested         // a parent array holding inlined arrays / maps (with large values and external collision groups inside), wrappers around references and around children
	hwEmpty          // no slab at all
	hwKinds          // the kinds the seeded rotation goes through
	// directed kinds, built on every run whatever the seed
	hwSingle = hwKinds // containers holding exactly ONE element: every traversal level is one child storable
)

var hwNames = [...]string{"arrays", "maps", "collide", "nested", "empty", "single"}

// hwCont: what is needed to obtain a handle to a top-level container of a world again (by root
// identifier, on another storage over the same ledger) and to address one of its elements.
type hwCont struct {
	root    atree.SlabID
	isMap   bool
	builder atree.DigesterBuilder
	keys    []hx.TV // maps: the keys set, in insertion order
	n       int     // arrays: number of elements
	plain   bool    // every element is a plain value (large ones in their own slab): an overwritten element is disposed of by one Remove
}

type healthWorld struct {
	ledger *hx.Ledger
	ps     *atree.PersistentSlabStorage
	kind   int
	roots  []atree.SlabID // the root slabs of the top-level containers, known from construction
	conts  []hwCont
	// the digester builder each top-level map was built with (reading it by key needs the same digests)
	builders map[atree.SlabID]atree.DigesterBuilder
}

func hcMust(err error) {
	if err != nil {
		panic(err)
	}
}

// buildWorld deterministically builds a healthy storage of the given kind; optionally committed
// and reloaded so that every slab is served from the cache.
func buildWorld(seed int64, kind int, committed bool) *healthWorld {
	rng := rand.New(rand.NewSource(seed))
	atree.VerifSetThreshold(256)
	w := &healthWorld{ledger: hx.NewLedger(), kind: kind, builders: map[atree.SlabID]atree.DigesterBuilder{}}
	w.ps = hx.NewStorage(w.ledger)
	switch kind {
	case hwArrays:
		buildArrays(rng, w)
	case hwMaps:
		buildMaps(rng, w, false)
	case hwCollide:
		buildMaps(rng, w, true)
	case hwNested:
		buildNested(rng, w)
	case hwEmpty:
	case hwSingle:
		buildSingle(rng, w)
	}
	if committed {
		hcMust(w.ps.FastCommit(2))
		// reopen and load everything
		w.ps = hx.NewStorage(w.ledger)
		hcMust(w.ps.BatchPreload(w.ledger.SortedIDs(), 3))
	}
	hx.SortIDs(w.roots)
	return w
}

func buildArrays(rng *rand.Rand, w *healthWorld) {
	nArr := 1 + rng.Intn(3)
	for k := 0; k < nArr; k++ {
		addr := hx.MkAddr(uint64(1 + rng.Intn(2)))
		a, err := atree.NewArray(w.ps, addr, hx.TI(7))
		hcMust(err)
		n := rng.Intn(60)
		if k == 0 {
			n = 30 + rng.Intn(120)
		}
		for i := 0; i < n; i++ {
			size := uint32(10 + rng.Intn(60))
			if rng.Intn(12) == 0 {
				size = 130 + uint32(rng.Intn(40)) // externalised
			}
			hcMust(a.Append(hx.TV{Size: size, Pay: uint64(1000*k + i)}))
		}
		w.roots = append(w.roots, a.SlabID())
		w.conts = append(w.conts, hwCont{root: a.SlabID(), n: n, plain: true})
	}
}

// collideBuilder: digests from a table with tiny alphabets on the first three levels, so that
// first-level elements are collision groups; groups that outgrow the element limit become
// external collision-group slabs.
func collideBuilder(salt uint64, alph [4]uint64) atree.DigesterBuilder {
	return &hx.TableDigesterBuilder{L: 4, Fn: func(k hx.TV, l uint) uint64 {
		return mix(k.Pay, uint64(l), salt) % alph[l] * 1000003
	}}
}

func buildMaps(rng *rand.Rand, w *healthWorld, collide bool) {
	_, _, _, _, _, maxKey := atree.VerifThresholds()
	nMaps := 1 + rng.Intn(2)
	for k := 0; k < nMaps; k++ {
		addr := hx.MkAddr(uint64(1 + rng.Intn(2)))
		var b atree.DigesterBuilder = atree.NewDefaultDigesterBuilder()
		if collide {
			b = collideBuilder(uint64(rng.Int63()), [4]uint64{uint64(3 + rng.Intn(6)), 2, 2, 1 << 62})
		}
		m, err := atree.NewMap(w.ps, addr, b, hx.TI(8))
		hcMust(err)
		n := rng.Intn(40)
		if k == 0 {
			n = 60 + rng.Intn(140)
		}
		c := hwCont{root: m.SlabID(), isMap: true, plain: true}
		if collide {
			c.builder = b // (the default builder is seeded per map: a handle opened later gets a new one)
		}
		for i := 0; i < n; i++ {
			key := hx.TV{Size: uint32(9 + rng.Intn(8)), Pay: uint64(100000*k + i + 1)}
			if !collide && rng.Intn(15) == 0 {
				key.Size = maxKey + 1 + uint32(rng.Intn(30)) // stored as a reference to a large-value slab
			}
			size := uint32(8 + rng.Intn(40))
			if rng.Intn(10) == 0 {
				size = 130 + uint32(rng.Intn(40)) // externalised
			}
			_, err := m.Set(hx.CompareKey, hx.HashInput, key, hx.TV{Size: size, Pay: uint64(7000000 + 1000*k + i)})
			hcMust(err)
			c.keys = append(c.keys, key)
		}
		w.roots = append(w.roots, m.SlabID())
		w.conts = append(w.conts, c)
		w.builders[m.SlabID()] = b
	}
}

// nestedChild builds a small container (bottom-up: grandchildren first) to be placed inside a
// parent; it is inlined by the parent when it fits and becomes a referenced standalone tree
// otherwise.
func nestedChild(rng *rand.Rand, w *healthWorld, addr atree.Address, depth int, pay *uint64) atree.Value {
	next := func() uint64 { *pay++; return *pay }
	plain := func() atree.Value {
		switch rng.Intn(6) {
		case 0:
			return hx.TV{Size: 130 + uint32(rng.Intn(40)), Pay: next()} // reference inside the child
		case 1:
			return hx.SomeValue{V: hx.TV{Size: 130 + uint32(rng.Intn(40)), Pay: next()}} // wrapper around a reference
		}
		return hx.TV{Size: uint32(3 + rng.Intn(12)), Pay: next()}
	}
	elem := func() atree.Value {
		if depth > 0 && rng.Intn(3) == 0 {
			c := nestedChild(rng, w, addr, depth-1, pay)
			if rng.Intn(4) == 0 {
				c = hx.SomeValue{V: c}
			}
			return c
		}
		return plain()
	}
	switch rng.Intn(3) {
	case 0:
		a, err := atree.NewArray(w.ps, addr, hx.TI(uint64(20+depth)))
		hcMust(err)
		for i, n := 0, 1+rng.Intn(4); i < n; i++ {
			hcMust(a.Append(elem()))
		}
		return a
	case 1:
		m, err := atree.NewMap(w.ps, addr, atree.NewDefaultDigesterBuilder(), hx.TI(uint64(30+depth)))
		hcMust(err)
		for i, n := 0, 1+rng.Intn(4); i < n; i++ {
			_, err := m.Set(hx.CompareKey, hx.HashInput, hx.TV{Size: 9, Pay: next()}, elem())
			hcMust(err)
		}
		return m
	default:
		// every key collides on the first level: one first-level element, a collision group that is
		// spilled into an external collision-group slab once it outgrows the element limit, while the
		// map's own root slab stays small (and inlined)
		salt := uint64(rng.Int63())
		m, err := atree.NewMap(w.ps, addr, collideBuilder(salt, [4]uint64{1, 1 + uint64(rng.Intn(2)), 1 << 62, 1 << 62}), hx.TI(uint64(40+depth)))
		hcMust(err)
		for i, n := 0, 2+rng.Intn(9); i < n; i++ {
			_, err := m.Set(hx.CompareKey, hx.HashInput, hx.TV{Size: 9, Pay: next()}, hx.TV{Size: uint32(10 + rng.Intn(25)), Pay: next()})
			hcMust(err)
		}
		return m
	}
}

func buildNested(rng *rand.Rand, w *healthWorld) {
	nTop := 1 + rng.Intn(2)
	pay := uint64(0)
	for k := 0; k < nTop; k++ {
		addr := hx.MkAddr(uint64(1 + rng.Intn(2)))
		n := 8 + rng.Intn(20)
		if k%2 == 0 {
			parent, err := atree.NewArray(w.ps, addr, hx.TI(7))
			hcMust(err)
			for i := 0; i < n; i++ {
				var v atree.Value
				switch rng.Intn(5) {
				case 0:
					pay++
					v = hx.TV{Size: uint32(5 + rng.Intn(40)), Pay: pay}
				case 1:
					pay++
					v = hx.SomeValue{V: hx.SomeValue{V: hx.TV{Size: 130 + uint32(rng.Intn(40)), Pay: pay}}}
				case 2:
					v = hx.SomeValue{V: nestedChild(rng, w, addr, 1, &pay)}
				default:
					v = nestedChild(rng, w, addr, 2, &pay)
				}
				hcMust(parent.Append(v))
			}
			w.roots = append(w.roots, parent.SlabID())
		} else {
			parent, err := atree.NewMap(w.ps, addr, atree.NewDefaultDigesterBuilder(), hx.TI(8))
			hcMust(err)
			for i := 0; i < n; i++ {
				pay++
				key := hx.TV{Size: 9, Pay: pay}
				var v atree.Value = nestedChild(rng, w, addr, 2, &pay)
				if rng.Intn(4) == 0 {
					v = hx.SomeValue{V: v}
				}
				_, err := parent.Set(hx.CompareKey, hx.HashInput, key, v)
				hcMust(err)
			}
			w.roots = append(w.roots, parent.SlabID())
		}
	}
}

// buildSingle: top-level containers that hold exactly ONE element, of every shape, so that the
// level-by-level ChildStorables traversals (CheckStorageHealth, SlabIterator,
// getAllChildReferences) meet levels that consist of a single child storable - a reference, a
// wrapper, an inlined container - at the first level and further down.  The set of shapes does
// not depend on the seed (only sizes and payloads do).
func buildSingle(rng *rand.Rand, w *healthWorld) {
	pay := uint64(0)
	next := func() uint64 { pay++; return pay }
	large := func() hx.TV { return hx.TV{Size: 130 + uint32(rng.Intn(40)), Pay: next()} }
	small := func() hx.TV { return hx.TV{Size: uint32(3 + rng.Intn(12)), Pay: next()} }
	arrayOf := func(addr atree.Address, ti uint64, vs ...atree.Value) *atree.Array {
		a, err := atree.NewArray(w.ps, addr, hx.TI(ti))
		hcMust(err)
		for _, v := range vs {
			hcMust(a.Append(v))
		}
		return a
	}
	mapOf := func(addr atree.Address, ti uint64, v atree.Value) *atree.OrderedMap {
		m, err := atree.NewMap(w.ps, addr, atree.NewDefaultDigesterBuilder(), hx.TI(ti))
		hcMust(err)
		_, err = m.Set(hx.CompareKey, hx.HashInput, hx.TV{Size: 9, Pay: next()}, v)
		hcMust(err)
		return m
	}
	for shape := 0; shape < 9; shape++ {
		addr := hx.MkAddr(uint64(1 + shape%2))
		var v atree.Value
		switch shape {
		case 0: // [ref]: the root's only child storable is a reference to a large-value slab
			v = large()
		case 1: // [W(ref)]
			v = hx.SomeValue{V: large()}
		case 2: // [W(W(ref))]
			v = hx.SomeValue{V: hx.SomeValue{V: large()}}
		case 3: // [[[ref]]]: inlined arrays of one element each, three levels of one storable
			v = arrayOf(addr, 21, arrayOf(addr, 22, large()))
		case 4: // [{k: ref}] inlined map
			v = mapOf(addr, 31, large())
		case 5: // [W([W(ref)])]
			v = hx.SomeValue{V: arrayOf(addr, 23, hx.SomeValue{V: large()})}
		case 6: // [ref to a standalone child array]: the child is too large to be inlined and holds one reference among plain values
			vs := []atree.Value{}
			for i, n := 0, 14+rng.Intn(6); i < n; i++ {
				vs = append(vs, small())
			}
			vs = append(vs, large())
			v = arrayOf(addr, 24, vs...)
		case 7: // [plain]: a leaf root
			v = small()
		default: // [[ref to a standalone child array [ref]]]: a chain of single references
			vs := []atree.Value{arrayOf(addr, 26, large())}
			for i, n := 0, 16+rng.Intn(6); i < n; i++ {
				vs = append(vs, small())
			}
			v = arrayOf(addr, 25, arrayOf(addr, 27, vs...))
		}
		if shape%3 == 2 {
			m := mapOf(addr, 8, v)
			w.roots = append(w.roots, m.SlabID())
		} else {
			a := arrayOf(addr, 7, v)
			w.roots = append(w.roots, a.SlabID())
		}
	}
}

// healthErrKind names the check of CheckStorageHealth that fired (the error messages are the only
// thing that tells the FatalErrors apart).
func healthErrKind(err error) string {
	if err == nil {
		return "ok"
	}
	m := err.Error()
	switch {
	case strings.Contains(m, "two parents are captured"):
		return "TwoParents"
	case strings.Contains(m, "at least two references found to the leaf"):
		return "TwoRefsToLeaf"
	case strings.Contains(m, "not owned by the same account"):
		return "Owner"
	case strings.Contains(m, "not reachable from leaves"):
		return "Unreachable"
	case strings.Contains(m, "number of root slabs doesn't match"):
		return "RootCount"
	case strings.Contains(m, "duplicate slab"):
		return "Duplicate"
	case strings.HasPrefix(hx.ErrKind(err), "SlabNotFound:"):
		return "SlabNotFound"
	}
	return "Other"
}

func healthStream(cfg *Config) (res *hx.Stats) {
	st := hx.NewStats("health", cfg.Seed)
	rng := rand.New(rand.NewSource(cfg.Seed*31337 + 3))
	w := hx.NewW(filepath.Join(cfg.Out, fmt.Sprintf("health-%d.trace", cfg.Seed)))
	defer w.Close()
	st.TraceFiles = append(st.TraceFiles, w.Path)
	defer func() { atree.VerifSetThreshold(1024) }()
	defer recoverAsViolation(st, w, &res)
	nWorlds := int(10 * cfg.Scale)
	distinct := map[string]bool{}
	viol := func(prog int, what, sig string) {
		v := hx.Violation{Property: "C20", Stream: "health", Seed: cfg.Seed, Program: prog, What: what, Trace: w.Path, Line: w.Lines, Sig: sig}
		st.Violations = append(st.Violations, v)
	}
	// heaps are read with the harness's register walker; a disagreement with the library's
	// ChildStorables enumeration is a violation of its own
	diffSeen := map[string]bool{}
	curProg := 0
	diff := func(what string) {
		if !diffSeen[what] {
			diffSeen[what] = true
			viol(curProg, "child storable enumeration: "+what, "")
		}
	}
	// runCheck runs the real check on hw and compares it with
	//   * the construction-time truth (label "healthy": must be accepted with exactly hw.roots),
	//   * the model-free graph oracle on the independently read heap,
	//   * want: the check that has to fire ("" = any error),
	// and writes the heap, the storage state and the outcome for the model.
	runCheck := func(prog int, label string, hw *healthWorld, expected int, want string, sig string) {
		curProg = prog
		h := liveHeap(hw.ps, diff)
		sd, sc, sb := storageState(hw.ps, hw.ledger, diff)
		roots, err := atree.CheckStorageHealth(hw.ps, expected)
		var obs string
		var rs []atree.SlabID
		if err != nil {
			obs = "err:" + healthErrKind(err)
		} else {
			for r := range roots {
				rs = append(rs, r)
			}
			hx.SortIDs(rs)
			obs = "ok:" + strings.Join(idStrs(rs), ",")
		}
		// the same outcome is compared with the model of the check on the heap (HC) and with the
		// model of slab iteration + check on the storage state (HCS)
		w.L("HEAP %s", heapLine(h))
		w.L("HC expected=%d label=%s", expected, label)
		w.L("OBS %s", obs)
		w.L("STO d=%s c=%s b=%s", heapLine(sd), heapLine(sc), heapLine(sb))
		w.L("HCS expected=%d label=%s", expected, label)
		w.L("OBS %s", obs)
		healthy, why, oroots := oracleHealthy(h)
		got := strings.Join(idStrs(rs), ",")
		base := strings.SplitN(label, "@", 2)[0]
		switch {
		case strings.HasPrefix(label, "healthy"):
			// construction-time truth, independent of any walk over the storage
			wantRoots := strings.Join(idStrs(hw.roots), ",")
			countOK := expected < 0 || expected == len(hw.roots)
			if !healthy || strings.Join(idStrs(oroots), ",") != wantRoots {
				viol(prog, fmt.Sprintf("the storage built by valid requests is not healthy by the graph oracle (%s; roots %v, containers %v)", why, idStrs(oroots), idStrs(hw.roots)), sig)
			}
			if countOK && err != nil {
				viol(prog, fmt.Sprintf("health check rejected a healthy storage (%s, expected=%d): %v", label, expected, err), sig)
			}
			if countOK && err == nil && got != wantRoots {
				viol(prog, fmt.Sprintf("health check returned roots %v, the containers' roots are %v (%s, expected=%d)", idStrs(rs), idStrs(hw.roots), label, expected), sig)
			}
			if !countOK && err == nil {
				viol(prog, fmt.Sprintf("health check accepted %d roots, expected %d (%s)", len(hw.roots), expected, label), sig)
			}
		default:
			if err == nil {
				if !healthy {
					viol(prog, fmt.Sprintf("health check accepted an unhealthy storage (%s): %s", label, why), sig)
				} else if got != strings.Join(idStrs(oroots), ",") {
					viol(prog, fmt.Sprintf("health check returned roots %v, true roots %v (%s)", idStrs(rs), idStrs(oroots), label), sig)
				} else if expected >= 0 && len(oroots) != expected {
					viol(prog, fmt.Sprintf("health check accepted %d roots, expected %d (%s)", len(oroots), expected, label), sig)
				}
			} else if healthy && (expected < 0 || len(oroots) == expected) {
				viol(prog, fmt.Sprintf("health check rejected a healthy storage (%s): %v", label, err), sig)
			}
		}
		if err != nil {
			if k := healthErrKind(err); want != "" && want != "ok" && k != want {
				viol(prog, fmt.Sprintf("health check failed with %s, the check that has to fire is %s (%s): %v", k, want, label, err), sig)
			}
			if c := hx.ErrCategory(err); c != "Fatal" {
				viol(prog, fmt.Sprintf("health check error of category %s, want Fatal (%s): %v", c, label, err), sig)
			}
		}
		st.Ops++
		st.Hit("check:" + base)
		st.Hit("world:" + hwNames[hw.kind])
		distinct[label+heapLine(h)] = true
	}
	// the slab iterator itself: identifiers yielded (with multiplicity) against the model
	runIter := func(prog int, label string, hw *healthWorld) {
		curProg = prog
		sd, sc, sb := storageState(hw.ps, hw.ledger, diff)
		w.L("STO d=%s c=%s b=%s", heapLine(sd), heapLine(sc), heapLine(sb))
		w.L("ITER label=%s", label)
		wantIDs, wantNotFound, predicted := expectedYield(hw.ps, hw.ledger)
		cacheBefore, deltasBefore := atree.VerifCache(hw.ps), atree.VerifDeltas(hw.ps)
		it, err := hw.ps.SlabIterator()
		// slab iteration reads: neither the cache nor the write set changes (the slabs it fetches are not cached)
		if !sameSlabObjects(cacheBefore, atree.VerifCache(hw.ps)) {
			viol(prog, fmt.Sprintf("slab iteration changed the read cache: %d entries before, %d after (%s)", len(cacheBefore), len(atree.VerifCache(hw.ps)), label), "")
		}
		if !sameSlabObjects(deltasBefore, atree.VerifDeltas(hw.ps)) {
			viol(prog, fmt.Sprintf("slab iteration changed the write set (%s)", label), "")
		}
		if predicted && wantNotFound && (err == nil || !strings.HasPrefix(hx.ErrKind(err), "SlabNotFound:")) {
			viol(prog, fmt.Sprintf("slab iteration met a reference to a slab that is in no layer of the storage and did not fail with SlabNotFound (%s): %v", label, err), "")
		}
		if predicted && !wantNotFound && err != nil {
			viol(prog, fmt.Sprintf("slab iteration failed although every reference it has to follow resolves (%s): %v", label, err), "")
		}
		if err != nil {
			k := "Other"
			if strings.HasPrefix(hx.ErrKind(err), "SlabNotFound:") {
				k = "SlabNotFound"
			}
			w.L("OBS err:%s", k)
		} else {
			var ids []atree.SlabID
			for {
				id, _ := it()
				if id == atree.SlabIDUndefined {
					break
				}
				ids = append(ids, id)
			}
			hx.SortIDs(ids)
			w.L("OBS ok:%s", strings.Join(idStrs(ids), ","))
			// model-free: exactly the loaded slabs plus what hangs below them in the ledger, by the
			// harness's own walk over write set, cache and registers
			if predicted && !wantNotFound && strings.Join(idStrs(ids), ",") != strings.Join(idStrs(wantIDs), ",") {
				viol(prog, fmt.Sprintf("slab iterator yielded %v, the loaded slabs and the registers below them are %v (%s)", idStrs(ids), idStrs(wantIDs), label), "")
			}
			// model-free: every live loaded slab is yielded exactly once; with everything loaded
			// nothing else is yielded
			n := map[atree.SlabID]int{}
			for _, id := range ids {
				n[id]++
			}
			live := liveHeap(hw.ps, diff)
			for _, s := range live {
				if n[s.id] != 1 {
					viol(prog, fmt.Sprintf("slab iterator yielded the live slab %s %d times (%s)", hx.IDStr(s.id), n[s.id], label), "")
					break
				}
			}
			if !strings.HasPrefix(label, "lazy") && len(ids) != len(live) {
				viol(prog, fmt.Sprintf("slab iterator yielded %d slabs, the storage (all loaded) holds %d live slabs (%s)", len(ids), len(live), label), "")
			}
		}
		st.Ops++
		st.Hit("iter:" + strings.SplitN(label, "@", 2)[0])
	}
	runRefs := func(prog int, label string, hw *healthWorld, h []hslab, r atree.SlabID) {
		curProg = prog
		refs, broken, err := hw.ps.GetAllChildReferences(r)
		if err != nil {
			viol(prog, fmt.Sprintf("GetAllChildReferences(%s) failed (%s): %v", hx.IDStr(r), label, err), "")
			return
		}
		hx.SortIDs(refs)
		hx.SortIDs(broken)
		w.L("HEAP %s", heapLine(h))
		w.L("REFS root=%s label=%s", hx.IDStr(r), label)
		w.L("OBS ok:%s|%s", strings.Join(idStrs(refs), ","), strings.Join(idStrs(broken), ","))
		wantRefs, wantBroken := refsAndBroken(h, r)
		if strings.Join(idStrs(refs), ",") != strings.Join(idStrs(wantRefs), ",") ||
			strings.Join(idStrs(broken), ",") != strings.Join(idStrs(wantBroken), ",") {
			viol(prog, fmt.Sprintf("GetAllChildReferences(%s) (%s) = %v / broken %v, want %v / %v",
				hx.IDStr(r), label, idStrs(refs), idStrs(broken), idStrs(wantRefs), idStrs(wantBroken)), "")
		}
		st.Ops++
		st.Hit("refs:" + strings.SplitN(label, "@", 2)[0])
	}
	type worldSpec struct {
		seed      int64
		kind      int
		committed bool
	}
	var specs []worldSpec
	// reading the elements THROUGH the containers after a referenced slab was deleted (dangling.go): every failure
	// is a SlabNotFoundError (Fatal) naming the slab, some read reports it, nothing panics
	runDeep := func(prog int, label string, hw *healthWorld, id atree.SlabID) {
		curProg = prog
		if len(st.Violations) >= 30 {
			return
		}
		d := healthDeepRead(hw, id)
		st.Ops += d.reads
		st.Hit("deepread:" + strings.SplitN(label, "@", 2)[0])
		st.Dist["deepread:requests"] += d.reads
		st.Dist["deepread:slab-not-found"] += d.errs
		for _, b := range d.bad {
			v := hx.Violation{Property: "C20", Stream: "health", Seed: cfg.Seed, Program: prog, Trace: w.Path, Line: w.Lines,
				What: fmt.Sprintf("reading through the containers after the referenced slab %s was deleted (%s): %s", hx.IDStr(id), label, b)}
			if strings.Contains(b, "PANIC") {
				v.Property = "*"
			}
			st.Violations = append(st.Violations, v)
		}
		if d.errs == 0 && len(d.bad) == 0 {
			viol(prog, fmt.Sprintf("%d reads through the containers after the referenced slab %s was deleted (%s): none of them reports it", d.reads, hx.IDStr(id), label), "")
		}
	}
	for p := 0; p < nWorlds; p++ {
		specs = append(specs, worldSpec{cfg.Seed*1000 + int64(p), p % hwKinds, (p/hwKinds)%2 == 1})
	}
	// directed worlds, on every run: single-element containers, uncommitted and committed
	specs = append(specs, worldSpec{cfg.Seed*1000 + 900, hwSingle, false}, worldSpec{cfg.Seed*1000 + 901, hwSingle, true})
	for p, spec := range specs {
		seed, kind, committed := spec.seed, spec.kind, spec.committed
		build := func() *healthWorld { return buildWorld(seed, kind, committed) }
		hw := build()
		st.Programs++
		w.L("CFG world=%d kind=%s committed=%v roots=%s", p, hwNames[kind], committed, strings.Join(idStrs(hw.roots), ","))
		nr := len(hw.roots)
		runCheck(p, "healthy", hw, nr, "ok", "")
		runCheck(p, "healthy-nocount", hw, -1, "ok", "")
		runCheck(p, "healthy-wrongcount", hw, nr+1, "RootCount", "")
		if nr > 0 {
			runCheck(p, "healthy-zerocount", hw, 0, "RootCount", "")
		}
		runIter(p, "healthy", hw)
		h0 := liveHeap(hw.ps, diff)
		if kind == hwNested || kind == hwCollide || kind == hwMaps {
			for _, s := range h0 {
				sl := hcSlab(hw.ps, s.id)
				st.Hit(fmt.Sprintf("slab:%T", sl))
				for _, c := range dumpCases(sl) {
					st.Hit("case:" + c)
				}
			}
		}
		var nonRoots, all []atree.SlabID
		isRoot := map[atree.SlabID]bool{}
		for _, r := range hw.roots {
			isRoot[r] = true
		}
		for _, s := range h0 {
			all = append(all, s.id)
			if !isRoot[s.id] {
				nonRoots = append(nonRoots, s.id)
			}
		}
		pick := func(l []atree.SlabID, n int) []atree.SlabID {
			if len(l) <= n || cfg.Tier == "thorough" {
				return l
			}
			out := make([]atree.SlabID, 0, n)
			for _, i := range rng.Perm(len(l))[:n] {
				out = append(out, l[i])
			}
			return out
		}
		// (a) delete a referenced slab: through the storage (pending deletion) ...
		for _, id := range pick(nonRoots, 6) {
			x := build()
			_ = x.ps.Remove(id)
			runCheck(p, "delete-pending@"+hx.IDStr(id), x, nr, "SlabNotFound", "delete-referenced:pending-or-cached-nil")
			runCheck(p, "delete-pending-nocount@"+hx.IDStr(id), x, -1, "SlabNotFound", "delete-referenced:pending-or-cached-nil")
			runIter(p, "delete-pending@"+hx.IDStr(id), x)
			runDeep(p, "delete-pending@"+hx.IDStr(id), x, id)
			// ... committed (the deletion is then a nil entry of the read cache)
			if err := x.ps.FastCommit(1); err == nil {
				runCheck(p, "delete-committed@"+hx.IDStr(id), x, nr, "SlabNotFound", "delete-referenced:pending-or-cached-nil")
				runIter(p, "delete-committed@"+hx.IDStr(id), x)
				runDeep(p, "delete-committed@"+hx.IDStr(id), x, id)
			}
			// ... and physically, followed by a reload of everything that is left
			if committed {
				y := build()
				delete(y.ledger.Seg, id)
				y.ps = hx.NewStorage(y.ledger)
				_ = y.ps.BatchPreload(y.ledger.SortedIDs(), 2)
				runCheck(p, "delete-physical@"+hx.IDStr(id), y, nr, "SlabNotFound", "delete-referenced:physical")
				runIter(p, "delete-physical@"+hx.IDStr(id), y)
				runDeep(p, "delete-physical@"+hx.IDStr(id), y, id)
			}
		}
		// (b) an unreferenced slab beyond the expected root count
		{
			x := build()
			if _, err := atree.NewStorableSlab(x.ps, hx.MkAddr(1), hx.TV{Size: 20, Pay: 4242}, 20); err != nil {
				panic(err)
			}
			runCheck(p, "extra-unreferenced", x, nr, "RootCount", "extra-unreferenced")
		}
		// (c) one slab referenced from two places
		for _, id := range pick(nonRoots, 4) {
			x := build()
			b, err := atree.NewArray(x.ps, id.Address(), hx.TI(9))
			hcMust(err)
			hcMust(b.Append(RefV{id}))
			runCheck(p, "double-reference@"+hx.IDStr(id), x, nr+1, "TwoParents", "double-reference")
			runCheck(p, "double-reference-nocount@"+hx.IDStr(id), x, -1, "TwoParents", "double-reference")
		}
		// (c') both references sit in ONE slab (two elements of the same data slab; one of them
		//      possibly behind a wrapper): the target is a fresh large-value slab
		for variant := 0; variant < 3; variant++ {
			x := build()
			ref, err := atree.NewStorableSlab(x.ps, hx.MkAddr(1), hx.TV{Size: 20, Pay: 777}, 20)
			hcMust(err)
			target := atree.SlabID(ref.(atree.SlabIDStorable))
			b, err := atree.NewArray(x.ps, hx.MkAddr(1), hx.TI(9))
			hcMust(err)
			_ = b.Append(hx.TV{Size: 5, Pay: 1})
			switch variant {
			case 0:
				_ = b.Append(RefV{target})
				_ = b.Append(RefV{target})
			case 1:
				_ = b.Append(hx.SomeValue{V: RefV{target}})
				_ = b.Append(RefV{target})
			default:
				_ = b.Append(RefV{target})
				_ = b.Append(hx.TV{Size: 7, Pay: 2})
				_ = b.Append(hx.SomeValue{V: hx.SomeValue{V: RefV{target}}})
			}
			runCheck(p, fmt.Sprintf("double-reference-same-slab%d@%s", variant, hx.IDStr(target)), x, nr+1, "TwoParents", "double-reference")
		}
		// (d) a reference to a slab owned by a different address (a non-root target is referenced
		//     twice as well: the two-parents check fires first)
		for _, id := range pick(all, 4) {
			x := build()
			other := hx.MkAddr(uint64(3 + rng.Intn(3)))
			b, err := atree.NewArray(x.ps, other, hx.TI(9))
			hcMust(err)
			hcMust(b.Append(RefV{id}))
			exp, want := nr+1, "TwoParents"
			if isRoot[id] {
				exp, want = nr, "Owner"
			}
			runCheck(p, "foreign-owner@"+hx.IDStr(id), x, exp, want, "foreign-owner")
			runCheck(p, "foreign-owner-nocount@"+hx.IDStr(id), x, -1, want, "foreign-owner")
		}
		// (d') a parent with SEVERAL external children, one of them owned by a different address, at
		//      every position among its siblings (the owner must be checked on every edge, in whatever
		//      order the slabs are visited)
		for pos := 0; pos < 3; pos++ {
			x := build()
			home := hx.MkAddr(1)
			other := hx.MkAddr(uint64(3 + rng.Intn(3)))
			b, err := atree.NewArray(x.ps, home, hx.TI(9))
			hcMust(err)
			for j := 0; j < 3; j++ {
				a := home
				if j == pos {
					a = other
				}
				ref, err := atree.NewStorableSlab(x.ps, a, hx.TV{Size: 20, Pay: uint64(900 + j)}, 20)
				hcMust(err)
				hcMust(b.Append(RefV{atree.SlabID(ref.(atree.SlabIDStorable))}))
			}
			runCheck(p, fmt.Sprintf("foreign-owner-sibling%d", pos), x, nr+1, "Owner", "foreign-owner")
		}
		// (e) only part of a committed storage is loaded: slab iteration has to fetch the rest from
		//     the ledger (each slab once); a root that is not loaded is not seen at all
		if committed && nr > 0 {
			for variant := 0; variant < 6; variant++ {
				x := build()
				x.ps = hx.NewStorage(x.ledger)
				var load []atree.SlabID
				label := "lazy-roots"
				// the new variants draw from their own generator (the draws of the older cases stay what they were)
				rng2 := rand.New(rand.NewSource(seed*7 + int64(variant)))
				fetch := func(id atree.SlabID, cached bool) atree.Slab {
					var s atree.Slab
					var ok bool
					var err error
					if cached {
						s, ok, err = x.ps.Retrieve(id)
					} else {
						s, ok, err = x.ps.RetrieveIgnoringDeltas(id, false)
					}
					if err != nil || !ok || s == nil {
						panic(fmt.Sprintf("committed slab %s cannot be read back: found=%v err=%v", hx.IDStr(id), ok, err))
					}
					return s
				}
				switch variant {
				case 0: // the roots only
					load = x.roots
				case 1: // the roots and a random part of the rest
					load = append(load, x.roots...)
					for _, id := range nonRoots {
						if rng.Intn(3) == 0 {
							load = append(load, id)
						}
					}
					label = "lazy-some"
				case 2: // all but the first root
					label = "lazy-root-missing"
					for _, id := range all {
						if id != x.roots[0] {
							load = append(load, id)
						}
					}
				case 3:
					// loaded through Retrieve instead of BatchPreload, and some slabs PENDING: the roots are
					// retrieved (cached); of the other slabs a third is stored again after a Retrieve (pending and
					// cached), a sixth stored after a cache-bypassing read (pending only), a sixth only retrieved
					// (cached), the rest stays in the ledger
					label = "lazy-pending"
					for _, id := range x.roots {
						fetch(id, true)
					}
					for _, id := range nonRoots {
						switch rng2.Intn(6) {
						case 0, 1:
							hcMust(x.ps.Store(id, fetch(id, true)))
						case 2:
							hcMust(x.ps.Store(id, fetch(id, false)))
						case 3:
							fetch(id, true)
						}
					}
				case 4:
					// directed: below up to four slabs holding several references, the FIRST referenced slab is
					// pending (stored again) and its siblings are not loaded; the parent and the roots are cached
					label = "lazy-pending-first-child"
					for _, id := range x.roots {
						fetch(id, true)
					}
					var multi []hslab
					for _, s := range h0 {
						if len(s.refs) >= 2 {
							multi = append(multi, s)
						}
					}
					if len(multi) == 0 {
						continue
					}
					for _, i := range rng2.Perm(len(multi))[:min(4, len(multi))] {
						par := multi[i]
						fetch(par.id, true)
						k := 0
						if i%2 == 1 {
							k = rng2.Intn(len(par.refs) - 1) // any but the last
						}
						hcMust(x.ps.Store(par.refs[k], fetch(par.refs[k], i%4 < 2)))
					}
					st.Hit("lazy:pending-child-before-unloaded-sibling")
				default:
					// the same situation produced by valid requests: every container is opened by its root
					// identifier on the new storage and a few of its elements are overwritten (the library loads
					// the path, stores the modified slabs; the other slabs stay in the ledger)
					label = "lazy-pending-handle"
					if len(x.conts) == 0 {
						continue
					}
					pay := uint64(90000000)
					for _, c := range x.conts {
						if !c.plain {
							continue
						}
						newVal := func() hx.TV {
							pay++
							if rng2.Intn(5) == 0 {
								return hx.TV{Size: 130 + uint32(rng2.Intn(40)), Pay: pay}
							}
							return hx.TV{Size: uint32(10 + rng2.Intn(40)), Pay: pay}
						}
						dispose := func(old atree.Storable) {
							if r, ok := old.(atree.SlabIDStorable); ok {
								hcMust(x.ps.Remove(atree.SlabID(r)))
							}
						}
						if c.isMap {
							b := c.builder
							if b == nil {
								b = atree.NewDefaultDigesterBuilder()
							}
							m, err := atree.NewMapWithRootID(x.ps, c.root, b)
							hcMust(err)
							for j, n := 0, 1+rng2.Intn(3); j < n && len(c.keys) > 0; j++ {
								old, err := m.Set(hx.CompareKey, hx.HashInput, c.keys[rng2.Intn(len(c.keys))], newVal())
								hcMust(err)
								dispose(old)
							}
						} else {
							a, err := atree.NewArrayWithRootID(x.ps, c.root)
							hcMust(err)
							for j, n := 0, 1+rng2.Intn(3); j < n && c.n > 0; j++ {
								old, err := a.Set(uint64(rng2.Intn(c.n)), newVal())
								hcMust(err)
								dispose(old)
							}
						}
					}
				}
				if variant < 3 {
					hcMust(x.ps.BatchPreload(load, 2))
				}
				runIter(p, label, x)
				curProg = p
				sd, sc, sb := storageState(x.ps, x.ledger, diff)
				roots, err := atree.CheckStorageHealth(x.ps, nr)
				obs := "err:" + healthErrKind(err)
				if err == nil {
					var rs []atree.SlabID
					for r := range roots {
						rs = append(rs, r)
					}
					hx.SortIDs(rs)
					obs = "ok:" + strings.Join(idStrs(rs), ",")
					if variant != 2 && obs != "ok:"+strings.Join(idStrs(x.roots), ",") {
						viol(p, fmt.Sprintf("health check on a partly loaded healthy storage (%s) returned %s, the containers' roots are %v", label, obs, idStrs(x.roots)), "")
					}
				} else if variant != 2 {
					viol(p, fmt.Sprintf("health check rejected a partly loaded healthy storage (%s): %v", label, err), "")
				}
				w.L("STO d=%s c=%s b=%s", heapLine(sd), heapLine(sc), heapLine(sb))
				w.L("HCS expected=%d label=%s", nr, label)
				w.L("OBS %s", obs)
				st.Ops++
				st.Hit("check:" + label)
			}
			// an unloaded slab referenced from two loaded slabs is fetched twice
			if len(nonRoots) > 0 {
				x := build()
				id := nonRoots[rng.Intn(len(nonRoots))]
				b, err := atree.NewArray(x.ps, id.Address(), hx.TI(9))
				hcMust(err)
				hcMust(b.Append(RefV{id}))
				hcMust(x.ps.FastCommit(1))
				x.ps = hx.NewStorage(x.ledger)
				var load []atree.SlabID
				for _, l := range x.ledger.SortedIDs() {
					if l != id {
						load = append(load, l)
					}
				}
				hcMust(x.ps.BatchPreload(load, 2))
				runIter(p, "lazy-double-reference@"+hx.IDStr(id), x)
				sd, sc, sb := storageState(x.ps, x.ledger, diff)
				_, err = atree.CheckStorageHealth(x.ps, -1)
				w.L("STO d=%s c=%s b=%s", heapLine(sd), heapLine(sc), heapLine(sb))
				w.L("HCS expected=-1 label=lazy-double-reference")
				w.L("OBS %s", map[bool]string{true: "ok:?", false: "err:" + healthErrKind(err)}[err == nil])
				if err == nil {
					viol(p, "health check accepted a slab referenced from two places (target not loaded)", "double-reference")
				}
				st.Ops++
				st.Hit("check:lazy-double-reference")
			}
		}
		// all-child-references query on each root, against the oracle walk
		for _, r := range hw.roots {
			runRefs(p, "healthy", hw, h0, r)
		}
		// ... and with one referenced slab deleted: it must be reported as broken, exactly
		for _, id := range pick(nonRoots, 3) {
			x := build()
			_ = x.ps.Remove(id)
			hx1 := liveHeap(x.ps, diff)
			for _, r := range x.roots {
				runRefs(p, "deleted@"+hx.IDStr(id), x, hx1, r)
			}
		}
		// the empty storage accepts 0 roots only
		if kind == hwEmpty && len(h0) != 0 {
			st.HarnessErr = "the empty world is not empty"
		}
	}
	// (f) DETACHED reference cycles beside healthy containers, on every run: slabs that refer to each
	//     other in a ring and to nothing else.  Every slab of the ring has exactly one parent, every
	//     reference resolves, there is no leaf below the ring, so no walk from a leaf ever enters it:
	//     "not reachable from a root" is the FIRST (and only) check that can reject such a storage.
	//     (The real functions return on it; what does not return is a ring with a leaf below it, see
	//     the observation that follows.  GetAllChildReferences is not called on a slab of the ring.)
	for v := 0; v < 6; v++ {
		p := len(specs) + v
		seed := cfg.Seed*1000 + 950 + int64(v)
		kind := []int{hwArrays, hwMaps, hwNested, hwArrays, hwEmpty, hwCollide}[v]
		var ring []atree.SlabID
		build := func() *healthWorld {
			x := buildWorld(seed, kind, false)
			ring = addRing(x, v, rand.New(rand.NewSource(seed)))
			return x
		}
		x := build()
		nr := len(x.roots)
		st.Programs++
		w.L("CFG world=%d kind=%s+ring%d committed=false roots=%s ring=%s", p, hwNames[kind], v, strings.Join(idStrs(x.roots), ","), strings.Join(idStrs(ring), ","))
		runCheck(p, fmt.Sprintf("detached-ring%d", v), x, nr, "Unreachable", "")
		runCheck(p, fmt.Sprintf("detached-ring%d-nocount", v), x, -1, "Unreachable", "")
		runCheck(p, fmt.Sprintf("detached-ring%d-wrongcount", v), x, nr+1, "Unreachable", "")
		runIter(p, fmt.Sprintf("detached-ring%d", v), x)
		// committed and read back by a new storage: everything loaded
		hcMust(x.ps.FastCommit(2))
		x.ps = hx.NewStorage(x.ledger)
		hcMust(x.ps.BatchPreload(x.ledger.SortedIDs(), 3))
		runCheck(p, fmt.Sprintf("detached-ring%d-committed", v), x, nr, "Unreachable", "")
		runCheck(p, fmt.Sprintf("detached-ring%d-committed-nocount", v), x, -1, "Unreachable", "")
		runIter(p, fmt.Sprintf("detached-ring%d-committed", v), x)
		// partly loaded: the roots and ONE slab of the ring; slab iteration fetches the rest of the ring
		// from the ledger and stops where the ring closes on the loaded slab
		x.ps = hx.NewStorage(x.ledger)
		for _, id := range append(append([]atree.SlabID{}, x.roots...), ring[0]) {
			if _, ok, err := x.ps.Retrieve(id); err != nil || !ok {
				panic(fmt.Sprintf("committed slab %s cannot be read back: %v", hx.IDStr(id), err))
			}
		}
		label := fmt.Sprintf("lazy-detached-ring%d", v)
		runIter(p, label, x)
		curProg = p
		sd, sc, sb := storageState(x.ps, x.ledger, diff)
		_, err := atree.CheckStorageHealth(x.ps, nr)
		if k := healthErrKind(err); k != "Unreachable" {
			viol(p, fmt.Sprintf("health check on a storage with a detached reference ring %v (one of its slabs loaded) answered %s, the check that has to fire is Unreachable: %v", idStrs(ring), k, err), "")
		}
		w.L("STO d=%s c=%s b=%s", heapLine(sd), heapLine(sc), heapLine(sb))
		w.L("HCS expected=%d label=%s", nr, label)
		w.L("OBS %s", map[bool]string{true: "ok:?", false: "err:" + healthErrKind(err)}[err == nil])
		st.Ops++
		st.Hit("check:lazy-detached-ring")
	}
	// OBSERVATION (not a violation: cyclic storages are not produced by valid histories and are not
	// one of the four corruption classes): on a reference cycle below a root the real functions do
	// not return.  Exercised in a child process under a watchdog.
	for _, call := range []string{"check", "refs", "iter"} {
		switch cycleProbe(call) {
		case "hang":
			st.Hit("observation:cyclic-" + call + "-does-not-return")
		case "returned":
			st.Hit("observation:cyclic-" + call + "-returns")
		default:
			st.Hit("observation:cyclic-" + call + "-probe-failed")
		}
	}
	for _, need := range []string{"slab:*atree.MapDataSlab", "slab:*atree.MapMetaDataSlab", "slab:*atree.StorableSlab", "world:nested", "world:collide", "world:empty",
		"case:wrapped-reference", "case:inlined-child", "case:reference-inside-inlined-child", "case:external-group",
		"case:external-group-under-inlined-map", "case:collision-group-slab"} {
		if nWorlds >= 2*hwKinds && st.Dist[need] == 0 {
			st.HarnessErr = "required case never generated: " + need
		}
	}
	// the directed cases of every run
	for _, need := range []string{"world:single", "check:lazy-roots", "check:lazy-pending", "check:lazy-detached-ring", "check:detached-ring0", "check:detached-ring5-committed"} {
		if st.Dist[need] == 0 {
			st.HarnessErr = "required case never generated: " + need
		}
	}
	if nWorlds >= 2*hwKinds && (st.Dist["lazy:pending-child-before-unloaded-sibling"] == 0 || st.Dist["check:lazy-pending-handle"] == 0) {
		st.HarnessErr = "required case never generated: a pending slab next to an unloaded sibling (directed / through a container handle)"
	}
	st.Distinct = len(distinct)
	st.TraceLines = w.Lines
	if len(st.Samples) == 0 {
		st.Samples = append(st.Samples, "worlds (T=256): 1-3 arrays | 1-2 maps (real digester; large values, oversized keys) | maps with digest tables (external collision groups) | parents holding inlined arrays/maps with references, external groups and wrappers inside | empty; uncommitted and committed+reloaded; expected = n, n+1, 0, -1; every corruption kind at sampled slabs; partly loaded storages")
	}
	atree.VerifSetThreshold(1024)
	return st
}

var (
	reWrappedRef  = regexp.MustCompile(`W\(\d+:(W\(\d+:)*R`)
	reInlinedArr  = regexp.MustCompile(`D\([^)]*,1\)`)
	reInlinedMap  = regexp.MustCompile(`d\([^)]*,1,[01],[01]\)`)
	reInlinedWRef = regexp.MustCompile(`[Dd]\([^)]*,1(,[01],[01])?\)[^\]]*\d+:R\d`)
)

// dumpCases names the shapes a slab exhibits (read off the field-by-field dump): what the worlds
// are required to contain.
func dumpCases(s atree.Slab) []string {
	d := atree.VerifDumpSlab(s, hx.Describe)
	var out []string
	if reWrappedRef.MatchString(d) {
		out = append(out, "wrapped-reference")
	}
	inl := reInlinedArr.MatchString(d) || reInlinedMap.MatchString(d)
	if inl {
		out = append(out, "inlined-child")
	}
	if reInlinedWRef.MatchString(d) {
		out = append(out, "reference-inside-inlined-child")
	}
	if strings.Contains(d, "X(") {
		out = append(out, "external-group")
		if inl {
			out = append(out, "external-group-under-inlined-map")
		}
	}
	if strings.HasPrefix(d, "d(") && strings.Contains(d[:strings.Index(d, ")")+1], ",1)") {
		out = append(out, "collision-group-slab")
	}
	return out
}

func hcSlab(ps *atree.PersistentSlabStorage, id atree.SlabID) atree.Slab {
	s, _, _ := ps.Retrieve(id)
	return s
}

// addRing adds a detached reference ring to the world: containers of which each holds exactly one
// reference, to the next one, the last to the first (no slab has two parents, every reference
// resolves, nothing of the world refers into the ring and the ring refers to nothing else).
//
//	0: A=[ref B], B=[ref A]                        1: A=[ref A]
//	2: M={k: ref A}, A=[W(ref B)], B=[ref M]       3: A=[ref B], B=[ref A] under two different owners
//	4: as 0 (the world is empty: the ring is all there is)
//	5: 2-6 arrays, plain elements before and after the reference
func addRing(x *healthWorld, v int, rng *rand.Rand) []atree.SlabID {
	type node struct {
		id  atree.SlabID
		put func(atree.Value)
	}
	pay := uint64(50000000)
	mkArr := func(addr atree.Address, before, after int) node {
		a, err := atree.NewArray(x.ps, addr, hx.TI(50))
		hcMust(err)
		return node{a.SlabID(), func(ref atree.Value) {
			for i := 0; i < before+after+1; i++ {
				if i == before {
					hcMust(a.Append(ref))
					continue
				}
				pay++
				hcMust(a.Append(hx.TV{Size: uint32(4 + rng.Intn(20)), Pay: pay}))
			}
		}}
	}
	mkMap := func(addr atree.Address) node {
		m, err := atree.NewMap(x.ps, addr, atree.NewDefaultDigesterBuilder(), hx.TI(51))
		hcMust(err)
		return node{m.SlabID(), func(ref atree.Value) {
			pay++
			_, err := m.Set(hx.CompareKey, hx.HashInput, hx.TV{Size: 9, Pay: pay}, ref)
			hcMust(err)
		}}
	}
	home := hx.MkAddr(1)
	var nodes []node
	wrap := map[int]bool{}
	switch v {
	case 1:
		nodes = []node{mkArr(home, 0, 0)}
	case 2:
		nodes = []node{mkMap(home), mkArr(home, 0, 0), mkArr(home, 0, 0)}
		wrap[1] = true
	case 3:
		nodes = []node{mkArr(home, 0, 0), mkArr(hx.MkAddr(3), 0, 0)}
	case 5:
		for i, n := 0, 2+rng.Intn(5); i < n; i++ {
			nodes = append(nodes, mkArr(home, rng.Intn(4), rng.Intn(4)))
		}
	default:
		nodes = []node{mkArr(home, 0, 0), mkArr(home, 0, 0)}
	}
	var ids []atree.SlabID
	for i, n := range nodes {
		var ref atree.Value = RefV{nodes[(i+1)%len(nodes)].id}
		if wrap[i] {
			ref = hx.SomeValue{V: ref}
		}
		n.put(ref)
		ids = append(ids, n.id)
	}
	return ids
}

// buildCycle: arrays A=[ref B, ref L], B=[ref A], L a large-value slab (no slab has two parents).
func buildCycle() (*atree.PersistentSlabStorage, atree.SlabID) {
	atree.VerifSetThreshold(256)
	ps := hx.NewStorage(hx.NewLedger())
	addr := hx.MkAddr(1)
	a, err := atree.NewArray(ps, addr, hx.TI(1))
	hcMust(err)
	b, err := atree.NewArray(ps, addr, hx.TI(2))
	hcMust(err)
	l, err := atree.NewStorableSlab(ps, addr, hx.TV{Size: 20, Pay: 1}, 20)
	hcMust(err)
	hcMust(a.Append(RefV{b.SlabID()}))
	hcMust(a.Append(RefV{atree.SlabID(l.(atree.SlabIDStorable))}))
	hcMust(b.Append(RefV{a.SlabID()}))
	return ps, a.SlabID()
}

// healthCycleChild runs one of the two functions on the cyclic storage and reports if it returns.
func healthCycleChild(cfg *Config) *hx.Stats {
	ps, root := buildCycle()
	switch os.Getenv("VERIF_CYCLE_CALL") {
	case "check":
		_, err := atree.CheckStorageHealth(ps, -1)
		fmt.Printf("RETURNED check err=%v\n", err)
	case "refs":
		refs, broken, err := ps.GetAllChildReferences(root)
		fmt.Printf("RETURNED refs %d %d err=%v\n", len(refs), len(broken), err)
	case "iter":
		// the cycle A <-> B sits in the ledger, only a third array R=[ref A] is loaded
		ledger := hx.NewLedger()
		ps := hx.NewStorage(ledger)
		addr := hx.MkAddr(1)
		a, err := atree.NewArray(ps, addr, hx.TI(1))
		hcMust(err)
		b, err := atree.NewArray(ps, addr, hx.TI(2))
		hcMust(err)
		r, err := atree.NewArray(ps, addr, hx.TI(3))
		hcMust(err)
		hcMust(a.Append(RefV{b.SlabID()}))
		hcMust(b.Append(RefV{a.SlabID()}))
		hcMust(r.Append(RefV{a.SlabID()}))
		hcMust(ps.FastCommit(1))
		ps = hx.NewStorage(ledger)
		hcMust(ps.BatchPreload([]atree.SlabID{r.SlabID()}, 1))
		_, err = ps.SlabIterator()
		fmt.Printf("RETURNED iter err=%v\n", err)
	}
	return hx.NewStats("healthcycle-child", cfg.Seed)
}

// cycleProbe re-executes the harness binary for one call on the cyclic storage and kills it when
// it has not returned within the watchdog period.
func cycleProbe(call string) string {
	self, err := os.Executable()
	if err != nil {
		return "failed"
	}
	dir, err := os.MkdirTemp("", "healthcycle")
	if err != nil {
		return "failed"
	}
	defer os.RemoveAll(dir)
	cmd := exec.Command(self, "-streams", "healthcycle-child", "-out", dir)
	cmd.Env = append(os.Environ(), "VERIF_CYCLE_CALL="+call, "GOMEMLIMIT=512MiB")
	var out strings.Builder
	cmd.Stdout = &out
	if err := cmd.Start(); err != nil {
		return "failed"
	}
	done := make(chan error, 1)
	go func() { done <- cmd.Wait() }()
	select {
	case <-done:
		if strings.Contains(out.String(), "RETURNED "+call) {
			return "returned"
		}
		return "failed"
	case <-time.After(400 * time.Millisecond):
		_ = cmd.Process.Kill()
		<-done
		return "hang"
	}
}
