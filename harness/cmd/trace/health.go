package main

import (
	"fmt"
	"math/rand"
	"path/filepath"
	"sort"
	"strings"

	"github.com/onflow/atree"

	"verifharness/hx"
)

func init() { streams["health"] = healthStream }

// RefV is a value whose storable is a bare reference to an existing slab (used to fabricate
// double references and foreign-owner references).
type RefV struct{ ID atree.SlabID }

func (r RefV) Storable(atree.SlabStorage, atree.Address, uint32) (atree.Storable, error) {
	return atree.SlabIDStorable(r.ID), nil
}

type healthWorld struct {
	ledger *hx.Ledger
	ps     *atree.PersistentSlabStorage
	roots  []atree.SlabID
	arrays []*atree.Array
}

// buildWorld deterministically builds a healthy storage: several arrays (some multi-level, some
// with large values in their own slabs) under one or two owners; optionally committed and
// reloaded so that every slab is served from the cache.
func buildWorld(seed int64, committed bool) *healthWorld {
	rng := rand.New(rand.NewSource(seed))
	atree.VerifSetThreshold(256)
	w := &healthWorld{ledger: hx.NewLedger()}
	w.ps = hx.NewStorage(w.ledger)
	nArr := 1 + rng.Intn(3)
	for k := 0; k < nArr; k++ {
		addr := hx.MkAddr(uint64(1 + rng.Intn(2)))
		a, err := atree.NewArray(w.ps, addr, hx.TI(7))
		if err != nil {
			panic(err)
		}
		n := rng.Intn(60)
		if k == 0 {
			n = 30 + rng.Intn(120)
		}
		for i := 0; i < n; i++ {
			size := uint32(10 + rng.Intn(60))
			if rng.Intn(12) == 0 {
				size = 130 + uint32(rng.Intn(40)) // externalised
			}
			if err := a.Append(hx.TV{Size: size, Pay: uint64(1000*k + i)}); err != nil {
				panic(err)
			}
		}
		w.arrays = append(w.arrays, a)
		w.roots = append(w.roots, a.SlabID())
	}
	if committed {
		if err := w.ps.FastCommit(2); err != nil {
			panic(err)
		}
		// reopen and load everything
		w.ps = hx.NewStorage(w.ledger)
		if err := w.ps.BatchPreload(w.ledger.SortedIDs(), 3); err != nil {
			panic(err)
		}
	}
	hx.SortIDs(w.roots)
	return w
}

type hslab struct {
	id   atree.SlabID
	self atree.SlabID
	refs []atree.SlabID
}

// liveHeap lists every slab visible through the storage (write set over cache), all loaded.
func liveHeap(ps *atree.PersistentSlabStorage) []hslab {
	deltas := atree.VerifDeltas(ps)
	cache := atree.VerifCache(ps)
	seen := map[atree.SlabID]bool{}
	var out []hslab
	add := func(id atree.SlabID, s atree.Slab) {
		if seen[id] {
			return
		}
		seen[id] = true
		if s == nil {
			return
		}
		h := hslab{id: id, self: s.SlabID()}
		todo := s.ChildStorables()
		for len(todo) > 0 {
			var next []atree.Storable
			for _, c := range todo {
				if r, ok := c.(atree.SlabIDStorable); ok {
					h.refs = append(h.refs, atree.SlabID(r))
				}
				next = append(next, c.ChildStorables()...)
			}
			todo = next
		}
		out = append(out, h)
	}
	for id, s := range deltas {
		add(id, s)
	}
	for id, s := range cache {
		add(id, s)
	}
	sort.Slice(out, func(i, j int) bool { return hx.IDLess(out[i].id, out[j].id) })
	return out
}

// oracleHealthy is the model-free reading of "healthy": every reference resolves, every slab is
// referenced at most once, owners agree along references, every slab hangs under a root.
// It returns the sorted roots when healthy.
func oracleHealthy(h []hslab) (bool, string, []atree.SlabID) {
	byID := map[atree.SlabID]hslab{}
	for _, s := range h {
		byID[s.id] = s
	}
	incoming := map[atree.SlabID]int{}
	for _, s := range h {
		for _, r := range s.refs {
			t, ok := byID[r]
			if !ok {
				return false, "dangling reference " + hx.IDStr(r) + " in " + hx.IDStr(s.id), nil
			}
			if t.self.Address() != s.self.Address() {
				return false, "owner mismatch " + hx.IDStr(s.id) + " -> " + hx.IDStr(r), nil
			}
			incoming[r]++
			if incoming[r] > 1 {
				return false, "double reference to " + hx.IDStr(r), nil
			}
		}
	}
	var roots []atree.SlabID
	for _, s := range h {
		if incoming[s.id] == 0 {
			roots = append(roots, s.id)
		}
	}
	// reachability from the roots
	seen := map[atree.SlabID]bool{}
	var walk func(id atree.SlabID)
	walk = func(id atree.SlabID) {
		if seen[id] {
			return
		}
		seen[id] = true
		for _, r := range byID[id].refs {
			walk(r)
		}
	}
	for _, r := range roots {
		walk(r)
	}
	if len(seen) != len(h) {
		return false, "slabs not reachable from any root (cycle)", nil
	}
	hx.SortIDs(roots)
	return true, "", roots
}

func heapLine(h []hslab) string {
	parts := make([]string, len(h))
	for i, s := range h {
		parts[i] = fmt.Sprintf("%s:%d:%s", hx.IDStr(s.id), s.self.AddressAsUint64(), strings.Join(idStrs(s.refs), ","))
	}
	return strings.Join(parts, ";")
}

func healthErrKind(err error) string {
	if err == nil {
		return "ok"
	}
	m := err.Error()
	switch {
	case strings.Contains(m, "two parents are captured"):
		return "TwoParents"
	case strings.Contains(m, "at least two references found to the leaf"):
		return "TwoRefsToLeaf"
	case strings.Contains(m, "not owned by the same account"):
		return "Owner"
	case strings.Contains(m, "not reachable from leaves"):
		return "Unreachable"
	case strings.Contains(m, "number of root slabs doesn't match"):
		return "RootCount"
	case strings.Contains(m, "duplicate slab"):
		return "Duplicate"
	case strings.Contains(m, "not found"):
		return "SlabNotFound"
	}
	return "Other"
}

func healthStream(cfg *Config) *hx.Stats {
	st := hx.NewStats("health", cfg.Seed)
	rng := rand.New(rand.NewSource(cfg.Seed*31337 + 3))
	w := hx.NewW(filepath.Join(cfg.Out, fmt.Sprintf("health-%d.trace", cfg.Seed)))
	defer w.Close()
	st.TraceFiles = append(st.TraceFiles, w.Path)
	nWorlds := int(10 * cfg.Scale)
	distinct := map[string]bool{}
	viol := func(prog int, what, sig string) {
		v := hx.Violation{Property: "C20", Stream: "health", Seed: cfg.Seed, Program: prog, What: what, Trace: w.Path, Line: w.Lines, Sig: sig}
		st.Violations = append(st.Violations, v)
	}
	// runs the real check, writes the trace lines, compares with the model-free oracle
	runCheck := func(prog int, label string, hw *healthWorld, expected int, sig string) {
		h := liveHeap(hw.ps)
		w.L("HEAP %s", heapLine(h))
		w.L("HC expected=%d label=%s", expected, label)
		roots, err := atree.CheckStorageHealth(hw.ps, expected)
		healthy, why, oroots := oracleHealthy(h)
		if err != nil {
			w.L("OBS err:%s", healthErrKind(err))
		} else {
			var rs []atree.SlabID
			for r := range roots {
				rs = append(rs, r)
			}
			hx.SortIDs(rs)
			w.L("OBS ok:%s", strings.Join(idStrs(rs), ","))
			if !healthy {
				viol(prog, fmt.Sprintf("health check accepted an unhealthy storage (%s): %s", label, why), sig)
			} else if strings.Join(idStrs(rs), ",") != strings.Join(idStrs(oroots), ",") {
				viol(prog, fmt.Sprintf("health check returned roots %v, true roots %v (%s)", idStrs(rs), idStrs(oroots), label), sig)
			}
		}
		if err == nil && healthy && expected >= 0 && len(oroots) != expected {
			viol(prog, fmt.Sprintf("health check accepted %d roots, expected %d (%s)", len(oroots), expected, label), sig)
		}
		if err != nil && healthy && (expected < 0 || len(oroots) == expected) {
			viol(prog, fmt.Sprintf("health check rejected a healthy storage (%s): %v", label, err), sig)
		}
		st.Ops++
		st.Hit("check:" + strings.SplitN(label, "@", 2)[0])
		distinct[label+heapLine(h)] = true
	}
	for p := 0; p < nWorlds; p++ {
		seed := cfg.Seed*1000 + int64(p)
		committed := p%2 == 1
		hw := buildWorld(seed, committed)
		st.Programs++
		runCheck(p, "healthy", hw, len(hw.roots), "")
		runCheck(p, "healthy-nocount", hw, -1, "")
		h0 := liveHeap(hw.ps)
		var nonRoots, all []atree.SlabID
		isRoot := map[atree.SlabID]bool{}
		for _, r := range hw.roots {
			isRoot[r] = true
		}
		for _, s := range h0 {
			all = append(all, s.id)
			if !isRoot[s.id] {
				nonRoots = append(nonRoots, s.id)
			}
		}
		pick := func(l []atree.SlabID, n int) []atree.SlabID {
			if len(l) <= n || cfg.Tier == "thorough" {
				return l
			}
			out := make([]atree.SlabID, 0, n)
			for _, i := range rng.Perm(len(l))[:n] {
				out = append(out, l[i])
			}
			return out
		}
		// (a) delete a referenced slab: through the storage (pending deletion) ...
		for _, id := range pick(nonRoots, 6) {
			x := buildWorld(seed, committed)
			_ = x.ps.Remove(id)
			runCheck(p, "delete-pending@"+hx.IDStr(id), x, len(x.roots), "delete-referenced:pending-or-cached-nil")
			// ... committed (the deletion is then a nil entry of the read cache)
			if err := x.ps.FastCommit(1); err == nil {
				runCheck(p, "delete-committed@"+hx.IDStr(id), x, len(x.roots), "delete-referenced:pending-or-cached-nil")
			}
			// ... and physically, followed by a reload of everything that is left
			if committed {
				y := buildWorld(seed, true)
				delete(y.ledger.Seg, id)
				y.ps = hx.NewStorage(y.ledger)
				_ = y.ps.BatchPreload(y.ledger.SortedIDs(), 2)
				runCheck(p, "delete-physical@"+hx.IDStr(id), y, len(y.roots), "delete-referenced:physical")
			}
		}
		// (b) an unreferenced slab beyond the expected root count
		{
			x := buildWorld(seed, committed)
			if _, err := atree.NewStorableSlab(x.ps, hx.MkAddr(1), hx.TV{Size: 20, Pay: 4242}, 20); err != nil {
				panic(err)
			}
			runCheck(p, "extra-unreferenced", x, len(x.roots), "extra-unreferenced")
		}
		// (c) one slab referenced from two places
		for _, id := range pick(nonRoots, 4) {
			x := buildWorld(seed, committed)
			b, err := atree.NewArray(x.ps, id.Address(), hx.TI(9))
			if err != nil {
				panic(err)
			}
			if err := b.Append(RefV{id}); err != nil {
				panic(err)
			}
			runCheck(p, "double-reference@"+hx.IDStr(id), x, len(x.roots)+1, "double-reference")
		}
		// (c') both references sit in ONE slab (two elements of the same data slab; one of them
		//      possibly behind a wrapper): the target is a fresh large-value slab
		for variant := 0; variant < 3; variant++ {
			x := buildWorld(seed, committed)
			ref, err := atree.NewStorableSlab(x.ps, hx.MkAddr(1), hx.TV{Size: 20, Pay: 777}, 20)
			if err != nil {
				panic(err)
			}
			target := atree.SlabID(ref.(atree.SlabIDStorable))
			b, err := atree.NewArray(x.ps, hx.MkAddr(1), hx.TI(9))
			if err != nil {
				panic(err)
			}
			_ = b.Append(hx.TV{Size: 5, Pay: 1})
			switch variant {
			case 0:
				_ = b.Append(RefV{target})
				_ = b.Append(RefV{target})
			case 1:
				_ = b.Append(hx.SomeValue{V: RefV{target}})
				_ = b.Append(RefV{target})
			default:
				_ = b.Append(RefV{target})
				_ = b.Append(hx.TV{Size: 7, Pay: 2})
				_ = b.Append(hx.SomeValue{V: hx.SomeValue{V: RefV{target}}})
			}
			runCheck(p, fmt.Sprintf("double-reference-same-slab%d@%s", variant, hx.IDStr(target)), x, len(x.roots)+1, "double-reference")
		}
		// (d) a reference to a slab owned by a different address
		for _, id := range pick(all, 4) {
			x := buildWorld(seed, committed)
			other := hx.MkAddr(uint64(3 + rng.Intn(3)))
			b, err := atree.NewArray(x.ps, other, hx.TI(9))
			if err != nil {
				panic(err)
			}
			if err := b.Append(RefV{id}); err != nil {
				panic(err)
			}
			exp := len(x.roots) + 1
			if isRoot[id] {
				exp = len(x.roots)
			}
			runCheck(p, "foreign-owner@"+hx.IDStr(id), x, exp, "foreign-owner")
		}
		// (d') a parent with SEVERAL external children, one of them owned by a different address, at
		//      every position among its siblings (the owner must be checked on every edge, in whatever
		//      order the slabs are visited)
		for pos := 0; pos < 3; pos++ {
			x := buildWorld(seed, committed)
			home := hx.MkAddr(1)
			other := hx.MkAddr(uint64(3 + rng.Intn(3)))
			b, err := atree.NewArray(x.ps, home, hx.TI(9))
			if err != nil {
				panic(err)
			}
			for j := 0; j < 3; j++ {
				a := home
				if j == pos {
					a = other
				}
				ref, err := atree.NewStorableSlab(x.ps, a, hx.TV{Size: 20, Pay: uint64(900 + j)}, 20)
				if err != nil {
					panic(err)
				}
				if err := b.Append(RefV{atree.SlabID(ref.(atree.SlabIDStorable))}); err != nil {
					panic(err)
				}
			}
			runCheck(p, fmt.Sprintf("foreign-owner-sibling%d", pos), x, len(x.roots)+1, "foreign-owner")
		}
		// all-child-references query on each root, against the oracle walk
		for _, r := range hw.roots {
			refs, broken, err := hw.ps.GetAllChildReferences(r)
			if err != nil {
				viol(p, "GetAllChildReferences failed on a healthy storage: "+err.Error(), "")
				continue
			}
			want := reachableRefs(h0, r)
			hx.SortIDs(refs)
			if strings.Join(idStrs(refs), ",") != strings.Join(idStrs(want), ",") || len(broken) != 0 {
				viol(p, fmt.Sprintf("GetAllChildReferences(%s) = %v broken %v, want %v", hx.IDStr(r), idStrs(refs), idStrs(broken), idStrs(want)), "")
			}
			w.L("REFS root=%s", hx.IDStr(r))
			w.L("OBS ok:%s|%s", strings.Join(idStrs(refs), ","), strings.Join(idStrs(broken), ","))
		}
		// ... and with one referenced slab deleted: it must be reported as broken, exactly
		for _, id := range pick(nonRoots, 3) {
			x := buildWorld(seed, committed)
			_ = x.ps.Remove(id)
			hx1 := liveHeap(x.ps)
			for _, r := range x.roots {
				refs, broken, err := x.ps.GetAllChildReferences(r)
				if err != nil {
					continue
				}
				hx.SortIDs(refs)
				hx.SortIDs(broken)
				w.L("HEAP %s", heapLine(hx1))
				w.L("REFS root=%s", hx.IDStr(r))
				w.L("OBS ok:%s|%s", strings.Join(idStrs(refs), ","), strings.Join(idStrs(broken), ","))
				wantRefs, wantBroken := refsAndBroken(hx1, r)
				if strings.Join(idStrs(refs), ",") != strings.Join(idStrs(wantRefs), ",") ||
					strings.Join(idStrs(broken), ",") != strings.Join(idStrs(wantBroken), ",") {
					viol(p, fmt.Sprintf("GetAllChildReferences(%s) after deleting %s = %v / broken %v, want %v / %v",
						hx.IDStr(r), hx.IDStr(id), idStrs(refs), idStrs(broken), idStrs(wantRefs), idStrs(wantBroken)), "")
				}
			}
		}
	}
	st.Distinct = len(distinct)
	st.TraceLines = w.Lines
	if len(st.Samples) == 0 {
		st.Samples = append(st.Samples, "worlds of 1-3 arrays (T=256, up to ~40 slabs, large values in own slabs), uncommitted and committed+reloaded; every corruption kind at sampled slabs")
	}
	atree.VerifSetThreshold(1024)
	// split known findings off
	return st
}

func reachableRefs(h []hslab, root atree.SlabID) []atree.SlabID {
	r, _ := refsAndBroken(h, root)
	return r
}

func refsAndBroken(h []hslab, root atree.SlabID) (refs, broken []atree.SlabID) {
	byID := map[atree.SlabID]hslab{}
	for _, s := range h {
		byID[s.id] = s
	}
	seen := map[atree.SlabID]bool{}
	var walk func(id atree.SlabID)
	walk = func(id atree.SlabID) {
		for _, r := range byID[id].refs {
			if seen[r] {
				continue
			}
			seen[r] = true
			if _, ok := byID[r]; !ok {
				broken = append(broken, r)
				continue
			}
			refs = append(refs, r)
			walk(r)
		}
	}
	walk(root)
	hx.SortIDs(refs)
	hx.SortIDs(broken)
	return
}
