//go:build race

package main

// digesterTraceTag keeps the trace of a -race run apart from the trace of the plain run of the same
// seed (check runs both into one directory and cuts history excerpts from the files afterwards).
const digesterTraceTag = "digester-race"
