package main

import (
	"fmt"
	"runtime/debug"
	"strings"

	"verifharness/hx"
)

// recoverAsViolation is deferred by a stream function with a NAMED result: a panic inside a library
// call on the ordinary inputs of the stream (or a set-up request the library refused: the harness
// panics on those) is a verdict about the tree, whatever property the stream was run for.  It
// becomes a violation of property "*" carrying the panic text and the library frames, at the trace
// position of the call; the statistics gathered so far are returned (a recovered function would
// otherwise hand back the zero value: "STATS null"), marked with a harness error because the trace
// ends mid-stream.
func recoverAsViolation(st *hx.Stats, w *hx.W, res **hx.Stats) {
	r := recover()
	if r == nil {
		return
	}
	st.HarnessErr = fmt.Sprintf("%s stream panicked: %v", st.Stream, r)
	st.Violations = append(st.Violations, hx.Violation{Property: "*", Stream: st.Stream, Seed: st.Seed, Program: st.Programs,
		What: fmt.Sprintf("panic during the request that follows trace line %d: %v%s", w.Lines, r, libraryFrames(debug.Stack())), Trace: w.Path, Line: w.Lines})
	st.TraceLines = w.Lines
	*res = st
}

// libraryFrames cuts the frames of the library under test (and the harness function that called
// it) out of a stack dump: " [atree.SlabID.ToRawBytes slab_id.go:98 <- main.(*sidEnv).idLine slabid.go:210]".
func libraryFrames(stack []byte) string {
	lines := strings.Split(string(stack), "\n")
	var out []string
	for i := 0; i+1 < len(lines) && len(out) < 6; i++ {
		fn := strings.TrimSpace(lines[i])
		loc := strings.TrimSpace(lines[i+1])
		if !strings.Contains(fn, "(") || !strings.Contains(loc, ".go:") {
			continue
		}
		lib := strings.Contains(fn, "onflow/atree.") || strings.Contains(fn, "onflow/atree/")
		if !lib && !(len(out) > 0 && strings.HasPrefix(fn, "main.")) {
			continue
		}
		if k := strings.LastIndex(fn, "("); k > 0 {
			fn = fn[:k]
		}
		fn = fn[strings.LastIndex(fn, "/")+1:]
		loc = strings.Fields(loc)[0]
		out = append(out, fn+" "+loc[strings.LastIndex(loc, "/")+1:])
		if !lib {
			break
		}
	}
	if len(out) == 0 {
		return ""
	}
	return " [" + strings.Join(out, " <- ") + "]"
}
