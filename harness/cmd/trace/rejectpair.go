package main

import (
	"bytes"
	"fmt"
	"math/rand"
	"sort"
	"strings"

	"github.com/onflow/atree"

	"verifharness/hx"
)

// rejectpair (C18, audit a2 / F8): "a history with rejected requests commits the same registers as
// the history without them", decided on the implementation.
//
// A program is a history over one array (holding a nested child array that is driven through its own
// handle), one map with a small collision limit and one map using the library's digester, with
// commits in between.  About a third of the requests cannot be served: indices and ranges out of
// bounds (incl. 2^64-1, 2^32, count+2^32), absent keys, new keys refused by the collision limit, the
// undefined identifier, callbacks failing (comparator / hash-input provider at call 1..3, ledger reads
// after a cache drop).  Run A executes everything and records which requests were rejected; around
// every rejected request the trees (parent, child, maps) and the exact pending write set are compared.
// Run B executes only the served requests, with healthy callbacks.  After EVERY commit the two ledgers
// (registers and allocation counters) must be byte-identical.

func init() { streams["rejectpair"] = rejectPairStream }

type rq struct {
	kind   string // a.get a.set a.ins a.rem a.range c.get c.set c.ins c.rem m.get m.has m.set m.rem d.get d.set d.rem commit undef
	i, j   uint64
	k, v   hx.TV
	bad    string // "" served; else the reason it must be rejected: index range absent limit undef; or callback kinds comparator hip ledger (rejected iff the failure fires)
	failAt int
}

const pairBuckets = 5

func pairDigest(k hx.TV, l uint) uint64 {
	if l == 0 {
		return (k.Pay % pairBuckets) * 1000003
	}
	return k.Pay
}

// pairGen proposes the next request from the abstract content, which it updates from what run A
// actually served: it always knows which argument mistakes must be rejected.
type pairGen struct {
	rng              *rand.Rand
	T                uint32
	climit           int
	alen, clen, cpos int // parent length, child length, position of the child in the parent
	mkeys, dkeys     map[uint64]bool
	pay              uint64
	sinceCommit      int
	afterCommit      bool
}

func (g *pairGen) val(over bool) hx.TV {
	g.pay++
	size := uint32(4 + g.rng.Intn(int(g.T/6)))
	if over {
		size = g.T/2 + uint32(g.rng.Intn(40)) // would need a slab of its own
	}
	return mkTV(size, g.pay)
}

func (g *pairGen) huge(count int) uint64 {
	return []uint64{uint64(count) + uint64(g.rng.Intn(3)), ^uint64(0), 1 << 32, uint64(count) + 1<<32, 1 << 63, uint64(count)}[g.rng.Intn(6)]
}

func (g *pairGen) bucketCount(p uint64) int {
	c := 0
	for q := range g.mkeys {
		if q%pairBuckets == p%pairBuckets {
			c++
		}
	}
	return c
}

func somePresent(rng *rand.Rand, m map[uint64]bool) (uint64, bool) {
	if len(m) == 0 {
		return 0, false
	}
	ks := make([]uint64, 0, len(m))
	for k := range m {
		ks = append(ks, k)
	}
	sort.Slice(ks, func(i, j int) bool { return ks[i] < ks[j] })
	return ks[rng.Intn(len(ks))], true
}

// validIdx: an index of the parent that is not the child's slot
func (g *pairGen) validIdx() (uint64, bool) {
	if g.alen < 2 {
		return 0, false
	}
	for {
		i := g.rng.Intn(g.alen)
		if i != g.cpos {
			return uint64(i), true
		}
	}
}

// served: run A served the request; follow it in the abstract content.
func (g *pairGen) served(q rq) {
	p := q.k.Pay
	switch q.kind {
	case "a.ins":
		if int(q.i) <= g.cpos {
			g.cpos++
		}
		g.alen++
	case "a.rem":
		if int(q.i) < g.cpos {
			g.cpos--
		}
		g.alen--
	case "c.ins":
		g.clen++
	case "c.rem":
		g.clen--
	case "m.set":
		g.mkeys[p] = true
	case "m.rem":
		delete(g.mkeys, p)
	case "d.set":
		g.dkeys[p] = true
	case "d.rem":
		delete(g.dkeys, p)
	}
}

// validRequest: a request that is served when nothing fails (used with an injected failure).
func (g *pairGen) validRequest() (rq, bool) {
	rng := g.rng
	switch kind := []string{"m.get", "m.has", "m.set", "m.rem", "d.get", "d.set", "d.rem", "a.get", "a.set", "a.ins", "a.rem"}[rng.Intn(11)]; kind {
	case "m.get", "m.has", "m.rem":
		p, ok := somePresent(rng, g.mkeys)
		return rq{kind: kind, k: hx.TV{Size: 9, Pay: p}}, ok
	case "m.set":
		p := uint64(1 + rng.Intn(60))
		if !g.mkeys[p] && g.bucketCount(p)-1 >= g.climit {
			return rq{}, false
		}
		return rq{kind: kind, k: hx.TV{Size: 9, Pay: p}, v: g.val(rng.Intn(4) == 0)}, true
	case "d.get", "d.rem":
		p, ok := somePresent(rng, g.dkeys)
		return rq{kind: kind, k: hx.TV{Size: 9, Pay: p}}, ok
	case "d.set":
		return rq{kind: kind, k: hx.TV{Size: 9, Pay: uint64(1 + rng.Intn(80))}, v: g.val(rng.Intn(4) == 0)}, true
	case "a.ins":
		return rq{kind: kind, i: uint64(rng.Intn(g.alen + 1)), v: g.val(false)}, true
	default:
		i, ok := g.validIdx()
		return rq{kind: kind, i: i, v: g.val(false)}, ok
	}
}

func (g *pairGen) next() rq {
	rng := g.rng
	if g.afterCommit {
		// right after a commit: the cache is dropped and the ledger fails to deliver
		g.afterCommit = false
		if q, ok := g.validRequest(); ok && rng.Intn(3) > 0 {
			q.bad = "ledger"
			return q
		}
	}
	for {
		r := rng.Intn(100)
		g.sinceCommit++
		switch {
		case r < 9:
			return rq{kind: "a.ins", i: uint64(rng.Intn(g.alen + 1)), v: g.val(rng.Intn(12) == 0)}
		case r < 13:
			if i, ok := g.validIdx(); ok {
				return rq{kind: "a.set", i: i, v: g.val(rng.Intn(12) == 0)}
			}
		case r < 17:
			if i, ok := g.validIdx(); ok {
				return rq{kind: "a.rem", i: i}
			}
		case r < 19:
			return rq{kind: "a.get", i: uint64(rng.Intn(g.alen))}
		case r < 27:
			// rejected array requests; writes carry a value that would need its own slab half of the time
			k := []string{"a.get", "a.set", "a.ins", "a.rem"}[rng.Intn(4)]
			i := g.huge(g.alen)
			if k == "a.ins" && i == uint64(g.alen) {
				i++
			}
			return rq{kind: k, i: i, v: g.val(rng.Intn(2) == 0), bad: "index"}
		case r < 30:
			lo, hi := uint64(rng.Intn(g.alen+3)), uint64(rng.Intn(g.alen+3))
			if rng.Intn(4) == 0 {
				hi = g.huge(g.alen + 1)
			}
			bad := ""
			if lo > hi || hi > uint64(g.alen) {
				bad = "range"
			}
			return rq{kind: "a.range", i: lo, j: hi, bad: bad}
		case r < 36:
			return rq{kind: "c.ins", i: uint64(rng.Intn(g.clen + 1)), v: g.val(false)}
		case r < 38:
			if g.clen > 0 {
				return rq{kind: "c.rem", i: uint64(rng.Intn(g.clen))}
			}
		case r < 40:
			if g.clen > 0 {
				return rq{kind: "c.set", i: uint64(rng.Intn(g.clen)), v: g.val(false)}
			}
		case r < 46:
			// rejected requests through the nested handle: the ancestors must not move either
			k := []string{"c.get", "c.set", "c.ins", "c.rem"}[rng.Intn(4)]
			i := g.huge(g.clen)
			if k == "c.ins" && i == uint64(g.clen) {
				i++
			}
			return rq{kind: k, i: i, v: g.val(rng.Intn(2) == 0), bad: "index"}
		case r < 58:
			p := uint64(1 + rng.Intn(60))
			bad := ""
			if !g.mkeys[p] && g.bucketCount(p)-1 >= g.climit {
				bad = "limit"
			}
			return rq{kind: "m.set", k: hx.TV{Size: 9, Pay: p}, v: g.val(rng.Intn(10) == 0), bad: bad}
		case r < 70:
			p := uint64(1 + rng.Intn(60))
			bad := ""
			if !g.mkeys[p] {
				bad = "absent"
			}
			return rq{kind: []string{"m.rem", "m.rem", "m.get"}[rng.Intn(3)], k: hx.TV{Size: 9, Pay: p}, bad: bad}
		case r < 76:
			return rq{kind: "d.set", k: hx.TV{Size: 9, Pay: uint64(1 + rng.Intn(80))}, v: g.val(rng.Intn(10) == 0)}
		case r < 80:
			p := uint64(1 + rng.Intn(80))
			bad := ""
			if !g.dkeys[p] {
				bad = "absent"
			}
			return rq{kind: "d.rem", k: hx.TV{Size: 9, Pay: p}, bad: bad}
		case r < 90:
			// a callback fails: rejected iff the failing call is reached (decided by run A)
			if q, ok := g.validRequest(); ok && q.kind[0] != 'a' {
				q.bad = []string{"comparator", "hip"}[rng.Intn(2)]
				q.failAt = 1 + rng.Intn(3)
				return q
			}
		case r < 92:
			return rq{kind: "undef", i: uint64(rng.Intn(4)), bad: "undef"}
		case r < 96 || g.sinceCommit > 40:
			g.sinceCommit = 0
			g.afterCommit = true
			return rq{kind: "commit"}
		}
	}
}

type pairRun struct {
	ledger  *hx.Ledger
	ps      *atree.PersistentSlabStorage
	rec     *hx.RecStorage
	arr     *atree.Array
	child   *atree.Array
	m, d    *atree.OrderedMap
	commits []string // ledger image after every commit
	content string
}

func ledgerImage(l *hx.Ledger) string {
	var sb strings.Builder
	for _, id := range l.SortedIDs() {
		fmt.Fprintf(&sb, "%s=%x;", hx.IDStr(id), l.Seg[id])
	}
	var addrs []string
	for a, n := range l.Idx {
		addrs = append(addrs, fmt.Sprintf("%x:%d", a[:], n))
	}
	sort.Strings(addrs)
	return sb.String() + "|counters " + strings.Join(addrs, ",")
}

func (r *pairRun) snapshot() string {
	return strings.Join([]string{
		hx.DumpTree(r.ps, atree.VerifArrayRoot(r.arr)), hx.DumpTree(r.ps, atree.VerifArrayRoot(r.child)),
		hx.DumpTree(r.ps, atree.VerifMapRoot(r.m)), hx.DumpTree(r.ps, atree.VerifMapRoot(r.d)), deltaKeys(r.ps)}, "\n")
}

// runPair executes the history.  serve == nil: run A (everything; returns which requests were
// rejected).  serve != nil: run B (only the served requests, healthy callbacks).
func runPair(st *hx.Stats, viol func(string), g *pairGen, n int, reqs []rq, T uint32, climit uint32, serve []bool) (*pairRun, []rq, []bool) {
	atree.VerifSetThreshold(T)
	atree.VerifSetMaxCollisionLimitPerDigest(climit)
	r := &pairRun{ledger: hx.NewLedger()}
	r.ps = hx.NewStorage(r.ledger)
	r.rec = hx.NewRecStorage(r.ps)
	var err error
	fail := func(what string, err error) (*pairRun, []rq, []bool) {
		st.HarnessErr = fmt.Sprintf("rejectpair: %s: %v", what, err)
		return nil, nil, nil
	}
	if r.arr, err = atree.NewArray(r.rec, hx.MkAddr(1), hx.TI(1)); err != nil {
		return fail("NewArray", err)
	}
	if r.child, err = atree.NewArray(r.rec, hx.MkAddr(1), hx.TI(2)); err != nil {
		return fail("NewArray", err)
	}
	if err = r.arr.Append(r.child); err != nil {
		return fail("Append(child)", err)
	}
	b := &hx.TableDigesterBuilder{L: 2, CallHip: true, Fn: pairDigest}
	if r.m, err = atree.NewMap(r.rec, hx.MkAddr(2), b, hx.TI(3)); err != nil {
		return fail("NewMap", err)
	}
	if r.d, err = atree.NewMap(r.rec, hx.MkAddr(3), atree.NewDefaultDigesterBuilder(), hx.TI(4)); err != nil {
		return fail("NewMap", err)
	}
	rejected := make([]bool, n)
	for n := 0; n < len(rejected); n++ {
		if serve != nil && !serve[n] {
			continue
		}
		var q rq
		switch {
		case serve != nil:
			q = reqs[n]
		case n == len(rejected)-1:
			q = rq{kind: "commit"}
			reqs = append(reqs, q)
		default:
			q = g.next()
			reqs = append(reqs, q)
		}
		if q.kind == "commit" {
			if err := r.ps.FastCommit(2); err != nil {
				return fail("commit", err)
			}
			r.commits = append(r.commits, ledgerImage(r.ledger))
			continue
		}
		// callbacks: healthy in run B and for requests without an injected failure
		calls, hcalls, fired := 0, 0, false
		cmp := atree.ValueComparator(hx.CompareKey)
		hip := atree.HashInputProvider(hx.HashInput)
		if serve == nil && q.bad == "comparator" {
			cmp = func(s atree.SlabStorage, v atree.Value, x atree.Storable) (bool, error) {
				calls++
				if calls == q.failAt {
					fired = true
					return false, errCallback
				}
				return hx.CompareKey(s, v, x)
			}
		}
		if serve == nil && q.bad == "hip" {
			hip = func(v atree.Value, buf []byte) ([]byte, error) {
				hcalls++
				if hcalls == 1 {
					fired = true
					return nil, errCallback
				}
				return hx.HashInput(v, buf)
			}
		}
		before := ""
		if serve == nil && q.bad != "" {
			before = r.snapshot()
		}
		if serve == nil && q.bad == "ledger" {
			r.ps.DropCache()
			roots := map[atree.SlabID]bool{r.arr.SlabID(): true, r.m.SlabID(): true, r.d.SlabID(): true}
			for id := range r.ledger.Seg {
				if !roots[id] {
					r.ledger.ReadFail[id] = true
				}
			}
			r.ledger.ReadFailHits = 0
		}
		r.rec.Reset()
		var err error
		cnt := r.arr.Count() // the count the bounds of a rejected index are stated against
		if strings.HasPrefix(q.kind, "c.") {
			cnt = r.child.Count()
		}
		mp := r.m
		if strings.HasPrefix(q.kind, "d.") {
			mp = r.d
		}
		ar := r.arr
		if strings.HasPrefix(q.kind, "c.") {
			ar = r.child
		}
		switch q.kind[2:] {
		case "get":
			if q.kind[0] == 'm' || q.kind[0] == 'd' {
				_, err = mp.Get(cmp, hip, q.k)
			} else {
				_, err = ar.Get(q.i)
			}
		case "has":
			var has bool
			has, err = mp.Has(cmp, hip, q.k)
			if err == nil && !has {
				err = fmt.Errorf("has = false")
			}
		case "set":
			if q.kind[0] == 'm' || q.kind[0] == 'd' {
				var old atree.Storable
				old, err = mp.Set(cmp, hip, q.k, q.v)
				if id, ok := old.(atree.SlabIDStorable); ok && err == nil {
					_ = r.ps.Remove(atree.SlabID(id))
				}
			} else {
				var old atree.Storable
				old, err = ar.Set(q.i, q.v)
				if id, ok := old.(atree.SlabIDStorable); ok && err == nil {
					_ = r.ps.Remove(atree.SlabID(id))
				}
			}
		case "ins":
			err = ar.Insert(q.i, q.v)
		case "rem":
			if q.kind[0] == 'm' || q.kind[0] == 'd' {
				var old atree.Storable
				_, old, err = mp.Remove(cmp, hip, q.k)
				if id, ok := old.(atree.SlabIDStorable); ok && err == nil {
					_ = r.ps.Remove(atree.SlabID(id))
				}
			} else {
				var old atree.Storable
				old, err = ar.Remove(q.i)
				if id, ok := old.(atree.SlabIDStorable); ok && err == nil {
					_ = r.ps.Remove(atree.SlabID(id))
				}
			}
		case "range":
			err = r.arr.IterateReadOnlyRange(q.i, q.j, func(atree.Value) (bool, error) { return true, nil })
		case "def": // undef
			switch q.i {
			case 0:
				_, err = atree.NewArrayWithRootID(r.rec, atree.SlabIDUndefined)
			case 1:
				_, err = atree.NewMapWithRootID(r.rec, atree.SlabIDUndefined, b)
			case 2:
				s, _, _ := r.ps.Retrieve(r.arr.SlabID())
				err = r.ps.Store(atree.SlabIDUndefined, s)
			default:
				err = r.ps.Remove(atree.SlabIDUndefined)
			}
		}
		if q.bad == "ledger" && serve == nil {
			fired = r.ledger.ReadFailHits > 0
			r.ledger.ReadFail = map[atree.SlabID]bool{}
		}
		st.Ops++
		if serve != nil {
			if err != nil {
				viol(fmt.Sprintf("request %d (%s) was served in the full history but fails in the history without the rejected requests: %s", n, q.kind, hx.ErrKind(err)))
			}
			continue
		}
		rejected[n] = err != nil
		what := fmt.Sprintf("request %d (%s, %s)", n, q.kind, q.bad)
		switch q.bad {
		case "":
			if err != nil {
				st.HarnessErr = fmt.Sprintf("rejectpair: %s expected to be served failed: %v", what, err)
				return nil, nil, nil
			}
			g.served(q)
			continue
		case "index", "range", "absent", "limit", "undef":
			if err == nil {
				viol(what + " was accepted")
				continue
			}
			st.Hit("rejected:" + q.bad + ":" + q.kind)
			want := map[string][]string{"index": {"IndexOutOfBounds:User"}, "range": {"SliceOutOfBounds:User", "InvalidSliceIndex:User"},
				"absent": {"KeyNotFound:User"}, "limit": {"CollisionLimit:Fatal"}, "undef": {"SlabIDUndefined:Fatal"}}[q.bad]
			ok := false
			for _, w := range want {
				ok = ok || hx.ErrKind(err) == w
			}
			if !ok {
				viol(fmt.Sprintf("%s reported %s, want %v", what, hx.ErrKind(err), want))
			} else if d := pairErrNames(q, err, cnt, uint32(g.climit)); d != "" {
				viol(fmt.Sprintf("%s: %s", what, d))
			}
		default:
			if !fired {
				if err != nil {
					st.HarnessErr = fmt.Sprintf("rejectpair: %s failed although no failure was injected: %v", what, err)
					return nil, nil, nil
				}
				g.served(q)
				continue
			}
			if err == nil && q.kind == "m.set" && q.bad == "comparator" && g.bucketCount(q.k.Pay)-1 >= g.climit {
				// audit a2 / F4: the first-level group is at the collision limit, hkeyElements.Set probes it
				// with elem.Get and drops every error but KeyNotFound; the request is then served.  Counted,
				// not raised (see callbackfail / limitProbe); the request belongs to the served history.
				st.Hit("observation:comparator-error-swallowed-in-limit-probe")
				rejected[n] = false
				g.served(q)
				continue
			}
			if err == nil {
				viol(what + ": the caller-supplied component failed but the request succeeded")
				continue
			}
			st.Hit("rejected:" + q.bad + ":" + q.kind)
			st.Hit("rejected:" + q.bad + ":" + map[byte]string{'a': "array", 'c': "array", 'm': "map", 'd': "map"}[q.kind[0]])
			if hx.ErrCategory(err) != "External" {
				viol(fmt.Sprintf("%s: failure of a caller-supplied component reported as %s", what, hx.ErrKind(err)))
			}
		}
		if len(r.rec.Effs) != 0 {
			viol(fmt.Sprintf("%s: the rejected request called SlabStorage: %s", what, hx.NetEffect(r.rec.Effs)))
		}
		if after := r.snapshot(); after != before {
			viol(what + ": the rejected request changed a container, an ancestor or the pending write set")
		}
	}
	// logical content, read back through the handles
	var sb strings.Builder
	_ = r.arr.IterateReadOnly(func(v atree.Value) (bool, error) { fmt.Fprintf(&sb, "%v,", v); return true, nil })
	_ = r.child.IterateReadOnly(func(v atree.Value) (bool, error) { fmt.Fprintf(&sb, "c%v,", v); return true, nil })
	for _, mp := range []*atree.OrderedMap{r.m, r.d} {
		_ = mp.IterateReadOnly(func(k, v atree.Value) (bool, error) { fmt.Fprintf(&sb, "%v=%v,", k, v); return true, nil })
	}
	r.content = sb.String()
	return r, reqs, rejected
}

func rejectPairStream(cfg *Config) *hx.Stats {
	st := hx.NewStats("rejectpair", cfg.Seed)
	rng := rand.New(rand.NewSource(cfg.Seed*3571 + 9))
	nProg := int(16 * cfg.Scale)
	if nProg < 1 {
		nProg = 1
	}
	distinct := map[string]bool{}
	for p := 0; p < nProg && len(st.Violations) <= 10 && st.HarnessErr == ""; p++ {
		T := []uint32{256, 512, 256, 1024}[p%4]
		climit := uint32(1 + rng.Intn(3))
		g := &pairGen{rng: rng, T: T, climit: int(climit), alen: 1, mkeys: map[uint64]bool{}, dkeys: map[uint64]bool{}}
		viol := func(what string) {
			st.Violations = append(st.Violations, hx.Violation{Property: "C18", Stream: "rejectpair", Seed: cfg.Seed, Program: p, What: what})
		}
		a, reqs, rejected := runPair(st, viol, g, 300+rng.Intn(200), nil, T, climit, nil)
		if a == nil {
			break
		}
		serve := make([]bool, len(reqs))
		nRej := 0
		for i := range reqs {
			serve[i] = !rejected[i]
			if rejected[i] {
				nRej++
			}
		}
		b, _, _ := runPair(st, viol, nil, len(reqs), reqs, T, climit, serve)
		if b == nil {
			break
		}
		st.Programs++
		st.Dist["rejected-requests"] += nRej
		st.Dist["commits"] += len(a.commits)
		if len(a.commits) != len(b.commits) {
			st.HarnessErr = "rejectpair: the two runs committed a different number of times"
			break
		}
		for i := range a.commits {
			if a.commits[i] != b.commits[i] {
				viol(fmt.Sprintf("commit %d of %d: the history with its %d rejected requests and the history without them committed different ledgers (%s)", i+1, len(a.commits), nRej, firstDiff(a.commits[i], b.commits[i])))
				break
			}
		}
		if a.content != b.content {
			viol("the history with rejected requests and the history without them end with different content")
		}
		if !bytes.Equal([]byte(deltaKeys(a.ps)), []byte(deltaKeys(b.ps))) {
			viol("the pending write sets of the two histories differ after the last commit")
		}
		distinct[fmt.Sprintf("%d/%d/%d", T, len(reqs), nRej)] = true
		if len(st.Samples) < 2 {
			st.Samples = append(st.Samples, fmt.Sprintf("T=%d collision limit %d: %d requests, %d rejected, %d commits, final ledger of %d registers identical with and without the rejected requests", T, climit, len(reqs), nRej, len(a.commits), len(a.ledger.Seg)))
		}
	}
	if st.HarnessErr == "" && len(st.Violations) == 0 && cfg.Scale >= 1 {
		var missing []string
		for _, t := range []string{"rejected:index:a.set", "rejected:index:a.ins", "rejected:index:a.rem", "rejected:index:a.get",
			"rejected:index:c.set", "rejected:index:c.ins", "rejected:index:c.rem", "rejected:range:a.range",
			"rejected:absent:m.rem", "rejected:absent:d.rem", "rejected:limit:m.set", "rejected:undef:undef",
			"rejected:comparator:map", "rejected:hip:m.set", "rejected:hip:d.set", "rejected:ledger:map", "rejected:ledger:array"} {
			if st.Dist[t] == 0 {
				missing = append(missing, t)
			}
		}
		if len(missing) > 0 {
			st.HarnessErr = "rejectpair: rejections never produced: " + strings.Join(missing, "; ")
		}
	}
	st.Distinct = len(distinct)
	atree.VerifSetThreshold(1024)
	atree.VerifSetMaxCollisionLimitPerDigest(255)
	return st
}

// pairErrNames: C18 "returns an error naming that cause": the index and the bounds it violates, the
// range, the absent key, the collision limit.
func pairErrNames(q rq, err error, count uint64, climit uint32) string {
	switch q.bad {
	case "index":
		return hx.ErrNames(err, "IndexOutOfBounds", q.i, 0, count)
	case "range":
		if strings.HasPrefix(hx.ErrKind(err), "InvalidSliceIndex") {
			return hx.ErrNames(err, "InvalidSliceIndex", q.i, q.j)
		}
		return hx.ErrNames(err, "SliceOutOfBounds", q.i, q.j, 0, count)
	case "absent":
		return hx.ErrNames(err, "KeyNotFound", q.k)
	case "limit":
		return hx.ErrNames(err, "CollisionLimit", climit)
	}
	return ""
}

func firstDiff(a, b string) string {
	pa, pb := strings.Split(a, ";"), strings.Split(b, ";")
	for i := 0; i < len(pa) && i < len(pb); i++ {
		if pa[i] != pb[i] {
			x, y := pa[i], pb[i]
			if len(x) > 60 {
				x = x[:60] + "..."
			}
			if len(y) > 60 {
				y = y[:60] + "..."
			}
			return fmt.Sprintf("first difference: %q vs %q", x, y)
		}
	}
	return fmt.Sprintf("%d vs %d registers", len(pa)-1, len(pb)-1)
}
