package main

import (
	"fmt"
	"math/rand"
	"path/filepath"
	"regexp"
	"sort"
	"strconv"
	"strings"

	"github.com/onflow/atree"

	"verifharness/hx"
)

// Directed map programs (audit a2 / F5).
//
//   mapmeta   three index levels (root index slab -> index slabs -> data slabs); the program reads the
//             shape of the REAL tree after every request and steers removals so that one chosen non-root
//             index slab underflows under a chosen sibling configuration (the decision table of
//             MapMetaDataSlab.MergeOrRebalanceChildSlab: no left / both / no right sibling x siblings that
//             can / cannot lend, incl. the exact boundary size - n*header == minThreshold).  Which of
//             MapMetaDataSlab.Merge / LendToRight / BorrowFromRight ran is read off the change of the
//             tree; every (function, configuration) pair of the table is a REQUIRED tag: a run that does
//             not reach one of them reports a harness error.  Plus sweeps that remove contiguous digest
//             ranges from the left / the middle / the right until the map is empty.
//   mapspill  inline collision groups whose size is exactly maxInlineMapElementSize - 1, +0, +1 (reached
//             by a new member and by an overwrite), values of size maxInlineMapValueSize(keySize) - 1, +0,
//             +1 in plain elements, inline groups and last-level lists.
//
// Both streams write map traces (driver "map"): every request is replayed on the model.

func init() {
	streams["mapmeta"] = mapMetaStream
	streams["mapspill"] = mapSpillStream
}

// ---------------------------------------------------------------------------------------------
// requests (same trace lines and Go-map oracle as runMapProgram)

func (e *mapEnv) open(L uint, climit uint32, fn func(k hx.TV, l uint) uint64) bool {
	atree.VerifSetThreshold(e.T)
	_, _, _, _, maxElem, maxKey := atree.VerifThresholds()
	e.maxElem, e.maxKey = maxElem, maxKey
	e.ledger = hx.NewLedger()
	e.ps = hx.NewStorage(e.ledger)
	e.rec = hx.NewRecStorage(e.ps)
	e.addr = hx.MkAddr(uint64(1 + e.rng.Intn(3)))
	e.ty = hx.TI(uint64(e.rng.Intn(100)))
	e.shadow = map[hx.TV]hx.TV{}
	e.climit, e.L, e.hip = climit, L, hx.HashInput
	e.b = &hx.TableDigesterBuilder{L: L, Fn: fn}
	atree.VerifSetMaxCollisionLimitPerDigest(climit)
	e.w.L("CFG T=%d", e.T)
	m, err := atree.NewMap(e.rec, e.addr, e.b, e.ty)
	if err != nil {
		e.st.HarnessErr = "NewMap: " + err.Error()
		return false
	}
	e.m = m
	e.w.L("MNEW h=0 addr=%d ty=%d L=%d climit=%d seed=%d", e.addr[7], uint64(e.ty), e.L, e.climit, m.Seed())
	e.emitEffects()
	return true
}

// allocatedStored returns the slabs that were allocated AND stored by the request just executed.
func (e *mapEnv) allocatedStored() []atree.Slab {
	alloc := map[atree.SlabID]bool{}
	for _, f := range e.rec.Effs {
		if f.Kind == 'a' {
			alloc[f.ID] = true
		}
	}
	var out []atree.Slab
	for _, id := range hx.StoredIDs(e.rec.Effs) {
		if !alloc[id] {
			continue
		}
		if s, ok, err := e.ps.Retrieve(id); err == nil && ok {
			out = append(out, s)
		}
	}
	return out
}

const mapDataSlabPrefix = 18 // version+flag (2) + next slab ID (16), see map_size_consts.go (compared with the package by cmd/extract)

// dSet is one traced Set with the dictionary oracle.  It also applies the model-free spill oracles:
// a collision group is exported to its own slab only when it no longer fits the element limit, and a
// value gets its own slab exactly when it is larger than the limit for its key.
func (e *mapEnv) dSet(k, v hx.TV) bool {
	w := e.w
	e.step++
	prev, present := e.shadow[k]
	w.L("OP mset h=0 k=%s v=%d:%d", e.keyStr(k), v.Size, v.Pay)
	old, err := e.m.Set(hx.CompareKey, e.hip, k, v)
	if err != nil {
		w.L("OBS err:%s", hx.ErrKind(err))
		e.violation("C02", fmt.Sprintf("set(%v) failed: %v", k, err))
		e.emitEffects()
		return false
	}
	if old == nil {
		w.L("OBS ok:none")
		if present {
			e.violation("C02", fmt.Sprintf("set(%v) returned no previous value, dictionary has %v", k, prev))
		}
	} else {
		w.L("OBS ok:%s", renderStorable(old))
		tv, ok := e.resolve(old)
		if !present || !ok || tv != prev {
			e.violation("C02", fmt.Sprintf("set(%v) returned previous value %v, dictionary has %v (present=%v)", k, tv, prev, present))
		}
	}
	e.shadow[k] = v
	nValueSlabs := 0
	for _, s := range e.allocatedStored() {
		d := atree.VerifDumpSlab(s, hx.Describe)
		switch {
		case strings.HasPrefix(d, "V("):
			nValueSlabs++
		case strings.HasPrefix(d, "d(") && strings.HasPrefix(d[strings.Index(d, ")")-2:], ",1)"):
			// a freshly exported collision group: as an inline group it was 2 + elements bytes
			inl := s.ByteSize() - mapDataSlabPrefix + 2
			if inl <= e.maxElem {
				e.violation("C12", fmt.Sprintf("a collision group of inline size %d was exported to its own slab although the element limit is %d", inl, e.maxElem))
			}
			e.st.Hit("spill:exported")
		}
	}
	if k.Size <= e.maxKey {
		want := 0
		if v.Size > atree.VerifMaxInlineMapValueSize(k.Size) {
			want = 1
		}
		if nValueSlabs != want {
			e.violation("C02", fmt.Sprintf("set(%v, value of %d bytes): %d value slabs allocated, value limit for this key is %d", k, v.Size, nValueSlabs, atree.VerifMaxInlineMapValueSize(k.Size)))
		}
	}
	e.emitEffects()
	if old != nil {
		e.dispose(old)
	}
	return true
}

func (e *mapEnv) dRem(k hx.TV) bool {
	w := e.w
	e.step++
	prev, present := e.shadow[k]
	w.L("OP mrem h=0 k=%s", e.keyStr(k))
	ks, vs, err := e.m.Remove(hx.CompareKey, e.hip, k)
	if err != nil {
		w.L("OBS err:%s", hx.ErrKind(err))
		if present || hx.ErrKind(err) != "KeyNotFound:User" {
			e.violation("C02", fmt.Sprintf("remove(%v) failed with %s (present=%v)", k, hx.ErrKind(err), present))
		}
		if len(e.rec.Effs) != 0 {
			e.violation("C18", "rejected remove touched storage: "+hx.NetEffect(e.rec.Effs))
		}
		e.emitEffects()
		return false
	}
	w.L("OBS ok:%s,%s", renderStorable(ks), renderStorable(vs))
	tv, ok := e.resolve(vs)
	if !present || !ok || tv != prev {
		e.violation("C02", fmt.Sprintf("remove(%v) returned %v, dictionary has %v (present=%v)", k, tv, prev, present))
	}
	if kt, _ := ks.(hx.TV); kt != k {
		e.violation("C02", fmt.Sprintf("remove(%v) returned key %v", k, ks))
	}
	delete(e.shadow, k)
	e.emitEffects()
	e.dispose(vs)
	return true
}

func (e *mapEnv) dGet(k hx.TV) {
	w := e.w
	e.step++
	want, present := e.shadow[k]
	w.L("OP mget h=0 k=%s", e.keyStr(k))
	v, err := e.m.Get(hx.CompareKey, e.hip, k)
	if err != nil {
		w.L("OBS err:%s", hx.ErrKind(err))
		if present || hx.ErrKind(err) != "KeyNotFound:User" {
			e.violation("C02", fmt.Sprintf("get(%v) failed with %s (present=%v)", k, hx.ErrKind(err), present))
		}
		return
	}
	w.L("OBS ok:%s", renderValue(v))
	if tv, _ := v.(hx.TV); !present || tv != want {
		e.violation("C02", fmt.Sprintf("get(%v) = %v, dictionary has %v (present=%v)", k, v, want, present))
	}
}

// dFull writes the full dump (compared with the model's tree) and validates the implementation's tree.
func (e *mapEnv) dFull() string {
	d := hx.DumpTree(e.ps, atree.VerifMapRoot(e.m))
	e.w.L("FULL h=0 %s", d)
	if err := atree.VerifyMap(e.m, e.addr, e.ty, func(a, b atree.TypeInfo) bool { return a == b }, e.hip, true); err != nil {
		e.violation("C05", "VerifyMap: "+err.Error())
		e.violation("C02", "VerifyMap: "+err.Error())
		e.violation("C12", "VerifyMap: "+err.Error())
	}
	if int(e.m.Count()) != len(e.shadow) {
		e.violation("C02", fmt.Sprintf("count %d, dictionary has %d", e.m.Count(), len(e.shadow)))
	}
	e.health()
	return d
}

func mkTV(size uint32, pay uint64) hx.TV {
	if size < 1 {
		size = 1
	}
	for !hx.ValidTV(size, pay) {
		if pay == 0 {
			size++
		}
		pay %= 200
		if !hx.ValidTV(size, pay) {
			pay = 0
		}
	}
	return hx.TV{Size: size, Pay: pay}
}

// ---------------------------------------------------------------------------------------------
// shape of the real tree

type slabHdr struct {
	id    string
	size  uint32
	first uint64
}

type metaInfo struct {
	slabHdr
	kids []slabHdr
}

var hdrRe = regexp.MustCompile(`(\d+\.\d+)/(\d+)/(\d+)`)

// parseMetaDump extracts the children headers of an index slab from its canonical dump
// m(id,size,first)[T(...)]{id/size/first;...}.
func parseMetaDump(d string) (self slabHdr, kids []slabHdr, ok bool) {
	if !strings.HasPrefix(d, "m(") {
		return self, nil, false
	}
	head := strings.Split(d[2:strings.Index(d, ")")], ",")
	if len(head) != 3 {
		return self, nil, false
	}
	sz, _ := strconv.ParseUint(head[1], 10, 32)
	fk, _ := strconv.ParseUint(head[2], 10, 64)
	self = slabHdr{head[0], uint32(sz), fk}
	body := d[strings.LastIndex(d, "{"):]
	for _, m := range hdrRe.FindAllStringSubmatch(body, -1) {
		s, _ := strconv.ParseUint(m[2], 10, 32)
		f, _ := strconv.ParseUint(m[3], 10, 64)
		kids = append(kids, slabHdr{m[1], uint32(s), f})
	}
	return self, kids, true
}

func parseIDStr(s string) atree.SlabID {
	p := strings.Split(s, ".")
	a, _ := strconv.ParseUint(p[0], 10, 64)
	i, _ := strconv.ParseUint(p[1], 10, 64)
	return hx.MkIDn(a, i)
}

func (e *mapEnv) slabDump(id string) string {
	s, ok, err := e.ps.Retrieve(parseIDStr(id))
	if err != nil || !ok {
		return ""
	}
	return atree.VerifDumpSlab(s, hx.Describe)
}

// metaShape returns the number of slab levels (1 = a single data slab) and, when there are exactly
// three, the index slabs below the root with their children.
func (e *mapEnv) metaShape() (int, []metaInfo) {
	_, kids, ok := parseMetaDump(atree.VerifDumpSlab(atree.VerifMapRoot(e.m), hx.Describe))
	if !ok {
		return 1, nil
	}
	var l1 []metaInfo
	for _, k := range kids {
		self, kk, ok := parseMetaDump(e.slabDump(k.id))
		if !ok {
			return 2, nil
		}
		l1 = append(l1, metaInfo{self, kk})
	}
	if len(l1) == 0 || len(l1[0].kids) == 0 {
		return 2, nil
	}
	if strings.HasPrefix(e.slabDump(l1[0].kids[0].id), "m(") {
		return 4, nil
	}
	return 3, l1
}

// routeIdx transcribes the routing of MapMetaDataSlab.getChildSlabByDigest: the last child whose
// first digest is <= hkey, child 0 when there is none.
func routeIdx(l1 []metaInfo, h uint64) int {
	ans := 0
	for i, m := range l1 {
		if m.first <= h {
			ans = i
		}
	}
	return ans
}

func (e *mapEnv) dig0(k hx.TV) uint64 {
	d, _ := hx.DigestsWith(e.b, e.hip, k)
	return d[0]
}

// keysUnder returns the present keys routed to index slab idx, in ascending digest order.
func (e *mapEnv) keysUnder(l1 []metaInfo, idx int) []hx.TV {
	var ks []hx.TV
	for k := range e.shadow {
		if routeIdx(l1, e.dig0(k)) == idx {
			ks = append(ks, k)
		}
	}
	sort.Slice(ks, func(i, j int) bool { return e.dig0(ks[i]) < e.dig0(ks[j]) })
	return ks
}

func pick(ks []hx.TV, where int) hx.TV {
	switch where {
	case 0:
		return ks[0]
	case 1:
		return ks[len(ks)/2]
	}
	return ks[len(ks)-1]
}

// ---------------------------------------------------------------------------------------------
// classification of what an underflowing index slab did

type lendRule struct {
	T, minT uint32
}

const mapHdrSize, mapMetaPrefix = 18, 12 // mapSlabHeaderSize, mapMetaDataSlabPrefixSize

// canLend: the documented rule of MapMetaDataSlab.CanLendToLeft/Right for an underflow of `under` bytes.
func (r lendRule) canLend(size, under uint32) (can, boundary bool) {
	n := (under + mapHdrSize - 1) / mapHdrSize
	if size < mapHdrSize*n {
		return false, false
	}
	return size-mapHdrSize*n > r.minT, size-mapHdrSize*n == r.minT
}

// lendMin is the smallest number of children with which a sibling can lend one child.
func (r lendRule) lendMin() int {
	for n := 2; ; n++ {
		if c, _ := r.canLend(uint32(mapMetaPrefix+mapHdrSize*n), 1); c {
			return n
		}
	}
}

// underMin is the largest number of children with which an index slab underflows.
func (r lendRule) underMin() int {
	n := 0
	for uint32(mapMetaPrefix+mapHdrSize*(n+1)) < r.minT {
		n++
	}
	return n
}

// describeEvent compares the index slabs below the root before and after a removal routed to index
// slab idx and names the configuration and the function that must have run.
func (r lendRule) describeEvent(before, after []metaInfo, depthAfter, idx int) (cfg string, fns []string) {
	under := r.minT - (before[idx].size - mapHdrSize)
	hasL, hasR := idx > 0, idx+1 < len(before)
	var lCan, rCan, lB, rB bool
	sib := ""
	if hasL {
		sib += "L"
		lCan, lB = r.canLend(before[idx-1].size, under)
		fns = append(fns, fmt.Sprintf("left.CanLendToRight=%v", lCan))
		if lB {
			fns = append(fns, "left.CanLendToRight@boundary")
		}
	}
	if hasR {
		sib += "R"
		rCan, rB = r.canLend(before[idx+1].size, under)
		fns = append(fns, fmt.Sprintf("right.CanLendToLeft=%v", rCan))
		if rB {
			fns = append(fns, "right.CanLendToLeft@boundary")
		}
	}
	lend := ""
	if lCan {
		lend += "L"
	}
	if rCan {
		lend += "R"
	}
	if lend == "" {
		lend = "none"
	}
	cfg = "siblings=" + sib + " can-lend=" + lend
	if hasL && hasR && lCan == rCan {
		switch {
		case before[idx-1].size > before[idx+1].size:
			cfg += " bigger=L"
		case before[idx-1].size < before[idx+1].size:
			cfg += " bigger=R"
		default:
			cfg += " bigger=none"
		}
	}
	switch {
	case depthAfter < 3:
		fns = append(fns, "root-collapse-after-Merge")
		if idx == 0 {
			fns = append(fns, "child.Merge(right)")
		} else {
			fns = append(fns, "left.Merge(child)")
		}
	case len(after) == len(before)-1:
		gone := ""
		alive := map[string]bool{}
		for _, m := range after {
			alive[m.id] = true
		}
		for _, m := range before {
			if !alive[m.id] {
				gone = m.id
			}
		}
		switch {
		case gone == before[idx].id:
			fns = append(fns, "left.Merge(child)")
		case hasR && gone == before[idx+1].id:
			fns = append(fns, "child.Merge(right)")
		default:
			fns = append(fns, "unexplained-merge")
		}
	case len(after) == len(before):
		switch {
		case hasR && len(after[idx+1].kids) < len(before[idx+1].kids):
			fns = append(fns, "child.BorrowFromRight(right)")
		case hasL && len(after[idx-1].kids) < len(before[idx-1].kids):
			fns = append(fns, "left.LendToRight(child)")
		default:
			fns = append(fns, "unexplained-rebalance")
		}
	default:
		fns = append(fns, "unexplained-change")
	}
	return cfg, fns
}

func sameL1(a, b []metaInfo) bool {
	if len(a) != len(b) {
		return false
	}
	for i := range a {
		if a[i].id != b[i].id || len(a[i].kids) != len(b[i].kids) {
			return false
		}
	}
	return true
}

// ---------------------------------------------------------------------------------------------
// mapmeta

type metaScenario struct {
	T     uint32
	pos   int // 0 first child of the root, 1 a middle child, 2 the last child
	l, r  int // number of children the left / right sibling is shrunk to, relative codes below
	where int // which end of a slab's digest range is removed: 0 left, 1 middle, 2 right
	tiny  bool
	two   bool // only two index slabs below the root: their merge collapses the root
}

// sibling sizes, resolved against the threshold: the largest that cannot lend (for some thresholds
// this is the exact boundary size-18 == minThreshold), the smallest that can, one more, and the
// smallest legal index slab
const (
	sibNone = iota
	sibCannot
	sibCan
	sibCanPlus
	sibSmallest
)

func (r lendRule) sibKids(code int) int {
	switch code {
	case sibCannot:
		return r.lendMin() - 1
	case sibCan:
		return r.lendMin()
	case sibCanPlus:
		return r.lendMin() + 2
	case sibSmallest:
		return r.underMin() + 1
	}
	return 0
}

// required (function, configuration) pairs: the decision table of MergeOrRebalanceChildSlab
var metaRequired = []string{
	"siblings=R can-lend=none -> child.Merge(right)",
	"siblings=R can-lend=R -> child.BorrowFromRight(right)",
	"siblings=L can-lend=none -> left.Merge(child)",
	"siblings=L can-lend=L -> left.LendToRight(child)",
	"siblings=LR can-lend=none bigger=none -> child.Merge(right)",
	"siblings=LR can-lend=none bigger=R -> left.Merge(child)",
	"siblings=LR can-lend=none bigger=L -> child.Merge(right)",
	"siblings=LR can-lend=L -> left.LendToRight(child)",
	"siblings=LR can-lend=R -> child.BorrowFromRight(right)",
	"siblings=LR can-lend=LR bigger=L -> left.LendToRight(child)",
	"siblings=LR can-lend=LR bigger=R -> child.BorrowFromRight(right)",
	"siblings=LR can-lend=LR bigger=none -> child.BorrowFromRight(right)",
	"fn:right.CanLendToLeft=true", "fn:right.CanLendToLeft=false", "fn:right.CanLendToLeft@boundary",
	"fn:left.CanLendToRight=true", "fn:left.CanLendToRight=false", "fn:left.CanLendToRight@boundary",
	"fn:root-collapse-after-Merge",
	"sweep:left", "sweep:middle", "sweep:right",
}

func mapMetaStream(cfg *Config) *hx.Stats {
	st := hx.NewStats("mapmeta", cfg.Seed)
	rng := rand.New(rand.NewSource(cfg.Seed*7121 + 5))
	w := hx.NewW(filepath.Join(cfg.Out, fmt.Sprintf("mapmeta-%d.trace", cfg.Seed)))
	defer w.Close()
	st.TraceFiles = append(st.TraceFiles, w.Path)
	var scen []metaScenario
	// T=256: size-18 never equals minThreshold (12+18n-18 = 128 has no solution); T=276, 312: it does
	// (n=8 resp. n=9): the comparison `> minThreshold` of CanLendToLeft/Right is decided AT the boundary
	for _, T := range []uint32{256, 276, 312} {
		scen = append(scen,
			metaScenario{T: T, pos: 0, r: sibCannot}, metaScenario{T: T, pos: 0, r: sibCan},
			metaScenario{T: T, pos: 2, l: sibCannot}, metaScenario{T: T, pos: 2, l: sibCan},
			metaScenario{T: T, pos: 1, l: sibCannot, r: sibCannot},
			metaScenario{T: T, pos: 1, l: sibCan, r: sibCannot}, metaScenario{T: T, pos: 1, l: sibCannot, r: sibCan},
			metaScenario{T: T, pos: 1, l: sibCanPlus, r: sibCan}, metaScenario{T: T, pos: 1, l: sibCan, r: sibCanPlus},
			metaScenario{T: T, pos: 1, l: sibCan, r: sibCan})
		scen = append(scen, metaScenario{T: T, pos: 0, r: sibCannot, two: true}, metaScenario{T: T, pos: 2, l: sibCannot, two: true})
		if T != 256 {
			// "cannot lend" has two sizes here: merge with the smaller sibling
			scen = append(scen,
				metaScenario{T: T, pos: 1, l: sibSmallest, r: sibCannot}, metaScenario{T: T, pos: 1, l: sibCannot, r: sibSmallest},
				metaScenario{T: T, pos: 0, r: sibSmallest}, metaScenario{T: T, pos: 2, l: sibSmallest})
		}
	}
	if cfg.Scale < 1 {
		scen = scen[:int(float64(len(scen))*cfg.Scale)+1]
	}
	rounds := 1
	if cfg.Scale > 1 {
		rounds = int(cfg.Scale)
	}
	p := 0
	for round := 0; round < rounds; round++ {
		for i, sc := range scen {
			sc.where = rng.Intn(3)
			sc.tiny = (i+int(cfg.Seed)+round)%5 == 0
			e := &mapEnv{w: w, st: st, cfg: cfg, rng: rng, T: sc.T, prog: p}
			runMetaScenario(e, sc)
			st.Programs++
			st.Ops += e.step
			p++
			if len(st.Violations) > 20 || st.HarnessErr != "" {
				break
			}
		}
		for where := 0; where < 3 && len(st.Violations) <= 20 && st.HarnessErr == ""; where++ {
			e := &mapEnv{w: w, st: st, cfg: cfg, rng: rng, T: []uint32{256, 276, 260}[where], prog: p} // 260: 12 + 18*21 == maxThreshold (390), IsFull decided on the boundary
			runMetaSweep(e, where)
			st.Programs++
			st.Ops += e.step
			p++
		}
	}
	if cfg.Scale >= 1 && st.HarnessErr == "" && len(st.Violations) == 0 {
		var missing []string
		for _, t := range metaRequired {
			if st.Dist[t] == 0 {
				missing = append(missing, t)
			}
		}
		if len(missing) > 0 {
			st.HarnessErr = "required index-slab branches never reached: " + strings.Join(missing, "; ")
		}
	}
	st.TraceLines = w.Lines
	st.Distinct = len(st.Dist)
	st.Samples = append(st.Samples, "three slab levels at T in {256,276,312}; one non-root index slab driven to underflow under every sibling configuration (can / cannot lend, exact lending boundary, bigger / smaller / equal siblings); sweeps removing contiguous digest ranges from the left, the middle, the right")
	atree.VerifSetThreshold(1024)
	atree.VerifSetMaxCollisionLimitPerDigest(255)
	return st
}

// buildThreeLevels inserts keys until the tree has three slab levels with at least wantMetas index
// slabs below the root, each with at least minKids children.
func (e *mapEnv) buildThreeLevels(wantMetas, minKids int, tiny bool) ([]metaInfo, bool) {
	order := e.rng.Intn(3) // ascending, descending, shuffled
	const nMax = 6000
	perm := e.rng.Perm(nMax)
	for i := 0; i < nMax; i++ {
		var pay uint64
		switch order {
		case 0:
			pay = uint64(i + 1)
		case 1:
			pay = uint64(nMax - i)
		default:
			pay = uint64(perm[i] + 1)
		}
		k := mkTV(uint32(3+e.rng.Intn(2)), pay)
		if k.Size < 3 {
			k.Size = 3
		}
		var v hx.TV
		if tiny {
			v = mkTV(uint32(2+e.rng.Intn(10)), uint64(i))
		} else {
			v = mkTV(uint32(40+e.rng.Intn(45)), uint64(i))
		}
		if !e.dSet(k, v) {
			return nil, false
		}
		if i%8 == 7 {
			depth, l1 := e.metaShape()
			if depth > 3 {
				break
			}
			for _, m := range l1 {
				if m.size == e.T+e.T/2 {
					e.st.Hit("fn:IsFull@boundary=false") // an index slab of exactly maxThreshold bytes that was not split
				}
			}
			if depth == 3 && len(l1) >= wantMetas {
				ok := true
				for _, m := range l1 {
					ok = ok && len(m.kids) >= minKids
				}
				if ok {
					e.dFull()
					return l1, true
				}
			}
		}
	}
	e.st.HarnessErr = "mapmeta: could not build a three-level tree"
	return nil, false
}

// shrinkTo removes keys below index slab idx until it has n children.
func (e *mapEnv) shrinkTo(idx, n, where int) bool {
	for guard := 0; guard < 3000; guard++ {
		depth, l1 := e.metaShape()
		if depth != 3 || idx >= len(l1) {
			e.st.HarnessErr = "mapmeta: tree changed shape while a sibling was being shrunk"
			return false
		}
		if len(l1[idx].kids) <= n {
			return len(l1[idx].kids) == n
		}
		ks := e.keysUnder(l1, idx)
		if len(ks) == 0 {
			return false
		}
		if !e.dRem(pick(ks, where)) {
			return false
		}
	}
	return false
}

func runMetaScenario(e *mapEnv, sc metaScenario) {
	rule := lendRule{T: sc.T, minT: sc.T / 2}
	if !e.open(2, 255, func(k hx.TV, l uint) uint64 {
		if l == 0 {
			return k.Pay * 1000
		}
		return mix(k.Pay, 1, 99)
	}) {
		return
	}
	e.st.Dist[fmt.Sprintf("T=%d", e.T)]++
	wantMetas, minKids := 4, rule.lendMin()+2
	if sc.two {
		wantMetas, minKids = 2, rule.lendMin()
	}
	l1, ok := e.buildThreeLevels(wantMetas, minKids, sc.tiny)
	if !ok {
		return
	}
	idx := 0
	switch sc.pos {
	case 1:
		idx = 1 + e.rng.Intn(len(l1)-2)
	case 2:
		idx = len(l1) - 1
	}
	fail := func(what string) {
		if e.st.HarnessErr == "" && len(e.st.Violations) == 0 {
			e.st.HarnessErr = fmt.Sprintf("mapmeta program %d (T=%d pos=%d l=%d r=%d): %s", e.prog, sc.T, sc.pos, sc.l, sc.r, what)
		}
	}
	if sc.l != sibNone && idx > 0 && !e.shrinkTo(idx-1, rule.sibKids(sc.l), e.rng.Intn(3)) {
		fail("left sibling could not be shaped")
		return
	}
	if sc.r != sibNone && idx+1 < len(l1) && !e.shrinkTo(idx+1, rule.sibKids(sc.r), e.rng.Intn(3)) {
		fail("right sibling could not be shaped")
		return
	}
	if !e.shrinkTo(idx, rule.underMin()+1, sc.where) {
		fail("the chosen index slab could not be brought to the smallest legal size")
		return
	}
	e.dFull()
	// one more child less: the index slab underflows
	for guard := 0; guard < 400; guard++ {
		depth, before := e.metaShape()
		if depth != 3 {
			fail("tree left three levels before the underflow")
			return
		}
		ks := e.keysUnder(before, idx)
		if len(ks) == 0 {
			fail("no key left below the chosen index slab")
			return
		}
		if !e.dRem(pick(ks, sc.where)) {
			return
		}
		depthAfter, after := e.metaShape()
		if depthAfter == 3 && sameL1(before, after) {
			continue
		}
		cfg, fns := rule.describeEvent(before, after, depthAfter, idx)
		e.w.L("TAG %s -> %s", cfg, strings.Join(fns, ","))
		for _, f := range fns {
			e.st.Hit("fn:" + f)
		}
		e.st.Hit(cfg + " -> " + fns[len(fns)-1])
		e.dFull()
		// the rest of the map must still answer
		for k := range e.shadow {
			if e.rng.Intn(12) == 0 {
				e.dGet(k)
			}
		}
		if len(e.st.Samples) < 2 {
			e.st.Samples = append(e.st.Samples, fmt.Sprintf("T=%d index slab %d of %d under the root, %s: %s", sc.T, idx, len(before), cfg, strings.Join(fns, ",")))
		}
		return
	}
	fail("the chosen index slab never underflowed")
}

// runMetaSweep builds three levels and removes every key in one contiguous digest order (ascending,
// from the middle outwards, descending); index-slab events are tagged as they happen.
func runMetaSweep(e *mapEnv, where int) {
	rule := lendRule{T: e.T, minT: e.T / 2}
	if !e.open(2, 255, func(k hx.TV, l uint) uint64 {
		if l == 0 {
			return k.Pay * 1000
		}
		return mix(k.Pay, 1, 7)
	}) {
		return
	}
	if _, ok := e.buildThreeLevels(3, 2, false); !ok {
		return
	}
	e.st.Hit([]string{"sweep:left", "sweep:middle", "sweep:right"}[where])
	keys := make([]hx.TV, 0, len(e.shadow))
	for k := range e.shadow {
		keys = append(keys, k)
	}
	sort.Slice(keys, func(i, j int) bool { return keys[i].Pay < keys[j].Pay })
	switch where {
	case 1:
		mid := len(keys) / 3
		keys = append(append([]hx.TV{}, keys[mid:]...), keys[:mid]...)
	case 2:
		for i, j := 0, len(keys)-1; i < j; i, j = i+1, j-1 {
			keys[i], keys[j] = keys[j], keys[i]
		}
	}
	for n, k := range keys {
		depth, before := e.metaShape()
		idx := 0
		if depth == 3 {
			idx = routeIdx(before, e.dig0(k))
		}
		if !e.dRem(k) {
			return
		}
		if depth == 3 {
			depthAfter, after := e.metaShape()
			if depthAfter != 3 || !sameL1(before, after) {
				if len(before[idx].kids) == rule.underMin()+1 {
					cfg, fns := rule.describeEvent(before, after, depthAfter, idx)
					e.w.L("TAG sweep %s -> %s", cfg, strings.Join(fns, ","))
					e.st.Hit("sweep: " + cfg + " -> " + fns[len(fns)-1])
				}
				e.dFull()
			}
		}
		if n%40 == 39 {
			e.dFull()
		}
	}
	e.dFull()
}

// ---------------------------------------------------------------------------------------------
// mapspill

var spillRequired = []string{
	"group:new-member:limit-1:inline", "group:new-member:limit:inline", "group:new-member:limit+1:exported",
	"group:overwrite:limit-1:inline", "group:overwrite:limit:inline", "group:overwrite:limit+1:exported",
	"value:new:limit-1", "value:new:limit", "value:new:limit+1",
	"value:overwrite:limit-1", "value:overwrite:limit", "value:overwrite:limit+1",
	"value:list-new:limit-1", "value:list-new:limit", "value:list-new:limit+1",
	"value:list-overwrite:limit-1", "value:list-overwrite:limit", "value:list-overwrite:limit+1",
	"value:group-new:limit-1", "value:group-new:limit", "value:group-new:limit+1",
}

func mapSpillStream(cfg *Config) *hx.Stats {
	st := hx.NewStats("mapspill", cfg.Seed)
	rng := rand.New(rand.NewSource(cfg.Seed*4447 + 3))
	w := hx.NewW(filepath.Join(cfg.Out, fmt.Sprintf("mapspill-%d.trace", cfg.Seed)))
	defer w.Close()
	st.TraceFiles = append(st.TraceFiles, w.Path)
	thresholds := []uint32{256, 512, 1024, 257, 300, 0}
	nProg := int(12 * cfg.Scale)
	if nProg < 2 {
		nProg = 2
	}
	for p := 0; p < nProg && len(st.Violations) <= 20 && st.HarnessErr == ""; p++ {
		T := thresholds[p%len(thresholds)]
		if T == 0 {
			T = 256 + uint32(rng.Intn(1800))
		}
		e := &mapEnv{w: w, st: st, cfg: cfg, rng: rng, T: T, prog: p}
		runSpillProgram(e, p)
		st.Programs++
		st.Ops += e.step
	}
	if st.HarnessErr == "" && len(st.Violations) == 0 {
		var missing []string
		for _, t := range spillRequired {
			if st.Dist[t] == 0 {
				missing = append(missing, t)
			}
		}
		if len(missing) > 0 {
			st.HarnessErr = "required spill-boundary cases never reached: " + strings.Join(missing, "; ")
		}
	}
	st.TraceLines = w.Lines
	st.Distinct = len(st.Dist)
	st.Samples = append(st.Samples, "inline collision groups of exactly maxInlineMapElementSize-1/+0/+1 bytes (by a new member, by an overwrite); values of exactly maxInlineMapValueSize(keySize)-1/+0/+1 bytes in plain elements, inline groups and last-level lists; thresholds {256,257,300,512,1024,random}")
	atree.VerifSetThreshold(1024)
	atree.VerifSetMaxCollisionLimitPerDigest(255)
	return st
}

// Digests of the spill programs (L levels): a key's payload is bucket*1000 + member.
//   bucket < 500            : level 0 = bucket, deeper levels distinct per member  (groups at level 1)
//   500 <= bucket           : every level = bucket                                 (last-level lists)
func spillDigest(L uint) func(k hx.TV, l uint) uint64 {
	return func(k hx.TV, l uint) uint64 {
		b, mem := k.Pay/1000, k.Pay%1000
		if l == 0 || b >= 500 {
			return b * 7919
		}
		return mem*31 + uint64(l)
	}
}

var groupRe = regexp.MustCompile(`I\((\d+),`)

// inlineGroupSizes lists the sizes of all first-level inline groups in the tree dump.
func inlineGroupSizes(dump string) map[uint32]int {
	out := map[uint32]int{}
	for _, m := range groupRe.FindAllStringSubmatch(dump, -1) {
		n, _ := strconv.ParseUint(m[1], 10, 32)
		out[uint32(n)]++
	}
	return out
}

func runSpillProgram(e *mapEnv, p int) {
	L := uint(2 + p%2)
	if !e.open(L, 255, spillDigest(L)) {
		return
	}
	e.st.Dist[fmt.Sprintf("T=%d", e.T)]++
	lim := e.maxElem
	fail := func(what string) {
		if e.st.HarnessErr == "" && len(e.st.Violations) == 0 {
			e.st.HarnessErr = fmt.Sprintf("mapspill program %d (T=%d): %s", e.prog, e.T, what)
		}
	}
	bucket := uint64(1)
	key := func(b, mem uint64, size uint32) hx.TV { return mkTV(size, b*1000+mem) }
	// some unrelated keys so that the groups sit in trees of different shapes
	for i, n := 0, e.rng.Intn(80); i < n; i++ {
		e.dSet(key(400+uint64(i), 0, 5), mkTV(uint32(2+e.rng.Intn(30)), uint64(i)))
	}
	const (
		digestSize        = 8
		groupPrefix       = 2 // inlineCollisionGroupPrefixSize
		hkeyElementsPrefx = 8 // hkeyElementsPrefixSize
		singlePrefix      = 1 // singleElementPrefixSize
	)
	// ---- inline groups at the element limit
	for _, how := range []string{"new-member", "overwrite"} {
		for _, delta := range []int{-1, 0, 1} {
			target := uint32(int(lim) + delta)
			ks := uint32(5 + e.rng.Intn(4))
			k1, k2, k3 := key(bucket, 1, ks), key(bucket, 2, ks), key(bucket, 3, ks)
			bucket++
			small := uint32(2 + e.rng.Intn(5))
			// group of two members: prefix + elements prefix + 2 x (digest + element)
			two := groupPrefix + hkeyElementsPrefx + 2*(digestSize+singlePrefix+ks+small)
			e.dSet(k1, mkTV(small, 1))
			e.dSet(k2, mkTV(small, 2))
			var vs uint32
			if how == "new-member" {
				vs = target - two - (digestSize + singlePrefix + ks)
				if vs < 1 || vs > atree.VerifMaxInlineMapValueSize(ks) {
					fail("no value size reaches the group size wanted (new member)")
					return
				}
				e.dSet(k3, mkTV(vs, 3))
			} else {
				// a third small member, then the second member grows
				e.dSet(k3, mkTV(small, 3))
				three := two + digestSize + singlePrefix + ks + small
				vs = target - (three - small)
				if vs < 1 || vs > atree.VerifMaxInlineMapValueSize(ks) {
					fail("no value size reaches the group size wanted (overwrite)")
					return
				}
				e.dSet(k2, mkTV(vs, 4))
			}
			dump := e.dFull()
			name := fmt.Sprintf("group:%s:limit%s", how, []string{"-1", "", "+1"}[delta+1])
			sizes := inlineGroupSizes(dump)
			for n := range sizes {
				if n > lim {
					e.violation("C12", fmt.Sprintf("an inline collision group of %d bytes is kept inline; the element limit is %d", n, lim))
				}
			}
			if delta <= 0 {
				if sizes[target] == 0 {
					fail(fmt.Sprintf("%s: no inline group of exactly %d bytes in the tree (the directed sizes are off, or the group was exported)", name, target))
					if e.st.Dist["spill:exported"] > 0 {
						return
					}
				} else {
					e.st.Hit(name + ":inline")
				}
			} else {
				e.st.Hit(name + ":exported")
			}
			// the group still answers, shrinks and collapses
			e.dGet(k1)
			e.dGet(k3)
			if e.rng.Intn(2) == 0 {
				e.dRem(k2)
				e.dRem(k3)
				e.dFull()
			}
		}
	}
	// ---- values at the limit for their key
	type ctx struct {
		name string
		keys func(ks uint32) (target hx.TV, others []hx.TV)
	}
	ctxs := []ctx{
		{"new", func(ks uint32) (hx.TV, []hx.TV) { b := bucket; bucket++; return key(b, 1, ks), nil }},
		{"group-new", func(ks uint32) (hx.TV, []hx.TV) {
			b := bucket
			bucket++
			return key(b, 2, ks), []hx.TV{key(b, 1, 4)}
		}},
		{"list-new", func(ks uint32) (hx.TV, []hx.TV) {
			b := 500 + bucket
			bucket++
			return key(b, 3, ks), []hx.TV{key(b, 1, 4), key(b, 2, 6)}
		}},
	}
	for _, c := range ctxs {
		for _, delta := range []int{-1, 0, 1} {
			ks := uint32(3 + e.rng.Intn(6))
			if e.rng.Intn(3) == 0 {
				ks = e.maxKey - uint32(e.rng.Intn(2))
			}
			target, others := c.keys(ks)
			vlim := atree.VerifMaxInlineMapValueSize(target.Size)
			for i, o := range others {
				e.dSet(o, mkTV(uint32(2+e.rng.Intn(6)), uint64(i)))
			}
			tag := []string{"limit-1", "limit", "limit+1"}[delta+1]
			e.dSet(target, mkTV(uint32(int(vlim)+delta), 9))
			e.st.Hit("value:" + c.name + ":" + tag)
			e.dGet(target)
			e.dFull()
			// overwrite: small, then at the boundary again (the other two sizes)
			ow := strings.Replace(c.name, "new", "overwrite", 1)
			e.dSet(target, mkTV(3, 1))
			for _, d2 := range []int{-1, 0, 1} {
				if d2 == delta && e.rng.Intn(2) == 0 {
					continue
				}
				e.dSet(target, mkTV(uint32(int(vlim)+d2), uint64(10+d2)))
				e.st.Hit("value:" + ow + ":" + []string{"limit-1", "limit", "limit+1"}[d2+1])
				e.dGet(target)
			}
			e.dFull()
			if e.rng.Intn(2) == 0 {
				e.dRem(target)
			}
		}
	}
	for k := range e.shadow {
		if e.rng.Intn(3) == 0 {
			e.dRem(k)
		}
	}
	e.dFull()
}
