package main

import (
	"fmt"
	"math/rand"
	"sort"

	"github.com/onflow/atree"

	"verifharness/hx"
)

// mapbigkey (audit a2 / F6.1): keys LARGER than maxInlineMapKeySize.  The library stores such a key in
// a slab of its own (newSingleElement: key.Storable(maxInlineMapKeySize)); the Lean map model keeps
// every key inline (KeyOk bounds the key size in ~30 proof files), so this stream is NOT replayed on
// the model.  It is decided on the implementation alone: Go-map dictionary oracle on every request
// (keys handed back as references are resolved), every key and value slab the library hands back is
// released by the caller, VerifyMap, CheckStorageHealth with exactly one root, exact slab accounting
// (every register is reachable from the root), commit + reload on a fresh storage.

func init() { streams["mapbigkey"] = mapBigKeyStream }

type bigKeyEnv struct {
	st      *hx.Stats
	cfg     *Config
	rng     *rand.Rand
	prog    int
	step    int
	T       uint32
	maxKey  uint32
	maxElem uint32
	ledger  *hx.Ledger
	ps      *atree.PersistentSlabStorage
	m       *atree.OrderedMap
	b       atree.DigesterBuilder
	hip     atree.HashInputProvider
	addr    atree.Address
	shadow  map[hx.TV]hx.TV
}

func (e *bigKeyEnv) viol(prop, what string) {
	e.st.Violations = append(e.st.Violations, hx.Violation{Property: prop, Stream: "mapbigkey", Seed: e.cfg.Seed, Program: e.prog, Step: e.step, What: what})
}

// resolveTV follows a storable the library handed back to the plain value; a reference is released
// (the caller's duty) when release is set.
func (e *bigKeyEnv) resolveTV(s atree.Storable, release bool) (hx.TV, bool) {
	switch x := s.(type) {
	case hx.TV:
		return x, true
	case atree.SlabIDStorable:
		v, err := x.StoredValue(e.ps)
		if release {
			_ = e.ps.Remove(atree.SlabID(x))
		}
		tv, ok := v.(hx.TV)
		return tv, ok && err == nil
	}
	return hx.TV{}, false
}

func mapBigKeyStream(cfg *Config) *hx.Stats {
	st := hx.NewStats("mapbigkey", cfg.Seed)
	rng := rand.New(rand.NewSource(cfg.Seed*9341 + 21))
	nProg := int(12 * cfg.Scale)
	if nProg < 1 {
		nProg = 1
	}
	seen := map[string]bool{}
	for p := 0; p < nProg && len(st.Violations) <= 10 && st.HarnessErr == ""; p++ {
		e := &bigKeyEnv{st: st, cfg: cfg, rng: rng, prog: p, T: []uint32{256, 512, 1024, 257, 300, 2048}[p%6]}
		e.run(p)
		st.Programs++
		seen[fmt.Sprintf("%d/%d", e.T, e.step)] = true
	}
	if st.HarnessErr == "" && len(st.Violations) == 0 && st.Dist["key:external"] == 0 {
		st.HarnessErr = "mapbigkey: no key was stored in a slab of its own"
	}
	st.Distinct = len(seen)
	st.Samples = append(st.Samples, "keys of maxInlineMapKeySize+1 .. 3x that size (stored in their own slabs) mixed with inline keys, real digests / first-level collisions / full collisions; set, overwrite, get, has, remove, iterate, pop, commit + reload; implementation-only oracles (no model)")
	atree.VerifSetThreshold(1024)
	return st
}

func (e *bigKeyEnv) run(p int) {
	atree.VerifSetThreshold(e.T)
	atree.VerifSetMaxCollisionLimitPerDigest(255)
	_, _, _, _, e.maxElem, e.maxKey = atree.VerifThresholds()
	e.ledger = hx.NewLedger()
	e.ps = hx.NewStorage(e.ledger)
	e.addr = hx.MkAddr(uint64(1 + p%3))
	e.hip = hx.HashInput
	salt := uint64(e.rng.Int63())
	mode := p % 4
	switch mode {
	case 0:
		e.b = atree.NewDefaultDigesterBuilder()
	case 1: // first-level collisions: oversized keys inside inline and external groups
		e.b = &hx.TableDigesterBuilder{L: 3, Fn: func(k hx.TV, l uint) uint64 {
			if l == 0 {
				return mix(k.Pay, 0, salt) % 7
			}
			return mix(k.Pay, uint64(l), salt)
		}}
	case 2: // full collisions: last-level lists
		e.b = &hx.TableDigesterBuilder{L: 2, Fn: func(k hx.TV, l uint) uint64 { return mix(k.Pay, 0, salt) % 5 }}
	default: // real digester, hash input that makes buckets collide on all levels
		e.b = atree.NewDefaultDigesterBuilder()
		e.hip = hx.HashInputBucket
	}
	e.st.Dist[fmt.Sprintf("digestMode=%d", mode)]++
	ty := hx.TI(7)
	m, err := atree.NewMap(e.ps, e.addr, e.b, ty)
	if err != nil {
		e.st.HarnessErr = "NewMap: " + err.Error()
		return
	}
	e.m = m
	e.shadow = map[hx.TV]hx.TV{}
	var univ []hx.TV
	for i := 0; i < 30+e.rng.Intn(90); i++ {
		var size uint32
		switch e.rng.Intn(6) {
		case 0:
			size = e.maxKey // the largest inline key
		case 1:
			size = e.maxKey + 1 // the smallest key that gets its own slab
		case 2:
			size = e.maxKey + 2 + uint32(e.rng.Intn(int(e.maxKey)))
		case 3:
			size = 2*e.maxKey + uint32(e.rng.Intn(int(e.maxKey)))
		default:
			size = uint32(3 + e.rng.Intn(12))
		}
		univ = append(univ, mkTV(size, uint64(i+1)))
	}
	nOps := 250 + e.rng.Intn(250)
	pay := uint64(0)
	val := func() hx.TV {
		pay++
		size := uint32(2 + e.rng.Intn(int(e.maxElem)))
		if e.rng.Intn(8) == 0 {
			size = e.maxElem + uint32(e.rng.Intn(60))
		}
		return mkTV(size, pay)
	}
	for e.step = 0; e.step < nOps && len(e.st.Violations) <= 10; e.step++ {
		k := univ[e.rng.Intn(len(univ))]
		want, present := e.shadow[k]
		big := k.Size > e.maxKey
		r := e.rng.Intn(100)
		e.st.Ops++
		switch {
		case r < 45:
			v := val()
			old, err := e.m.Set(hx.CompareKey, e.hip, k, v)
			if err != nil {
				e.viol("C02", fmt.Sprintf("set(key of %d bytes, inline key limit %d) failed: %v", k.Size, e.maxKey, err))
				return
			}
			if (old != nil) != present {
				e.viol("C02", fmt.Sprintf("set(%v, %d-byte key): previous value %v, dictionary had it: %v", k, k.Size, old, present))
			} else if old != nil {
				if tv, ok := e.resolveTV(old, true); !ok || tv != want {
					e.viol("C02", fmt.Sprintf("set(%v, %d-byte key) returned previous value %v, dictionary has %v", k, k.Size, tv, want))
				}
			}
			e.shadow[k] = v
			if big {
				e.st.Hit("key:external")
			}
		case r < 65:
			ks, vs, err := e.m.Remove(hx.CompareKey, e.hip, k)
			if err != nil {
				if present || hx.ErrKind(err) != "KeyNotFound:User" {
					e.viol("C02", fmt.Sprintf("remove(%v, %d-byte key) failed with %s (present=%v)", k, k.Size, hx.ErrKind(err), present))
				}
				break
			}
			if !present {
				e.viol("C02", fmt.Sprintf("remove(%v) of an absent key succeeded", k))
				break
			}
			// an oversized key comes back as a reference to its slab: the caller owns it now
			if _, isRef := ks.(atree.SlabIDStorable); isRef != big {
				e.viol("C02", fmt.Sprintf("remove(%d-byte key, limit %d) handed the key back as %T", k.Size, e.maxKey, ks))
			}
			kt, ok1 := e.resolveTV(ks, true)
			vt, ok2 := e.resolveTV(vs, true)
			if !ok1 || !ok2 || kt != k || vt != want {
				e.viol("C02", fmt.Sprintf("remove(%v) returned %v=%v, dictionary has %v", k, kt, vt, want))
			}
			delete(e.shadow, k)
		case r < 80:
			v, err := e.m.Get(hx.CompareKey, e.hip, k)
			if err != nil {
				if present || hx.ErrKind(err) != "KeyNotFound:User" {
					e.viol("C02", fmt.Sprintf("get(%v, %d-byte key) failed with %s (present=%v)", k, k.Size, hx.ErrKind(err), present))
				}
			} else if tv, _ := v.(hx.TV); !present || tv != want {
				e.viol("C02", fmt.Sprintf("get(%v, %d-byte key) = %v, dictionary has %v (present=%v)", k, k.Size, v, want, present))
			}
		case r < 86:
			has, err := e.m.Has(hx.CompareKey, e.hip, k)
			if err != nil || has != present {
				e.viol("C02", fmt.Sprintf("has(%v, %d-byte key) = %v, %v; dictionary says %v", k, k.Size, has, err, present))
			}
		case r < 92:
			e.iterate()
		case r < 95:
			e.commitReload(ty)
		case r < 96:
			// bulk removal: every key and value comes back once; references are released by the caller
			n := 0
			err := e.m.PopIterate(func(ks, vs atree.Storable) {
				kt, ok1 := e.resolveTV(ks, true)
				vt, ok2 := e.resolveTV(vs, true)
				if w, has := e.shadow[kt]; !ok1 || !ok2 || !has || w != vt {
					e.viol("C13", fmt.Sprintf("pop yielded %v=%v, dictionary has %v", kt, vt, w))
				}
				n++
			})
			if err != nil || n != len(e.shadow) {
				e.viol("C13", fmt.Sprintf("pop yielded %d pairs (%v), dictionary has %d", n, err, len(e.shadow)))
			}
			e.shadow = map[hx.TV]hx.TV{}
		default:
			if int(e.m.Count()) != len(e.shadow) {
				e.viol("C02", fmt.Sprintf("count %d, dictionary has %d", e.m.Count(), len(e.shadow)))
			}
		}
		if e.step%20 == 19 || e.step == nOps-1 {
			e.validate(ty)
		}
	}
}

func (e *bigKeyEnv) iterate() {
	got := map[hx.TV]hx.TV{}
	n := 0
	var digs [][]uint64
	err := e.m.IterateReadOnly(func(k, v atree.Value) (bool, error) {
		kt, _ := k.(hx.TV)
		vt, _ := v.(hx.TV)
		got[kt] = vt
		d, _ := hx.DigestsWith(e.b, e.hip, kt)
		digs = append(digs, d)
		n++
		return true, nil
	})
	if err != nil {
		e.viol("C13", "iteration failed: "+err.Error())
		return
	}
	if n != len(e.shadow) || len(got) != len(e.shadow) {
		e.viol("C13", fmt.Sprintf("iteration yielded %d pairs (%d distinct keys), dictionary has %d", n, len(got), len(e.shadow)))
		return
	}
	for k, v := range e.shadow {
		if got[k] != v {
			e.viol("C13", fmt.Sprintf("iteration yielded %v=%v, dictionary has %v", k, got[k], v))
			return
		}
	}
	if !sort.SliceIsSorted(digs, func(i, j int) bool {
		for l := range digs[i] {
			if digs[i][l] != digs[j][l] {
				return digs[i][l] < digs[j][l]
			}
		}
		return false
	}) {
		e.viol("C13", "iteration is not in ascending digest order")
	}
}

func (e *bigKeyEnv) validate(ty hx.TI) {
	if err := atree.VerifyMap(e.m, e.addr, ty, func(a, b atree.TypeInfo) bool { return a == b }, e.hip, true); err != nil {
		e.viol("C05", "VerifyMap (oversized keys): "+err.Error())
		e.viol("C02", "VerifyMap (oversized keys): "+err.Error())
	}
	roots, err := atree.CheckStorageHealth(e.ps, 1)
	if err != nil {
		e.viol("C09", "CheckStorageHealth (oversized keys, one root expected): "+err.Error())
		e.viol("C02", "CheckStorageHealth (oversized keys, one root expected): "+err.Error())
	} else if _, ok := roots[e.m.SlabID()]; !ok || len(roots) != 1 {
		e.viol("C09", fmt.Sprintf("CheckStorageHealth found roots %v, the map is %s", roots, hx.IDStr(e.m.SlabID())))
	}
	if int(e.m.Count()) != len(e.shadow) {
		e.viol("C02", fmt.Sprintf("count %d, dictionary has %d", e.m.Count(), len(e.shadow)))
	}
}

func (e *bigKeyEnv) commitReload(ty hx.TI) {
	if err := e.ps.FastCommit(2); err != nil {
		e.viol("C03", "commit failed: "+err.Error())
		return
	}
	e.st.Hit("commit+reload")
	fresh := hx.NewStorage(e.ledger)
	m, err := atree.NewMapWithRootID(fresh, e.m.SlabID(), e.b)
	if err != nil {
		e.viol("C03", "reload: "+err.Error())
		return
	}
	if m.Count() != uint64(len(e.shadow)) {
		e.viol("C03", fmt.Sprintf("reload: count %d, dictionary has %d", m.Count(), len(e.shadow)))
	}
	n := 0
	_ = m.IterateReadOnly(func(k, v atree.Value) (bool, error) {
		kt, _ := k.(hx.TV)
		vt, _ := v.(hx.TV)
		if w, ok := e.shadow[kt]; !ok || w != vt {
			e.viol("C03", fmt.Sprintf("reload: %v=%v, dictionary has %v", k, v, w))
			return false, nil
		}
		n++
		return true, nil
	})
	if n != len(e.shadow) {
		e.viol("C03", fmt.Sprintf("reload: iterated %d pairs, dictionary has %d", n, len(e.shadow)))
	}
	if err := atree.VerifyMap(m, e.addr, ty, func(a, b atree.TypeInfo) bool { return a == b }, e.hip, true); err != nil {
		e.viol("C03", "reload: the committed registers do not form a valid map: "+err.Error())
	}
	// every register is part of the map: nothing a removed key or value left behind
	if _, err := atree.CheckStorageHealth(fresh, 1); err != nil {
		e.viol("C09", "reload: CheckStorageHealth (one root expected): "+err.Error())
	}
	// every other time the client continues on the reloaded map
	if e.rng.Intn(2) == 0 {
		e.ps, e.m = fresh, m
	}
}
