package main

// Reading THROUGH a container an element whose referenced slab is absent (sweep s5, S2).
//
// A reference element (SlabIDStorable: a large value in its own slab, a standalone child container) whose
// slab has disappeared from the storage - SlabStorage.Retrieve answers found=false, err=nil - must be
// reported as SlabNotFoundError (category Fatal, naming the missing slab) by every way of reading the
// element: Get, the read-only / mutable iterators; the loaded-value iterators treat it as "not loaded" and
// skip it.  Never a panic (SlabIDStorable.StoredValue, slab_id_storable.go: the `!found` branch).
//
//   - array / persist / map / mapcollide / ... streams (arrEnv / mapEnv danglingProbe, at every periodic check):
//     the recording storage answers ABSENT for every large-value slab (hx.RecStorage.HideLargeValues) while
//     the tree slabs stay readable; nothing is changed, the history goes on afterwards.  Filed under C18
//     (a request that cannot be served returns an error naming the cause, with the matching category) and,
//     for a panic, under "*".
//   - health stream (healthDeepRead): after each `delete a referenced slab` corruption every top-level
//     container is read in depth (Get by position / by the keys of a key iteration, every iterator flavour,
//     descending into child containers).  Filed under C20 (and "*" for a panic).

import (
	"fmt"
	"strings"

	"github.com/onflow/atree"

	"verifharness/hx"
)

// guardedRead runs one read request under recover.
func guardedRead(f func() error) (err error, panicked string) {
	defer func() {
		if r := recover(); r != nil {
			panicked = fmt.Sprint(r)
		}
	}()
	return f(), ""
}

// danglingVerdict judges the outcome of a read that had to touch an absent slab ("" = as required).
// `missing` are the slabs that may be named.
func danglingVerdict(err error, panicked string, missing []atree.SlabID) string {
	if panicked != "" {
		return "PANIC: " + panicked
	}
	if err == nil {
		return "succeeded although the referenced slab is absent"
	}
	if k := hx.ErrKind(err); k != "SlabNotFound:Fatal" {
		return fmt.Sprintf("failed with %s, want SlabNotFound:Fatal: %v", k, err)
	}
	for _, id := range missing {
		if strings.Contains(err.Error(), "slab ("+id.String()+") not found") {
			return ""
		}
	}
	return fmt.Sprintf("SlabNotFoundError does not name the absent slab (one of %v): %v", idStrs(missing), err)
}

func (e *arrEnv) danglingViolation(what, verdict string) {
	if strings.HasPrefix(verdict, "PANIC") {
		e.violation("*", "dangling reference: "+what+": "+verdict)
		return
	}
	e.violation("C18", "dangling reference: "+what+": "+verdict)
}

// danglingProbe: see the head of this file.
func (e *arrEnv) danglingProbe() {
	var big, small []int
	for i, v := range e.shadow {
		if v.Size > e.maxInl {
			big = append(big, i)
		} else {
			small = append(small, i)
		}
	}
	if len(big) == 0 {
		e.st.Hit("dangling:no-large-value")
		return
	}
	nEff := len(e.rec.Effs)
	e.rec.HideLargeValues, e.rec.Hidden = true, nil
	defer func() { e.rec.HideLargeValues, e.rec.Hidden = false, nil }()
	// Get: the externalised elements fail, the others are served
	for _, i := range sampleInts(e.rng.Intn, big, 3) {
		e.rec.Hidden = nil
		err, pan := guardedRead(func() error { _, err := e.arr.Get(uint64(i)); return err })
		if v := danglingVerdict(err, pan, e.rec.Hidden); v != "" {
			e.danglingViolation(fmt.Sprintf("Get(%d) of an element whose large-value slab is absent", i), v)
			return
		}
		e.st.Hit("dangling:get")
	}
	for _, i := range sampleInts(e.rng.Intn, small, 2) {
		var got atree.Value
		err, pan := guardedRead(func() (err error) { got, err = e.arr.Get(uint64(i)); return })
		if tv, _ := got.(hx.TV); pan != "" || err != nil || tv != e.shadow[i] {
			e.danglingViolation(fmt.Sprintf("Get(%d) of an inline element while other elements dangle", i), fmt.Sprintf("%v %v %s", got, err, pan))
			return
		}
	}
	// read-only and mutable iteration: the elements before the first externalised one, then the error
	for _, fl := range []string{"IterateReadOnly", "Iterate"} {
		var got []hx.TV
		fn := func(v atree.Value) (bool, error) { tv, _ := v.(hx.TV); got = append(got, tv); return true, nil }
		e.rec.Hidden = nil
		err, pan := guardedRead(func() error {
			if fl == "Iterate" {
				return e.arr.Iterate(fn)
			}
			return e.arr.IterateReadOnly(fn)
		})
		if v := danglingVerdict(err, pan, e.rec.Hidden); v != "" {
			e.danglingViolation(fl+" over an array with an element whose large-value slab is absent", v)
			return
		}
		if len(got) != big[0] {
			e.danglingViolation(fl, fmt.Sprintf("yielded %d elements before the error, the first dangling element is at %d", len(got), big[0]))
			return
		}
		for i, tv := range got {
			if tv != e.shadow[i] {
				e.danglingViolation(fl, fmt.Sprintf("element %d read as %v, sequence says %v", i, tv, e.shadow[i]))
				return
			}
		}
		e.st.Hit("dangling:iterate")
	}
	// loaded-value iteration: the absent slabs are "not loaded": skipped, no error
	{
		var got []hx.TV
		err, pan := guardedRead(func() error {
			return e.arr.IterateReadOnlyLoadedValues(func(v atree.Value) (bool, error) { tv, _ := v.(hx.TV); got = append(got, tv); return true, nil })
		})
		if pan != "" || err != nil {
			e.danglingViolation("IterateReadOnlyLoadedValues over an array with absent large-value slabs", fmt.Sprintf("%v %s (want: the dangling elements skipped)", err, pan))
			return
		}
		var want []hx.TV
		for _, i := range small {
			want = append(want, e.shadow[i])
		}
		if !isSubsequence(got, want) || (!e.persist && len(got) != len(want)) {
			e.danglingViolation("IterateReadOnlyLoadedValues", fmt.Sprintf("yielded %d elements, the array has %d inline elements (all loaded: %v)", len(got), len(want), !e.persist))
			return
		}
		e.st.Hit("dangling:loaded-iterate")
	}
	if len(e.rec.Effs) != nEff {
		e.violation("C18", "dangling reference: a failed read touched the storage: "+hx.NetEffect(e.rec.Effs[nEff:]))
	}
}

func sampleInts(intn func(int) int, l []int, n int) []int {
	if len(l) <= n {
		return l
	}
	out := make([]int, 0, n)
	seen := map[int]bool{}
	for len(out) < n {
		i := intn(len(l))
		if !seen[i] {
			seen[i] = true
			out = append(out, l[i])
		}
	}
	return out
}

func (e *mapEnv) danglingViolation(what, verdict string) {
	if strings.HasPrefix(verdict, "PANIC") {
		e.violation("*", "dangling reference: "+what+": "+verdict)
		return
	}
	e.violation("C18", "dangling reference: "+what+": "+verdict)
}

// danglingProbe (maps): values above the inline value limit of their key live in their own slabs.
func (e *mapEnv) danglingProbe() {
	var big, small []hx.TV
	for _, k := range e.keyUniv { // (a fixed order; the dictionary is a Go map)
		v, ok := e.shadow[k]
		if !ok || k.Size > e.maxKey {
			continue
		}
		if v.Size > atree.VerifMaxInlineMapValueSize(k.Size) {
			big = append(big, k)
		} else {
			small = append(small, k)
		}
	}
	if len(big) == 0 {
		e.st.Hit("dangling:no-large-value")
		return
	}
	nEff := len(e.rec.Effs)
	e.rec.HideLargeValues, e.rec.Hidden = true, nil
	defer func() { e.rec.HideLargeValues, e.rec.Hidden = false, nil }()
	pick := func(l []hx.TV, n int) []hx.TV {
		idx := make([]int, len(l))
		for i := range idx {
			idx[i] = i
		}
		var out []hx.TV
		for _, i := range sampleInts(e.rng.Intn, idx, n) {
			out = append(out, l[i])
		}
		return out
	}
	for _, k := range pick(big, 3) {
		e.rec.Hidden = nil
		err, pan := guardedRead(func() error { _, err := e.m.Get(hx.CompareKey, e.hip, k); return err })
		if v := danglingVerdict(err, pan, e.rec.Hidden); v != "" {
			e.danglingViolation(fmt.Sprintf("Get(%v) of a value whose large-value slab is absent", k), v)
			return
		}
		e.st.Hit("dangling:get")
	}
	for _, k := range pick(small, 2) {
		var got atree.Value
		err, pan := guardedRead(func() (err error) { got, err = e.m.Get(hx.CompareKey, e.hip, k); return })
		if tv, _ := got.(hx.TV); pan != "" || err != nil || tv != e.shadow[k] {
			e.danglingViolation(fmt.Sprintf("Get(%v) of an inline value while other values dangle", k), fmt.Sprintf("%v %v %s", got, err, pan))
			return
		}
	}
	isBig := map[hx.TV]bool{}
	for _, k := range big {
		isBig[k] = true
	}
	for _, fl := range []string{"IterateReadOnly", "Iterate", "IterateReadOnlyValues"} {
		nGot, bad := 0, ""
		pair := func(k, v atree.Value) (bool, error) {
			kt, _ := k.(hx.TV)
			vt, _ := v.(hx.TV)
			nGot++
			if isBig[kt] || e.shadow[kt] != vt {
				bad = fmt.Sprintf("yielded %v=%v, dictionary has %v (externalised: %v)", kt, vt, e.shadow[kt], isBig[kt])
			}
			return true, nil
		}
		e.rec.Hidden = nil
		err, pan := guardedRead(func() error {
			switch fl {
			case "Iterate":
				return e.m.Iterate(hx.CompareKey, e.hip, pair)
			case "IterateReadOnlyValues":
				return e.m.IterateReadOnlyValues(func(v atree.Value) (bool, error) { nGot++; return true, nil })
			}
			return e.m.IterateReadOnly(pair)
		})
		if v := danglingVerdict(err, pan, e.rec.Hidden); v != "" {
			e.danglingViolation(fl+" over a map with a value whose large-value slab is absent", v)
			return
		}
		if bad != "" || nGot > len(small) {
			e.danglingViolation(fl, fmt.Sprintf("%s (%d pairs before the error, %d inline values)", bad, nGot, len(small)))
			return
		}
		e.st.Hit("dangling:iterate")
	}
	// keys only: no value is read
	{
		n := 0
		err, pan := guardedRead(func() error {
			return e.m.IterateReadOnlyKeys(func(atree.Value) (bool, error) { n++; return true, nil })
		})
		if pan != "" || err != nil || n != len(e.shadow) {
			e.danglingViolation("IterateReadOnlyKeys over a map with absent large-value slabs (no value is read)", fmt.Sprintf("%d of %d keys, %v %s", n, len(e.shadow), err, pan))
			return
		}
	}
	{
		n, bad := 0, ""
		err, pan := guardedRead(func() error {
			return e.m.IterateReadOnlyLoadedValues(func(k, v atree.Value) (bool, error) {
				kt, _ := k.(hx.TV)
				vt, _ := v.(hx.TV)
				n++
				if isBig[kt] || e.shadow[kt] != vt {
					bad = fmt.Sprintf("yielded %v=%v, dictionary has %v (externalised: %v)", kt, vt, e.shadow[kt], isBig[kt])
				}
				return true, nil
			})
		})
		nInline := len(e.shadow) - len(big)
		if pan != "" || err != nil || bad != "" || n > nInline || (!e.persist && n != nInline) {
			e.danglingViolation("IterateReadOnlyLoadedValues over a map with absent large-value slabs",
				fmt.Sprintf("%d pairs, %d inline values, %s %v %s (want: the dangling elements skipped)", n, nInline, bad, err, pan))
			return
		}
		e.st.Hit("dangling:loaded-iterate")
	}
	if len(e.rec.Effs) != nEff {
		e.violation("C18", "dangling reference: a failed read touched the storage: "+hx.NetEffect(e.rec.Effs[nEff:]))
	}
}

// ---------------------------------------------------------------------------------------------
// health stream: deep read of a world from which a referenced slab was deleted

type deepRead struct {
	ps      *atree.PersistentSlabStorage
	missing []atree.SlabID
	errs    int      // reads that failed as required
	reads   int      // read requests issued
	bad     []string // anything else
	seen    map[atree.ValueID]bool
}

func (d *deepRead) outcome(what string, err error, pan string) {
	d.reads++
	if pan == "" && err == nil {
		return
	}
	if v := danglingVerdict(err, pan, d.missing); v != "" {
		if len(d.bad) < 4 {
			d.bad = append(d.bad, what+": "+v)
		}
		return
	}
	d.errs++
}

func unwrapSome(v atree.Value) atree.Value {
	for {
		w, ok := v.(hx.SomeValue)
		if !ok {
			return v
		}
		v = w.V
	}
}

func (d *deepRead) value(path string, v atree.Value, depth int) {
	if depth > 12 {
		return
	}
	switch x := unwrapSome(v).(type) {
	case *atree.Array:
		d.array(path, x, depth)
	case *atree.OrderedMap:
		d.mapp(path, x, nil, depth)
	}
}

func (d *deepRead) array(path string, a *atree.Array, depth int) {
	if d.seen[a.ValueID()] {
		return
	}
	d.seen[a.ValueID()] = true
	n := a.Count()
	var kids []atree.Value
	for i := uint64(0); i < n; i++ {
		var v atree.Value
		err, pan := guardedRead(func() (err error) { v, err = a.Get(i); return })
		d.outcome(fmt.Sprintf("%s.Get(%d)", path, i), err, pan)
		if err == nil && pan == "" {
			kids = append(kids, v)
		}
	}
	for _, fl := range []string{"IterateReadOnly", "Iterate", "IterateReadOnlyLoadedValues"} {
		cnt := uint64(0)
		fn := func(atree.Value) (bool, error) { cnt++; return true, nil }
		err, pan := guardedRead(func() error {
			switch fl {
			case "Iterate":
				return a.Iterate(fn)
			case "IterateReadOnlyLoadedValues":
				return a.IterateReadOnlyLoadedValues(fn)
			}
			return a.IterateReadOnly(fn)
		})
		if fl == "IterateReadOnlyLoadedValues" {
			// absent = not loaded: skipped without an error
			d.reads++
			if pan != "" || err != nil || cnt > n {
				d.bad = append(d.bad, fmt.Sprintf("%s.%s: %d of %d elements, %v %s (want: dangling elements skipped)", path, fl, cnt, n, err, pan))
			}
			continue
		}
		d.outcome(path+"."+fl, err, pan)
		if err == nil && pan == "" && cnt != n {
			d.bad = append(d.bad, fmt.Sprintf("%s.%s yielded %d of %d elements without an error", path, fl, cnt, n))
		}
	}
	for i, v := range kids {
		d.value(fmt.Sprintf("%s[%d]", path, i), v, depth+1)
	}
}

// mapp: b != nil = the handle computes the digests the map was built with (Get by key is meaningful)
func (d *deepRead) mapp(path string, m *atree.OrderedMap, b atree.DigesterBuilder, depth int) {
	if d.seen[m.ValueID()] {
		return
	}
	d.seen[m.ValueID()] = true
	n := m.Count()
	var keys, kids []atree.Value
	err, pan := guardedRead(func() error {
		return m.IterateReadOnlyKeys(func(k atree.Value) (bool, error) { keys = append(keys, k); return true, nil })
	})
	d.outcome(path+".IterateReadOnlyKeys", err, pan)
	if b != nil {
		for _, k := range keys {
			if _, ok := k.(hx.TV); !ok {
				continue
			}
			var v atree.Value
			err, pan := guardedRead(func() (err error) { v, err = m.Get(hx.CompareKey, hx.HashInput, k); return })
			d.outcome(fmt.Sprintf("%s.Get(%v)", path, k), err, pan)
			if err == nil && pan == "" {
				kids = append(kids, v)
			}
		}
	}
	for _, fl := range []string{"IterateReadOnly", "Iterate", "IterateReadOnlyValues", "IterateReadOnlyLoadedValues"} {
		if fl == "Iterate" && b == nil {
			continue // (the mutable iterator looks the next key up by its digests: needs the builder the map was built with)
		}
		cnt := uint64(0)
		var vals []atree.Value
		pair := func(_, v atree.Value) (bool, error) { cnt++; vals = append(vals, v); return true, nil }
		err, pan := guardedRead(func() error {
			switch fl {
			case "Iterate":
				return m.Iterate(hx.CompareKey, hx.HashInput, pair)
			case "IterateReadOnlyValues":
				return m.IterateReadOnlyValues(func(v atree.Value) (bool, error) { cnt++; return true, nil })
			case "IterateReadOnlyLoadedValues":
				return m.IterateReadOnlyLoadedValues(pair)
			}
			return m.IterateReadOnly(pair)
		})
		if fl == "IterateReadOnlyLoadedValues" {
			d.reads++
			if pan != "" || err != nil || cnt > n {
				d.bad = append(d.bad, fmt.Sprintf("%s.%s: %d of %d pairs, %v %s (want: dangling elements skipped)", path, fl, cnt, n, err, pan))
			}
			continue
		}
		d.outcome(path+"."+fl, err, pan)
		if err == nil && pan == "" && cnt != n {
			d.bad = append(d.bad, fmt.Sprintf("%s.%s yielded %d of %d pairs without an error", path, fl, cnt, n))
		}
		if fl == "IterateReadOnly" && b == nil {
			kids = vals
		}
	}
	for i, v := range kids {
		d.value(fmt.Sprintf("%s{%d}", path, i), v, depth+1)
	}
}

// healthDeepRead reads every top-level container of hw in depth; `deleted` is the one slab that was
// removed (it is referenced, so some read has to report it).
func healthDeepRead(hw *healthWorld, deleted atree.SlabID) (d *deepRead) {
	d = &deepRead{ps: hw.ps, missing: []atree.SlabID{deleted}, seen: map[atree.ValueID]bool{}}
	for _, r := range hw.roots {
		if r == deleted {
			continue
		}
		path := "root " + hx.IDStr(r)
		s, ok, err := hw.ps.Retrieve(r)
		if err != nil || !ok {
			d.bad = append(d.bad, fmt.Sprintf("%s cannot be retrieved: %v", path, err))
			continue
		}
		switch s.(type) {
		case *atree.ArrayDataSlab, *atree.ArrayMetaDataSlab:
			var a *atree.Array
			err, pan := guardedRead(func() (err error) { a, err = atree.NewArrayWithRootID(hw.ps, r); return })
			if err != nil || pan != "" {
				d.bad = append(d.bad, fmt.Sprintf("%s cannot be opened: %v %s", path, err, pan))
				continue
			}
			d.array(path, a, 0)
		default:
			b := hw.builders[r]
			if b == nil {
				b = atree.NewDefaultDigesterBuilder()
			}
			var m *atree.OrderedMap
			err, pan := guardedRead(func() (err error) { m, err = atree.NewMapWithRootID(hw.ps, r, b); return })
			if err != nil || pan != "" {
				d.bad = append(d.bad, fmt.Sprintf("%s cannot be opened: %v %s", path, err, pan))
				continue
			}
			d.mapp(path, m, b, 0)
		}
	}
	return d
}
