package main

// Stream "verifybadmap": the REJECTING paths of atree's own structural checker VerifyMap.
// Same protocol as "verifybad" (see verifybad.go); element-level overwrites carry the path of the
// `elements` value inside the data slab (p=<i0>.<i1>…: descend into the collision group at index
// i0 of the slab's digest table, then i1, …; empty = the slab's own digest table).

import (
	"fmt"
	"math/rand"
	"path/filepath"
	"reflect"
	"strings"

	"github.com/onflow/atree"

	"verifharness/hx"
)

func init() {
	streams["verifybadmap"] = verifyBadMapStream
}

type mbEnv struct {
	*mapEnv
	root   *vbSlab
	all    []*vbSlab
	undo   hx.Undo
	nExp   int
	accept int
}

func (e *mbEnv) walk(s atree.Slab, level int, parent *vbSlab, k int) *vbSlab {
	n := &vbSlab{id: s.SlabID(), slab: s, level: level, parent: parent, k: k}
	e.all = append(e.all, n)
	if _, ok := s.(*atree.MapMetaDataSlab); ok {
		for i, id := range atree.VerifChildSlabIDs(s) {
			c, ok, err := e.ps.Retrieve(id)
			if err != nil || !ok {
				continue
			}
			n.kids = append(n.kids, e.walk(c, level+1, n, i))
		}
	}
	return n
}

func mval(n *vbSlab) reflect.Value { return reflect.ValueOf(n.slab) }

func isMapData(n *vbSlab) bool { _, ok := n.slab.(*atree.MapDataSlab); return ok }

func (e *mbEnv) bad(n *vbSlab, f string, extra string) {
	e.w.L("BAD h=0 id=%s f=%s%s", hx.IDStr(n.id), f, extra)
}

func mhdr(n *vbSlab) (size uint32, first uint64) {
	h := reflect.ValueOf(n.slab.(atree.MapSlab).Header())
	return uint32(h.FieldByName("size").Uint()), h.FieldByName("firstKey").Uint()
}

func (e *mbEnv) setSize(n *vbSlab, v uint32) {
	e.undo.SetUint(hx.Field(mval(n), "header", "size"), uint64(v))
	e.bad(n, "size", fmt.Sprintf(" v=%d", v))
}
func (e *mbEnv) setFirst(n *vbSlab, v uint64) {
	e.undo.SetUint(hx.Field(mval(n), "header", "firstKey"), v)
	e.bad(n, "first", fmt.Sprintf(" v=%d", v))
}
func (e *mbEnv) setID(n *vbSlab, id atree.SlabID) {
	e.undo.SetField(hx.Field(mval(n), "header", "slabID"), reflect.ValueOf(id))
	e.bad(n, "id", " nid="+hx.IDStr(id))
	old := n.id
	n.id = id
	e.undo.Add(func() { n.id = old })
}
func (e *mbEnv) setNext(n *vbSlab, id atree.SlabID) {
	e.undo.SetField(hx.Field(mval(n), "next"), reflect.ValueOf(id))
	e.bad(n, "next", " nid="+hx.IDStr(id))
}
func (e *mbEnv) setInlined(n *vbSlab, b bool) {
	e.undo.SetBool(hx.Field(mval(n), "inlined"), b)
	e.bad(n, "inlined", fmt.Sprintf(" v=%d", b2i(b)))
}
func (e *mbEnv) setExtra(n *vbSlab, present bool) {
	f := hx.Field(mval(n), "extraData")
	if present {
		e.undo.SetField(f, hx.Field(mval(e.root), "extraData"))
	} else {
		e.undo.SetField(f, reflect.Zero(f.Type()))
	}
	e.bad(n, "extra", fmt.Sprintf(" v=%d", b2i(present)))
}
func (e *mbEnv) setMapCount(v uint64) {
	e.undo.SetUint(hx.Field(mval(e.root), "extraData", "Count"), v)
	e.bad(e.root, "mapcount", fmt.Sprintf(" v=%d", v))
}
func (e *mbEnv) setMapSeed(v uint64) {
	e.undo.SetUint(hx.Field(mval(e.root), "extraData", "Seed"), v)
	e.bad(e.root, "mapseed", fmt.Sprintf(" v=%d", v))
}
func (e *mbEnv) childHdr(n *vbSlab, i int) reflect.Value {
	return hx.Field(mval(n), "childrenHeaders").Index(i)
}
func (e *mbEnv) setChildSize(n *vbSlab, i int, v uint32) {
	e.undo.SetUint(hx.Field(e.childHdr(n, i).Addr(), "size"), uint64(v))
	e.bad(n, "childsize", fmt.Sprintf(" i=%d v=%d", i, v))
}
func (e *mbEnv) setChildFirst(n *vbSlab, i int, v uint64) {
	e.undo.SetUint(hx.Field(e.childHdr(n, i).Addr(), "firstKey"), v)
	e.bad(n, "childfirst", fmt.Sprintf(" i=%d v=%d", i, v))
}
func (e *mbEnv) setChildID(n *vbSlab, i int, id atree.SlabID) {
	e.undo.SetField(hx.Field(e.childHdr(n, i).Addr(), "slabID"), reflect.ValueOf(id))
	e.bad(n, "childid", fmt.Sprintf(" i=%d nid=%s", i, hx.IDStr(id)))
}
func (e *mbEnv) swapChild(n *vbSlab, i, j int) {
	hs := hx.Field(mval(n), "childrenHeaders")
	a := reflect.New(hs.Index(i).Type()).Elem()
	a.Set(hs.Index(i))
	b := reflect.New(hs.Index(j).Type()).Elem()
	b.Set(hs.Index(j))
	e.undo.SetField(hs.Index(i), b)
	e.undo.SetField(hs.Index(j), a)
	e.bad(n, "swapchild", fmt.Sprintf(" i=%d j=%d", i, j))
}
func (e *mbEnv) dropChildHdr(n *vbSlab) {
	e.undo.DropLast(hx.Field(mval(n), "childrenHeaders"))
	e.bad(n, "dropchildhdr", "")
}
func (e *mbEnv) dropChild(n *vbSlab, i int) {
	c := n.kids[i]
	_ = e.ps.Remove(c.id)
	e.undo.Add(func() { _ = e.ps.Store(c.id, c.slab) })
	e.bad(n, "dropchild", fmt.Sprintf(" i=%d", i))
}

// --- the element layer ----------------------------------------------------------------------------

func typeName(v reflect.Value) string {
	for v.Kind() == reflect.Ptr || v.Kind() == reflect.Interface {
		v = v.Elem()
	}
	return v.Type().Name()
}

// elemsAt returns the `elements` value (interface-kinded, settable) at path inside data slab n.
func (e *mbEnv) elemsAt(n *vbSlab, path []int) reflect.Value {
	cur := hx.Field(mval(n), "elements")
	for _, i := range path {
		el := hx.Field(cur, "elems").Index(i)
		switch typeName(el) {
		case "inlineCollisionGroup":
			cur = hx.Field(el, "elements")
		case "externalCollisionGroup":
			id := hx.Field(el, "slabID").Interface().(atree.SlabID)
			s, ok, err := e.ps.Retrieve(id)
			if err != nil || !ok {
				panic("external group slab missing")
			}
			cur = hx.Field(reflect.ValueOf(s), "elements")
		default:
			panic("path through a single element")
		}
	}
	return cur
}

func pathStr(path []int) string {
	parts := make([]string, len(path))
	for i, p := range path {
		parts[i] = fmt.Sprint(p)
	}
	return strings.Join(parts, ".")
}

func (e *mbEnv) ebad(n *vbSlab, f string, path []int, extra string) {
	e.w.L("BAD h=0 id=%s f=%s p=%s%s", hx.IDStr(n.id), f, pathStr(path), extra)
}

func (e *mbEnv) setESize(n *vbSlab, path []int, v uint32) {
	e.undo.SetUint(hx.Field(e.elemsAt(n, path), "size"), uint64(v))
	e.ebad(n, "esize", path, fmt.Sprintf(" v=%d", v))
}
func (e *mbEnv) setELevel(n *vbSlab, path []int, v uint) {
	e.undo.SetUint(hx.Field(e.elemsAt(n, path), "level"), uint64(v))
	e.ebad(n, "elevel", path, fmt.Sprintf(" v=%d", v))
}
func (e *mbEnv) setHkey(n *vbSlab, path []int, i int, v uint64) {
	e.undo.SetUint(hx.Field(e.elemsAt(n, path), "hkeys").Index(i), v)
	e.ebad(n, "hkey", path, fmt.Sprintf(" i=%d v=%d", i, v))
}
func (e *mbEnv) swapHkey(n *vbSlab, path []int, i, j int) {
	hk := hx.Field(e.elemsAt(n, path), "hkeys")
	a, b := hk.Index(i).Uint(), hk.Index(j).Uint()
	e.undo.SetUint(hk.Index(i), b)
	e.undo.SetUint(hk.Index(j), a)
	e.ebad(n, "swaphkey", path, fmt.Sprintf(" i=%d j=%d", i, j))
}
func (e *mbEnv) dropHkey(n *vbSlab, path []int) {
	e.undo.DropLast(hx.Field(e.elemsAt(n, path), "hkeys"))
	e.ebad(n, "drophkey", path, "")
}

// single returns the *singleElement at index i of the elements at path (nil value if it is a group).
func (e *mbEnv) single(n *vbSlab, path []int, i int) (reflect.Value, bool) {
	el := hx.Field(e.elemsAt(n, path), "elems").Index(i)
	if typeName(el) != "singleElement" {
		return reflect.Value{}, false
	}
	return el, true
}
func (e *mbEnv) setSelSize(n *vbSlab, path []int, i int, v uint32) bool {
	el, ok := e.single(n, path, i)
	if !ok {
		return false
	}
	e.undo.SetUint(hx.Field(el, "size"), uint64(v))
	e.ebad(n, "selsize", path, fmt.Sprintf(" i=%d v=%d", i, v))
	return true
}
func (e *mbEnv) setKVSize(n *vbSlab, path []int, i int, field string, v uint32) bool {
	el, ok := e.single(n, path, i)
	if !ok {
		return false
	}
	gf := map[string]string{"keysize": "key", "valsize": "value"}[field]
	f := hx.Field(el, gf)
	tv, ok := f.Interface().(hx.TV)
	if !ok {
		return false
	}
	e.undo.SetField(f, reflect.ValueOf(hx.TV{Size: v, Pay: tv.Pay}))
	e.ebad(n, field, path, fmt.Sprintf(" i=%d v=%d", i, v))
	return true
}
func (e *mbEnv) setExtSize(n *vbSlab, path []int, i int, v uint32) {
	el := hx.Field(e.elemsAt(n, path), "elems").Index(i)
	e.undo.SetUint(hx.Field(el, "size"), uint64(v))
	e.ebad(n, "extsize", path, fmt.Sprintf(" i=%d v=%d", i, v))
}
func (e *mbEnv) groupSlab(n *vbSlab, path []int, i int) reflect.Value {
	el := hx.Field(e.elemsAt(n, path), "elems").Index(i)
	id := hx.Field(el, "slabID").Interface().(atree.SlabID)
	s, _, _ := e.ps.Retrieve(id)
	return reflect.ValueOf(s)
}
func (e *mbEnv) setGSlab(n *vbSlab, path []int, i int, field string, v uint64) {
	gf := map[string]string{"gslabsize": "size", "gslabfirst": "firstKey"}[field]
	e.undo.SetUint(hx.Field(e.groupSlab(n, path, i), "header", gf), v)
	e.ebad(n, field, path, fmt.Sprintf(" i=%d v=%d", i, v))
}

// ---------------------------------------------------------------------------------------------------

func (e *mbEnv) verdict(name string, full bool, addr *atree.Address, ty *hx.TI, nostore bool) {
	e.nExp++
	if nostore {
		rid := e.root.id
		_ = e.ps.Remove(rid)
		rs := e.root.slab
		e.undo.Add(func() { _ = e.ps.Store(rid, rs) })
	}
	if full {
		e.w.L("FULL h=0 %s", hx.DumpTree(e.ps, e.root.slab))
	}
	a, t := e.addr, e.ty
	opt := ""
	if addr != nil {
		a = *addr
		opt += fmt.Sprintf(" addr=%d", hx.MkID(a, 0).AddressAsUint64())
	}
	if ty != nil {
		t = *ty
	}
	opt += fmt.Sprintf(" ty=%d", uint64(t))
	if nostore {
		opt += " nostore=" + hx.IDStr(e.root.id)
	}
	v, msg := hx.RunVerify(func() error { return atree.VerifyMap(e.m, a, t, tyEq, e.hip, true) })
	e.w.L("VFY h=0%s r=%s", opt, v)
	e.st.Hit("verdict:" + v)
	e.st.Hit("exp:" + name + "=" + v)
	if v == "ok" {
		e.accept++
		if strings.HasPrefix(name, "chain-") {
			got := 0
			err := e.m.IterateReadOnly(func(atree.Value, atree.Value) (bool, error) { got++; return true, nil })
			if err != nil || uint64(got) != e.m.Count() {
				e.st.Hit("observation:verifier-accepts-broken-sibling-links:read-only-iterator-incomplete")
				if len(e.st.Samples) < 8 {
					e.st.Samples = append(e.st.Samples, fmt.Sprintf("%s accepted by VerifyMap; IterateReadOnly yields %d of %d entries (err=%v)", name, got, e.m.Count(), err))
				}
			}
		}
	}
	if strings.HasPrefix(v, "err:UNCLASSIFIED") {
		e.st.HarnessErr = "unclassified verifier message: " + msg
	}
	if v == "err:PANIC" {
		e.st.Hit("observation:VerifyMap-panics:" + name)
		if len(e.st.Samples) < 8 {
			e.st.Samples = append(e.st.Samples, fmt.Sprintf("%s: VerifyMap PANICS (%s)", name, msg))
		}
	}
	e.undo.Run()
	e.w.L("UNDO h=0")
}

func (e *mbEnv) exp(name string, f func() bool) {
	if f() {
		e.verdict(name, true, nil, nil, false)
	} else {
		e.undo.Run()
		e.w.L("UNDO h=0")
	}
}

func verifyBadMapStream(cfg *Config) *hx.Stats {
	st := hx.NewStats("verifybadmap", cfg.Seed)
	rng := rand.New(rand.NewSource(cfg.Seed*15485863 + 3))
	w := hx.NewW(filepath.Join(cfg.Out, fmt.Sprintf("verifybadmap-%d.trace", cfg.Seed)))
	defer w.Close()
	st.TraceFiles = append(st.TraceFiles, w.Path)
	type prog struct {
		T     uint32
		nKeys int
		L     uint
		alph  []uint64 // nil = the default digester
		vprof int
	}
	big := uint64(1) << 62
	progs := []prog{
		{256, 3, 2, []uint64{big, big}, 0},         // single slab, single elements only
		{256, 8, 2, []uint64{3, 2}, 0},             // single slab: inline groups, last-level lists
		{1024, 30, 3, []uint64{4, 2, 2}, 0},        // deeper groups
		{256, 40, 2, []uint64{6, big}, 3},          // external groups (large values), several slabs
		{256, 60, 4, []uint64{40, 3, 2, 2}, 0},     // several slabs with inline groups
		{256, 150, 4, nil, 0},                      // default digester, index slab over many leaves
		{256, 900, 4, nil, 0},                      // three levels
		{512, 200, 1, []uint64{big}, 1},            // one digest level
	}
	rounds := int(cfg.Scale + 0.5)
	if rounds < 1 {
		rounds = 1
	}
	p := 0
	for r := 0; r < rounds; r++ {
		for _, pg := range progs {
			me := &mapEnv{w: w, st: st, cfg: cfg, rng: rng, T: pg.T, prog: p}
			e := &mbEnv{mapEnv: me}
			e.run(pg.nKeys+rng.Intn(5)*r, pg.L, pg.alph, pg.vprof)
			st.Programs++
			p++
			if st.HarnessErr != "" {
				break
			}
		}
	}
	st.TraceLines = w.Lines
	for k := range st.Dist {
		if strings.HasPrefix(k, "verdict:") {
			st.Distinct++
		}
	}
	atree.VerifSetThreshold(1024)
	atree.VerifSetMaxCollisionLimitPerDigest(255)
	return st
}

func (e *mbEnv) run(nKeys int, L uint, alph []uint64, vprof int) {
	atree.VerifSetThreshold(e.T)
	_, _, _, _, maxElem, maxKey := atree.VerifThresholds()
	minThr, maxThr := e.T/2, uint32(float64(e.T)*1.5)
	e.maxElem, e.maxKey = maxElem, maxKey
	e.ledger = hx.NewLedger()
	e.ps = hx.NewStorage(e.ledger)
	e.rec = hx.NewRecStorage(e.ps)
	e.addr = hx.MkAddr(uint64(1 + e.rng.Intn(3)))
	e.ty = hx.TI(uint64(e.rng.Intn(100)))
	e.shadow = map[hx.TV]hx.TV{}
	e.climit = 255
	e.hip = hx.HashInput
	e.L = L
	salt := uint64(e.rng.Int63())
	if alph == nil {
		e.b = atree.NewDefaultDigesterBuilder()
		e.L = 4
	} else {
		e.b = &hx.TableDigesterBuilder{L: L, Fn: func(k hx.TV, l uint) uint64 {
			return (mix(k.Pay, uint64(l), salt)%alph[l])*1000003 + 5
		}}
	}
	atree.VerifSetMaxCollisionLimitPerDigest(e.climit)
	w := e.w
	w.L("CFG T=%d", e.T)
	m, err := atree.NewMap(e.rec, e.addr, e.b, e.ty)
	if err != nil {
		e.st.HarnessErr = "NewMap: " + err.Error()
		return
	}
	e.m = m
	w.L("MNEW h=0 addr=%d ty=%d L=%d climit=%d seed=%d", e.addr[7], uint64(e.ty), e.L, e.climit, m.Seed())
	e.emitEffects()
	for i := 0; i < nKeys; i++ {
		size := uint32(3 + e.rng.Intn(10))
		pay := uint64(i + 1)
		for !hx.ValidTV(size, pay) {
			size++
		}
		k := hx.TV{Size: size, Pay: pay}
		v := e.genValue(vprof)
		w.L("OP mset h=0 k=%s v=%d:%d", e.keyStr(k), v.Size, v.Pay)
		old, err := e.m.Set(hx.CompareKey, e.hip, k, v)
		if err != nil || old != nil {
			w.L("OBS err:%s", hx.ErrKind(err))
			e.st.HarnessErr = fmt.Sprintf("set failed: %v", err)
			return
		}
		w.L("OBS ok:none")
		e.emitEffects()
	}
	e.st.Ops += nKeys
	e.root = e.walk(atree.VerifMapRoot(e.m), 0, nil, 0)
	depth := 0
	var leaves, metas []*vbSlab
	for _, s := range e.all {
		if s.level > depth {
			depth = s.level
		}
		if isMapData(s) {
			leaves = append(leaves, s)
		} else if s.level > 0 {
			metas = append(metas, s)
		}
	}
	e.st.Hit(fmt.Sprintf("shape:depth=%d", depth))

	e.verdict("valid", true, nil, nil, false)
	if e.accept != 1 {
		e.violation("C05", "VerifyMap rejects a container built through the public API")
		return
	}

	other := hx.MkAddr(uint64(e.addr[7]) + 1)
	otherTy := e.ty + 1
	fresh := hx.MkID(e.addr, 1_000_000)
	root := e.root
	rsz, rfirst := mhdr(root)

	// ---- root / map level -----------------------------------------------------------------------
	e.verdict("expected-address", false, &other, nil, false)
	e.verdict("expected-type", false, nil, &otherTy, false)
	e.exp("map-seed-0", func() bool { e.setMapSeed(0); return true })
	e.exp("map-count+1", func() bool { e.setMapCount(e.m.Count() + 1); return true })
	e.exp("root-no-extra", func() bool { e.setExtra(root, false); return true })
	e.exp("root-size+1", func() bool { e.setSize(root, rsz+1); return true })
	e.exp("root-overflow", func() bool { e.setSize(root, maxThr+1); return true })
	e.exp("root-first+1", func() bool { e.setFirst(root, rfirst+1); return true })
	e.exp("root-addr", func() bool { e.setID(root, hx.MkID(other, root.id.IndexAsUint64())); return true })
	{
		e.setID(root, atree.SlabIDUndefined)
		zero := atree.Address{}
		e.verdict("root-id-undefined", true, &zero, nil, false)
	}
	if isMapData(root) {
		e.exp("root-inlined-in-storage", func() bool { e.setInlined(root, true); return true })
		e.setInlined(root, true)
		e.verdict("root-inlined-not-stored-size", true, nil, nil, true)
		e.setInlined(root, true)
		e.setSize(root, rsz+12) // inlined prefix 14 instead of root prefix 2
		e.verdict("root-inlined-not-stored", true, nil, nil, true)
		e.setInlined(root, true)
		e.setSize(root, rsz+12)
		e.setNext(root, fresh)
		e.verdict("root-inlined-has-next", true, nil, nil, true)
		e.exp("root-next", func() bool { e.setNext(root, fresh); return true })
	} else {
		nk := len(root.kids)
		e.exp("root-dropchildhdr", func() bool { e.dropChildHdr(root); return true })
		{
			e.dropChild(root, nk-1)
			e.verdict("root-child-missing", false, nil, nil, false)
		}
		e.exp("root-childid-next-sibling", func() bool { e.setChildID(root, 0, root.kids[1].id); return true })
		e.exp("root-childid-prev-sibling", func() bool { e.setChildID(root, nk-1, root.kids[0].id); return true })
		{
			e.setChildID(root, nk-1, fresh)
			e.verdict("root-childid-unknown", false, nil, nil, false)
		}
		k := e.rng.Intn(nk)
		ksz, kfirst := mhdr(root.kids[k])
		e.exp("root-childsize", func() bool { e.setChildSize(root, k, ksz+1); return true })
		e.exp("root-childfirst", func() bool { e.setChildFirst(root, k, kfirst+1); return true })
		e.exp("root-swapchild-0-1", func() bool { e.swapChild(root, 0, 1); return true })
		if nk >= 3 {
			e.exp("root-swapchild-1-2", func() bool { e.swapChild(root, 1, 2); return true })
			e.exp("root-swapchild-last", func() bool { e.swapChild(root, nk-2, nk-1); return true })
		}
	}

	// ---- non-root slabs -----------------------------------------------------------------------
	pick := func(l []*vbSlab) []*vbSlab {
		if len(l) <= 3 {
			return l
		}
		return []*vbSlab{l[0], l[len(l)-1], l[1+e.rng.Intn(len(l)-2)]}
	}
	for _, s := range append(pick(leaves), pick(metas)...) {
		if s.level == 0 {
			continue
		}
		s := s
		par := s.parent
		tag := "leaf"
		if !isMapData(s) {
			tag = "meta"
		}
		sz, first := mhdr(s)
		e.exp(tag+"-underflow", func() bool { e.setSize(s, minThr-1); return true })
		e.exp(tag+"-overflow", func() bool { e.setSize(s, maxThr+1); return true })
		e.exp(tag+"-size+1", func() bool { e.setSize(s, sz+1); return true })
		e.exp(tag+"-first+1", func() bool { e.setFirst(s, first+1); return true })
		e.exp(tag+"-first+1-consistent", func() bool {
			e.setFirst(s, first+1)
			e.setChildFirst(par, s.k, first+1)
			return true
		})
		e.exp(tag+"-size+1-consistent", func() bool {
			if sz+1 > maxThr {
				return false
			}
			e.setSize(s, sz+1)
			e.setChildSize(par, s.k, sz+1)
			return true
		})
		e.exp(tag+"-extra", func() bool { e.setExtra(s, true); return true })
		e.exp(tag+"-addr", func() bool { e.setID(s, hx.MkID(other, s.id.IndexAsUint64())); return true })
		e.exp(tag+"-id-fresh", func() bool { e.setID(s, fresh); return true })
		e.exp(tag+"-id-root", func() bool { e.setID(s, root.id); return true })
		if s.k > 0 {
			e.exp(tag+"-id-prev-sibling", func() bool { e.setID(s, par.kids[s.k-1].id); return true })
		}
		if isMapData(s) {
			e.exp("leaf-inlined", func() bool { e.setInlined(s, true); return true })
			e.exp("leaf-next-undef", func() bool { e.setNext(s, atree.SlabIDUndefined); return true })
			e.exp("leaf-next-self", func() bool { e.setNext(s, s.id); return true })
			e.exp("leaf-next-fresh", func() bool { e.setNext(s, fresh); return true })
		} else {
			nk := len(s.kids)
			if nk >= 3 {
				e.exp("meta-swapchild-1-2", func() bool { e.swapChild(s, 1, 2); return true })
			}
			e.exp("meta-swapchild-0-1", func() bool { e.swapChild(s, 0, 1); return true })
			{
				e.dropChild(s, nk-1)
				e.verdict("meta-child-missing", false, nil, nil, false)
			}
			if s.level == 1 && len(root.kids) >= 2 {
				// an index slab below the root emptied of its children, with a size that hides it from
				// the underflow check: `childrenHeaders[0]` is read after the (empty) loop
				e.exp("meta-no-children", func() bool {
					for i := 0; i < nk; i++ {
						e.dropChildHdr(s)
					}
					return true
				})
			}
		}
	}

	// ---- sibling links ------------------------------------------------------------------------------
	if len(leaves) >= 2 {
		first, last := leaves[0], leaves[len(leaves)-1]
		e.exp("chain-first-undef-last-self", func() bool {
			e.setNext(first, atree.SlabIDUndefined)
			e.setNext(last, last.id)
			return true
		})
		e.exp("chain-last-defined", func() bool { e.setNext(last, fresh); return true })
		if len(leaves) >= 3 {
			e.exp("chain-rotated", func() bool {
				e.setNext(first, atree.SlabIDUndefined)
				for i := 1; i < len(leaves); i++ {
					e.setNext(leaves[i], leaves[i].id)
				}
				return true
			})
		}
	}

	// ---- the element layer -------------------------------------------------------------------------
	for _, s := range pick(leaves) {
		e.elementExperiments(s, []int{}, 0, maxElem, maxKey)
	}
	// collision groups: the first inline group and the first external group of the tree
	var doneInl, doneExt bool
	for _, s := range leaves {
		es := hx.Field(e.elemsAt(s, nil), "elems")
		for i := 0; i < es.Len(); i++ {
			switch typeName(es.Index(i)) {
			case "inlineCollisionGroup":
				if !doneInl {
					doneInl = true
					e.st.Hit("shape:inline-group")
					e.elementExperiments(s, []int{i}, 1, maxElem, maxKey)
					i := i
					e.exp("inline-group-too-large", func() bool { e.setESize(s, []int{i}, maxElem); return true })
				}
			case "externalCollisionGroup":
				if !doneExt {
					doneExt = true
					e.st.Hit("shape:external-group")
					e.elementExperiments(s, []int{i}, 1, maxElem, maxKey)
					i := i
					el := es.Index(i)
					xsz := uint32(hx.Field(el, "size").Uint())
					e.exp("ext-size+1", func() bool { e.setExtSize(s, nil, i, xsz+1); return true })
					e.exp("ext-too-large", func() bool { e.setExtSize(s, nil, i, maxElem+1); return true })
					g := e.groupSlab(s, nil, i)
					gsz := hx.Field(g, "header", "size").Uint()
					gfirst := hx.Field(g, "header", "firstKey").Uint()
					// the slab of an external collision group: its header is never read by VerifyMap
					e.exp("group-slab-size+1", func() bool { e.setGSlab(s, nil, i, "gslabsize", gsz+1); return true })
					e.exp("group-slab-size-huge", func() bool { e.setGSlab(s, nil, i, "gslabsize", 100000); return true })
					e.exp("group-slab-first+1", func() bool { e.setGSlab(s, nil, i, "gslabfirst", gfirst+1); return true })
				}
			}
		}
	}

	e.verdict("restored", true, nil, nil, false)
	if v, _ := hx.RunVerify(func() error { return atree.VerifyMap(e.m, e.addr, e.ty, tyEq, e.hip, true) }); v != "ok" {
		e.st.HarnessErr = "restore failed: " + v
	}
	if len(e.st.Samples) < 4 {
		e.st.Samples = append(e.st.Samples, fmt.Sprintf("T=%d keys=%d L=%d depth=%d slabs=%d experiments=%d accepted-corrupted=%d",
			e.T, nKeys, e.L, depth, len(e.all), e.nExp, e.accept-2))
	}
}

// elementExperiments overwrites fields of the `elements` value at path (digest level lvl) of data slab s.
func (e *mbEnv) elementExperiments(s *vbSlab, path []int, lvl uint, maxElem, maxKey uint32) {
	es := e.elemsAt(s, path)
	kind := typeName(es)
	tag := fmt.Sprintf("%s@%d", kind, lvl)
	esz := uint32(hx.Field(es, "size").Uint())
	n := hx.Field(es, "elems").Len()
	e.exp(tag+"-size+1", func() bool { e.setESize(s, path, esz+1); return true })
	e.exp(tag+"-level+1", func() bool { e.setELevel(s, path, lvl+1); return true })
	if kind == "hkeyElements" && n > 0 {
		hk := hx.Field(es, "hkeys")
		e.exp(tag+"-drophkey", func() bool { e.dropHkey(s, path); return true })
		e.exp(tag+"-hkey-last+1", func() bool { e.setHkey(s, path, n-1, hk.Index(n-1).Uint()+1); return true })
		e.exp(tag+"-hkey-first-1", func() bool { e.setHkey(s, path, 0, hk.Index(0).Uint()-1); return true })
		if n >= 2 {
			e.exp(tag+"-swaphkey", func() bool { e.swapHkey(s, path, 0, 1); return true })
			e.exp(tag+"-hkey-dup", func() bool { e.setHkey(s, path, 1, hk.Index(0).Uint()); return true })
		}
	}
	// the first single element of this elements value
	for i := 0; i < n; i++ {
		el, ok := e.single(s, path, i)
		if !ok {
			continue
		}
		i := i
		ssz := uint32(hx.Field(el, "size").Uint())
		key, _ := hx.Field(el, "key").Interface().(hx.TV)
		val, vok := hx.Field(el, "value").Interface().(hx.TV)
		e.exp(tag+"-single-size+1", func() bool { return e.setSelSize(s, path, i, ssz+1) })
		e.exp(tag+"-single-too-large", func() bool { return e.setSelSize(s, path, i, maxElem+1) })
		e.exp(tag+"-key-too-large", func() bool { return e.setKVSize(s, path, i, "keysize", maxKey+1) })
		if vok {
			lim := atree.VerifMaxInlineMapValueSize(key.Size)
			e.exp(tag+"-value-too-large", func() bool { return e.setKVSize(s, path, i, "valsize", lim+1) })
			e.exp(tag+"-value-size+1", func() bool { return e.setKVSize(s, path, i, "valsize", val.Size+1) })
			e.exp(tag+"-value-size+1-consistent", func() bool {
				return e.setKVSize(s, path, i, "valsize", val.Size+1) && e.setSelSize(s, path, i, ssz+1)
			})
		}
		break
	}
	// one level deeper: the first collision group inside this elements value
	if len(path) >= 1 && len(path) < 4 && kind == "hkeyElements" {
		for i := 0; i < n; i++ {
			tn := typeName(hx.Field(es, "elems").Index(i))
			if tn == "inlineCollisionGroup" || tn == "externalCollisionGroup" {
				e.elementExperiments(s, append(append([]int{}, path...), i), lvl+1, maxElem, maxKey)
				break
			}
		}
	}
}
