package main

import (
	"bytes"
	"crypto/sha256"
	"encoding/hex"
	"fmt"
	"math/rand"
	"os"
	"os/exec"
	"runtime"
	"sort"
	"strings"
	"sync"

	"github.com/onflow/atree"

	"verifharness/hx"
)

// A script is a deterministic history over one array and one map (at two owner addresses), with
// commit points.  The same script can be executed under different worker counts, commit kinds,
// GOMAXPROCS values, cache/commit/reopen schedules and in a fresh process; the model-free
// oracles of C04, C08 and C16 compare the outcomes.

func init() {
	streams["determ"] = determStream
	streams["determchild"] = determChild
	streams["cache"] = cacheStream
	streams["parallel"] = parallelStream
}

type sop struct {
	kind string // ains aset arem mset mrem commit achild mchild
	i    uint64
	k, v hx.TV
	// achild / mchild: a small child container (array when !cm, map when cm) of type cty holding cn
	// tiny values is inserted at i / set under k.  Types come from a small set so that sibling
	// inlined children repeat type infos (shared extra-data section, type-info references).
	cty uint64
	cn  int
	cm  bool
}

func genScript(seed int64, n int, T uint32) []sop {
	rng := rand.New(rand.NewSource(seed))
	var ops []sop
	alen := 0
	present := map[uint64]bool{}
	pay := uint64(0)
	val := func() hx.TV {
		pay++
		size := uint32(4 + rng.Intn(int(T/5)))
		if rng.Intn(15) == 0 {
			size = T/2 + uint32(rng.Intn(30)) // externalised
		}
		p := pay
		for !hx.ValidTV(size, p) {
			size++
		}
		return hx.TV{Size: size, Pay: p}
	}
	key := func() hx.TV {
		p := uint64(1 + rng.Intn(120))
		return hx.TV{Size: 9, Pay: p}
	}
	// a block of sibling children whose type infos repeat (two or more distinct types, each used at
	// least twice, in shuffled order) inside ONE slab, committed at once: the shared extra-data
	// section and its type-info references must come out the same on every run (C04)
	// Always present; in every block at least two distinct types are each used twice by children
	// of the SAME kind (array children and map children keep separate extra-data kinds), the rest
	// is random.
	{
		blk := []struct {
			ty uint64
			cm bool
		}{{50, false}, {51, false}, {50, false}, {51, false}, {52, true}, {53, true}, {52, true}, {53, true}}
		for x := rng.Intn(4); x > 0; x-- {
			blk = append(blk, struct {
				ty uint64
				cm bool
			}{uint64(50 + rng.Intn(4)), rng.Intn(2) == 0})
		}
		rng.Shuffle(len(blk), func(i, j int) { blk[i], blk[j] = blk[j], blk[i] })
		for _, b := range blk {
			ops = append(ops, sop{kind: "achild", i: uint64(rng.Intn(alen + 1)), cty: b.ty, cn: rng.Intn(2), cm: b.cm})
			alen++
		}
		rng.Shuffle(len(blk), func(i, j int) { blk[i], blk[j] = blk[j], blk[i] })
		for j, b := range blk {
			k := hx.TV{Size: 9, Pay: uint64(200 + j)}
			ops = append(ops, sop{kind: "mchild", k: k, cty: b.ty, cn: rng.Intn(2), cm: b.cm})
		}
		ops = append(ops, sop{kind: "commit"})
	}
	for len(ops) < n {
		r := rng.Intn(100)
		switch {
		case r < 30:
			ops = append(ops, sop{kind: "ains", i: uint64(rng.Intn(alen + 1)), v: val()})
			alen++
		case r < 40 && alen > 0:
			ops = append(ops, sop{kind: "aset", i: uint64(rng.Intn(alen)), v: val()})
		case r < 52 && alen > 0:
			ops = append(ops, sop{kind: "arem", i: uint64(rng.Intn(alen))})
			alen--
		case r < 80:
			k := key()
			present[k.Pay] = true
			ops = append(ops, sop{kind: "mset", k: k, v: val()})
		case r < 92:
			k := key()
			if present[k.Pay] {
				delete(present, k.Pay)
				ops = append(ops, sop{kind: "mrem", k: k})
			}
		case r < 95:
			ops = append(ops, sop{kind: "commit"})
		case r < 98:
			ops = append(ops, sop{kind: "achild", i: uint64(rng.Intn(alen + 1)), cty: uint64(50 + rng.Intn(4)), cn: rng.Intn(3), cm: rng.Intn(2) == 0})
			alen++
		default:
			k := key()
			present[k.Pay] = true
			ops = append(ops, sop{kind: "mchild", k: k, cty: uint64(50 + rng.Intn(4)), cn: rng.Intn(3), cm: rng.Intn(2) == 0})
		}
	}
	ops = append(ops, sop{kind: "commit"})
	return ops
}

type runCfg struct {
	hip     atree.HashInputProvider // nil = injective hx.HashInput
	T       uint32
	workers int
	nondet  bool
	jitter  bool
	// schedule of maintenance actions before op i: bit 0 commit, bit 1 drop cache, bit 2 commit+reopen
	maint func(i int) int
	// keepHandles: the client keeps using its container handles across cache drops instead of
	// fetching them again
	keepHandles bool
}

type runOut struct {
	obs     []string          // observation per op
	regs    map[string]string // final registers (hex) after the final commit
	logs    []string          // ordered ledger call log of every scripted commit
	content string            // final logical content
	err     string
}

func regsOf(l *hx.Ledger) map[string]string {
	m := map[string]string{}
	for id, b := range l.Seg {
		m[hx.IDStr(id)] = hex.EncodeToString(b)
	}
	return m
}

func regsHash(m map[string]string) string {
	keys := make([]string, 0, len(m))
	for k := range m {
		keys = append(keys, k)
	}
	sort.Strings(keys)
	h := sha256.New()
	for _, k := range keys {
		h.Write([]byte(k + "=" + m[k] + ";"))
	}
	return hex.EncodeToString(h.Sum(nil))[:16]
}

// runScript executes the script on the real atree.  It does NOT touch process-wide settings other
// than the threshold (set by the caller) so that it can run concurrently with other runScript calls.
func runScript(ops []sop, cfg runCfg) (out runOut) {
	defer func() {
		if r := recover(); r != nil {
			out.err = fmt.Sprintf("panic: %v", r)
		}
	}()
	hip := cfg.hip
	if hip == nil {
		hip = hx.HashInput
	}
	ledger := hx.NewLedger()
	ledger.Jitter = cfg.jitter
	ps := hx.NewStorage(ledger)
	arr, err := atree.NewArray(ps, hx.MkAddr(1), hx.TI(1))
	if err != nil {
		out.err = err.Error()
		return
	}
	mp, err := atree.NewMap(ps, hx.MkAddr(2), atree.NewDefaultDigesterBuilder(), hx.TI(2))
	if err != nil {
		out.err = err.Error()
		return
	}
	arrID, mapID := arr.SlabID(), mp.SlabID()
	commit := func(record bool) error {
		ledger.ResetCalls()
		var err error
		if cfg.nondet {
			err = ps.NondeterministicFastCommit(cfg.workers)
		} else {
			err = ps.FastCommit(cfg.workers)
		}
		if record {
			var parts []string
			for _, c := range ledger.Log {
				parts = append(parts, fmt.Sprintf("%c:%s:%x", c.Kind, hx.IDStr(c.ID), sha256.Sum256(c.Data))[:40])
			}
			out.logs = append(out.logs, strings.Join(parts, " "))
		}
		return err
	}
	reopen := func() error {
		ps = hx.NewStorage(ledger)
		var err error
		arr, err = atree.NewArrayWithRootID(ps, arrID)
		if err != nil {
			return err
		}
		mp, err = atree.NewMapWithRootID(ps, mapID, atree.NewDefaultDigesterBuilder())
		return err
	}
	dispose := func(s atree.Storable) {
		if id, ok := s.(atree.SlabIDStorable); ok {
			_ = ps.Remove(atree.SlabID(id))
		}
	}
	render := func(s atree.Storable) string {
		switch x := s.(type) {
		case nil:
			return "nil"
		case hx.TV:
			return fmt.Sprintf("%d:%d", x.Size, x.Pay)
		case atree.SlabIDStorable:
			sl, ok, err := ps.Retrieve(atree.SlabID(x))
			if err != nil || !ok {
				return "dangling"
			}
			if cs := sl.ChildStorables(); len(cs) == 1 {
				if tv, ok := cs[0].(hx.TV); ok {
					return fmt.Sprintf("ext %d:%d", tv.Size, tv.Pay)
				}
			}
		}
		return fmt.Sprintf("?%T", s)
	}
	for i, op := range ops {
		if cfg.maint != nil {
			m := cfg.maint(i)
			if m&1 != 0 {
				if err := commit(false); err != nil {
					out.err = "maintenance commit: " + err.Error()
					return
				}
			}
			if m&2 != 0 {
				ps.DropCache()
				// clients re-fetch their handles after a cache drop (HandlesCurrent), unless keepHandles
				if err := func() error {
					if cfg.keepHandles {
						return nil
					}
					var err error
					arr, err = atree.NewArrayWithRootID(ps, arrID)
					if err != nil {
						return err
					}
					mp, err = atree.NewMapWithRootID(ps, mapID, atree.NewDefaultDigesterBuilder())
					return err
				}(); err != nil {
					// not committed yet: the root only lives in the write set, which DropCache keeps
					out.err = "refetch after drop cache: " + err.Error()
					return
				}
			}
			if m&4 != 0 {
				if err := commit(false); err != nil {
					out.err = "maintenance commit: " + err.Error()
					return
				}
				if err := reopen(); err != nil {
					out.err = "reopen: " + err.Error()
					return
				}
			}
		}
		var o string
		switch op.kind {
		case "ains":
			err := arr.Insert(op.i, op.v)
			o = obsErr(err)
		case "aset":
			old, err := arr.Set(op.i, op.v)
			o = obsErr(err) + " " + render(old)
			if err == nil {
				dispose(old)
			}
		case "arem":
			old, err := arr.Remove(op.i)
			o = obsErr(err) + " " + render(old)
			if err == nil {
				dispose(old)
			}
		case "mset":
			old, err := mp.Set(hx.CompareKey, hip, op.k, op.v)
			o = obsErr(err) + " " + render(old)
			if err == nil && old != nil {
				dispose(old)
			}
		case "mrem":
			k, v, err := mp.Remove(hx.CompareKey, hip, op.k)
			o = obsErr(err) + " " + render(k) + " " + render(v)
			if err == nil {
				dispose(v)
			}
		case "commit":
			err := commit(true)
			o = obsErr(err)
		case "achild", "mchild":
			var child atree.Value
			var err error
			caddr := hx.MkAddr(1)                         // a child lives at its parent's address ...
			chip := atree.HashInputProvider(hx.HashInput) // ... and is verified with its parent's hash input
			if op.kind == "mchild" {
				caddr = hx.MkAddr(2)
				chip = hip
			}
			if op.cm {
				var m *atree.OrderedMap
				m, err = atree.NewMap(ps, caddr, atree.NewDefaultDigesterBuilder(), hx.TI(op.cty))
				for j := 0; err == nil && j < op.cn; j++ {
					_, err = m.Set(hx.CompareKey, chip, hx.TV{Size: 3, Pay: uint64(j + 1)}, hx.TV{Size: 3, Pay: uint64(j + 7)})
				}
				child = m
			} else {
				var a *atree.Array
				a, err = atree.NewArray(ps, caddr, hx.TI(op.cty))
				for j := 0; err == nil && j < op.cn; j++ {
					err = a.Append(hx.TV{Size: 3, Pay: uint64(j + 1)})
				}
				child = a
			}
			if err == nil {
				if op.kind == "achild" {
					err = arr.Insert(op.i, child)
					o = obsErr(err)
				} else {
					var old atree.Storable
					old, err = mp.Set(hx.CompareKey, hip, op.k, child)
					o = obsErr(err) + " " + render(old)
					if err == nil && old != nil {
						dispose(old)
					}
				}
			} else {
				o = obsErr(err)
			}
		}
		out.obs = append(out.obs, o)
	}
	// final logical content, read through the containers
	var sb strings.Builder
	_ = arr.IterateReadOnly(func(v atree.Value) (bool, error) { fmt.Fprintf(&sb, "%s,", scriptVal(v)); return true, nil })
	sb.WriteString("|")
	_ = mp.IterateReadOnly(func(k, v atree.Value) (bool, error) {
		fmt.Fprintf(&sb, "%s=%s,", scriptVal(k), scriptVal(v))
		return true, nil
	})
	out.content = sb.String()
	if err := atree.VerifyArray(arr, hx.MkAddr(1), hx.TI(1), func(a, b atree.TypeInfo) bool { return a == b }, hx.HashInput, true); err != nil {
		out.err = "VerifyArray: " + err.Error()
	}
	if err := atree.VerifyMap(mp, hx.MkAddr(2), hx.TI(2), func(a, b atree.TypeInfo) bool { return a == b }, hip, true); err != nil {
		out.err = "VerifyMap: " + err.Error()
	}
	if err := commit(false); err != nil {
		out.err = "final commit: " + err.Error()
	}
	out.regs = regsOf(ledger)
	return
}

// scriptVal renders a value read back from a script container without addresses.
func scriptVal(v atree.Value) string {
	switch x := v.(type) {
	case *atree.Array:
		var sb strings.Builder
		fmt.Fprintf(&sb, "A%v[", x.Type())
		_ = x.IterateReadOnly(func(e atree.Value) (bool, error) { sb.WriteString(scriptVal(e) + ","); return true, nil })
		return sb.String() + "]"
	case *atree.OrderedMap:
		var sb strings.Builder
		fmt.Fprintf(&sb, "M%v{", x.Type())
		_ = x.IterateReadOnly(func(k, e atree.Value) (bool, error) {
			sb.WriteString(scriptVal(k) + "=" + scriptVal(e) + ",")
			return true, nil
		})
		return sb.String() + "}"
	}
	return fmt.Sprintf("%v", v)
}

func diffRegs(a, b map[string]string) string {
	for k, v := range a {
		if w, ok := b[k]; !ok {
			return "register " + k + " missing in second run"
		} else if v != w {
			return "register " + k + " differs"
		}
	}
	for k := range b {
		if _, ok := a[k]; !ok {
			return "register " + k + " only in second run"
		}
	}
	return ""
}

// ---------------------------------------------------------------------------------------------
// C04: determinism across worker counts, commit kinds, GOMAXPROCS, repeated runs, fresh process

func determStream(cfg *Config) *hx.Stats {
	st := hx.NewStats("determ", cfg.Seed)
	nProg := int(6 * cfg.Scale)
	viol := func(p int, what string) {
		st.Violations = append(st.Violations, hx.Violation{Property: "C04", Stream: "determ", Seed: cfg.Seed, Program: p, What: what})
	}
	oldProcs := runtime.GOMAXPROCS(0)
	defer runtime.GOMAXPROCS(oldProcs)
	distinct := map[string]bool{}
	for p := 0; p < nProg; p++ {
		T := []uint32{256, 1024, 512}[p%3]
		atree.VerifSetThreshold(T)
		script := genScript(cfg.Seed*1000+int64(p), 300, T)
		// every second program hashes keys non-injectively: genuine multi-level collisions, computed
		// by the library's pooled digesters (pool reuse must not influence the registers)
		var hip atree.HashInputProvider
		if p%2 == 1 {
			hip = hx.HashInputBucket
		}
		ref := runScript(script, runCfg{T: T, workers: 1, hip: hip})
		if ref.err != "" {
			viol(p, "reference run failed: "+ref.err)
			continue
		}
		st.Programs++
		st.Ops += len(script)
		distinct[regsHash(ref.regs)] = true
		// disturb the process-wide digester pool between runs: another map, other keys
		disturb := func(k int) {
			s := hx.NewStorage(hx.NewLedger())
			m, _ := atree.NewMap(s, hx.MkAddr(7), atree.NewDefaultDigesterBuilder(), hx.TI(9))
			for i := 0; i < 40; i++ {
				_, _ = m.Set(hx.CompareKey, hx.HashInputBucket, hx.TV{Size: 9, Pay: uint64(k*1000 + i)}, hx.TV{Size: 5, Pay: 1})
			}
			runtime.GC()
		}
		for _, procs := range []int{1, 4, 16} {
			runtime.GOMAXPROCS(procs)
			for _, workers := range []int{1, 2, 3, 8, 64} {
				for _, nondet := range []bool{false, true} {
					for _, jitter := range []bool{false, true} {
						if jitter && workers == 1 {
							continue
						}
						disturb(workers)
						o := runScript(script, runCfg{T: T, workers: workers, nondet: nondet, jitter: jitter, hip: hip})
						st.Hit(fmt.Sprintf("procs=%d", procs))
						st.Hit(fmt.Sprintf("workers=%d", workers))
						label := fmt.Sprintf("GOMAXPROCS=%d workers=%d nondet=%v jitter=%v", procs, workers, nondet, jitter)
						if o.err != "" {
							viol(p, label+": "+o.err)
							continue
						}
						if d := diffRegs(ref.regs, o.regs); d != "" {
							viol(p, label+": ledger differs from the 1-worker deterministic run: "+d)
						}
						if strings.Join(o.obs, ";") != strings.Join(ref.obs, ";") {
							viol(p, label+": observations differ")
						}
						if !nondet && strings.Join(o.logs, "\n") != strings.Join(ref.logs, "\n") {
							viol(p, label+": ordered ledger call log of the deterministic commit differs")
						}
						if nondet {
							// may differ only in order
							for i := range o.logs {
								a := strings.Fields(o.logs[i])
								b := strings.Fields(ref.logs[i])
								sort.Strings(a)
								sort.Strings(b)
								if strings.Join(a, " ") != strings.Join(b, " ") {
									viol(p, label+": order-relaxed commit issued a different SET of calls")
								}
							}
						}
					}
				}
			}
		}
		runtime.GOMAXPROCS(oldProcs)
		// fresh child process
		exe, err := os.Executable()
		if err == nil {
			cmd := exec.Command(exe, "-streams", "determchild", "-seed", fmt.Sprint(cfg.Seed*1000+int64(p)), "-out", cfg.Out, "-scale", fmt.Sprint(T))
			var buf bytes.Buffer
			cmd.Stdout = &buf
			if err := cmd.Run(); err != nil {
				st.HarnessErr = "child process: " + err.Error()
			} else if !strings.Contains(buf.String(), "CHILDHASH "+regsHash(ref.regs)) {
				viol(p, "a fresh process produced different registers: "+strings.TrimSpace(buf.String())+" vs "+regsHash(ref.regs))
			}
			st.Hit("fresh-process")
		}
	}
	st.Distinct = len(distinct) + 1
	st.Samples = append(st.Samples, "script of 300 array/map ops with commits, run under GOMAXPROCS {1,4,16} x workers {1,2,3,8,64} x {FastCommit, NondeterministicFastCommit} x ledger jitter, and in a fresh process; registers, observations and call logs compared with the 1-worker run")
	atree.VerifSetThreshold(1024)
	return st
}

// determChild runs one script in this (fresh) process and prints the register hash.
// The threshold is passed through -scale (an abuse of the flag, internal use only).
func determChild(cfg *Config) *hx.Stats {
	T := uint32(cfg.Scale)
	if cfg.Tier == "thorough" {
		T = uint32(cfg.Scale / 20)
	}
	atree.VerifSetThreshold(T)
	script := genScript(cfg.Seed, 300, T)
	var hip atree.HashInputProvider
	if cfg.Seed%2 == 1 {
		hip = hx.HashInputBucket
	}
	o := runScript(script, runCfg{T: T, workers: 2, hip: hip})
	fmt.Println("CHILDHASH " + regsHash(o.regs) + " " + o.err)
	st := hx.NewStats("determchild", cfg.Seed)
	st.Programs = 1
	return st
}

// ---------------------------------------------------------------------------------------------
// C08: schedules of {commit, drop cache, commit+reopen} between operations

func cacheStream(cfg *Config) *hx.Stats {
	st := hx.NewStats("cache", cfg.Seed)
	nProg := int(8 * cfg.Scale)
	rng := rand.New(rand.NewSource(cfg.Seed*31 + 7))
	viol := func(p int, what string) {
		st.Violations = append(st.Violations, hx.Violation{Property: "C08", Stream: "cache", Seed: cfg.Seed, Program: p, What: what})
	}
	distinct := map[string]bool{}
	for p := 0; p < nProg; p++ {
		T := []uint32{256, 1024}[p%2]
		atree.VerifSetThreshold(T)
		script := genScript(cfg.Seed*7777+int64(p), 250, T)
		// every second pair of programs hashes keys NON-injectively (genuine collisions on every
		// level: the pooled digesters are used beyond level 0), writing the message into the scratch
		// buffer the library supplies; the other programs alternate between the allocating and the
		// scratch-writing injective provider
		hip := []atree.HashInputProvider{nil, hx.HashInputScratch, hx.HashInputBucketScratch, hx.HashInputBucket}[p%4]
		st.Hit([]string{"hash-input:injective", "hash-input:injective-scratch", "hash-input:bucket-scratch", "hash-input:bucket"}[p%4])
		ref := runScript(script, runCfg{T: T, workers: 2, hip: hip}) // "never until the end"
		if ref.err != "" {
			viol(p, "reference run failed: "+ref.err)
			continue
		}
		st.Programs++
		st.Ops += len(script)
		distinct[regsHash(ref.regs)] = true
		scheds := map[string]func(i int) int{
			"commit-after-every-op": func(i int) int { return 1 },
			"dropcache-after-every-commit": func(i int) int {
				if i > 0 {
					return 1 | 2
				}
				return 0
			},
			"reopen-after-every-op": func(i int) int {
				if i > 0 {
					return 4
				}
				return 0
			},
			"random": func() func(i int) int {
				r := rand.New(rand.NewSource(rng.Int63()))
				return func(i int) int {
					if i == 0 {
						return 0
					}
					switch r.Intn(6) {
					case 0:
						return 1
					case 1:
						return 1 | 2
					case 2:
						return 4
					}
					return 0
				}
			}(),
			// the cache is dropped while slabs are dirty (no commit in between): a slab already in the
			// ledger is then reachable only through the write set or a live handle
			"dropcache-while-dirty": func(i int) int {
				if i == 0 {
					return 0
				}
				if i%9 == 8 {
					return 1
				}
				return 2
			},
			"random-with-dirty-drops": func() func(i int) int {
				r := rand.New(rand.NewSource(rng.Int63()))
				return func(i int) int {
					if i == 0 {
						return 0
					}
					switch r.Intn(8) {
					case 0:
						return 1
					case 1, 2, 3:
						return 2
					case 4:
						return 4
					}
					return 0
				}
			}(),
			// the same cache drops with the client holding on to its handles (no re-fetch)
			"dropcache-after-every-commit+handles-kept": func(i int) int {
				if i > 0 {
					return 1 | 2
				}
				return 0
			},
			"dropcache-while-dirty+handles-kept": func(i int) int {
				if i == 0 {
					return 0
				}
				if i%9 == 8 {
					return 1
				}
				return 2
			},
			"every-7th": func(i int) int {
				if i%7 == 6 {
					return 4
				}
				if i%7 == 3 {
					return 3
				}
				return 0
			},
		}
		for _, name := range hx.SortedKeys(scheds) {
			o := runScript(script, runCfg{T: T, workers: 2, hip: hip, maint: scheds[name], keepHandles: strings.HasSuffix(name, "+handles-kept")})
			st.Hit("schedule:" + name)
			if o.err != "" {
				viol(p, name+": "+o.err)
				continue
			}
			if strings.Join(o.obs, ";") != strings.Join(ref.obs, ";") {
				for i := range o.obs {
					if o.obs[i] != ref.obs[i] {
						viol(p, fmt.Sprintf("%s: operation %d (%s) returned %q, without the schedule %q", name, i, script[i].kind, o.obs[i], ref.obs[i]))
						break
					}
				}
			}
			if o.content != ref.content {
				viol(p, name+": final logical content differs")
			}
			if d := diffRegs(ref.regs, o.regs); d != "" {
				viol(p, name+": final ledger differs: "+d)
			}
		}
	}
	st.Distinct = len(distinct) + 1
	st.Samples = append(st.Samples, "script of 250 array/map ops under schedules never / commit after every op / commit+drop cache / commit+reopen after every op / random / periodic / cache dropped while dirty; observations, final content, structural validity and final registers compared")
	atree.VerifSetThreshold(1024)
	return st
}

// ---------------------------------------------------------------------------------------------
// C16: independent client goroutines, each with its own storage; parallel commit and preload

// clientHip: clients 2,3,6,7 hash keys non-injectively (collisions on every level, so that the
// process-wide digester pool is used beyond level 0 while other goroutines use it too); when run
// together with the others every client writes its message into the scratch buffer supplied by the
// library (the message then lives inside the pooled digester), when run alone it allocates: the
// results must be the same.
func clientHip(c int, together bool) atree.HashInputProvider {
	bucket := c%4 >= 2
	switch {
	case bucket && together:
		return hx.HashInputBucketScratch
	case bucket:
		return hx.HashInputBucket
	case together:
		return hx.HashInputScratch
	}
	return nil
}

func parallelStream(cfg *Config) *hx.Stats {
	st := hx.NewStats("parallel", cfg.Seed)
	viol := func(p int, what string) {
		st.Violations = append(st.Violations, hx.Violation{Property: "C16", Stream: "parallel", Seed: cfg.Seed, Program: p, What: what})
	}
	rounds := int(3 * cfg.Scale)
	oldProcs := runtime.GOMAXPROCS(0)
	defer runtime.GOMAXPROCS(oldProcs)
	for p := 0; p < rounds; p++ {
		T := uint32(512)
		atree.VerifSetThreshold(T)
		runtime.GOMAXPROCS([]int{2, 8, 16}[p%3])
		nClients := 8
		scripts := make([][]sop, nClients)
		alone := make([]runOut, nClients)
		for c := range scripts {
			scripts[c] = genScript(cfg.Seed*100+int64(p*nClients+c), 200, T)
			alone[c] = runScript(scripts[c], runCfg{T: T, workers: 1, hip: clientHip(c, false)})
		}
		together := make([]runOut, nClients)
		var wg sync.WaitGroup
		for c := range scripts {
			wg.Add(1)
			go func(c int) {
				defer wg.Done()
				together[c] = runScript(scripts[c], runCfg{T: T, workers: 1 + c*9, jitter: true, nondet: c%2 == 1, hip: clientHip(c, true)})
			}(c)
		}
		wg.Wait()
		for c := range scripts {
			st.Programs++
			st.Ops += len(scripts[c])
			if together[c].err != "" || alone[c].err != "" {
				viol(p, fmt.Sprintf("client %d: %s / %s", c, together[c].err, alone[c].err))
				continue
			}
			if strings.Join(together[c].obs, ";") != strings.Join(alone[c].obs, ";") {
				viol(p, fmt.Sprintf("client %d obtained different results when running concurrently with %d others", c, nClients-1))
			}
			if d := diffRegs(alone[c].regs, together[c].regs); d != "" {
				viol(p, fmt.Sprintf("client %d: registers differ from the run alone: %s", c, d))
			}
		}
		// parallel preload vs sequential: same cache content (dump of every slab)
		ledger := hx.NewLedger()
		ps := hx.NewStorage(ledger)
		a, _ := atree.NewArray(ps, hx.MkAddr(1), hx.TI(1))
		for i := 0; i < 400; i++ {
			_ = a.Append(hx.TV{Size: 12 + uint32(i%40), Pay: uint64(i)})
		}
		_ = ps.FastCommit(4)
		ids := ledger.SortedIDs()
		dump := func(workers int) string {
			ledger.Jitter = workers > 1
			s := hx.NewStorage(ledger)
			if err := s.BatchPreload(ids, workers); err != nil {
				return "error " + err.Error()
			}
			var parts []string
			cache := atree.VerifCache(s)
			for _, id := range ids {
				parts = append(parts, atree.VerifDumpSlab(cache[id], hx.Describe))
			}
			return strings.Join(parts, "\n")
		}
		seq := dump(1)
		for _, wkr := range []int{2, 3, 8, 64} {
			st.Hit(fmt.Sprintf("preload-workers=%d", wkr))
			if dump(wkr) != seq {
				viol(p, fmt.Sprintf("BatchPreload with %d workers filled the cache differently from 1 worker", wkr))
			}
		}
	}
	st.Distinct = st.Programs
	st.Samples = append(st.Samples, "8 client goroutines, each with its own storage, array and map, running 200-op scripts concurrently (worker counts 1..64, both commits, ledger jitter, GOMAXPROCS 2/8/16) vs each script alone; parallel preload 1..64 workers vs sequential")
	atree.VerifSetThreshold(1024)
	return st
}
