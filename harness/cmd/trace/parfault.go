package main

import (
	"bytes"
	"fmt"
	"os"
	"os/exec"
	"strings"
	"time"

	"github.com/onflow/atree"

	"verifharness/hx"
)

func init() {
	streams["parfault"] = parFaultStream
	streams["parfaultchild"] = parFaultChild
}

// slowTV encodes slowly, so that encoder workers are still busy when the main goroutine of a
// parallel commit returns early because of a ledger fault.
type slowTV struct{ hx.TV }

func (s slowTV) Encode(e *atree.Encoder) error {
	time.Sleep(200 * time.Microsecond)
	return s.TV.Encode(e)
}
func (s slowTV) Storable(st atree.SlabStorage, a atree.Address, max uint32) (atree.Storable, error) {
	return s, nil
}
func (s slowTV) StoredValue(atree.SlabStorage) (atree.Value, error) { return s, nil }

// parFaultChild runs, in THIS process, parallel commits and preloads that fail midway.  A panic in
// a worker goroutine (e.g. send on a closed channel) cannot be recovered: it kills the process,
// which the parent reports.  Prints "PARFAULT ok <summary>" when everything returned normally.
func parFaultChild(cfg *Config) *hx.Stats {
	st := hx.NewStats("parfaultchild", cfg.Seed)
	atree.VerifSetThreshold(1024)
	var notes []string
	for round := 0; round < 6; round++ {
		for _, nondet := range []bool{true, false} {
			ledger := hx.NewLedger()
			ps := hx.NewStorage(ledger)
			for i := 0; i < 120; i++ {
				id := hx.MkIDn(1, uint64(i+1))
				if err := ps.Store(id, mustStorableSlab(id, slowTV{hx.TV{Size: 12, Pay: uint64(i)}})); err != nil {
					panic(err)
				}
			}
			ledger.ResetCalls()
			ledger.FailAt[round%4] = true
			var err error
			if nondet {
				err = ps.NondeterministicFastCommit(8)
			} else {
				err = ps.FastCommit(8)
			}
			if err == nil {
				notes = append(notes, "commit with a failing ledger call returned nil")
			} else if hx.ErrCategory(err) != "External" {
				notes = append(notes, "ledger failure reported as "+hx.ErrKind(err))
			}
			time.Sleep(30 * time.Millisecond) // let stray workers run into whatever they run into
		}
		// parallel preload with one corrupted register
		ledger := hx.NewLedger()
		ps := hx.NewStorage(ledger)
		var ids []atree.SlabID
		for i := 0; i < 40; i++ {
			id := hx.MkIDn(1, uint64(i+1))
			_ = ps.Store(id, mkSlab(id, i))
			ids = append(ids, id)
		}
		_ = ps.FastCommit(4)
		ledger.Seg[ids[round*3%40]] = []byte{0x10}
		seq := hx.NewStorage(ledger)
		errSeq := seq.BatchPreload(ids[round*3%40:round*3%40+1], 1)
		par := hx.NewStorage(ledger)
		ledger.Jitter = true
		errPar := par.BatchPreload(ids, 8)
		ledger.Jitter = false
		if (errSeq == nil) != (errPar == nil) || (errSeq != nil && hx.ErrKind(errSeq) != hx.ErrKind(errPar)) {
			notes = append(notes, fmt.Sprintf("parallel preload error %v differs from sequential %v", errPar, errSeq))
		}
		time.Sleep(30 * time.Millisecond)
		// parallel preload with a ledger READ that fails: the error must come back (no hang, no leak
		// of blocked workers), and be the one the sequential path reports
		ledger.Seg[ids[round*3%40]] = append([]byte(nil), ledger.Seg[ids[(round*3+1)%40]]...)
		ledger.ReadFail = map[atree.SlabID]bool{ids[(round*7+5)%40]: true}
		seq2 := hx.NewStorage(ledger)
		errSeq2 := seq2.BatchPreload(ids[(round*7+5)%40:(round*7+5)%40+1], 1)
		par2 := hx.NewStorage(ledger)
		done := make(chan error, 1)
		go func() { done <- par2.BatchPreload(ids, 4+round) }()
		select {
		case errPar2 := <-done:
			if errPar2 == nil || errSeq2 == nil || hx.ErrCategory(errPar2) != "External" {
				notes = append(notes, fmt.Sprintf("parallel preload with a failing ledger read returned %v (sequential: %v)", errPar2, errSeq2))
			}
		case <-time.After(3 * time.Second):
			notes = append(notes, "parallel preload with a failing ledger read did not return within 3 s")
		}
		ledger.ReadFail = map[atree.SlabID]bool{}
	}
	fmt.Println("PARFAULT ok " + strings.Join(notes, "; "))
	st.Programs = 1
	return st
}

func parFaultStream(cfg *Config) *hx.Stats {
	st := hx.NewStats("parfault", cfg.Seed)
	exe, err := os.Executable()
	if err != nil {
		st.HarnessErr = err.Error()
		return st
	}
	n := int(2 * cfg.Scale)
	if n > 20 {
		n = 20
	}
	for i := 0; i < n; i++ {
		cmd := exec.Command(exe, "-streams", "parfaultchild", "-seed", fmt.Sprint(cfg.Seed+int64(i)), "-out", cfg.Out)
		var out, errb bytes.Buffer
		cmd.Stdout, cmd.Stderr = &out, &errb
		runErr := cmd.Run()
		st.Programs++
		st.Ops += 18
		st.Hit("faulty-parallel-commit")
		if runErr != nil || !strings.Contains(out.String(), "PARFAULT ok") {
			tail := errb.String()
			if len(tail) > 600 {
				tail = tail[:600]
			}
			st.Violations = append(st.Violations, hx.Violation{Property: "C16", Stream: "parfault", Seed: cfg.Seed, Program: i,
				What: "a parallel commit/preload that fails midway crashed the process instead of returning the error: " + strings.ReplaceAll(tail, "\n", " | ")})
			continue
		}
		line := out.String()[strings.Index(out.String(), "PARFAULT ok")+len("PARFAULT ok"):]
		if j := strings.Index(line, "\n"); j >= 0 {
			line = line[:j]
		}
		if strings.TrimSpace(line) != "" {
			st.Violations = append(st.Violations, hx.Violation{Property: "C16", Stream: "parfault", Seed: cfg.Seed, Program: i, What: strings.TrimSpace(line)})
		}
	}
	st.Distinct = st.Programs + 1
	st.Samples = append(st.Samples, "child process: 120 slow-encoding slabs, FastCommit / NondeterministicFastCommit with 8 workers and a ledger fault at call 0..3; BatchPreload of 40 registers (one corrupted; one whose ledger read fails, under a watchdog) with several workers and ledger jitter vs the sequential error")
	return st
}
