package main

import (
	"bytes"
	"fmt"
	"math/rand"
	"os"
	"os/exec"
	"regexp"
	"runtime"
	"sort"
	"strconv"
	"strings"
	"time"

	"github.com/onflow/atree"

	"verifharness/hx"
)

func init() {
	streams["parfault"] = parFaultStream
	streams["parfaultchild"] = parFaultChild
}

// Signature of the (candidate) finding "after a FAILING parallel preload the set of cached slabs
// depends on the goroutine schedule" (see pfPreloadDecodeFailure).
const sigPreloadCacheSchedule = "parallel-preload:cache-after-failure-schedule-dependent"

// slowTV encodes slowly, so that encoder workers are still busy when the main goroutine of a
// parallel commit returns early (ledger fault, encode failure of another slab).
type slowTV struct{ hx.TV }

func (s slowTV) Encode(e *atree.Encoder) error {
	time.Sleep(200 * time.Microsecond)
	return s.TV.Encode(e)
}
func (s slowTV) Storable(st atree.SlabStorage, a atree.Address, max uint32) (atree.Storable, error) {
	return s, nil
}
func (s slowTV) StoredValue(atree.SlabStorage) (atree.Value, error) { return s, nil }

// The child talks to its parent over stdout, one line per item:
//
//	PFS <scenario>            the scenario that starts now (the parent quotes the last one when the child dies)
//	PFV <signature>|<what>    a violation found by an oracle of the child (signature may be empty)
//	PFC <counter> <n>         evidence counter
//	PARFAULT ok               all scenarios returned
type pfChild struct {
	rng      *rand.Rand
	counters map[string]int
}

func (c *pfChild) scenario(format string, a ...any) { fmt.Println("PFS " + fmt.Sprintf(format, a...)) }
func (c *pfChild) violation(sig, format string, a ...any) {
	fmt.Println("PFV " + sig + "|" + strings.ReplaceAll(fmt.Sprintf(format, a...), "\n", " "))
}
func (c *pfChild) hit(k string) { c.counters[k]++ }

// watched runs f under a watchdog.  A call that does not return is reported (with the stacks of the
// goroutines that sit inside the library) and ends the child: the stuck goroutines cannot be removed.
func (c *pfChild) watched(what string, d time.Duration, f func() error) error {
	done := make(chan error, 1)
	go func() { done <- f() }()
	select {
	case err := <-done:
		return err
	case <-time.After(d):
		buf := make([]byte, 1<<20)
		buf = buf[:runtime.Stack(buf, true)]
		var stuck []string
		for _, g := range strings.Split(string(buf), "\n\n") {
			if !strings.Contains(g, "onflow/atree.") {
				continue
			}
			lines := strings.Split(g, "\n")
			desc := strings.TrimSuffix(lines[0], ":")
			for j, l := range lines {
				if strings.Contains(l, "onflow/atree.") && j+1 < len(lines) {
					f := strings.Fields(lines[j+1])
					if len(f) > 0 {
						desc += " at " + f[0]
					}
					break
				}
			}
			stuck = append(stuck, desc)
		}
		if len(stuck) > 4 {
			stuck = append(stuck[:4], fmt.Sprintf("... %d more", len(stuck)-4))
		}
		c.violation("", "%s did not return within %v (hang); goroutines inside the library: %s", what, d, strings.Join(stuck, " || "))
		c.flush()
		fmt.Println("PARFAULT aborted")
		os.Exit(0)
		return nil
	}
}

func (c *pfChild) flush() {
	keys := make([]string, 0, len(c.counters))
	for k := range c.counters {
		keys = append(keys, k)
	}
	sort.Strings(keys)
	for _, k := range keys {
		fmt.Printf("PFC %s %d\n", k, c.counters[k])
	}
}

// parFaultChild runs, in THIS process, parallel commits and preloads that fail midway.  A panic in
// a worker goroutine (e.g. send on a closed channel) cannot be recovered: it kills the process,
// which the parent reports together with the panic text.
func parFaultChild(cfg *Config) *hx.Stats {
	st := hx.NewStats("parfaultchild", cfg.Seed)
	atree.VerifSetThreshold(1024)
	c := &pfChild{rng: rand.New(rand.NewSource(cfg.Seed*7919 + 11)), counters: map[string]int{}}
	oldProcs := runtime.GOMAXPROCS(0)
	for round := 0; round < 6; round++ {
		for _, nondet := range []bool{true, false} {
			c.pfCommitLedgerFault(round, nondet)
		}
		for _, nondet := range []bool{false, true} {
			// twice per commit function and round: once with mostly slow encoders (workers still encoding
			// when the commit returns), once with fast ones on few processors (result queue filling up)
			c.pfCommitEncodeFailure(nondet, true)
			c.pfCommitEncodeFailure(nondet, false)
		}
		runtime.GOMAXPROCS(oldProcs)
		c.pfPreloadDecodeFailure(round)
		c.pfPreloadReadFailure(round)
	}
	c.flush()
	fmt.Println("PARFAULT ok")
	st.Programs = 1
	return st
}

func commitName(nondet bool) string {
	if nondet {
		return "NondeterministicFastCommit"
	}
	return "FastCommit"
}

// pfCommitLedgerFault: 120 slow-encoding slabs, 8 workers, a ledger fault at call 0..3.
func (c *pfChild) pfCommitLedgerFault(round int, nondet bool) {
	c.scenario("%s(8) of 120 slow-encoding slabs with a ledger fault at call %d", commitName(nondet), round%4)
	ledger := hx.NewLedger()
	ps := hx.NewStorage(ledger)
	for i := 0; i < 120; i++ {
		id := hx.MkIDn(1, uint64(i+1))
		if err := ps.Store(id, mustStorableSlab(id, slowTV{hx.TV{Size: 12, Pay: uint64(i)}})); err != nil {
			panic(err)
		}
	}
	ledger.ResetCalls()
	ledger.FailAt[round%4] = true
	err := c.watched(commitName(nondet)+" with a failing ledger call", 60*time.Second, func() error {
		if nondet {
			return ps.NondeterministicFastCommit(8)
		}
		return ps.FastCommit(8)
	})
	if err == nil {
		c.violation("", "commit with a failing ledger call returned nil")
	} else if hx.ErrCategory(err) != "External" {
		c.violation("", "ledger failure reported as "+hx.ErrKind(err))
	}
	c.hit("commit-ledger-fault")
	time.Sleep(30 * time.Millisecond) // let stray workers run into whatever they run into
}

// pfCommitEncodeFailure: many slabs, ONE of which cannot be encoded, at a random position of the
// (sorted) write set; many workers; random GOMAXPROCS.  The commit takes its encode-error early
// return while the other workers are busy: it must return that error (no hang: the result queue
// must have room for what the remaining workers still send; no crash: the queue must not be closed
// before they stopped), write nothing it should not, and keep everything pending.
func (c *pfChild) pfCommitEncodeFailure(nondet bool, slow bool) {
	n := 60 + c.rng.Intn(240)
	pos := c.rng.Intn(n)
	workers := []int{4, 8, 16, 64}[c.rng.Intn(4)]
	procs := []int{2, 4, 16}[c.rng.Intn(3)]
	slowPct := 90
	if !slow {
		// fast encoders, more goroutines than processors: results pile up in the queue before the
		// collecting goroutine runs
		procs = 1 + c.rng.Intn(2)
		slowPct = c.rng.Intn(2) * 10
	}
	runtime.GOMAXPROCS(procs)
	what := fmt.Sprintf("%s(%d) of %d slabs (%d%% slow to encode) with an unencodable slab at position %d, GOMAXPROCS=%d",
		commitName(nondet), workers, n, slowPct, pos, procs)
	c.scenario("%s", what)
	ledger := hx.NewLedger()
	ledger.Jitter = c.rng.Intn(2) == 0
	ps := hx.NewStorage(ledger)
	want := map[atree.SlabID]int{}
	for i := 0; i < n; i++ {
		id := hx.MkIDn(uint64(1+i*2/n), uint64(i+1)) // two owners; (owner, index) order = i
		var s atree.Storable
		switch {
		case i == pos:
			s = badStorable{hx.TV{Size: 12, Pay: verBad}}
		case c.rng.Intn(100) < slowPct:
			s = slowTV{hx.TV{Size: 12, Pay: uint64(i)}}
		default:
			s = hx.TV{Size: 12, Pay: uint64(i)}
		}
		want[id] = i
		if err := ps.Store(id, mustStorableSlab(id, s)); err != nil {
			panic(err)
		}
	}
	// a temporary slab and a few pending deletions of absent registers ride along
	_ = ps.Store(hx.MkIDn(0, 1), mkSlab(hx.MkIDn(0, 1), 1))
	nDel := c.rng.Intn(3)
	for i := 0; i < nDel; i++ {
		_ = ps.Remove(hx.MkIDn(3, uint64(i+1)))
	}
	ledger.ResetCalls()
	err := c.watched(what, 60*time.Second, func() error {
		if nondet {
			return ps.NondeterministicFastCommit(workers)
		}
		return ps.FastCommit(workers)
	})
	c.hit("commit-encode-failure:" + commitName(nondet))
	switch {
	case err == nil:
		c.violation("", "%s: returned nil", what)
	case hx.ErrKind(err) != "Other:External":
		// the failure comes from the caller's Storable.Encode
		c.violation("", "%s: the encode failure of a caller-supplied storable is reported as %s", what, hx.ErrKind(err))
	}
	// what was written: the deterministic commit encodes everything before its first ledger call;
	// the order-relaxed one may have deleted and stored what arrived before the failing result
	stored := 0
	for _, call := range ledger.Log {
		if !nondet {
			c.violation("", "%s: issued the ledger call %c:%s although encoding failed", what, call.Kind, hx.IDStr(call.ID))
			break
		}
		if call.Kind == 'S' {
			stored++
			i, ok := want[call.ID]
			s, derr := atree.DecodeSlab(call.ID, call.Data, hx.DecMode(), hx.DecodeStorable, hx.DecodeTypeInfo)
			if !ok || i == pos || derr != nil || slabVer(s) != fmt.Sprint(i) {
				c.violation("", "%s: wrote a wrong register %s", what, hx.IDStr(call.ID))
			}
			delete(want, call.ID)
		} else if call.ID.AddressAsUint64() != 3 {
			c.violation("", "%s: removed %s", what, hx.IDStr(call.ID))
		}
	}
	if stored > 0 {
		c.hit("commit-encode-failure:stores-before-the-failure")
	}
	deltas := atree.VerifDeltas(ps)
	for id, i := range want {
		if d, ok := deltas[id]; !ok || d == nil || (i != pos && slabVer(d) != fmt.Sprint(i)) {
			c.violation("", "%s: %s is neither durable nor pending afterwards", what, hx.IDStr(id))
			break
		}
	}
	if _, ok := deltas[hx.MkIDn(0, 1)]; !ok {
		c.violation("", "%s: the temporary slab left the write set", what)
	}
	time.Sleep(20 * time.Millisecond) // stray workers that outlive the call crash the process here
}

// pfPreloadDecodeFailure: parallel preload (>= 11 identifiers) with ONE corrupted register.
// Oracles: the error is the decoder's (same as the sequential path gives), only requested identifiers
// are cached, every cached entry is the decoding of its register, the corrupted one is not cached.
// And the property's claim "same cache as one goroutine": with one worker the results arrive in
// request order, so exactly the identifiers before the corrupted one are cached; with more workers
// the set is compared with that.
func (c *pfChild) pfPreloadDecodeFailure(round int) {
	const n = 40
	ledger := hx.NewLedger()
	ps := hx.NewStorage(ledger)
	var ids []atree.SlabID
	for i := 0; i < n; i++ {
		id := hx.MkIDn(1, uint64(i+1))
		_ = ps.Store(id, mkSlab(id, i))
		ids = append(ids, id)
	}
	// a register that is not requested
	other := hx.MkIDn(2, 1)
	_ = ps.Store(other, mkSlab(other, 77))
	if err := ps.FastCommit(4); err != nil {
		panic(err)
	}
	k := 5 + c.rng.Intn(n-10)
	ledger.Seg[ids[k]] = []byte{0x10}
	seq := hx.NewStorage(ledger)
	errSeq := seq.BatchPreload(ids[k:k+1], 1)
	if errSeq == nil || hx.ErrCategory(errSeq) != "Fatal" {
		c.violation("", "sequential preload of an undecodable register returned %v", errSeq)
	}
	cachedSets := map[string]int{}
	var oneWorker string
	for _, workers := range []int{1, 1, 2, 3, 8, 8, 8, 64, 64} {
		what := fmt.Sprintf("BatchPreload(%d identifiers, %d workers) with the register at position %d corrupted", n, workers, k)
		c.scenario("%s", what)
		runtime.GOMAXPROCS([]int{2, 4, 16}[c.rng.Intn(3)])
		par := hx.NewStorage(ledger)
		ledger.Jitter = workers > 1
		errPar := c.watched(what, 60*time.Second, func() error { return par.BatchPreload(ids, workers) })
		ledger.Jitter = false
		c.hit("preload-decode-failure")
		if errPar == nil || errSeq == nil || hx.ErrKind(errSeq) != hx.ErrKind(errPar) {
			c.violation("", "%s: error %v differs from the sequential path's %v", what, errPar, errSeq)
		}
		cache := atree.VerifCache(par)
		var got []string
		for i, id := range ids {
			s, ok := cache[id]
			if !ok {
				continue
			}
			got = append(got, strconv.Itoa(i))
			ref, found, rerr := hx.NewStorage(ledger).Retrieve(id)
			if i == k || s == nil || rerr != nil || !found || atree.VerifDumpSlab(s, hx.Describe) != atree.VerifDumpSlab(ref, hx.Describe) {
				c.violation("", "%s: the cache entry of %s is not the decoding of its register", what, hx.IDStr(id))
			}
		}
		if len(got) != len(cache) {
			c.violation("", "%s: cached an identifier that was not requested (%d entries, %d of them requested)", what, len(cache), len(got))
		}
		if len(atree.VerifDeltas(par)) != 0 {
			c.violation("", "%s: the write set is not empty", what)
		}
		set := strings.Join(got, ",")
		if workers == 1 {
			if oneWorker != "" && set != oneWorker {
				c.violation("", "%s: two runs with ONE worker cached different sets", what)
			}
			oneWorker = set
			var prefix []string
			for i := 0; i < k; i++ {
				prefix = append(prefix, strconv.Itoa(i))
			}
			if set != strings.Join(prefix, ",") {
				c.violation("", "%s: one worker cached {%s}, expected the %d identifiers before the corrupted one", what, set, k)
			}
		} else {
			cachedSets[set]++
			c.hit("preload-decode-failure:compared-with-one-worker")
			if set != oneWorker {
				c.hit("preload-decode-failure:cache-differs-from-one-worker")
			}
		}
		time.Sleep(10 * time.Millisecond)
	}
	runtime.GOMAXPROCS(16)
	if len(cachedSets) > 1 || (len(cachedSets) == 1 && cachedSets[oneWorker] == 0) {
		bySize := map[int]int{}
		for s, cnt := range cachedSets {
			sz := 0
			if s != "" {
				sz = strings.Count(s, ",") + 1
			}
			bySize[sz] += cnt
		}
		var sizes []string
		for sz, cnt := range bySize {
			sizes = append(sizes, fmt.Sprintf("%d entries in %d runs", sz, cnt))
		}
		sort.Strings(sizes)
		sizes = append(sizes, fmt.Sprintf("%d distinct sets", len(cachedSets)))
		c.violation(sigPreloadCacheSchedule,
			"BatchPreload of %d registers with the one at position %d undecodable: the error is the same for every worker count, but the set of slabs left in the cache is not the one a single worker leaves (the %d before the corrupted one): %s (every entry is a correct decoding; which ones are present depends on the arrival order of the decoder results)",
			n, k, k, strings.Join(sizes, ", "))
	}
}

// pfPreloadReadFailure: parallel preload with a ledger READ that fails: the error must come back as
// External (no hang, no leak of blocked workers).  Observation (not a violation): the parallel path
// returns before it processes any result, so nothing is cached, whereas the sequential path (< 11
// identifiers) keeps the identifiers it had decoded before the failing read.
func (c *pfChild) pfPreloadReadFailure(round int) {
	const n = 40
	ledger := hx.NewLedger()
	ps := hx.NewStorage(ledger)
	var ids []atree.SlabID
	for i := 0; i < n; i++ {
		id := hx.MkIDn(1, uint64(i+1))
		_ = ps.Store(id, mkSlab(id, i))
		ids = append(ids, id)
	}
	if err := ps.FastCommit(4); err != nil {
		panic(err)
	}
	k := c.rng.Intn(n)
	ledger.ReadFail = map[atree.SlabID]bool{ids[k]: true}
	for _, workers := range []int{1, 4 + round, 64} {
		what := fmt.Sprintf("BatchPreload(%d identifiers, %d workers) with a failing ledger read at position %d", n, workers, k)
		c.scenario("%s", what)
		par := hx.NewStorage(ledger)
		err := c.watched(what, 60*time.Second, func() error { return par.BatchPreload(ids, workers) })
		c.hit("preload-read-failure")
		if err == nil || hx.ErrKind(err) != "Injected:External" {
			c.violation("", "%s: returned %v", what, err)
		}
		if m := len(atree.VerifCache(par)); m != 0 {
			// would be news: the parallel path returns before the first result is processed
			c.hit("preload-read-failure:parallel-path-cached-something")
		} else if k > 0 {
			c.hit("preload-read-failure:parallel-path-cached-nothing")
		}
		time.Sleep(10 * time.Millisecond)
	}
	// the sequential path over a window of 10 identifiers around the failing one
	lo := k - c.rng.Intn(10)
	if lo < 0 {
		lo = 0
	}
	hi := lo + 10
	if hi > n {
		hi = n
	}
	seq := hx.NewStorage(ledger)
	err := seq.BatchPreload(ids[lo:hi], 8)
	if err == nil || hx.ErrKind(err) != "Injected:External" {
		c.violation("", "sequential preload with a failing ledger read returned %v", err)
	}
	cache := atree.VerifCache(seq)
	if len(cache) != k-lo {
		c.violation("", "sequential preload with a failing ledger read at position %d of the request cached %d entries", k-lo, len(cache))
	}
	for i := lo; i < k; i++ {
		if s := cache[ids[i]]; s == nil || slabVer(s) != fmt.Sprint(i) {
			c.violation("", "sequential preload with a failing ledger read: wrong cache entry for %s", hx.IDStr(ids[i]))
		}
	}
	if k-lo > 0 {
		c.hit("preload-read-failure:sequential-path-kept-predecessors")
	}
	ledger.ReadFail = map[atree.SlabID]bool{}
}

var panicLine = regexp.MustCompile(`(?m)^(panic:|fatal error:).*$`)

func parFaultStream(cfg *Config) *hx.Stats {
	st := hx.NewStats("parfault", cfg.Seed)
	exe, err := os.Executable()
	if err != nil {
		st.HarnessErr = err.Error()
		return st
	}
	n := int(2 * cfg.Scale)
	if n > 20 {
		n = 20
	}
	if n < 1 {
		n = 1
	}
	seenSig := map[string]bool{}
	for i := 0; i < n; i++ {
		cmd := exec.Command(exe, "-streams", "parfaultchild", "-seed", fmt.Sprint(cfg.Seed*100+int64(i)), "-out", cfg.Out)
		var out, errb bytes.Buffer
		cmd.Stdout, cmd.Stderr = &out, &errb
		runErr := cmd.Run()
		st.Programs++
		lastScenario := "(start)"
		nViol := 0
		finished := false
		for _, line := range strings.Split(out.String(), "\n") {
			switch {
			case strings.HasPrefix(line, "PFS "):
				lastScenario = line[4:]
				st.Ops++
			case strings.HasPrefix(line, "PFC "):
				f := strings.Fields(line)
				if len(f) == 3 {
					v, _ := strconv.Atoi(f[2])
					st.Dist[f[1]] += v
				}
			case strings.HasPrefix(line, "PFV "):
				sig, what, _ := strings.Cut(line[4:], "|")
				nViol++
				if sig != "" && seenSig[sig] {
					continue // one report per signature and run
				}
				seenSig[sig] = seenSig[sig] || sig != ""
				st.Violations = append(st.Violations, hx.Violation{Property: "C16", Stream: "parfault", Seed: cfg.Seed, Program: i, What: what, Sig: sig})
			case strings.HasPrefix(line, "PARFAULT ok"), strings.HasPrefix(line, "PARFAULT aborted"):
				finished = true
			}
		}
		if strings.Contains(errb.String(), "WARNING: DATA RACE") {
			// a -race build of this binary: hand the report to the caller (which looks for this text)
			rep := errb.String()
			rep = rep[strings.Index(rep, "WARNING: DATA RACE"):]
			if len(rep) > 3000 {
				rep = rep[:3000]
			}
			fmt.Fprintln(os.Stderr, rep)
			continue
		}
		if (runErr != nil || !finished) && nViol == 0 {
			text := errb.String()
			head := panicLine.FindString(text)
			if head == "" {
				head = fmt.Sprintf("exit: %v", runErr)
			}
			// the first goroutine that sits in the library, for the location
			where := ""
			for _, g := range strings.Split(text, "\n\n") {
				if j := strings.Index(g, "onflow/atree."); j >= 0 {
					rest := g[j:]
					lines := strings.SplitN(rest, "\n", 3)
					where = strings.TrimSpace(lines[0])
					if len(lines) > 1 {
						where += " " + strings.TrimSpace(lines[1])
					}
					break
				}
			}
			st.Violations = append(st.Violations, hx.Violation{Property: "C16", Stream: "parfault", Seed: cfg.Seed, Program: i,
				What: "a parallel commit/preload that fails midway crashed the process instead of returning the error: " + head + " [" + where + "] during: " + lastScenario})
		}
	}
	st.Distinct = st.Ops + 1
	st.Samples = append(st.Samples, "child processes (watchdog 10 s per call): FastCommit / NondeterministicFastCommit of 120 slow-encoding slabs, 8 workers, ledger fault at call 0..3; both commits over 60-300 slabs (slow and fast encoders) with ONE unencodable slab at a random position, 4-64 workers, GOMAXPROCS 1-16; BatchPreload of 40 registers with one corrupted (error, cached subset of requested, cached = decoding, cache compared with the single-worker run) and with one failing ledger read")
	return st
}
