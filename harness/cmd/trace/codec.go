package main

// Streams "codec" (C06/C07) and "malformed" (C19): byte-level correspondence between the Lean
// model of slab encoding/decoding (lean/AtreeModel/Codec) and atree.EncodeSlab / atree.DecodeSlab /
// the three header queries of slab.go, plus model-free oracles on the implementation.
//
// Trace lines (replayed by lean/AtreeModel/Replay/Codec.lean):
//
//	ENC <hex> size=<n> | <dump> [| <dump of the decoded register>]
//	                               an in-memory slab: EncodeSlab, ByteSize, VerifDumpSlab; the third part is
//	                               present when DecodeSlab(EncodeSlab(s)) does not dump like s (compact maps)
//	DEC <hex> id=<addr>.<idx>      bytes handed to DecodeSlab under this slab ID, followed by
//	OBS ok:<dump> size=<n> | OBS err | OBS PANIC
//	HDR <hex>                      bytes handed to IsRootOfAnObject / HasPointers / HasSizeLimit, followed by
//	OBS root=<0/1> ptr=<0/1> limit=<0/1> | OBS err | OBS PANIC
//	CBR <hex>                      bytes handed to the CBOR library's StreamDecoder.Skip (validation of the
//	                               next complete data item under the harness's DecMode), followed by
//	OBS ok:<bytes consumed> | OBS err | OBS PANIC
//
//	UMI <hex>                      bytes handed to cbor.Unmarshal(data, &uint64) (what decodeTypeInfoRefIfNeeded
//	                               does with a type-info reference), followed by OBS ok:<n> | OBS err | OBS PANIC
//
// Every slab kind is emitted: array and map data / index slabs, collision-group slabs, large-value
// slabs, with inlined arrays / maps / compact maps and wrapped values (programs in codecmap.go).
// Exotic CBOR (indefinite lengths, nesting > 32, maps, floats, simple values, non-minimal heads …) is
// NOT skipped: the model transcribes the library's well-formedness check in full.

import (
	"bytes"
	"encoding/binary"
	"encoding/hex"
	"fmt"
	"math/rand"
	"path/filepath"
	"strings"
	"time"

	"github.com/fxamacker/cbor/v2"
	"github.com/onflow/atree"

	"verifharness/hx"
)

func init() {
	streams["codec"] = codecStream
	streams["malformed"] = malformedStream
}

type codecEnv struct {
	w      *hx.W
	st     *hx.Stats
	cfg    *Config
	prog   int
	step   int
	nENC   int
	nDEC   int
	nHDR   int
	nCBR   int
	nSkip  int
	panics int

	obsDetail string // what a directed program is doing (goes into the sample of an observation)
	nestWalk  bool   // the nesting walk is running
	encErr    string // kind of the encoder error oracleSlab met last ("" = none)
	nestRej   bool   // oracleSlab: the register was rejected for its nesting depth
	encPanic  bool   // EncodeSlab panicked on some slab of the current write set (sticky until the next commit)
	named     bool   // runInlineProgram keys its composite maps by field names (hx.NK, codecnamed.go)
}

func (e *codecEnv) violation(prop, what string) {
	if len(e.st.Violations) >= 50 {
		return
	}
	e.st.Violations = append(e.st.Violations, hx.Violation{
		Property: prop, Stream: e.st.Stream, Seed: e.cfg.Seed, Program: e.prog, Step: e.step, What: what, Trace: e.w.Path, Line: e.w.Lines,
	})
}

// ---------------------------------------------------------------------------------------------
// guarded calls into the implementation

type decOutcome struct {
	class   string // "ok" | "err" | "PANIC" | "TIMEOUT"
	slab    atree.Slab
	dump    string
	size    uint32
	detail  string
	childOK bool
}

// guardedDecode runs DecodeSlab and, when it succeeds, ByteSize and ChildStorables, under recover
// with a 2 s watchdog.
func guardedDecode(id atree.SlabID, data []byte) decOutcome {
	o := guardedDecodeT(id, data, 5*time.Second)
	if o.class == "TIMEOUT" {
		// a loaded machine can starve the goroutine for seconds: only a call that does not return
		// within a minute either is reported as a hang
		o = guardedDecodeT(id, data, 120*time.Second)
	}
	return o
}

func guardedDecodeT(id atree.SlabID, data []byte, limit time.Duration) decOutcome {
	ch := make(chan decOutcome, 1)
	go func() {
		var out decOutcome
		defer func() {
			if r := recover(); r != nil {
				out.class = "PANIC"
				out.detail = fmt.Sprint(r)
			}
			ch <- out
		}()
		s, err := atree.DecodeSlab(id, data, hx.DecMode(), hx.DecodeStorable, hx.DecodeTypeInfo)
		if err != nil {
			out.class = "err"
			out.detail = err.Error()
			return
		}
		out.slab = s
		out.size = s.ByteSize()
		_ = s.ChildStorables()
		out.childOK = true
		out.dump = atree.VerifDumpSlab(s, hx.Describe)
		out.class = "ok"
	}()
	select {
	case o := <-ch:
		return o
	case <-time.After(limit):
		return decOutcome{class: "TIMEOUT"}
	}
}

type hdrOutcome struct {
	class            string // "ok" | "err" | "PANIC" | "TIMEOUT"
	root, ptr, limit bool
	detail           string
}

func guardedHeader(data []byte) hdrOutcome {
	ch := make(chan hdrOutcome, 1)
	go func() {
		var out hdrOutcome
		defer func() {
			if r := recover(); r != nil {
				out.class = "PANIC"
				out.detail = fmt.Sprint(r)
			}
			ch <- out
		}()
		r, err1 := atree.IsRootOfAnObject(data)
		p, err2 := atree.HasPointers(data)
		l, err3 := atree.HasSizeLimit(data)
		if err1 != nil || err2 != nil || err3 != nil {
			if err1 == nil || err2 == nil || err3 == nil {
				out.class = "PANIC" // the three queries must agree on what is too short
				out.detail = "header queries disagree on erroring"
				return
			}
			out.class = "err"
			return
		}
		out.root, out.ptr, out.limit = r, p, l
		out.class = "ok"
	}()
	select {
	case o := <-ch:
		return o
	case <-time.After(60 * time.Second):
		return hdrOutcome{class: "TIMEOUT"}
	}
}

func guardedEncode(s atree.Slab) (b []byte, err error, panicked string) {
	defer func() {
		if r := recover(); r != nil {
			panicked = fmt.Sprint(r)
		}
	}()
	b, err = atree.EncodeSlab(s, hx.EncMode())
	return
}

// guardedCBOR asks the CBOR library to validate and skip the next complete data item.
func guardedCBOR(data []byte) (class string, n int, detail string) {
	type res struct {
		class  string
		n      int
		detail string
	}
	ch := make(chan res, 1)
	go func() {
		var out res
		defer func() {
			if r := recover(); r != nil {
				out = res{"PANIC", 0, fmt.Sprint(r)}
			}
			ch <- out
		}()
		d := hx.DecMode().NewByteStreamDecoder(data)
		if err := d.Skip(); err != nil {
			out = res{"err", 0, err.Error()}
			return
		}
		out = res{"ok", d.NumBytesDecoded(), ""}
	}()
	select {
	case o := <-ch:
		return o.class, o.n, o.detail
	case <-time.After(60 * time.Second):
		return "TIMEOUT", 0, ""
	}
}

func (e *codecEnv) emitCBR(data []byte) {
	class, n, detail := guardedCBOR(data)
	if class == "PANIC" || class == "TIMEOUT" {
		e.violation("C19", fmt.Sprintf("cbor library: StreamDecoder.Skip %s (%s) on data=%s", class, detail, hex.EncodeToString(data)))
		if class == "TIMEOUT" {
			return
		}
	}
	e.w.L("CBR %s", hex.EncodeToString(data))
	switch class {
	case "ok":
		e.w.L("OBS ok:%d", n)
	case "err":
		e.w.L("OBS err")
	default:
		e.w.L("OBS PANIC")
	}
	e.nCBR++
	e.st.Hit("cbr:" + class)
}

// genCBOR produces a mostly well-formed CBOR data item with every construct the library's validator
// distinguishes: all head widths (and the invalid ones), definite and indefinite strings, arrays and
// maps, tag chains, simple values and floats, break codes in and out of place.
func genCBOR(rng *rand.Rand, depth int, out []byte) []byte {
	arg := func(major byte) []byte {
		var n uint64
		switch rng.Intn(6) {
		case 0:
			n = uint64(rng.Intn(24))
		case 1:
			n = uint64(rng.Intn(256))
		case 2:
			n = uint64(rng.Intn(65536))
		case 3:
			n = uint64(rng.Uint32())
		case 4:
			n = rng.Uint64()
		default:
			n = uint64(rng.Intn(40))
		}
		return cborHead(rng, major, n)
	}
	if depth > 6 {
		return append(out, arg(byte(rng.Intn(2)))...)
	}
	switch k := rng.Intn(20); {
	case k < 3: // unsigned / negative integer
		return append(out, arg(byte(rng.Intn(2)))...)
	case k < 6: // definite string
		n := rng.Intn(30)
		out = append(out, cborHead(rng, byte(2+rng.Intn(2)), uint64(n))...)
		for i := 0; i < n; i++ {
			out = append(out, byte(rng.Intn(256)))
		}
		return out
	case k < 7: // indefinite string
		major := byte(2 + rng.Intn(2))
		out = append(out, major<<5|31)
		for i := rng.Intn(4); i > 0; i-- {
			m := major
			if rng.Intn(8) == 0 {
				m = byte(rng.Intn(8))
			}
			n := rng.Intn(6)
			if rng.Intn(10) == 0 {
				out = append(out, m<<5|31)
			} else {
				out = append(out, cborHead(rng, m, uint64(n))...)
			}
			for j := 0; j < n; j++ {
				out = append(out, byte(rng.Intn(256)))
			}
		}
		if rng.Intn(8) != 0 {
			out = append(out, 0xff)
		}
		return out
	case k < 10: // definite array
		n := rng.Intn(5)
		out = append(out, cborHead(rng, 4, uint64(n))...)
		for i := 0; i < n; i++ {
			out = genCBOR(rng, depth+1, out)
		}
		return out
	case k < 11: // indefinite array
		out = append(out, 0x9f)
		for i := rng.Intn(4); i > 0; i-- {
			out = genCBOR(rng, depth+1, out)
		}
		if rng.Intn(8) != 0 {
			out = append(out, 0xff)
		}
		return out
	case k < 13: // definite map
		n := rng.Intn(3)
		out = append(out, cborHead(rng, 5, uint64(n))...)
		for i := 0; i < 2*n; i++ {
			out = genCBOR(rng, depth+1, out)
		}
		return out
	case k < 14: // indefinite map (sometimes with an odd number of items)
		out = append(out, 0xbf)
		n := 2 * rng.Intn(3)
		if rng.Intn(5) == 0 {
			n++
		}
		for i := 0; i < n; i++ {
			out = genCBOR(rng, depth+1, out)
		}
		if rng.Intn(8) != 0 {
			out = append(out, 0xff)
		}
		return out
	case k < 17: // tag chain
		for i := 1 + rng.Intn(3); i > 0; i-- {
			out = append(out, arg(6)...)
		}
		return genCBOR(rng, depth+1, out)
	default: // major type 7
		switch rng.Intn(6) {
		case 0:
			return append(out, 0xe0|byte(rng.Intn(32)))
		case 1:
			return append(out, 0xf8, byte(rng.Intn(256)))
		case 2:
			return append(out, 0xf9, byte(rng.Intn(256)), byte(rng.Intn(256)))
		case 3:
			return append(out, 0xfa, byte(rng.Intn(256)), byte(rng.Intn(256)), 0, 0)
		case 4:
			return append(out, 0xfb, 0x7f, 0xf8, 0, 0, 0, 0, 0, byte(rng.Intn(2)))
		default:
			return append(out, 0xf4+byte(rng.Intn(4)))
		}
	}
}

// cborHead writes a head of the given major type; usually minimal, sometimes wider, rarely invalid.
func cborHead(rng *rand.Rand, major byte, n uint64) []byte {
	w := 0
	switch {
	case n < 24:
		w = 0
	case n < 256:
		w = 1
	case n < 65536:
		w = 2
	case n < 1<<32:
		w = 3
	default:
		w = 4
	}
	if rng.Intn(6) == 0 && w < 4 {
		w += 1 + rng.Intn(4-w)
	}
	if rng.Intn(60) == 0 {
		return []byte{major<<5 | byte(28+rng.Intn(4))}
	}
	switch w {
	case 0:
		return []byte{major<<5 | byte(n)}
	case 1:
		return []byte{major<<5 | 24, byte(n)}
	case 2:
		return []byte{major<<5 | 25, byte(n >> 8), byte(n)}
	case 3:
		return []byte{major<<5 | 26, byte(n >> 24), byte(n >> 16), byte(n >> 8), byte(n)}
	}
	b := make([]byte, 9)
	b[0] = major<<5 | 27
	binary.BigEndian.PutUint64(b[1:], n)
	return b
}

// nestCBOR builds `levels` nested containers / tags around a small item (the depth limit is 32; only
// nested tag numbers after the first count towards it).
func nestCBOR(rng *rand.Rand, levels int) []byte {
	var out []byte
	closers := 0
	for i := 0; i < levels; i++ {
		switch rng.Intn(6) {
		case 0, 1:
			out = append(out, 0x81)
		case 2:
			out = append(out, 0xa1, 0x00)
		case 3:
			out = append(out, 0x9f)
			closers++
		default:
			out = append(out, 0xd8, byte(100+rng.Intn(100)))
		}
	}
	out = append(out, byte(rng.Intn(24)))
	for i := 0; i < closers; i++ {
		out = append(out, 0xff)
	}
	return out
}

func b01(b bool) string {
	if b {
		return "1"
	}
	return "0"
}

// skipReason says why the model does not cover these bytes ("" = covered; every kind is covered).
func skipReason(data []byte) string { return "" }

// dumpCovered: the dump grammar has a form for everything in the slab.
func dumpCovered(dump string) bool {
	return !strings.Contains(dump, "?") && !strings.Contains(dump, "nil")
}

// emitDEC runs the decoder (always) and writes the DEC/OBS pair unless the case is outside the model.
func (e *codecEnv) emitDEC(id atree.SlabID, data []byte) decOutcome {
	o := guardedDecode(id, data)
	switch o.class {
	case "PANIC":
		e.panics++
		e.violation("C19", fmt.Sprintf("DecodeSlab/ByteSize/ChildStorables panicked (%s) on id=%s data=%s", o.detail, hx.IDStr(id), hex.EncodeToString(data)))
	case "TIMEOUT":
		e.violation("C19", fmt.Sprintf("DecodeSlab did not return within 2 s, nor within 60 s on a second call, on id=%s data=%s", hx.IDStr(id), hex.EncodeToString(data)))
	}
	if r := skipReason(data); r != "" {
		e.st.Hit("skip:" + r)
		e.nSkip++
		return o
	}
	if o.class == "ok" && !dumpCovered(o.dump) {
		e.st.Hit("skip:wrapper")
		e.nSkip++
		return o
	}
	if o.class == "TIMEOUT" {
		return o
	}
	e.w.L("DEC %s id=%s", hex.EncodeToString(data), hx.IDStr(id))
	switch o.class {
	case "ok":
		e.w.L("OBS ok:%s size=%d", o.dump, o.size)
	case "err":
		e.w.L("OBS err")
	default:
		e.w.L("OBS PANIC")
	}
	e.nDEC++
	e.st.Hit("dec:" + o.class)
	return o
}

func (e *codecEnv) emitHDR(data []byte) hdrOutcome {
	o := guardedHeader(data)
	if o.class == "PANIC" || o.class == "TIMEOUT" {
		e.panics++
		e.violation("C19", fmt.Sprintf("header query %s (%s) on data=%s", o.class, o.detail, hex.EncodeToString(data)))
		if o.class == "TIMEOUT" {
			return o
		}
	}
	e.w.L("HDR %s", hex.EncodeToString(data))
	switch o.class {
	case "ok":
		e.w.L("OBS root=%s ptr=%s limit=%s", b01(o.root), b01(o.ptr), b01(o.limit))
	case "err":
		e.w.L("OBS err")
	default:
		e.w.L("OBS PANIC")
	}
	e.nHDR++
	return o
}

// ---------------------------------------------------------------------------------------------
// model-free oracles (C06 / C07) on one in-memory slab and its register

// extraDataLen measures the root's extra-data section by re-parsing: the first complete CBOR item
// after the two head bytes.
func extraDataLen(reg []byte) (int, error) {
	if len(reg) < 2 {
		return 0, fmt.Errorf("short register")
	}
	d := cbor.NewByteStreamDecoder(reg[2:])
	raw, err := d.DecodeRawBytes()
	if err != nil {
		return 0, err
	}
	return len(raw), nil
}

func hasRefChild(s atree.Slab) bool {
	for _, c := range s.ChildStorables() {
		if _, ok := c.(atree.SlabIDStorable); ok {
			return true
		}
	}
	return false
}

// oracleSlab checks an in-memory slab against its own encoding; it returns the encoding and the
// dump of the decoded register.
func (e *codecEnv) oracleSlab(s atree.Slab) ([]byte, string) {
	e.encErr, e.nestRej = "", false
	reg, err, pan := guardedEncode(s)
	if pan == "" && err != nil {
		// The two limits of the format the encoder enforces with an ERROR (nothing is written): an
		// extra-data index is one byte, a digest level at most maxDigestLevel.  Not a violation of C07
		// (which speaks about registers the library produced): an OBSERVATION, tied to the model
		// (`ENCERR` line: encodeSlabE must fail the same way).
		switch msg := err.Error(); {
		case strings.Contains(msg, "extra data index") && strings.Contains(msg, "exceeds limit"):
			e.encErr = "xdindex"
			e.st.Hit("observation:extra-data-index-limit")
			e.noteObservation("extra-data-index-limit", fmt.Sprintf("EncodeSlab fails (%s): %s", msg, e.obsDetail))
			return nil, ""
		case strings.Contains(msg, "exceeds max digest level"):
			e.encErr = "level"
			e.st.Hit("observation:digest-level-limit")
			e.noteObservation("digest-level-limit", fmt.Sprintf("EncodeSlab fails (%s) under a caller-supplied digester with more than maxDigestLevel levels", msg))
			return nil, ""
		}
	}
	if pan != "" || err != nil {
		if pan != "" {
			e.encPanic = true // (the commit of this write set would crash the process: it is skipped)
		}
		e.violation("C07", fmt.Sprintf("EncodeSlab failed on %s: %v %s", atree.VerifDumpSlab(s, hx.Describe), err, pan))
		return nil, ""
	}
	id := s.SlabID()
	isRoot := atree.VerifSlabIsRoot(s)
	want := atree.VerifDumpSlab(s, hx.Describe)
	_, isStorable := s.(*atree.StorableSlab)
	_, isAData := s.(*atree.ArrayDataSlab)
	_, isMData := s.(*atree.MapDataSlab)
	isData := isAData || isMData
	anySize := dumpAnySize(want)

	// C06: len(EncodeSlab(s)) == s.ByteSize() + extra data + inlined extra data − (16 if non-root data slab
	// with undefined next); with compact maps (keys and digests hoisted into the shared section): <=
	extra, ied, compact, err := regSections(reg)
	if err != nil {
		e.violation("C07", fmt.Sprintf("extra data sections of slab %s do not re-parse: %v", hx.IDStr(id), err))
	}
	if bad := hx.SharedSectionCanonical(reg); bad != "" {
		// C07 "canonical": an encoder that stops deduplicating still round-trips (regcheck.go)
		e.violation("C07", fmt.Sprintf("the shared extra-data section of slab %s is not canonical: %s: %s", hx.IDStr(id), bad, hex.EncodeToString(reg)))
	}
	if (extra != 0) != isRoot {
		e.violation("C07", fmt.Sprintf("slab %s: root %v but extra data section of %d bytes", hx.IDStr(id), isRoot, extra))
	}
	omitted := 0
	if isData && !isRoot && atree.VerifSlabNext(s) == atree.SlabIDUndefined {
		omitted = 16
	}
	// ... exactly: the bytes a compact-encoded child does not write in place are its digests (8 each),
	// its single-element heads (1 each), its keys, and the difference between the hkeyElements head
	// (8 bytes) and a plain array head; computed from the slab's dump, independently of the encoder
	hoisted, hok := dumpHoisted(want)
	if !hok {
		e.violation("C06", fmt.Sprintf("slab %s: dump does not parse: %s", hx.IDStr(id), want))
	}
	law := int(s.ByteSize()) + extra + ied - omitted
	if len(reg)+hoisted != law {
		e.violation("C06", fmt.Sprintf("slab %s: encoded length %d + hoisted %d, ByteSize %d, extra data %d, inlined extra data %d, omitted next %d, compact %v: %s",
			hx.IDStr(id), len(reg), hoisted, s.ByteSize(), extra, ied, omitted, compact, hex.EncodeToString(reg)))
	}
	if (hoisted != 0) != compact {
		e.violation("C06", fmt.Sprintf("slab %s: %d hoisted bytes expected from the content, compact entries in the register: %v", hx.IDStr(id), hoisted, compact))
	}
	if compact {
		e.st.Hit("c06:compact-shorter")
	}

	// C07: header flags vs content
	h := guardedHeader(reg)
	if h.class != "ok" {
		e.violation("C07", fmt.Sprintf("header queries failed on a register of slab %s", hx.IDStr(id)))
	} else {
		if h.root != isRoot {
			e.violation("C07", fmt.Sprintf("slab %s: root flag %v, has extra data %v", hx.IDStr(id), h.root, isRoot))
		}
		wantPtr := false
		if isData || isStorable {
			for _, c := range s.ChildStorables() {
				if storableHasRef(c) {
					wantPtr = true
				}
			}
		}
		// an index slab names its children in its child headers, not as elements: the flag stays clear
		if h.ptr != wantPtr {
			e.violation("C07", fmt.Sprintf("slab %s: has-pointers flag %v, content says %v: %s", hx.IDStr(id), h.ptr, wantPtr, want))
		}
		if h.limit != !(isStorable || anySize) {
			e.violation("C07", fmt.Sprintf("slab %s: size-limit flag %v, storable slab %v, any-size %v", hx.IDStr(id), h.limit, isStorable, anySize))
		}
	}

	// C06/C07: decode the register
	o := guardedDecode(id, reg)
	if o.class == "err" && strings.Contains(o.detail, "exceeded max nested level") {
		// The caller's DecMode bounds the nesting of a register (cbor.DecOptions{}: 32 levels); the
		// library encodes deeper values.  An OBSERVATION about the caller's configuration, tied to the
		// model: its decoder must reject the register too and Slab.vdepth must exceed the limit.
		e.nestRej = true
		e.st.Hit("observation:decmode-nesting-limit:register-not-decodable")
		if !e.nestWalk {
			e.noteObservation("decmode-nesting-limit", fmt.Sprintf("register of slab %s is rejected by the decoder for its nesting depth (%s)", hx.IDStr(id), o.detail))
		}
		return reg, ""
	}
	if o.class != "ok" {
		e.violation("C07", fmt.Sprintf("register of slab %s does not decode (%s %s): %s", hx.IDStr(id), o.class, o.detail, hex.EncodeToString(reg)))
		return reg, ""
	}
	if o.size != s.ByteSize() {
		e.violation("C06", fmt.Sprintf("slab %s: decoded slab reports size %d, original %d", hx.IDStr(id), o.size, s.ByteSize()))
	}
	if o.dump != want {
		// the sole exception: same-typed inlined composite maps sharing the compact form may adopt the
		// shared seed and internal order
		n1, n2 := normalizeDump(o.dump), normalizeDump(want)
		if !compact || n1 == "" || n1 != n2 {
			e.violation("C07", fmt.Sprintf("slab %s: decoded %s, original %s", hx.IDStr(id), o.dump, want))
		} else {
			e.st.Hit("c07:compact-exception")
		}
	}
	re, err, pan := guardedEncode(o.slab)
	if pan != "" || err != nil || !bytes.Equal(re, reg) {
		e.violation("C07", fmt.Sprintf("slab %s: re-encoding the decoded slab gives %s, register is %s (%v %s)",
			hx.IDStr(id), hex.EncodeToString(re), hex.EncodeToString(reg), err, pan))
	}
	return reg, o.dump
}

// emitSlab writes the ENC line of a slab (its DEC / HDR lines follow when the registers are emitted).
func (e *codecEnv) emitSlab(s atree.Slab) []byte {
	reg, decDump := e.oracleSlab(s)
	if reg == nil {
		if e.encErr != "" {
			dump := atree.VerifDumpSlab(s, hx.Describe)
			if dumpCovered(dump) {
				e.w.L("ENCERR %s | %s", e.encErr, dump)
				e.st.Hit("encerr:" + e.encErr)
			}
		}
		return nil
	}
	dump := atree.VerifDumpSlab(s, hx.Describe)
	if !dumpCovered(dump) {
		e.st.Hit("skip:enc")
		return reg
	}
	if e.nestRej {
		e.w.L("ENC %s size=%d | %s | !nest", hex.EncodeToString(reg), s.ByteSize(), dump)
	} else if decDump != "" && decDump != dump {
		e.w.L("ENC %s size=%d | %s | %s", hex.EncodeToString(reg), s.ByteSize(), dump, decDump)
	} else {
		e.w.L("ENC %s size=%d | %s", hex.EncodeToString(reg), s.ByteSize(), dump)
	}
	e.nENC++
	isRoot := atree.VerifSlabIsRoot(s)
	noNext := atree.VerifSlabNext(s) == atree.SlabIDUndefined
	switch s.(type) {
	case *atree.ArrayDataSlab:
		if isRoot {
			e.st.Hit("enc:data-root")
		} else if noNext {
			e.st.Hit("enc:data-last")
		} else {
			e.st.Hit("enc:data-next")
		}
		if hasRefChild(s) {
			e.st.Hit("enc:data-with-ref")
		}
	case *atree.ArrayMetaDataSlab:
		if isRoot {
			e.st.Hit("enc:meta-root")
		} else {
			e.st.Hit("enc:meta-nonroot")
		}
	case *atree.StorableSlab:
		e.st.Hit("enc:storable")
	case *atree.MapDataSlab:
		switch {
		case strings.HasSuffix(dump[:strings.IndexByte(dump, ')')], ",1"):
			e.st.Hit("enc:map-group")
		case isRoot:
			e.st.Hit("enc:map-root")
		case noNext:
			e.st.Hit("enc:map-last")
		default:
			e.st.Hit("enc:map-next")
		}
		if strings.Contains(dump, "I(") {
			e.st.Hit("enc:map-inline-group")
		}
		if strings.Contains(dump, "X(") {
			e.st.Hit("enc:map-external-ref")
		}
		if strings.Contains(dump, "L(") {
			e.st.Hit("enc:map-single-elements")
		}
	case *atree.MapMetaDataSlab:
		if isRoot {
			e.st.Hit("enc:mmeta-root")
		} else {
			e.st.Hit("enc:mmeta-nonroot")
		}
	}
	if len(reg) >= 2 && reg[0]&0x01 != 0 {
		e.st.Hit("enc:has-inlined")
		if bytes.Contains(reg, []byte{0xd8, 0xf6}) {
			e.st.Hit("enc:typeinfo-ref")
		}
		if strings.Contains(dump, ":d(") {
			e.st.Hit("enc:inlined-map")
		}
		if strings.Contains(dump, ":D(") {
			e.st.Hit("enc:inlined-array")
		}
		if _, _, compact, _ := regSections(reg); compact {
			e.st.Hit("enc:compact")
		}
	}
	if strings.Contains(dump, "W(") {
		e.st.Hit("enc:wrapper")
	}
	return reg
}

// ---------------------------------------------------------------------------------------------
// version-0 registers, crafted from version-1 registers following the v0 decoders

// toV0 rewrites a valid version-1 array register into the version-0 layout
// (newArrayDataSlabFromDataV0 / newArrayMetaDataSlabFromDataV0).  ok=false for other kinds.
func toV0(reg []byte) (out []byte, ok bool) {
	if len(reg) < 2 || reg[0]>>4 != 1 || reg[0]&0x01 != 0 {
		return nil, false
	}
	b1 := reg[1]
	if (b1&0x18)>>3 != 0 {
		return nil, false
	}
	root := b1&0x80 != 0
	rest := reg[2:]
	out = append(out, 0x00, b1)
	if root {
		n, err := extraDataLen(reg)
		if err != nil {
			return nil, false
		}
		out = append(out, rest[:n]...)
		out = append(out, 0x00, b1) // second head, only present in version-0 roots
		rest = rest[n:]
	}
	switch b1 & 0x07 {
	case 0: // data slab: [next slab ID if non-root] + CBOR array of elements
		var next [16]byte
		if reg[0]&0x02 != 0 {
			if len(rest) < 16 {
				return nil, false
			}
			copy(next[:], rest[:16])
			rest = rest[16:]
		}
		if !root {
			out = append(out, next[:]...)
		}
		out = append(out, rest...)
		return out, true
	case 1: // meta slab: child count (2) + n * [slab id (16), count (4), size (4)]
		if len(rest) < 10 {
			return nil, false
		}
		addr := rest[:8]
		n := int(binary.BigEndian.Uint16(rest[8:10]))
		rest = rest[10:]
		if len(rest) != 14*n {
			return nil, false
		}
		out = append(out, byte(n>>8), byte(n))
		for i := 0; i < n; i++ {
			h := rest[14*i : 14*i+14]
			out = append(out, addr...)
			out = append(out, h[:8]...)   // index
			out = append(out, h[8:12]...) // count
			out = append(out, 0, 0, h[12], h[13])
		}
		return out, true
	}
	return nil, false
}

// ---------------------------------------------------------------------------------------------
// array programs that produce the slabs

var codecSizes = []uint32{1, 2, 3, 9, 23, 24, 25, 26, 27, 40, 100, 117, 118, 119, 200, 245, 246, 247, 250,
	255, 256, 257, 258, 259, 260, 300, 400, 499, 500, 501, 502, 600, 1000, 2000, 65537, 65538, 65539, 65541, 65542, 70000}

func codecValue(rng *rand.Rand, T uint32, maxInl uint32, pay *uint64) hx.TV {
	var size uint32
	switch r := rng.Intn(100); {
	case r < 30: // tiny
		size = uint32(1 + rng.Intn(12))
	case r < 45: // around the one-byte/two-byte head boundary and the first gap
		size = uint32(22 + rng.Intn(7))
	case r < 60: // around the inline limit: both sides
		size = maxInl - 2 + uint32(rng.Intn(5))
	case r < 70: // mid
		size = uint32(10 + rng.Intn(int(maxInl)))
	case r < 78: // around the two-byte/three-byte head boundary and the second gap (inline only when T is large)
		size = uint32(255 + rng.Intn(6))
	case r < 97:
		size = codecSizes[rng.Intn(len(codecSizes))]
		if size > 3000 && rng.Intn(4) != 0 {
			size = codecSizes[rng.Intn(len(codecSizes)-6)]
		}
	default: // externalised, three-byte head
		size = T + uint32(rng.Intn(3000))
	}
	if size == 65540 { // not the size of any byte string (see Encode.lean `validElem`)
		size = 65541
	}
	*pay++
	p := *pay
	if rng.Intn(8) == 0 {
		p = rng.Uint64()
	}
	for !hx.ValidTV(size, p) {
		p >>= 8
	}
	return hx.TV{Size: size, Pay: p}
}

var codecTypeInfos = []uint64{0, 1, 23, 24, 25, 255, 256, 257, 65535, 65536, 1 << 20, 1<<32 - 1, 1 << 32, 1<<63 + 5, 1<<64 - 1}

// runCodecProgram drives a real array, emits ENC lines for every slab in the write set at each
// checkpoint, commits, and emits DEC/HDR lines for every register.  It returns the registers.
func (e *codecEnv) runCodecProgram(rng *rand.Rand, T uint32, nOps int, emit bool) map[atree.SlabID][]byte {
	_, _, maxInl, _ := atree.VerifSetThreshold(T)
	ledger := hx.NewLedger()
	ps := hx.NewStorage(ledger)
	addr := hx.MkAddr(uint64(1 + rng.Intn(1<<16)))
	if rng.Intn(4) == 0 {
		addr = hx.MkAddr(rng.Uint64() | 1)
	}
	var ty atree.TypeInfo = hx.TI(codecTypeInfos[rng.Intn(len(codecTypeInfos))])
	if rng.Intn(5) == 0 {
		ty = hx.CTI(codecTypeInfos[rng.Intn(len(codecTypeInfos))])
	}
	if emit {
		e.w.L("CFG T=%d", T)
	}
	arr, err := atree.NewArray(ps, addr, ty)
	if err != nil {
		e.st.HarnessErr = "NewArray: " + err.Error()
		return nil
	}
	var pay uint64
	count := 0
	checkpoint := func() {
		deltas := atree.VerifDeltas(ps)
		ids := make([]atree.SlabID, 0, len(deltas))
		for id, s := range deltas {
			if s != nil {
				ids = append(ids, id)
			}
		}
		hx.SortIDs(ids)
		for _, id := range ids {
			if emit {
				e.emitSlab(deltas[id])
			} else {
				e.oracleSlab(deltas[id])
			}
		}
		if err := ps.FastCommit(1 + rng.Intn(3)); err != nil {
			e.violation("C03", "fault-free commit failed: "+err.Error())
		}
		ps.DropCache()
	}
	shrinkFrom := nOps * 3 / 4
	for e.step = 0; e.step < nOps; e.step++ {
		r := rng.Intn(100)
		switch {
		case count == 0 || (e.step < shrinkFrom && r < 70) || (e.step >= shrinkFrom && r < 20):
			v := codecValue(rng, T, maxInl, &pay)
			i := uint64(rng.Intn(count + 1))
			if rng.Intn(3) == 0 {
				i = uint64(count)
			}
			if err := arr.Insert(i, v); err != nil {
				e.violation("C01", "insert failed: "+err.Error())
				return nil
			}
			count++
		case r < 85:
			v := codecValue(rng, T, maxInl, &pay)
			old, err := arr.Set(uint64(rng.Intn(count)), v)
			if err != nil {
				e.violation("C01", "set failed: "+err.Error())
				return nil
			}
			if id, ok := old.(atree.SlabIDStorable); ok {
				_ = ps.Remove(atree.SlabID(id))
			}
		default:
			old, err := arr.Remove(uint64(rng.Intn(count)))
			if err != nil {
				e.violation("C01", "remove failed: "+err.Error())
				return nil
			}
			if id, ok := old.(atree.SlabIDStorable); ok {
				_ = ps.Remove(atree.SlabID(id))
			}
			count--
		}
		if rng.Intn(40) == 0 {
			nt := hx.TI(codecTypeInfos[rng.Intn(len(codecTypeInfos))])
			if err := arr.SetType(nt); err != nil {
				e.violation("C01", "SetType failed: "+err.Error())
			}
		}
		if e.step%37 == 36 || e.step == nOps-1 || e.step == 0 || e.step == 2 || e.step == 5 {
			checkpoint()
		}
	}
	regs := map[atree.SlabID][]byte{}
	for _, id := range ledger.SortedIDs() {
		reg := ledger.Seg[id]
		regs[id] = reg
		if emit {
			e.emitDEC(id, reg)
			e.emitHDR(reg)
			if v0, ok := toV0(reg); ok {
				o := e.emitDEC(id, v0)
				e.emitHDR(v0)
				e.st.Hit("v0:" + o.class)
				// a version-0 register must decode to the same slab as its version-1 form
				o1 := guardedDecode(id, reg)
				if o.class != "ok" || o1.class != "ok" || o.dump != o1.dump || o.size != o1.size {
					e.violation("C07", fmt.Sprintf("version-0 form of register %s decodes to %s %s size=%d, version-1 form to %s %s size=%d",
						hx.IDStr(id), o.class, o.dump, o.size, o1.class, o1.dump, o1.size))
				}
			}
		}
	}
	return regs
}

func codecStream(cfg *Config) *hx.Stats {
	st := hx.NewStats("codec", cfg.Seed)
	rng := rand.New(rand.NewSource(cfg.Seed*104729 + 71))
	w := hx.NewW(filepath.Join(cfg.Out, fmt.Sprintf("codec-%d.trace", cfg.Seed)))
	defer w.Close()
	st.TraceFiles = append(st.TraceFiles, w.Path)
	e := &codecEnv{w: w, st: st, cfg: cfg}
	nProg := int(9 * cfg.Scale)
	if nProg < 3 {
		nProg = 3
	}
	thresholds := []uint32{256, 512, 1024}
	for p := 0; p < nProg; p++ {
		e.prog = p
		T := thresholds[p%3]
		nOps := 250 + rng.Intn(350)
		if T == 1024 {
			nOps += 300
		}
		e.runCodecProgram(rng, T, nOps, true)
		st.Programs++
		st.Ops += nOps
		st.Hit(fmt.Sprintf("T=%d", T))
		if len(st.Violations) > 20 {
			break
		}
	}
	// map slabs: every digest mode of the map streams (real, colliding at one / several / all levels,
	// few levels, large colliding elements, the pooled digester with a non-injective hash input, huge digests)
	mapModes := []int{0, 1, 2, 3, 5, 7, 6, 8, 1, 3}
	nMap := int(10 * cfg.Scale)
	if nMap < 8 {
		nMap = 8
	}
	for p := 0; p < nMap && len(st.Violations) <= 20; p++ {
		e.prog = 100 + p
		T := []uint32{256, 512, 256, 1024}[p%4]
		mode := mapModes[p%len(mapModes)]
		nOps := 150 + rng.Intn(250)
		if mode == 7 {
			nOps = 260
		}
		if p == 0 {
			nOps = 900 // a three-level tree: non-root index slabs
		}
		e.runMapCodecProgram(rng, T, mode, nOps, true)
		st.Programs++
		st.Ops += nOps
		st.Hit(fmt.Sprintf("map-mode=%d", mode))
	}
	// inlined children, wrappers, shared type infos, compact maps
	nInl := int(12 * cfg.Scale)
	if nInl < 6 {
		nInl = 6
	}
	for p := 0; p < nInl && len(st.Violations) <= 20; p++ {
		e.prog = 200 + p
		T := []uint32{512, 1024, 256, 2048}[p%4]
		nOps := 30 + rng.Intn(50)
		e.named = p%4 == 3 // every second compact program: field names as keys
		e.runInlineProgram(rng, T, nOps, p%2 == 1, true)
		e.named = false
		st.Programs++
		st.Ops += nOps
	}
	// the slabs of the `nested` stream's programs
	nNest := int(8 * cfg.Scale)
	if nNest < 4 {
		nNest = 4
	}
	for p := 0; p < nNest && len(st.Violations) <= 20; p++ {
		e.prog = 300 + p
		T := []uint32{256, 512, 1024, 256}[p%4]
		nOps := 20 + rng.Intn(140)
		e.runNestedHarvest(rng, T, nOps, true)
		st.Programs++
		st.Ops += nOps
	}
	// directed programs: shapes the random programs do not reach (codecdirected.go)
	if len(st.Violations) <= 20 {
		e.runDirectedPrograms(rng, true)
	}
	atree.VerifSetThreshold(1024)
	st.TraceLines = w.Lines
	st.Dist["ENC"] = e.nENC
	st.Dist["DEC"] = e.nDEC
	st.Dist["HDR"] = e.nHDR
	st.Distinct = e.nENC + e.nDEC
	st.Samples = append(st.Samples, fmt.Sprintf("programs=%d ENC=%d DEC=%d HDR=%d skipped=%d", st.Programs, e.nENC, e.nDEC, e.nHDR, e.nSkip))
	for _, tag := range append([]string{"enc:data-root", "enc:data-next", "enc:data-last", "enc:data-with-ref", "enc:meta-root", "enc:meta-nonroot", "enc:storable", "v0:ok",
		"enc:map-root", "enc:map-next", "enc:map-last", "enc:map-group", "enc:map-inline-group", "enc:map-external-ref", "enc:map-single-elements",
		"enc:mmeta-root", "enc:mmeta-nonroot", "v0map:ok",
		"enc:has-inlined", "enc:inlined-array", "enc:inlined-map", "enc:compact", "enc:typeinfo-ref", "enc:wrapper",
		"directed:storable-slab-with-ref", "directed:composite-shape-0", "directed:composite-shape-2", "directed:composite-shape-4",
		"directed:max-digest-level-committed", "observation:digest-level-limit", "directed:extra-data-256-entries-committed",
		"observation:extra-data-index-limit", "encerr:xdindex", "encerr:level", "directed:extra-data-limit-recovered",
		"observation:decmode-nesting-limit", "directed:nesting-reloaded:arr", "directed:nesting-reloaded:map", "directed:nesting-reloaded:warr",
		"directed:compact-type-id-reloaded", "inline:named-compact", "usz:all-width-boundaries"}, codecStorSlabRequired...) { // + codecstorslab.go
		// (a run cut short by violations is judged by those, not by its coverage)
		if st.Dist[tag] == 0 && st.HarnessErr == "" && len(st.Violations) == 0 {
			st.HarnessErr = "codec stream never produced " + tag
		}
	}
	return st
}

// ---------------------------------------------------------------------------------------------
// malformed stream

type baseReg struct {
	id   atree.SlabID
	data []byte
	kind string
}

func regKind(reg []byte) string {
	if len(reg) < 2 {
		return "short"
	}
	v := fmt.Sprintf("v%d", reg[0]>>4)
	inl := ""
	if reg[0]>>4 == 1 && reg[0]&0x01 != 0 {
		inl = "-inl"
	}
	root := ""
	if reg[1]&0x80 != 0 {
		root = "-root"
	}
	switch (reg[1] & 0x18) >> 3 {
	case 0:
		k := "data"
		if reg[1]&0x07 == 1 {
			k = "meta"
			inl = ""
		}
		return v + "-" + k + root + inl
	case 1:
		switch reg[1] & 0x07 {
		case 0:
			return v + "-mdata" + root + inl
		case 1:
			return v + "-mmeta" + root
		case 3:
			return v + "-group" + inl
		}
	case 3:
		return v + "-storable"
	}
	return v + "-other"
}

var interestingBytes = []byte{0x00, 0x01, 0x10, 0x17, 0x18, 0x19, 0x1a, 0x1b, 0x1c, 0x1f, 0x20, 0x40, 0x41, 0x57, 0x58, 0x59,
	0x5a, 0x5b, 0x5f, 0x60, 0x7f, 0x80, 0x81, 0x82, 0x83, 0x98, 0x99, 0x9a, 0x9b, 0x9f, 0xa0, 0xa1, 0xbf, 0xc2, 0xc3, 0xd8, 0xd9,
	0xf4, 0xf6, 0xf8, 0xf9, 0xfa, 0xfb, 0xfe, 0xff}

var interestingTags = []byte{2, 3, 160, 161, 165, 246, 247, 248, 249, 250, 251, 252, 253, 254, 255, 0, 24, 100}

// mutate returns one mutant of base (never nil; may equal base).
func mutate(rng *rand.Rand, base []byte, pool []baseReg) ([]byte, string) {
	b := append([]byte(nil), base...)
	pos := func() int {
		if len(b) == 0 {
			return 0
		}
		if rng.Intn(2) == 0 {
			n := 40
			if n > len(b) {
				n = len(b)
			}
			return rng.Intn(n)
		}
		return rng.Intn(len(b))
	}
	switch k := rng.Intn(13); k {
	case 0, 1: // bit flip(s)
		n := 1 + rng.Intn(2)
		for i := 0; i < n && len(b) > 0; i++ {
			p := pos()
			b[p] ^= 1 << uint(rng.Intn(8))
		}
		return b, "bitflip"
	case 2: // truncation
		if len(b) == 0 {
			return b, "trunc"
		}
		return b[:rng.Intn(len(b))], "trunc"
	case 3: // splice: prefix of this register, suffix of another
		o := pool[rng.Intn(len(pool))].data
		i, j := 0, 0
		if len(b) > 0 {
			i = pos()
		}
		if len(o) > 0 {
			j = rng.Intn(len(o))
		}
		return append(b[:i:i], o[j:]...), "splice"
	case 4: // overwrite one byte with an interesting CBOR initial byte / length byte
		if len(b) > 0 {
			b[pos()] = interestingBytes[rng.Intn(len(interestingBytes))]
		}
		return b, "setbyte"
	case 5: // length-field edit: a CBOR array / byte-string head or a fixed-width count
		var cands []int
		for i := 2; i < len(b); i++ {
			switch b[i] {
			case 0x99, 0x59, 0x58, 0x98, 0x81, 0x50, 0x83, 0x82, 0x48, 0x40:
				cands = append(cands, i)
			}
		}
		if len(cands) == 0 || rng.Intn(4) == 0 {
			// the child-header count of an index slab sits 8 bytes after the head (+ extra data)
			cands = append(cands, 2, 8, 9, 10, 11)
		}
		p := cands[rng.Intn(len(cands))]
		if p >= len(b) {
			return b, "lenedit"
		}
		switch rng.Intn(5) {
		case 0: // change the argument
			if p+1 < len(b) {
				b[p+1] = byte(rng.Intn(256))
			}
			if p+2 < len(b) && rng.Intn(2) == 0 {
				b[p+2] += byte(1 + rng.Intn(3))
			}
		case 1: // off by one
			if p+2 < len(b) {
				b[p+2]++
			} else if p+1 < len(b) {
				b[p+1]++
			}
		case 2:
			if p+2 < len(b) {
				b[p+2]--
			} else if p+1 < len(b) {
				b[p+1]--
			}
		case 3: // change the width of the head
			b[p] = b[p]&0xe0 | byte(23+rng.Intn(9))
		default: // change the major type, keep the argument
			b[p] = b[p]&0x1f | byte(rng.Intn(8))<<5
		}
		return b, "lenedit"
	case 6: // tag edit
		var cands []int
		for i := 2; i+1 < len(b); i++ {
			if b[i] == 0xd8 {
				cands = append(cands, i)
			}
		}
		if len(cands) == 0 {
			if len(b) > 3 {
				p := 2 + rng.Intn(len(b)-3)
				b[p] = 0xd8
				b[p+1] = interestingTags[rng.Intn(len(interestingTags))]
			}
			return b, "tagedit"
		}
		p := cands[rng.Intn(len(cands))]
		if rng.Intn(5) == 0 {
			b[p] = byte(0xc0 + rng.Intn(32))
		} else {
			b[p+1] = interestingTags[rng.Intn(len(interestingTags))]
		}
		return b, "tagedit"
	case 7: // insert bytes
		p := 0
		if len(b) > 0 {
			p = pos()
		}
		n := 1 + rng.Intn(3)
		ins := make([]byte, n)
		for i := range ins {
			if rng.Intn(2) == 0 {
				ins[i] = interestingBytes[rng.Intn(len(interestingBytes))]
			} else {
				ins[i] = byte(rng.Intn(256))
			}
		}
		out := append(append(append([]byte(nil), b[:p]...), ins...), b[p:]...)
		return out, "insert"
	case 8: // delete bytes
		if len(b) < 2 {
			return b, "delete"
		}
		p := pos()
		n := 1 + rng.Intn(3)
		if p+n > len(b) {
			n = len(b) - p
		}
		return append(b[:p:p], b[p+n:]...), "delete"
	case 9: // head edit: version / flags / slab type
		if len(b) >= 2 {
			if rng.Intn(2) == 0 {
				b[0] = byte(rng.Intn(256))
			} else {
				b[1] = byte(rng.Intn(256))
			}
			if rng.Intn(3) == 0 {
				b[0] &= 0x1f // versions 0 and 1
			}
		}
		return b, "headedit"
	case 11, 12: // edits of the inlined-slab machinery: extra-data index, extra-data tags, type-info references, counts
		var cands []int
		for i := 2; i+1 < len(b); i++ {
			if b[i] == 0xd8 && b[i+1] >= 246 && b[i+1] <= 254 {
				cands = append(cands, i)
			}
		}
		if len(cands) == 0 {
			if len(b) > 0 {
				b[pos()] ^= 1 << uint(rng.Intn(8))
			}
			return b, "inledit"
		}
		p := cands[rng.Intn(len(cands))]
		switch t := b[p+1]; {
		case t == 246: // type-info reference: what follows is handed to cbor.Unmarshal(&uint64)
			item := genUMI(rng)
			if rng.Intn(2) == 0 && p+2 < len(b) {
				b[p+2] = byte(rng.Intn(8)) // another (maybe out-of-range) index
				return b, "inledit"
			}
			j := p + 2
			if j < len(b) {
				j++ // replace the one-byte index
			}
			return append(append(append([]byte(nil), b[:p+2]...), item...), b[j:]...), "inledit"
		case t >= 247 && t <= 249: // extra-data entry: change its kind, its array head, or the count / seed after the type info
			switch rng.Intn(4) {
			case 0:
				b[p+1] = byte(247 + rng.Intn(3))
			case 1:
				if p+2 < len(b) {
					b[p+2] = 0x80 | byte(rng.Intn(5))
				}
			default:
				if p+4 < len(b) {
					q := p + 3 + rng.Intn(8)
					if q < len(b) {
						b[q] = byte(rng.Intn(24)) // a small count where a count / type / seed byte was
					}
				}
			}
		case t >= 250 && t <= 252: // inlined slab: extra-data index, kind, slab-index head
			switch rng.Intn(4) {
			case 0:
				b[p+1] = byte(250 + rng.Intn(3))
			case 1, 2:
				if p+4 < len(b) && b[p+2] == 0x83 && b[p+3] == 0x18 {
					b[p+4] = byte(rng.Intn(6))
				}
			default:
				if p+5 < len(b) {
					b[p+5] = []byte{0x47, 0x49, 0x48, 0x40, 0x58}[rng.Intn(5)]
				}
			}
		default: // collision groups
			b[p+1] = byte(253 + rng.Intn(2))
		}
		return b, "inledit"
	default: // append garbage
		n := 1 + rng.Intn(4)
		for i := 0; i < n; i++ {
			b = append(b, byte(rng.Intn(256)))
		}
		return b, "append"
	}
}

func malformedStream(cfg *Config) *hx.Stats {
	st := hx.NewStats("malformed", cfg.Seed)
	rng := rand.New(rand.NewSource(cfg.Seed*15485863 + 5))
	w := hx.NewW(filepath.Join(cfg.Out, fmt.Sprintf("malformed-%d.trace", cfg.Seed)))
	defer w.Close()
	st.TraceFiles = append(st.TraceFiles, w.Path)
	e := &codecEnv{w: w, st: st, cfg: cfg}

	// 1. valid registers of every modelled kind, both versions
	var pool []baseReg
	perKind := map[string]int{}
	add := func(id atree.SlabID, data []byte) {
		k := regKind(data)
		limit := 6
		if len(data) > 700 {
			limit = 2
		}
		if perKind[k] >= limit+int(cfg.Scale) {
			return
		}
		perKind[k]++
		pool = append(pool, baseReg{id, data, k})
	}
	for p := 0; p < 6; p++ {
		e.prog = p
		T := []uint32{256, 256, 512}[p%3]
		nOps := 120 + rng.Intn(200)
		if p == 0 {
			nOps = 700 // deep enough for non-root index slabs
		}
		regs := e.runCodecProgram(rng, T, nOps, false)
		ids := make([]atree.SlabID, 0, len(regs))
		for id := range regs {
			ids = append(ids, id)
		}
		hx.SortIDs(ids)
		rng.Shuffle(len(ids), func(i, j int) { ids[i], ids[j] = ids[j], ids[i] })
		for _, id := range ids {
			reg := regs[id]
			if len(reg) > 2000 {
				continue
			}
			add(id, reg)
			if v0, ok := toV0(reg); ok {
				add(id, v0)
			}
		}
	}
	addAll := func(regs regSet) {
		ids := make([]atree.SlabID, 0, len(regs))
		for id := range regs {
			ids = append(ids, id)
		}
		hx.SortIDs(ids)
		rng.Shuffle(len(ids), func(i, j int) { ids[i], ids[j] = ids[j], ids[i] })
		for _, id := range ids {
			reg := regs[id]
			if len(reg) > 2000 {
				continue
			}
			add(id, reg)
			if v0, ok := toV0Map(reg); ok {
				add(id, v0)
			}
		}
	}
	for p, mode := range []int{0, 1, 3, 7, 2} {
		e.prog = 10 + p
		T := []uint32{256, 256, 512}[p%3]
		nOps := 150 + rng.Intn(150)
		if mode == 0 {
			nOps = 900 // deep enough for non-root index slabs
		}
		addAll(e.runMapCodecProgram(rng, T, mode, nOps, false))
	}
	for p := 0; p < 6; p++ {
		e.prog = 20 + p
		e.named = p == 3
		addAll(e.runInlineProgram(rng, []uint32{512, 1024, 256}[p%3], 25+rng.Intn(30), p%2 == 1, false))
		e.named = false
	}
	for p := 0; p < 3; p++ {
		e.prog = 30 + p
		addAll(e.runNestedHarvest(rng, []uint32{256, 512, 1024}[p%3], 40+rng.Intn(80), false))
	}
	// small hand-made registers: empty root, single element, single reference, tiny index slab
	id1 := hx.MkIDn(1, 1)
	hand := [][]byte{
		{0x10, 0x80, 0x81, 0x00, 0x99, 0x00, 0x00},
		{0x10, 0x80, 0x81, 0x18, 0x2a, 0x99, 0x00, 0x01, 0x41, 0x07},
		{0x00, 0x80, 0x81, 0x00, 0x00, 0x80, 0x99, 0x00, 0x00},
		append([]byte{0x10, 0x7f, 0xd8, 0xff, 0x50}, bytes.Repeat([]byte{0x01}, 16)...),
		{0x10, 0x3f, 0x43, 0x01, 0x02, 0x03},
		{0x10, 0x3f, 0xd8, 0xa1, 0x56, 1, 2, 3, 4, 5, 6, 7, 8, 9, 10, 11, 12, 13, 14, 15, 16, 17, 18, 19, 20, 21, 22},
		append(append([]byte{0x10, 0x81, 0x81, 0x05, 0, 0, 0, 0, 0, 0, 0, 1, 0x00, 0x02},
			[]byte{0, 0, 0, 0, 0, 0, 0, 2, 0, 0, 0, 3, 0x00, 0x40}...),
			[]byte{0, 0, 0, 0, 0, 0, 0, 3, 0, 0, 0, 4, 0x00, 0x50}...),
	}
	hand = append(hand, append([]byte{0x10, 0x01}, hand[len(hand)-1][4:]...)) // the same index slab, non-root
	for _, h := range hand {
		pool = append(pool, baseReg{id1, h, regKind(h)})
		if v0, ok := toV0(h); ok {
			pool = append(pool, baseReg{id1, v0, regKind(v0)})
		}
	}
	atree.VerifSetThreshold(1024)
	for _, b := range pool {
		st.Hit("base:" + b.kind)
	}
	for _, k := range []string{"v1-data-root", "v1-data", "v1-meta-root", "v1-meta", "v1-storable", "v0-data-root", "v0-data", "v0-meta-root", "v0-meta",
		"v1-mdata-root", "v1-mdata", "v1-mmeta-root", "v1-mmeta", "v1-group", "v0-mdata-root", "v0-mdata", "v0-mmeta-root", "v0-mmeta", "v0-group",
		"v1-data-root-inl", "v1-mdata-root-inl"} {
		if st.Dist["base:"+k] == 0 {
			st.HarnessErr = "malformed stream has no base register of kind " + k
		}
	}

	// 2. the unmodified registers
	e.w.L("CFG malformed base=%d", len(pool))
	for _, b := range pool {
		o := e.emitDEC(b.id, b.data)
		e.emitHDR(b.data)
		if o.class != "ok" {
			e.violation("C07", fmt.Sprintf("valid %s register does not decode: %s", b.kind, hex.EncodeToString(b.data)))
		}
	}

	caseNo := 0
	var lastOutcome decOutcome
	one := func(id atree.SlabID, data []byte, how string) string {
		caseNo++
		e.step = caseNo
		o := e.emitDEC(id, data)
		lastOutcome = o
		st.Hit("mut:" + how)
		if caseNo%4 == 0 || len(data) < 4 {
			e.emitHDR(data)
		} else {
			h := guardedHeader(data)
			if h.class == "PANIC" || h.class == "TIMEOUT" {
				e.emitHDR(data)
			}
		}
		// whatever the decoder accepts must survive re-encoding without panicking
		if o.class == "ok" {
			e.reencodeAccepted(id, data, o)
			e.childAddressOracle(id, data, o)
		}
		return o.class
	}

	// 3. truncation at every length (all registers up to 400 bytes, two per kind beyond that)
	longDone := map[string]int{}
	for _, b := range pool {
		if len(b.data) > 400 {
			if longDone[b.kind] >= 1 {
				continue
			}
			longDone[b.kind]++
		}
		for n := 0; n < len(b.data); n++ {
			one(b.id, b.data[:n], "trunc-all")
		}
	}

	// 4. every value of each of the two head bytes
	for i, b := range pool {
		if i%3 != int(cfg.Seed)%3 && len(pool) > 12 {
			continue
		}
		for v := 0; v < 256; v++ {
			for k := 0; k < 2; k++ {
				m := append([]byte(nil), b.data...)
				m[k] = byte(v)
				one(b.id, m, "head-all")
			}
		}
	}

	// 5. random mutants, one or two mutation rounds each
	nMut := int(6000 * cfg.Scale)
	for i := 0; i < nMut; i++ {
		b := pool[rng.Intn(len(pool))]
		if len(b.data) > 700 && rng.Intn(3) != 0 {
			b = pool[rng.Intn(len(pool))]
		}
		m, how := mutate(rng, b.data, pool)
		if rng.Intn(4) == 0 {
			var how2 string
			m, how2 = mutate(rng, m, pool)
			how += "+" + how2
			st.Hit("mut:double")
			how = "double"
		}
		id := b.id
		if rng.Intn(10) == 0 {
			id = hx.MkIDn(rng.Uint64(), rng.Uint64())
		}
		one(id, m, how)
		if len(st.Violations) >= 50 {
			break
		}
	}

	// 5b. registers built from the slab grammar with per-field valid / boundary / invalid choices
	// (grammar.go); most of them are accepted, a rejected one fails exactly one check
	nGram := int(24000 * cfg.Scale)
	gramOK, gramSeen := 0, map[string]bool{}
	for i := 0; i < nGram && len(st.Violations) < 50; i++ {
		data, devs := genRegister(cfg.Seed*1000003+int64(i), i%3 == 2)
		if gramSeen[string(data)] {
			continue
		}
		gramSeen[string(data)] = true
		id := hx.MkIDn(0x0102030405060708, uint64(1+i%200))
		class := one(id, data, "grammar")
		st.Hit("gram:" + class)
		if class == "ok" {
			gramOK++
			st.Hit("gram:ok:" + regKind(data))
		}
		if len(devs) == 0 {
			st.Hit("gram:dev:none:" + class)
		}
		// the generator's own verdict (grammarlabel.go)
		switch label := gramLabel(devs); {
		case label == "valid":
			st.Hit("gram:label:valid:" + class)
			if class != "ok" {
				e.violation("C07", fmt.Sprintf("DecodeSlab rejects (%s %s) a %s register the slab grammar built from valid and boundary-valid fields only (deviations %v): %s",
					class, lastOutcome.detail, regKind(data), devs, hex.EncodeToString(data)))
			}
		case label != "":
			st.Hit("gram:label:invalid:" + class)
			if class == "ok" {
				e.violation("C07", fmt.Sprintf("DecodeSlab accepts a %s register with one invalid field (%s: %s; every other field valid) as %s: %s",
					regKind(data), devs[0], gramInvalidDevs[devs[0]], lastOutcome.dump, hex.EncodeToString(data)))
			}
		}
		for _, d := range devs {
			st.Hit("gram:dev:" + d + ":" + class)
		}
	}
	if n := len(gramSeen); n > 0 {
		st.Samples = append(st.Samples, fmt.Sprintf("grammar-aware registers: %d distinct, %d accepted (%d%%)", n, gramOK, 100*gramOK/n))
		if 100*gramOK < 30*n && st.HarnessErr == "" && len(st.Violations) == 0 {
			st.HarnessErr = fmt.Sprintf("grammar-aware generator: only %d of %d registers accepted (< 30%%)", gramOK, n)
		}
	}

	// 6. the CBOR library's validator against the model's, on generated items and their mutants
	nCBR := int(4000 * cfg.Scale)
	for i := 0; i < nCBR; i++ {
		var item []byte
		switch {
		case i%10 == 0:
			item = nestCBOR(rng, 29+rng.Intn(8)) // around the nesting limit of 32
		case i%10 == 1 && len(pool) > 0: // what the slab decoders hand to the library
			b := pool[rng.Intn(len(pool))].data
			if len(b) > 2 {
				item = append([]byte(nil), b[2+rng.Intn(len(b)-2):]...)
			}
		default:
			item = genCBOR(rng, 0, nil)
		}
		switch rng.Intn(5) {
		case 0:
			if len(item) > 0 {
				item = item[:rng.Intn(len(item)+1)]
			}
		case 1:
			if len(item) > 0 {
				item[rng.Intn(len(item))] ^= 1 << uint(rng.Intn(8))
			}
		case 2:
			item = append(item, genCBOR(rng, 3, nil)...) // extraneous data is allowed after the item
		}
		e.emitCBR(item)
	}

	// 7. cbor.Unmarshal into a uint64 (the index of a type-info reference) against the model's
	nUMI := int(1500 * cfg.Scale)
	for i := 0; i < nUMI; i++ {
		item := genUMI(rng)
		if rng.Intn(12) == 0 && len(item) > 0 {
			item[rng.Intn(len(item))] ^= 1 << uint(rng.Intn(8))
		}
		e.emitUMI(item)
	}

	st.Programs = len(pool)
	st.Ops = caseNo
	st.TraceLines = w.Lines
	st.Dist["DEC"] = e.nDEC
	st.Dist["HDR"] = e.nHDR
	st.Dist["CBR"] = e.nCBR
	st.Dist["skipped"] = e.nSkip
	st.Distinct = e.nDEC
	st.Samples = append(st.Samples, fmt.Sprintf("bases=%d cases=%d DEC=%d HDR=%d skipped=%d panics=%d ok=%d err=%d",
		len(pool), caseNo, e.nDEC, e.nHDR, e.nSkip, e.panics, st.Dist["dec:ok"], st.Dist["dec:err"]))
	return st
}
