package main

import (
	"fmt"
	"math/rand"

	"github.com/onflow/atree"

	"verifharness/hx"
)

// containerValueID: the value ID of the container inside v (under any number of wrappers).
func containerValueID(v atree.Value) (atree.ValueID, bool) {
	for {
		w, ok := v.(atree.WrapperValue)
		if !ok {
			break
		}
		v, _ = w.UnwrapAtreeValue()
	}
	switch c := v.(type) {
	case *atree.Array:
		return c.ValueID(), true
	case *atree.OrderedMap:
		return c.ValueID(), true
	}
	return atree.ValueID{}, false
}

// roErrNames: the refusal of a mutation of an element handed out by a read-only iterator names the
// ELEMENT that was mutated and the CONTAINER whose iterator handed it out, in that order (sweep s2,
// mutant ROe1: the two identifiers swapped).
func roErrNames(err error, elem atree.Value, pa *atree.Array, pm *atree.OrderedMap) string {
	el, ok := containerValueID(elem)
	if !ok {
		return fmt.Sprintf("the mutated element is a %T", elem)
	}
	var parent atree.ValueID
	if pa != nil {
		parent = pa.ValueID()
	} else {
		parent = pm.ValueID()
	}
	return hx.ErrNames(err, "ReadOnlyIteratorElementMutation", hx.VIDStr(el), hx.VIDStr(parent))
}

// ------------------------------------------------------------------------------------------------
// Stream "iter", part 4 (sweep s2, mutants MRO5, RO1, MRO1, ROk1): the read-only enumerations of part 3
// over parents whose child containers sit under WRAPPERS (Some(child), Some(Some(child))) and - map
// parents - whose KEYS are containers (arrays and maps, wrapped 0..2 times, inlined in the key slot or a
// separate slab).  No model: implementation oracles.
//
//   (a) every container handed out by a read-only enumeration - as (part of) a value or as (part of) a
//       key - is mutated after unwrapping: the mutation must be refused with
//       ReadOnlyIteratorElementMutationError naming that container as the element and the parent as the
//       container, the mutation callback for keys resp. values - if one was given - called once with the
//       key resp. value that was handed out, no slab of the parent's tree stored, and after dropping the
//       storage the committed parent reads back unchanged;
//   (b) the wrapped child VALUES are mutated through every mutable enumeration: served, visible in the
//       parent (live and after commit + reload), VerifyArray / VerifyMap accept the result.

var iterNestXRequired = []string{
	"nestx:ro:arr:IterateReadOnly", "nestx:ro:arr:IterateReadOnlyWithMutationCallback", "nestx:ro:arr:IterateReadOnlyRange",
	"nestx:ro:arr:IterateReadOnlyRangeWithMutationCallback", "nestx:ro:arr:ReadOnlyIterator", "nestx:ro:arr:ReadOnlyIteratorWithMutationCallback",
	"nestx:ro:arr:ReadOnlyRangeIterator", "nestx:ro:arr:ReadOnlyRangeIteratorWithMutationCallback",
	"nestx:ro:map:IterateReadOnly", "nestx:ro:map:IterateReadOnlyWithMutationCallback", "nestx:ro:map:IterateReadOnlyKeys",
	"nestx:ro:map:IterateReadOnlyKeysWithMutationCallback", "nestx:ro:map:IterateReadOnlyValues", "nestx:ro:map:IterateReadOnlyValuesWithMutationCallback",
	"nestx:ro:map:ReadOnlyIterator.Next", "nestx:ro:map:ReadOnlyIterator.NextKey", "nestx:ro:map:ReadOnlyIterator.NextValue",
	"nestx:ro:map:ReadOnlyIteratorWithMutationCallback.Next",
	"nestx:refused:wrapped-value:wrap=1", "nestx:refused:wrapped-value:wrap=2", "nestx:refused:key:wrap=0", "nestx:refused:key:wrap=1", "nestx:refused:key:wrap=2",
	"nestx:refused:key:inlined", "nestx:refused:key:standalone", "nestx:refused:value:inlined", "nestx:refused:value:standalone",
	"nestx:key-callback-called", "nestx:value-callback-called",
	"nestx:mut:arr:Iterate", "nestx:mut:arr:Iterator", "nestx:mut:map:Iterate", "nestx:mut:map:IterateValues", "nestx:mut:map:Iterator.Next", "nestx:mut:after-reload",
}

func wrapSome(v atree.Value, n int) atree.Value {
	for i := 0; i < n; i++ {
		v = hx.SomeValue{V: v}
	}
	return v
}

// unwrapSomeN strips the harness's wrappers and counts them.
func unwrapSomeN(v atree.Value) (atree.Value, int) {
	n := 0
	for {
		s, ok := v.(hx.SomeValue)
		if !ok {
			return v, n
		}
		v, n = s.V, n+1
	}
}

// xKeyHash / xKeyCompare: hash-input provider and comparator for maps whose keys are plain values or
// (wrapped) containers; a container key is identified by its value ID and its number of wrappers.
func xKeyHash(v atree.Value, buf []byte) ([]byte, error) {
	u, n := unwrapSomeN(v)
	if vid, ok := containerValueID(u); ok {
		return append([]byte{0xC0, byte(n)}, vid[:]...), nil
	}
	if n != 0 {
		return nil, fmt.Errorf("hash input: wrapped %T", u)
	}
	return hx.HashInput(u, buf)
}

func xKeyCompare(st atree.SlabStorage, v atree.Value, s atree.Storable) (bool, error) {
	u, n := unwrapSomeN(v)
	sn := 0
	for {
		w, ok := s.(hx.SomeStorable)
		if !ok {
			break
		}
		s, sn = w.S, sn+1
	}
	vid, isCont := containerValueID(u)
	if !isCont {
		if n != 0 || sn != 0 {
			return false, nil
		}
		switch x := s.(type) {
		case hx.TV:
			return hx.CompareKey(st, u, x)
		case atree.SlabIDStorable:
			// a reference: a large plain key, or a container key that is a separate slab
			sl, found, err := st.Retrieve(atree.SlabID(x))
			if err != nil || !found {
				return false, err
			}
			if _, isStorable := sl.(*atree.StorableSlab); !isStorable {
				return false, nil
			}
			return hx.CompareKey(st, u, x)
		}
		return false, nil
	}
	if n != sn {
		return false, nil
	}
	var id atree.SlabID
	switch x := s.(type) {
	case atree.SlabIDStorable:
		id = atree.SlabID(x)
	case atree.ArraySlab:
		id = x.SlabID()
	case atree.MapSlab:
		id = x.SlabID()
	default:
		return false, nil
	}
	return id.String() == vid.String(), nil
}

type xSlot struct {
	keyTV   hx.TV    // plain key (map parents)
	keyC    *inChild // container key (map parents) under keyWrap wrappers
	keyWrap int
	keyID   string
	plain   hx.TV    // plain value (Size 0: the value is a container)
	child   *inChild // container value under wrap wrappers
	wrap    int
	valID   string
}

type xEnv struct {
	*inEnv
	xs []xSlot
}

func (e *xEnv) slotOfKey(k atree.Value) (*xSlot, string) {
	u, n := unwrapSomeN(k)
	if vid, ok := containerValueID(u); ok {
		for i := range e.xs {
			if e.xs[i].keyC != nil && e.xs[i].keyID == vid.String() {
				if e.xs[i].keyWrap != n {
					return nil, fmt.Sprintf("key container %s handed out under %d wrappers, it was inserted under %d", vid, n, e.xs[i].keyWrap)
				}
				return &e.xs[i], ""
			}
		}
		return nil, fmt.Sprintf("key container %s is not a key of the parent", vid)
	}
	tv, ok := u.(hx.TV)
	if !ok || n != 0 {
		return nil, fmt.Sprintf("key %v (%T under %d wrappers) is not a key of the parent", k, u, n)
	}
	for i := range e.xs {
		if e.xs[i].keyC == nil && e.xs[i].keyTV == tv {
			return &e.xs[i], ""
		}
	}
	return nil, fmt.Sprintf("plain key %v is not a key of the parent", tv)
}

// slotOfValue finds the slot of a container value (by identity); plain values are matched by content.
func (e *xEnv) slotOfValue(v atree.Value) (*xSlot, string) {
	u, n := unwrapSomeN(v)
	if vid, ok := containerValueID(u); ok {
		for i := range e.xs {
			if e.xs[i].child != nil && e.xs[i].valID == vid.String() {
				if e.xs[i].wrap != n {
					return nil, fmt.Sprintf("child %s handed out under %d wrappers, it was inserted under %d", vid, n, e.xs[i].wrap)
				}
				return &e.xs[i], ""
			}
		}
		return nil, fmt.Sprintf("container %s is not a value of the parent", vid)
	}
	tv, ok := u.(hx.TV)
	if !ok || n != 0 {
		return nil, fmt.Sprintf("value %v (%T under %d wrappers) is not a value of the parent", v, u, n)
	}
	for i := range e.xs {
		if e.xs[i].child == nil && e.xs[i].plain == tv {
			return &e.xs[i], ""
		}
	}
	return nil, fmt.Sprintf("plain value %v is not a value of the parent", tv)
}

func (e *xEnv) build() bool {
	n := 6 + e.rng.Intn(24)
	var err error
	if e.isMap {
		e.pm, err = atree.NewMap(e.ps, e.addr, e.builder(), hx.TI(1))
	} else {
		e.pa, err = atree.NewArray(e.ps, e.addr, hx.TI(1))
	}
	if err != nil {
		e.st.HarnessErr = err.Error()
		return false
	}
	_, _, _, _, _, maxKey := atree.VerifThresholds()
	for i := 0; i < n; i++ {
		var sl xSlot
		var val atree.Value
		// value: plain or a wrapped container
		if e.rng.Intn(3) == 0 {
			sl.plain = e.tv(uint32(3 + e.rng.Intn(20)))
			val = sl.plain
		} else {
			v, c, err := e.newChild(e.ps, e.rng.Intn(2) == 0, e.childSizeFor())
			if err != nil {
				e.st.HarnessErr = err.Error()
				return false
			}
			vid, _ := containerValueID(v)
			sl.child, sl.wrap, sl.valID = c, 1+e.rng.Intn(2), vid.String()
			val = wrapSome(v, sl.wrap)
		}
		if !e.isMap {
			if err := e.pa.Append(val); err != nil {
				e.st.HarnessErr = err.Error()
				return false
			}
			e.xs = append(e.xs, sl)
			continue
		}
		// key: plain, or a container under 0..2 wrappers (mostly small enough to be inlined in the key slot)
		var key atree.Value
		if e.rng.Intn(2) == 0 {
			sl.keyTV = e.tv(uint32(3 + e.rng.Intn(8)))
			key = sl.keyTV
		} else {
			size := e.rng.Intn(4)
			if e.rng.Intn(3) == 0 {
				size = int(maxKey/5) + 2 + e.rng.Intn(4) // more than the key slot takes inline
			}
			v, c, err := e.newChild(e.ps, e.rng.Intn(2) == 0, size)
			if err != nil {
				e.st.HarnessErr = err.Error()
				return false
			}
			vid, _ := containerValueID(v)
			sl.keyC, sl.keyWrap, sl.keyID = c, e.rng.Intn(3), vid.String()
			key = wrapSome(v, sl.keyWrap)
		}
		if _, err := e.pm.Set(xKeyCompare, xKeyHash, key, val); err != nil {
			e.viol(fmt.Sprintf("Set(%T key under %d wrappers, %T value under %d wrappers) on the parent map failed: %s", key, sl.keyWrap, val, sl.wrap, errLine(err)))
			return false
		}
		e.xs = append(e.xs, sl)
	}
	return !e.failed
}

// checkParentX compares the parent (on any storage) with the shadow: every slot is present, wrapped as
// inserted, and holds what the shadow says.
func (e *xEnv) checkParentX(when string, pa *atree.Array, pm *atree.OrderedMap) {
	checkVal := func(i int, v atree.Value, sl *xSlot) bool {
		u, n := unwrapSomeN(v)
		if sl.child == nil {
			if tv, _ := u.(hx.TV); n != 0 || tv != sl.plain {
				e.viol(fmt.Sprintf("%s: slot %d holds %v, shadow %v", when, i, v, sl.plain))
				return false
			}
			return true
		}
		if n != sl.wrap {
			e.viol(fmt.Sprintf("%s: child in slot %d read under %d wrappers, inserted under %d", when, i, n, sl.wrap))
			return false
		}
		if d := e.sameChild(u, sl.child); d != "" {
			e.viol(fmt.Sprintf("%s: child in slot %d %s", when, i, d))
			return false
		}
		return true
	}
	if pa != nil {
		if pa.Count() != uint64(len(e.xs)) {
			e.viol(fmt.Sprintf("%s: parent array has %d elements, shadow %d", when, pa.Count(), len(e.xs)))
			return
		}
		for i := range e.xs {
			v, err := pa.Get(uint64(i))
			if err != nil {
				e.viol(fmt.Sprintf("%s: Get(%d): %s", when, i, errLine(err)))
				return
			}
			if !checkVal(i, v, &e.xs[i]) {
				return
			}
		}
		if err := atree.VerifyArray(pa, e.addr, hx.TI(1), tyEqual, hx.HashInput, true); err != nil {
			e.viol(when + ": VerifyArray(parent): " + errLine(err))
		}
		return
	}
	if pm.Count() != uint64(len(e.xs)) {
		e.viol(fmt.Sprintf("%s: parent map has %d entries, shadow %d", when, pm.Count(), len(e.xs)))
		return
	}
	seen := 0
	err := pm.IterateReadOnly(func(k, v atree.Value) (bool, error) {
		sl, d := e.slotOfKey(k)
		if sl == nil {
			e.viol(when + ": " + d)
			return false, nil
		}
		if sl.keyC != nil {
			ku, _ := unwrapSomeN(k)
			if d := e.sameChild(ku, sl.keyC); d != "" {
				e.viol(fmt.Sprintf("%s: key container %s %s", when, sl.keyID, d))
				return false, nil
			}
		}
		seen++
		return checkVal(seen-1, v, sl), nil
	})
	if err != nil {
		e.viol(when + ": IterateReadOnly(parent): " + errLine(err))
		return
	}
	if !e.failed && seen != len(e.xs) {
		e.viol(fmt.Sprintf("%s: parent map enumerates %d entries, shadow %d", when, seen, len(e.xs)))
	}
	if !e.failed {
		if err := atree.VerifyMap(pm, e.addr, hx.TI(1), tyEqual, xKeyHash, true); err != nil {
			e.viol(when + ": VerifyMap(parent): " + errLine(err))
		}
	}
}

func (e *xEnv) reopenX() (*hx.RecStorage, *atree.Array, *atree.OrderedMap, bool) { return e.reopen() }

// attempt mutates container cv (handed out by a read-only enumeration of the parent, as or inside a key
// or a value `handed`) and applies oracle (a).  cbVals: the calls of the matching mutation callback so
// far (nil: none was given).
func (e *xEnv) attempt(kind, role string, handed atree.Value, c *inChild, wraps int, pa *atree.Array, pm *atree.OrderedMap, cbVals *[]atree.Value, otherCb *[]atree.Value) bool {
	cv, _ := unwrapSomeN(handed)
	inl := childInlined(cv)
	before, otherBefore := 0, 0
	if cbVals != nil {
		before = len(*cbVals)
	}
	if otherCb != nil {
		otherBefore = len(*otherCb)
	}
	shadowCopy := *c
	err, name, mustRefuse := e.mutateChild(cv, &shadowCopy, false, 0)
	where := fmt.Sprintf("%s: %s on the container handed out as %s under %d wrapper(s) (inlined=%v) by a read-only enumeration", kind, name, role, wraps, inl)
	if !mustRefuse {
		if err != nil {
			e.viol(where + " failed: " + errLine(err))
			return false
		}
		// (the storage is dropped without a commit: the shadow does not follow)
		e.st.Hit("observation:readonly-iterator:SetType-on-standalone-child-is-not-refused")
		return true
	}
	if err == nil {
		e.viol(where + " was NOT refused")
		return false
	}
	if k := hx.ErrKind(err); k != "ReadOnlyIteratorElementMutation:Fatal" {
		e.viol(fmt.Sprintf("%s failed with %s (%s), want ReadOnlyIteratorElementMutation:Fatal", where, k, errLine(err)))
		return false
	}
	if d := roErrNames(err, cv, pa, pm); d != "" {
		e.viol(where + " was refused, but " + d)
		return false
	}
	state := "standalone"
	if inl {
		state = "inlined"
	}
	if role == "key" {
		e.st.Hit(fmt.Sprintf("nestx:refused:key:wrap=%d", wraps))
		e.st.Hit("nestx:refused:key:" + state)
	} else {
		e.st.Hit(fmt.Sprintf("nestx:refused:wrapped-value:wrap=%d", wraps))
		e.st.Hit("nestx:refused:value:" + state)
	}
	if cbVals != nil {
		if len(*cbVals) != before+1 || (*cbVals)[before] != handed {
			e.viol(fmt.Sprintf("%s was refused, but the %s mutation callback was called %d time(s) with the %s that was handed out (want once)", where, role, len(*cbVals)-before, role))
			return false
		}
		e.st.Hit("nestx:" + role + "-callback-called")
	}
	if otherCb != nil && len(*otherCb) != otherBefore {
		e.viol(fmt.Sprintf("%s was refused, but the mutation callback of the OTHER half of the entry was called", where))
		return false
	}
	return true
}

func (e *xEnv) readOnlyAttemptsX() {
	n := len(e.xs)
	kinds := []string{"IterateReadOnly", "IterateReadOnlyWithMutationCallback", "IterateReadOnlyRange", "IterateReadOnlyRangeWithMutationCallback",
		"ReadOnlyIterator", "ReadOnlyIteratorWithMutationCallback", "ReadOnlyRangeIterator", "ReadOnlyRangeIteratorWithMutationCallback"}
	if e.isMap {
		kinds = []string{"IterateReadOnly", "IterateReadOnlyWithMutationCallback", "IterateReadOnlyKeys", "IterateReadOnlyKeysWithMutationCallback",
			"IterateReadOnlyValues", "IterateReadOnlyValuesWithMutationCallback", "ReadOnlyIterator.Next", "ReadOnlyIterator.NextKey",
			"ReadOnlyIterator.NextValue", "ReadOnlyIteratorWithMutationCallback.Next"}
	}
	for _, kind := range kinds {
		if e.failed {
			return
		}
		rec, pa, pm, ok := e.reopenX()
		if !ok {
			return
		}
		var parentTree map[atree.SlabID]bool
		if e.isMap {
			parentTree = treeIDs(rec, atree.VerifMapRoot(pm))
		} else {
			parentTree = treeIDs(rec, atree.VerifArrayRoot(pa))
		}
		rec.Reset()
		var keyCalls, valCalls []atree.Value
		keyCb := func(v atree.Value) { keyCalls = append(keyCalls, v) }
		valCb := func(v atree.Value) { valCalls = append(valCalls, v) }
		withCB := len(kind) > 20 && (kind[len(kind)-20:] == "WithMutationCallback" || kind == "ReadOnlyIteratorWithMutationCallback.Next")
		var kc, vc *[]atree.Value
		if withCB {
			kc, vc = &keyCalls, &valCalls
		}
		visited := 0
		visitVal := func(v atree.Value) bool {
			sl, d := e.slotOfValue(v)
			if sl == nil {
				e.viol(kind + ": " + d)
				return false
			}
			if sl.child == nil || e.rng.Intn(4) == 0 {
				return true
			}
			return e.attempt(kind, "value", v, sl.child, sl.wrap, pa, pm, vc, kc)
		}
		visitKey := func(k atree.Value) bool {
			sl, d := e.slotOfKey(k)
			if sl == nil {
				e.viol(kind + ": " + d)
				return false
			}
			if sl.keyC == nil || e.rng.Intn(4) == 0 {
				return true
			}
			return e.attempt(kind, "key", k, sl.keyC, sl.keyWrap, pa, pm, kc, vc)
		}
		one := func(v atree.Value) (bool, error) { visited++; return visitVal(v), nil }
		oneKey := func(k atree.Value) (bool, error) { visited++; return visitKey(k), nil }
		pair := func(k, v atree.Value) (bool, error) {
			visited++
			if e.rng.Intn(2) == 0 {
				return visitKey(k) && visitVal(v), nil
			}
			return visitVal(v) && visitKey(k), nil
		}
		lo, hi := 0, n
		var err error
		func() {
			defer func() {
				if r := recover(); r != nil {
					err = fmt.Errorf("PANIC: %v", r)
				}
			}()
			driveArr := func(it atree.ArrayIterator, ierr error) error {
				if ierr != nil {
					return ierr
				}
				for {
					v, err := it.Next()
					if err != nil || v == nil {
						return err
					}
					if resume, _ := one(v); !resume {
						return nil
					}
				}
			}
			if !e.isMap {
				if kind == "IterateReadOnlyRange" || kind == "IterateReadOnlyRangeWithMutationCallback" || kind == "ReadOnlyRangeIterator" || kind == "ReadOnlyRangeIteratorWithMutationCallback" {
					lo = e.rng.Intn(n/2 + 1)
					hi = n - e.rng.Intn(n/3+1)
				}
				switch kind {
				case "IterateReadOnly":
					err = pa.IterateReadOnly(one)
				case "IterateReadOnlyWithMutationCallback":
					err = pa.IterateReadOnlyWithMutationCallback(one, valCb)
				case "IterateReadOnlyRange":
					err = pa.IterateReadOnlyRange(uint64(lo), uint64(hi), one)
				case "IterateReadOnlyRangeWithMutationCallback":
					err = pa.IterateReadOnlyRangeWithMutationCallback(uint64(lo), uint64(hi), one, valCb)
				case "ReadOnlyIterator":
					err = driveArr(pa.ReadOnlyIterator())
				case "ReadOnlyIteratorWithMutationCallback":
					err = driveArr(pa.ReadOnlyIteratorWithMutationCallback(valCb))
				case "ReadOnlyRangeIterator":
					err = driveArr(pa.ReadOnlyRangeIterator(uint64(lo), uint64(hi)))
				default:
					err = driveArr(pa.ReadOnlyRangeIteratorWithMutationCallback(uint64(lo), uint64(hi), valCb))
				}
				return
			}
			driveMap := func(it atree.MapIterator, ierr error, step byte) error {
				if ierr != nil {
					return ierr
				}
				for {
					var k, v atree.Value
					var err error
					var resume bool
					switch step {
					case 'N':
						k, v, err = it.Next()
						if err != nil || k == nil {
							return err
						}
						resume, _ = pair(k, v)
					case 'K':
						k, err = it.NextKey()
						if err != nil || k == nil {
							return err
						}
						resume, _ = oneKey(k)
					default:
						v, err = it.NextValue()
						if err != nil || v == nil {
							return err
						}
						resume, _ = one(v)
					}
					if !resume {
						return nil
					}
				}
			}
			switch kind {
			case "IterateReadOnly":
				err = pm.IterateReadOnly(pair)
			case "IterateReadOnlyWithMutationCallback":
				err = pm.IterateReadOnlyWithMutationCallback(pair, keyCb, valCb)
			case "IterateReadOnlyKeys":
				err = pm.IterateReadOnlyKeys(oneKey)
			case "IterateReadOnlyKeysWithMutationCallback":
				err = pm.IterateReadOnlyKeysWithMutationCallback(oneKey, keyCb)
			case "IterateReadOnlyValues":
				err = pm.IterateReadOnlyValues(one)
			case "IterateReadOnlyValuesWithMutationCallback":
				err = pm.IterateReadOnlyValuesWithMutationCallback(one, valCb)
			case "ReadOnlyIterator.Next":
				it, ierr := pm.ReadOnlyIterator()
				err = driveMap(it, ierr, 'N')
			case "ReadOnlyIterator.NextKey":
				it, ierr := pm.ReadOnlyIterator()
				err = driveMap(it, ierr, 'K')
			case "ReadOnlyIterator.NextValue":
				it, ierr := pm.ReadOnlyIterator()
				err = driveMap(it, ierr, 'V')
			default:
				it, ierr := pm.ReadOnlyIteratorWithMutationCallback(keyCb, valCb)
				err = driveMap(it, ierr, 'N')
			}
		}()
		if e.isMap {
			e.st.Hit("nestx:ro:map:" + kind)
		} else {
			e.st.Hit("nestx:ro:arr:" + kind)
		}
		if e.failed {
			return
		}
		if err != nil {
			e.viol(fmt.Sprintf("%s over a parent of %d elements with mutation attempts on wrapped children / container keys failed: %s", kind, n, errLine(err)))
			return
		}
		if visited != hi-lo {
			e.viol(fmt.Sprintf("%s over [%d,%d): visited %d elements", kind, lo, hi, visited))
			return
		}
		for _, ef := range rec.Effs {
			if ef.Kind != 'a' && parentTree[ef.ID] {
				e.viol(fmt.Sprintf("%s: a refused mutation wrote slab %s of the PARENT's tree (effects %s)", kind, hx.IDStr(ef.ID), hx.NetEffect(rec.Effs)))
				return
			}
		}
		_, pa2, pm2, ok := e.reopenX()
		if !ok {
			return
		}
		e.checkParentX("after dropping the storage used for "+kind, pa2, pm2)
	}
}

// mutableMutationsX: (b) the wrapped child values mutated through the mutable enumerations.
func (e *xEnv) mutableMutationsX() {
	kinds := []string{"Iterate", "Iterator"}
	if e.isMap {
		kinds = []string{"Iterate", "IterateValues", "Iterator.Next"}
	}
	for _, kind := range kinds {
		if e.failed {
			return
		}
		visited := 0
		visit := func(v atree.Value) (bool, error) {
			visited++
			sl, d := e.slotOfValue(v)
			if sl == nil {
				e.viol("mutable " + kind + ": " + d)
				return false, nil
			}
			if sl.child == nil {
				return true, nil
			}
			cv, _ := unwrapSomeN(v)
			for j := 1 + e.rng.Intn(3); j > 0; j-- {
				err, name, _ := e.mutateChild(cv, sl.child, true, e.rng.Intn(3)-1)
				if err != nil {
					e.viol(fmt.Sprintf("mutable %s: %s on the child handed out under %d wrapper(s) failed: %s", kind, name, sl.wrap, errLine(err)))
					return false, nil
				}
			}
			return true, nil
		}
		pair := func(k, v atree.Value) (bool, error) {
			if sl, d := e.slotOfKey(k); sl == nil {
				e.viol("mutable " + kind + ": " + d)
				return false, nil
			}
			return visit(v)
		}
		var err error
		func() {
			defer func() {
				if r := recover(); r != nil {
					err = fmt.Errorf("PANIC: %v", r)
				}
			}()
			switch {
			case !e.isMap && kind == "Iterate":
				err = e.pa.Iterate(visit)
			case !e.isMap:
				it, ierr := e.pa.Iterator()
				for err = ierr; err == nil; {
					var v atree.Value
					v, err = it.Next()
					if err != nil || v == nil {
						break
					}
					if resume, _ := visit(v); !resume {
						break
					}
				}
			case kind == "Iterate":
				err = e.pm.Iterate(xKeyCompare, xKeyHash, pair)
			case kind == "IterateValues":
				err = e.pm.IterateValues(xKeyCompare, xKeyHash, visit)
			default:
				it, ierr := e.pm.Iterator(xKeyCompare, xKeyHash)
				for err = ierr; err == nil; {
					var k, v atree.Value
					k, v, err = it.Next()
					if err != nil || k == nil {
						break
					}
					if resume, _ := pair(k, v); !resume {
						break
					}
				}
			}
		}()
		if e.isMap {
			e.st.Hit("nestx:mut:map:" + kind)
		} else {
			e.st.Hit("nestx:mut:arr:" + kind)
		}
		if e.failed {
			return
		}
		if err != nil {
			e.viol(fmt.Sprintf("mutable %s with mutations of the wrapped children failed: %s", kind, errLine(err)))
			return
		}
		if visited != len(e.xs) {
			e.viol(fmt.Sprintf("mutable %s with mutations of the wrapped children visited %d of %d elements", kind, visited, len(e.xs)))
			return
		}
		e.checkParentX("after mutating wrapped children through mutable "+kind, e.pa, e.pm)
		if e.failed || !e.commit() {
			return
		}
		_, pa2, pm2, ok := e.reopenX()
		if !ok {
			return
		}
		e.checkParentX("after mutating wrapped children through mutable "+kind+", commit and reload", pa2, pm2)
		e.st.Hit("nestx:mut:after-reload")
	}
}

// iterNestedExotic is one program of part 4.
func iterNestedExotic(cfg *Config, st *hx.Stats, w *hx.W, rng *rand.Rand, p int) {
	T := []uint32{256, 512, 1024, 300}[(p/2)%4]
	atree.VerifSetThreshold(T)
	_, _, _, _, maxElem, _ := atree.VerifThresholds()
	e := &xEnv{inEnv: &inEnv{cfg: cfg, st: st, w: w, rng: rng, prog: p, T: T, ledger: hx.NewLedger(), isMap: p%2 == 1, maxElem: maxElem,
		addr: hx.MkAddr(uint64(1 + rng.Intn(3))), nextPay: 1000}}
	e.ps = hx.NewStorage(e.ledger)
	if !e.build() {
		return
	}
	e.checkParentX("after building", e.pa, e.pm)
	if e.failed || !e.commit() {
		return
	}
	if _, pa2, pm2, ok := e.reopenX(); ok && !e.failed {
		e.checkParentX("after commit and reload", pa2, pm2)
	}
	for round := 0; round < 2 && !e.failed; round++ {
		e.readOnlyAttemptsX()
		if e.failed {
			return
		}
		e.mutableMutationsX()
	}
}
