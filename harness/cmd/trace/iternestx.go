package main

import (
	"fmt"

	"github.com/onflow/atree"

	"verifharness/hx"
)

// containerValueID: the value ID of the container inside v (under any number of wrappers).
func containerValueID(v atree.Value) (atree.ValueID, bool) {
	for {
		w, ok := v.(atree.WrapperValue)
		if !ok {
			break
		}
		v, _ = w.UnwrapAtreeValue()
	}
	switch c := v.(type) {
	case *atree.Array:
		return c.ValueID(), true
	case *atree.OrderedMap:
		return c.ValueID(), true
	}
	return atree.ValueID{}, false
}

// roErrNames: the refusal of a mutation of an element handed out by a read-only iterator names the
// ELEMENT that was mutated and the CONTAINER whose iterator handed it out, in that order (sweep s2,
// mutant ROe1: the two identifiers swapped).
func roErrNames(err error, elem atree.Value, pa *atree.Array, pm *atree.OrderedMap) string {
	el, ok := containerValueID(elem)
	if !ok {
		return fmt.Sprintf("the mutated element is a %T", elem)
	}
	var parent atree.ValueID
	if pa != nil {
		parent = pa.ValueID()
	} else {
		parent = pm.ValueID()
	}
	return hx.ErrNames(err, "ReadOnlyIteratorElementMutation", hx.VIDStr(el), hx.VIDStr(parent))
}
