package main

import (
	"errors"
	"fmt"
	"math/rand"
	"sort"
	"strings"

	"github.com/onflow/atree"

	"verifharness/hx"
)

func init() { streams["callbackfail"] = callbackFailStream }

var errCallback = errors.New("caller-supplied component failed")

// deltaKeys renders the pending write set: every key, with a marker for pending deletions.
func deltaKeys(ps *atree.PersistentSlabStorage) string {
	d := atree.VerifDeltas(ps)
	ids := make([]atree.SlabID, 0, len(d))
	for id := range d {
		ids = append(ids, id)
	}
	hx.SortIDs(ids)
	parts := make([]string, len(ids))
	for i, id := range ids {
		parts[i] = hx.IDStr(id)
		if d[id] == nil {
			parts[i] += "=nil"
		}
	}
	return fmt.Sprintf("deltas(%d)[%s]", ps.Deltas(), strings.Join(parts, " "))
}

// cbMap is one map of a callback-failure program.
type cbMap struct {
	name  string
	m     *atree.OrderedMap
	b     atree.DigesterBuilder
	hip   atree.HashInputProvider
	nKeys int
}

func (c *cbMap) key(rng *rand.Rand) hx.TV { return hx.TV{Size: 9, Pay: uint64(1 + rng.Intn(c.nKeys+20))} }

type cbEnv struct {
	st       *hx.Stats
	cfg      *Config
	rng      *rand.Rand
	p        int
	T        uint32
	ledger   *hx.Ledger
	ps       *atree.PersistentSlabStorage
	rec      *hx.RecStorage
	maps     []*cbMap
	arr      *atree.Array
	arrLen   int
	distinct map[string]bool
	poisoned bool // a storage failure after the lookup phase left a half-applied change: stop using these containers
}

func (e *cbEnv) viol(what string) {
	e.st.Violations = append(e.st.Violations, hx.Violation{Property: "C18", Stream: "callbackfail", Seed: e.cfg.Seed, Program: e.p, What: what})
}

// snapshot: every slab of every container as the storage serves it now + the exact pending write set.
func (e *cbEnv) snapshot() string {
	var parts []string
	for _, c := range e.maps {
		parts = append(parts, hx.DumpTree(e.ps, atree.VerifMapRoot(c.m)))
	}
	parts = append(parts, hx.DumpTree(e.ps, atree.VerifArrayRoot(e.arr)), deltaKeys(e.ps), e.counts())
	return strings.Join(parts, "\n")
}

// check: a request during which an injected failure fired must fail with an External error that
// keeps the cause, must not have called SlabStorage, and must leave every container and the pending
// write set as they were.
func (e *cbEnv) check(what string, fired bool, err error, before string) {
	e.st.Ops++
	if !fired {
		e.rec.Reset()
		return // the failing call was not reached
	}
	e.st.Hit(what)
	defer e.rec.Reset()
	if err == nil {
		e.viol(what + ": the caller-supplied component failed but the request succeeded")
		return
	}
	e.distinct[what+hx.ErrKind(err)] = true
	if hx.ErrCategory(err) != "External" {
		e.viol(fmt.Sprintf("%s: failure of a caller-supplied component reported as %s", what, hx.ErrKind(err)))
	}
	if !errors.Is(err, errCallback) && !errors.Is(err, hx.ErrInjected) {
		e.viol(fmt.Sprintf("%s: the cause is not preserved in the error chain: %v", what, err))
	}
	if len(e.rec.Effs) != 0 {
		e.viol(fmt.Sprintf("%s: a failed request touched storage: %s", what, hx.NetEffect(e.rec.Effs)))
	}
	if after := e.snapshot(); after != before {
		e.viol(fmt.Sprintf("%s: a failed request changed a container or the pending write set", what))
	}
}

// callbackFailStream injects a failure into each caller-supplied component (key comparator,
// hash-input provider, ledger read, SlabStorage read) at each call made during map and array requests
// and iterations, and checks that the failure surfaces as an External error and leaves the containers
// and the pending write set untouched.  It also asks for the undefined identifier and probes the
// collision limit with a failing comparator (audit a2 / F4: counted as an observation).
func callbackFailStream(cfg *Config) *hx.Stats {
	st := hx.NewStats("callbackfail", cfg.Seed)
	rng := rand.New(rand.NewSource(cfg.Seed*977 + 1))
	nProg := int(6 * cfg.Scale)
	if nProg < 1 {
		nProg = 1
	}
	distinct := map[string]bool{}
	for p := 0; p < nProg && unsignedViolations(st) <= 20 && st.HarnessErr == ""; p++ {
		e := &cbEnv{st: st, cfg: cfg, rng: rng, p: p, T: []uint32{256, 512, 1024}[p%3], distinct: distinct}
		if !e.setup() {
			break
		}
		st.Programs++
		for trial := 0; trial < 260 && unsignedViolations(st) <= 20 && st.HarnessErr == ""; trial++ {
			e.trial(trial)
			if e.poisoned {
				// a half-applied change was left behind (observation): continue on fresh containers
				e = &cbEnv{st: st, cfg: cfg, rng: rng, p: p, T: e.T, distinct: distinct}
				if !e.setup() {
					break
				}
			}
		}
		if st.HarnessErr != "" {
			break
		}
		e.undefinedIDs()
		e.limitProbe()
		e.partialChangeProbe()
		e.extended() // FX13: rejectext.go, rejectstore.go, rejectopen.go, rejectdigest.go
	}
	if st.HarnessErr == "" && unsignedViolations(st) == 0 {
		var missing []string
		required := append(append(append(append(append([]string{}, callbackRequired...), callbackRequiredExt...), callbackRequiredStore...), callbackRequiredOpen...), callbackRequiredDigest...)
		for _, t := range required {
			if st.Dist[t] == 0 {
				missing = append(missing, t)
			}
		}
		if len(missing) > 0 {
			st.HarnessErr = "callback failures never reached: " + strings.Join(missing, "; ")
		}
	}
	st.Distinct = len(distinct) + 1
	st.Samples = append(st.Samples, "three maps (collision groups on 3 levels incl. external groups; mostly non-colliding keys over several slabs; the library's digester) + a 200-element array; comparator failing at call 1..4 of Get/Has/Remove/Set and of mutable iterations, hash-input provider failing (first call, re-hash of the resident key, iterations), ledger reads and SlabStorage reads failing for unloaded slabs during map and array requests, slab iterator and batch preload; undefined identifier requests; collision-limit probe with a failing comparator")
	atree.VerifSetThreshold(1024)
	atree.VerifSetMaxCollisionLimitPerDigest(255)
	return st
}

// injected failures that every run must have seen fire (otherwise: harness error)
var callbackRequired = []string{
	"map.Get/comparator/sparse", "map.Set/comparator/sparse", "map.Remove/comparator/sparse", "map.Has/comparator/sparse",
	"map.Get/comparator/collide", "map.Set/comparator/collide", "map.Remove/comparator/collide",
	"map.Get/hash-input/real", "map.Set/hash-input/real", "map.Remove/hash-input/real", "map.Has/hash-input/real",
	"map.Set/hash-input/collide", "map.Remove/hash-input/sparse",
	"map.Iterate/hash-input", "map.IterateKeys/hash-input", "map.IterateValues/hash-input", "map.Iterate/comparator",
	"map.Set/hash-input-of-resident-key",
	"map.Get/ledger-read", "map.Set/ledger-read", "map.Remove/ledger-read", "map.Has/ledger-read",
	"map.Get/storage-read", "map.Set/storage-read", "map.Remove/storage-read",
	"array.Get/ledger-read", "array.Set/ledger-read", "array.Insert/ledger-read", "array.Remove/ledger-read",
	"storage.SlabIterator/ledger-read", "storage.BatchPreload/ledger-read",
	"undefined-id:NewArrayWithRootID", "undefined-id:NewMapWithRootID", "undefined-id:Store", "undefined-id:Remove", "undefined-id:Retrieve",
	"limit-probe:control-refused",
	"partial-change-probe:map.Remove", "partial-change-probe:array.Remove",
}

func (e *cbEnv) setup() bool {
	atree.VerifSetThreshold(e.T)
	atree.VerifSetMaxCollisionLimitPerDigest(255)
	e.ledger = hx.NewLedger()
	e.ps = hx.NewStorage(e.ledger)
	e.rec = hx.NewRecStorage(e.ps)
	rng := e.rng
	salt := uint64(rng.Int63())
	// collide: collisions on every level (lookups call the comparator several times; groups get exported)
	collide := &hx.TableDigesterBuilder{L: 3, CallHip: true, Fn: func(k hx.TV, l uint) uint64 {
		return mix(k.Pay, uint64(l), salt) % []uint64{6, 2, 2}[l] * 7
	}}
	// sparse: most keys alone under their first-level digest (singleElement.Get/Set/Remove meet the
	// comparator), one key in eight shares a digest with others
	sparse := &hx.TableDigesterBuilder{L: 3, CallHip: true, Fn: func(k hx.TV, l uint) uint64 {
		if l == 0 {
			if k.Pay%8 == 0 {
				return (k.Pay % 24) * 1000003
			}
			return k.Pay*1000003 + 1
		}
		return mix(k.Pay, uint64(l), salt) % 3
	}}
	mk := func(name string, addr uint64, b atree.DigesterBuilder, n int) bool {
		m, err := atree.NewMap(e.rec, hx.MkAddr(addr), b, hx.TI(3))
		if err != nil {
			e.st.HarnessErr = err.Error()
			return false
		}
		for i := 0; i < n; i++ {
			v := hx.TV{Size: 12, Pay: uint64(1000 + i)}
			if i%37 == 5 {
				v = hx.TV{Size: e.T, Pay: uint64(i)} // a value in its own slab
			}
			if _, err := m.Set(hx.CompareKey, hx.HashInput, hx.TV{Size: 9, Pay: uint64(i + 1)}, v); err != nil {
				e.st.HarnessErr = "setup: " + err.Error()
				return false
			}
		}
		e.maps = append(e.maps, &cbMap{name: name, m: m, b: b, hip: hx.HashInput, nKeys: n})
		return true
	}
	if !mk("collide", 1, collide, 40+rng.Intn(60)) || !mk("sparse", 2, sparse, 120+rng.Intn(200)) ||
		!mk("real", 3, atree.NewDefaultDigesterBuilder(), 60+rng.Intn(120)) {
		return false
	}
	a, err := atree.NewArray(e.rec, hx.MkAddr(1), hx.TI(4))
	if err != nil {
		e.st.HarnessErr = err.Error()
		return false
	}
	for i := 0; i < 200; i++ {
		_ = a.Append(hx.TV{Size: 20, Pay: uint64(i)})
	}
	e.arr, e.arrLen = a, 200
	if err := e.ps.FastCommit(2); err != nil {
		e.st.HarnessErr = "setup commit: " + err.Error()
		return false
	}
	e.rec.Reset()
	return true
}

// mapRequest issues one request; kind in Get Has Remove Set.
func mapRequest(c *cbMap, kind string, cmp atree.ValueComparator, hip atree.HashInputProvider, k hx.TV, pay uint64) error {
	switch kind {
	case "Get":
		_, err := c.m.Get(cmp, hip, k)
		return err
	case "Has":
		_, err := c.m.Has(cmp, hip, k)
		return err
	case "Remove":
		_, _, err := c.m.Remove(cmp, hip, k)
		return err
	}
	_, err := c.m.Set(cmp, hip, k, hx.TV{Size: 12, Pay: pay})
	return err
}

var mapKinds = []string{"Get", "Has", "Remove", "Set"}

func (e *cbEnv) trial(trial int) {
	rng := e.rng
	c := e.maps[rng.Intn(len(e.maps))]
	kind := mapKinds[rng.Intn(4)]
	k := c.key(rng)
	failAt := 1 + rng.Intn(4)
	calls, fired := 0, false
	cmp := func(s atree.SlabStorage, v atree.Value, st atree.Storable) (bool, error) {
		calls++
		if calls == failAt {
			fired = true
			return false, errCallback
		}
		return hx.CompareKey(s, v, st)
	}
	hcalls := 0
	hip := func(v atree.Value, buf []byte) ([]byte, error) {
		hcalls++
		if hcalls == failAt {
			fired = true
			return nil, errCallback
		}
		return hx.HashInput(v, buf)
	}
	e.rec.Reset()
	switch trial % 8 {
	case 0, 1:
		before := e.snapshot()
		err := mapRequest(c, kind, cmp, c.hip, k, uint64(trial))
		e.check("map."+kind+"/comparator/"+c.name, fired, err, before)
	case 2:
		failAt = 1
		before := e.snapshot()
		err := mapRequest(c, kind, hx.CompareKey, hip, k, uint64(trial))
		e.check("map."+kind+"/hash-input/"+c.name, fired, err, before)
	case 3:
		// mutable iterations look every key up again: both callbacks are called once per element
		failAt = 1 + rng.Intn(12)
		before := e.snapshot()
		var err error
		what := ""
		n := 0
		switch rng.Intn(4) {
		case 0:
			what = "map.Iterate/hash-input"
			err = c.m.Iterate(hx.CompareKey, hip, func(k, v atree.Value) (bool, error) { n++; return true, nil })
		case 1:
			what = "map.IterateKeys/hash-input"
			err = c.m.IterateKeys(hx.CompareKey, hip, func(k atree.Value) (bool, error) { n++; return true, nil })
		case 2:
			what = "map.IterateValues/hash-input"
			err = c.m.IterateValues(hx.CompareKey, hip, func(v atree.Value) (bool, error) { n++; return true, nil })
		default:
			what = "map.Iterate/comparator"
			err = c.m.Iterate(cmp, c.hip, func(k, v atree.Value) (bool, error) { n++; return true, nil })
		}
		e.check(what, fired, err, before)
	case 4:
		e.ledgerRead(c, kind, k, trial)
	case 5:
		e.arrayLedgerRead(trial)
	case 6:
		// the SlabStorage handed to the container fails its n-th read
		before := e.snapshot()
		e.rec.Reset()
		e.rec.Retrieves, e.rec.FailRetrieveAt, e.rec.EffsAtFail = 0, 1+rng.Intn(3), 0
		err := mapRequest(c, kind, hx.CompareKey, c.hip, k, uint64(trial))
		fired = e.rec.Retrieves >= e.rec.FailRetrieveAt
		e.rec.FailRetrieveAt = 0
		if fired && e.rec.EffsAtFail > 0 {
			// the read that failed came AFTER the lookup: the request had already changed and stored a
			// slab and was fetching a sibling to merge / rebalance with (see partialChangeProbe)
			e.afterLookupFailure("map."+kind, err)
			return
		}
		e.check("map."+kind+"/storage-read", fired, err, before)
	case 7:
		if trial%16 == 7 {
			e.residentKeyRehash(trial)
		} else {
			e.storageWideReads(trial)
		}
	}
}

// nonRootRegisters: every register except the containers' roots (which the handles hold).
func (e *cbEnv) failAllButRoots() {
	roots := map[atree.SlabID]bool{e.arr.SlabID(): true}
	for _, c := range e.maps {
		roots[c.m.SlabID()] = true
	}
	for id := range e.ledger.Seg {
		if !roots[id] {
			e.ledger.ReadFail[id] = true
		}
	}
	e.ledger.ReadFailHits = 0
}

// ledgerRead: the slabs below the root are not loaded and the ledger fails to deliver them.
func (e *cbEnv) ledgerRead(c *cbMap, kind string, k hx.TV, trial int) {
	before := e.snapshot()
	if e.ps.Deltas() != 0 {
		// make every slab readable from the ledger only
		if err := e.ps.FastCommit(2); err != nil {
			e.st.HarnessErr = "commit: " + err.Error()
			return
		}
		before = e.snapshot()
	}
	e.ps.DropCache()
	e.failAllButRoots()
	e.rec.Reset()
	err := mapRequest(c, kind, hx.CompareKey, c.hip, k, uint64(trial))
	fired := e.ledger.ReadFailHits > 0
	e.ledger.ReadFail = map[atree.SlabID]bool{}
	e.check("map."+kind+"/ledger-read", fired, err, before)
}

func (e *cbEnv) arrayLedgerRead(trial int) {
	before := e.snapshot()
	if e.ps.Deltas() != 0 {
		if err := e.ps.FastCommit(2); err != nil {
			e.st.HarnessErr = "commit: " + err.Error()
			return
		}
		before = e.snapshot()
	}
	e.ps.DropCache()
	e.failAllButRoots()
	e.rec.Reset()
	n := int(e.arr.Count())
	i := uint64(e.rng.Intn(n))
	var err error
	kind := []string{"Get", "Set", "Insert", "Remove"}[trial/8%4]
	switch kind {
	case "Get":
		_, err = e.arr.Get(i)
	case "Set":
		_, err = e.arr.Set(i, hx.TV{Size: 20, Pay: uint64(trial)})
	case "Insert":
		err = e.arr.Insert(i, hx.TV{Size: 20, Pay: uint64(trial)})
	default:
		_, err = e.arr.Remove(i)
	}
	fired := e.ledger.ReadFailHits > 0
	e.ledger.ReadFail = map[atree.SlabID]bool{}
	e.check("array."+kind+"/ledger-read", fired, err, before)
}

// storageWideReads: slab iteration and batch preload over registers the ledger fails to deliver.
func (e *cbEnv) storageWideReads(trial int) {
	before := e.snapshot()
	if e.ps.Deltas() != 0 {
		if err := e.ps.FastCommit(2); err != nil {
			e.st.HarnessErr = "commit: " + err.Error()
			return
		}
		before = e.snapshot()
	}
	e.ps.DropCache()
	e.failAllButRoots()
	e.rec.Reset()
	ids := e.ledger.SortedIDs()
	var err error
	what := ""
	if trial%3 == 0 {
		what = "storage.BatchPreload/ledger-read"
		workers := []int{1, 2, 8}[e.rng.Intn(3)]
		if e.rng.Intn(2) == 0 && len(ids) > 8 {
			ids = ids[:8] // below the threshold of the parallel path
		}
		err = e.ps.BatchPreload(ids, workers)
	} else {
		what = "storage.SlabIterator/ledger-read"
		// load the tree slabs (not the value slabs their elements refer to), then iterate
		e.ledger.ReadFail = map[atree.SlabID]bool{}
		_ = e.snapshot()
		e.failAllButRoots()
		_, err = e.ps.SlabIterator()
	}
	fired := e.ledger.ReadFailHits > 0
	e.ledger.ReadFail = map[atree.SlabID]bool{}
	// a preload may have cached the slabs it could read; containers and write set must be unchanged
	e.check(what, fired, err, before)
}

// residentKeyRehash: a new key meets a single resident key with the same first-level digest; the
// library asks the hash-input provider for the RESIDENT key's input (second call) to build the group.
func (e *cbEnv) residentKeyRehash(trial int) {
	bucketHip := func(fail *bool, failAt int) atree.HashInputProvider {
		n := 0
		return func(v atree.Value, buf []byte) ([]byte, error) {
			n++
			if n == failAt {
				*fail = true
				return nil, errCallback
			}
			return hx.HashInputBucket(v, buf)
		}
	}
	m, err := atree.NewMap(e.rec, hx.MkAddr(4), atree.NewDefaultDigesterBuilder(), hx.TI(9))
	if err != nil {
		e.st.HarnessErr = err.Error()
		return
	}
	c := &cbMap{name: "bucket", m: m, nKeys: 0}
	e.maps = append(e.maps, c)
	defer func() {
		_ = m.PopIterate(func(k, v atree.Storable) {})
		_ = e.ps.Remove(m.SlabID())
		e.maps = e.maps[:len(e.maps)-1]
		e.rec.Reset()
	}()
	if _, err := m.Set(hx.CompareKey, hx.HashInputBucket, hx.TV{Size: 9, Pay: 7}, hx.TV{Size: 12, Pay: 1}); err != nil {
		e.st.HarnessErr = "setup: " + err.Error()
		return
	}
	e.rec.Reset()
	fired := false
	before := e.snapshot()
	_, err = m.Set(hx.CompareKey, bucketHip(&fired, 2), hx.TV{Size: 9, Pay: 14}, hx.TV{Size: 12, Pay: 2})
	e.check("map.Set/hash-input-of-resident-key", fired, err, before)
}

// undefinedIDs: requests naming the undefined identifier are refused with the identifier error
// (a fatal error by the table of errors.go) and change nothing.
func (e *cbEnv) undefinedIDs() {
	want := "SlabIDUndefined:Fatal"
	before := e.snapshot()
	e.rec.Reset()
	one := func(what string, err error) {
		e.st.Ops++
		e.st.Hit("undefined-id:" + what)
		e.distinct["undef"+what+hx.ErrKind(err)] = true
		if err == nil {
			e.viol(what + " with the undefined identifier was accepted")
		} else if hx.ErrKind(err) != want {
			e.viol(fmt.Sprintf("%s with the undefined identifier reported %s, want %s", what, hx.ErrKind(err), want))
		}
		if len(e.rec.Effs) != 0 && what != "Store" && what != "Remove" {
			e.viol(what + " with the undefined identifier touched storage: " + hx.NetEffect(e.rec.Effs))
		}
		if after := e.snapshot(); after != before {
			e.viol(what + " with the undefined identifier changed a container or the pending write set")
		}
		e.rec.Reset()
	}
	_, err := atree.NewArrayWithRootID(e.rec, atree.SlabIDUndefined)
	one("NewArrayWithRootID", err)
	_, err = atree.NewMapWithRootID(e.rec, atree.SlabIDUndefined, e.maps[0].b)
	one("NewMapWithRootID", err)
	s, _, _ := e.ps.Retrieve(e.arr.SlabID())
	one("Store", e.ps.Store(atree.SlabIDUndefined, s))
	one("Remove", e.ps.Remove(atree.SlabIDUndefined))
	// a lookup of the undefined identifier finds nothing (and must not fail in any other way)
	got, found, err := e.ps.Retrieve(atree.SlabIDUndefined)
	e.st.Ops++
	e.st.Hit("undefined-id:Retrieve")
	if found || got != nil {
		e.viol("Retrieve of the undefined identifier found a slab")
	}
	if err != nil && hx.ErrKind(err) != want {
		e.viol("Retrieve of the undefined identifier reported " + hx.ErrKind(err))
	}
	if after := e.snapshot(); after != before {
		e.viol("Retrieve of the undefined identifier changed a container or the pending write set")
	}
	if e.ps.RetrieveIfLoaded(atree.SlabIDUndefined) != nil {
		e.viol("RetrieveIfLoaded of the undefined identifier found a slab")
	}
}

// limitProbe (audit a2 / F4): the collision limit is reached and a NEW colliding key is set with a
// comparator (or a storage read) that fails once, at call 1..4.  hkeyElements.Set probes the resident
// element with elem.Get and acts on KeyNotFound only: any other error of the probe is dropped, the
// insert proceeds and the limit is bypassed.  This is what the unchanged library does; it is counted
// as an observation, not raised as a violation.  Whatever the outcome, the map must stay a valid
// dictionary, and a request that does fail must fail as External and change nothing.
func (e *cbEnv) limitProbe() {
	defer atree.VerifSetMaxCollisionLimitPerDigest(255)
	for _, limit := range []uint32{0, 1} {
		for failAt := 1; failAt <= 4; failAt++ {
			for _, external := range []bool{false, true} {
				e.limitProbeOne(limit, failAt, external)
			}
		}
	}
}

func (e *cbEnv) limitProbeOne(limit uint32, failAt int, external bool) {
	atree.VerifSetMaxCollisionLimitPerDigest(255)
	ledger := hx.NewLedger()
	ps := hx.NewStorage(ledger)
	rec := hx.NewRecStorage(ps)
	// every key has first-level digest 5; second level: payload/4 (the resident keys 4, 8, ... differ,
	// the new key 4n+1 meets the last resident key there, so that the probe calls the comparator);
	// third level: the key itself.  NOTE: the limit counts the elements of the first-level group at
	// its own level (distinct second-level digests), not the keys below them.
	b := &hx.TableDigesterBuilder{L: 3, Fn: func(k hx.TV, l uint) uint64 {
		switch l {
		case 0:
			return 5
		case 1:
			return k.Pay / 4
		}
		return k.Pay
	}}
	m, err := atree.NewMap(rec, hx.MkAddr(1), b, hx.TI(3))
	if err != nil {
		e.st.HarnessErr = err.Error()
		return
	}
	vsize := uint32(12)
	if external {
		_, _, _, _, maxElem, _ := atree.VerifThresholds()
		vsize = maxElem / 2 // two members no longer fit inline: the group lives in its own slab
	}
	shadow := map[hx.TV]hx.TV{}
	for i := uint64(1); i <= uint64(limit)+1; i++ {
		k, v := hx.TV{Size: 9, Pay: 4 * i}, hx.TV{Size: vsize, Pay: i}
		if _, err := m.Set(hx.CompareKey, hx.HashInput, k, v); err != nil {
			e.st.HarnessErr = "limit probe setup: " + err.Error()
			return
		}
		shadow[k] = v
	}
	atree.VerifSetMaxCollisionLimitPerDigest(limit)
	snap := func() string { return hx.DumpTree(ps, atree.VerifMapRoot(m)) + "\n" + deltaKeys(ps) }
	newKey := hx.TV{Size: 9, Pay: 4*(uint64(limit)+1) + 1} // collides on the first two levels with the last resident key
	// control: with healthy callbacks the new key is refused and nothing changes
	rec.Reset()
	before := snap()
	_, err = m.Set(hx.CompareKey, hx.HashInput, newKey, hx.TV{Size: vsize, Pay: 99})
	e.st.Ops++
	if hx.ErrKind(err) != "CollisionLimit:Fatal" {
		e.viol(fmt.Sprintf("limit %d: a new colliding key was not refused with the collision-limit error: %s", limit, hx.ErrKind(err)))
		return
	}
	if d := hx.ErrNames(err, "CollisionLimit", limit); d != "" {
		e.viol(fmt.Sprintf("limit %d: a new colliding key was refused, but %s", limit, d))
	}
	e.st.Hit("limit-probe:control-refused")
	if len(rec.Effs) != 0 || snap() != before {
		e.viol(fmt.Sprintf("limit %d: the refused insert changed the map or the pending write set", limit))
	}
	// the same request with a component that fails exactly once
	calls, fired := 0, false
	cmp := func(s atree.SlabStorage, v atree.Value, st atree.Storable) (bool, error) {
		calls++
		if calls == failAt && !external {
			fired = true
			return false, errCallback
		}
		return hx.CompareKey(s, v, st)
	}
	rec.Reset()
	rec.Retrieves, rec.FailRetrieveAt = 0, 0
	if external {
		rec.FailRetrieveAt = failAt
	}
	_, err = m.Set(cmp, hx.HashInput, newKey, hx.TV{Size: vsize, Pay: 99})
	if external {
		fired = rec.Retrieves >= rec.FailRetrieveAt
		rec.FailRetrieveAt = 0
	}
	e.st.Ops++
	comp := "comparator"
	if external {
		comp = "storage-read"
	}
	switch {
	case !fired:
		if hx.ErrKind(err) != "CollisionLimit:Fatal" {
			e.viol(fmt.Sprintf("limit %d: a new colliding key was not refused: %s", limit, hx.ErrKind(err)))
		}
	case err == nil:
		// the failure was swallowed by the probe and the key admitted past the limit
		e.st.Hit("observation:" + comp + "-error-swallowed-in-limit-probe")
		shadow[newKey] = hx.TV{Size: vsize, Pay: 99}
	default:
		e.st.Hit("limit-probe:" + comp + "-failure-reported")
		if hx.ErrCategory(err) != "External" {
			e.viol(fmt.Sprintf("limit %d: %s failure during the insert reported as %s", limit, comp, hx.ErrKind(err)))
		}
		if len(rec.Effs) != 0 || snap() != before {
			e.viol(fmt.Sprintf("limit %d: the failed insert changed the map or the pending write set", limit))
		}
	}
	// whatever happened, the map is still a valid dictionary with the expected content
	if int(m.Count()) != len(shadow) {
		e.viol(fmt.Sprintf("limit %d: count %d after the probe, dictionary has %d", limit, m.Count(), len(shadow)))
	}
	keys := make([]hx.TV, 0, len(shadow))
	for k := range shadow {
		keys = append(keys, k)
	}
	sort.Slice(keys, func(i, j int) bool { return keys[i].Pay < keys[j].Pay })
	for _, k := range keys {
		v, err := m.Get(hx.CompareKey, hx.HashInput, k)
		if tv, _ := v.(hx.TV); err != nil || tv != shadow[k] {
			e.viol(fmt.Sprintf("limit %d: get(%v) after the probe = %v, %v; dictionary has %v", limit, k, v, err, shadow[k]))
		}
	}
	if err := atree.VerifyMap(m, hx.MkAddr(1), hx.TI(3), func(a, b atree.TypeInfo) bool { return a == b }, hx.HashInput, true); err != nil {
		e.viol(fmt.Sprintf("limit %d: VerifyMap after the probe: %v", limit, err))
	}
}

// afterLookupFailure: a storage read failed after the request's lookup phase.  The property only asks
// for the External category here ("an error raised by a caller-supplied component during a lookup");
// on the unchanged library the request is left half-applied (counted as an observation, not raised).
func (e *cbEnv) afterLookupFailure(what string, err error) {
	e.st.Ops++
	e.rec.Reset()
	if err == nil {
		e.viol(what + ": the storage read failed but the request succeeded")
		return
	}
	if hx.ErrCategory(err) != "External" {
		e.viol(fmt.Sprintf("%s: storage read failure after the lookup reported as %s", what, hx.ErrKind(err)))
	}
	e.st.Hit("observation:storage-read-failure-after-lookup-leaves-partial-change")
	e.poisoned = true
}

// partialChangeProbe (directed; observation, not raised): a Remove whose data slab underflows fetches
// a sibling to merge or rebalance with AFTER the element has been taken out and the data slab stored.
// When that read fails the error is returned as External, but the removal is half applied: the slab
// without the element stays in the write set, the parent keeps the stale header in storage and the
// element count is not decremented.  Outside C18's text (the failure is not "during a lookup", the
// request is not rejected because of its arguments); the probe asserts the category and records what
// is left behind.
func (e *cbEnv) partialChangeProbe() {
	atree.VerifSetThreshold(256)
	defer atree.VerifSetThreshold(1024)
	for _, container := range []string{"map", "array"} {
		ledger := hx.NewLedger()
		ps := hx.NewStorage(ledger)
		rec := hx.NewRecStorage(ps)
		b := &hx.TableDigesterBuilder{L: 2, Fn: func(k hx.TV, l uint) uint64 { return k.Pay*1000 + uint64(l) }}
		m, err := atree.NewMap(rec, hx.MkAddr(1), b, hx.TI(3))
		if err != nil {
			e.st.HarnessErr = err.Error()
			return
		}
		a, _ := atree.NewArray(rec, hx.MkAddr(1), hx.TI(4))
		const n = 60
		for i := 1; i <= n; i++ {
			if _, err := m.Set(hx.CompareKey, hx.HashInput, hx.TV{Size: 9, Pay: uint64(i)}, hx.TV{Size: 20, Pay: uint64(i)}); err != nil {
				e.st.HarnessErr = "partial-change probe setup: " + err.Error()
				return
			}
			_ = a.Append(hx.TV{Size: 30, Pay: uint64(i)})
		}
		seen := false
		for i := 1; i <= n && !seen; i++ {
			rec.Reset()
			rec.Retrieves, rec.FailRetrieveAt, rec.EffsAtFail = 0, 2, 0 // read 1: the data slab on the path; read 2: a sibling
			if container == "map" {
				_, _, err = m.Remove(hx.CompareKey, hx.HashInput, hx.TV{Size: 9, Pay: uint64(i)})
			} else {
				_, err = a.Remove(0)
			}
			fired := rec.Retrieves >= 2
			rec.FailRetrieveAt = 0
			e.st.Ops++
			switch {
			case !fired && err != nil:
				e.viol(fmt.Sprintf("partial-change probe: %s.Remove failed without an injected failure: %v", container, err))
				return
			case !fired:
				continue
			case err == nil:
				e.viol(fmt.Sprintf("partial-change probe: a storage read failed during %s.Remove but the request succeeded", container))
				return
			}
			if hx.ErrCategory(err) != "External" {
				e.viol(fmt.Sprintf("partial-change probe: storage read failure during %s.Remove reported as %s", container, hx.ErrKind(err)))
			}
			if rec.EffsAtFail == 0 {
				continue // failed during the descent (deeper tree): nothing may have changed; covered by the trials
			}
			seen = true
			e.st.Hit("partial-change-probe:" + container + ".Remove")
			e.st.Hit("observation:storage-read-failure-after-lookup-leaves-partial-change")
			left := ""
			if container == "map" {
				cnt := 0
				_ = m.IterateReadOnly(func(k, v atree.Value) (bool, error) { cnt++; return true, nil })
				verr := atree.VerifyMap(m, hx.MkAddr(1), hx.TI(3), func(a, b atree.TypeInfo) bool { return a == b }, hx.HashInput, true)
				left = fmt.Sprintf("Count()=%d, elements reachable=%d, storage calls made: %s, VerifyMap: %v", m.Count(), cnt, hx.NetEffect(rec.Effs), verr != nil)
			} else {
				cnt := 0
				_ = a.IterateReadOnly(func(v atree.Value) (bool, error) { cnt++; return true, nil })
				verr := atree.VerifyArray(a, hx.MkAddr(1), hx.TI(4), func(a, b atree.TypeInfo) bool { return a == b }, nil, true)
				left = fmt.Sprintf("Count()=%d, elements reachable=%d, storage calls made: %s, VerifyArray: %v", a.Count(), cnt, hx.NetEffect(rec.Effs), verr != nil)
			}
			if e.p == 0 {
				e.st.Samples = append(e.st.Samples, fmt.Sprintf("observation (not raised): %s.Remove whose sibling read fails after the element was taken out returns %s and leaves: %s", container, hx.ErrKind(err), left))
			}
		}
	}
}
