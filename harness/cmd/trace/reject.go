package main

import (
	"errors"
	"fmt"
	"math/rand"

	"github.com/onflow/atree"

	"verifharness/hx"
)

func init() { streams["callbackfail"] = callbackFailStream }

var errCallback = errors.New("caller-supplied component failed")

// callbackFailStream injects a failure into each caller-supplied component (key comparator,
// hash-input provider, ledger read) at each call made during lookups and checks that the failure
// surfaces as an External error and leaves the container and the pending write set untouched.
func callbackFailStream(cfg *Config) *hx.Stats {
	st := hx.NewStats("callbackfail", cfg.Seed)
	rng := rand.New(rand.NewSource(cfg.Seed*977 + 1))
	viol := func(p int, what string) {
		st.Violations = append(st.Violations, hx.Violation{Property: "C18", Stream: "callbackfail", Seed: cfg.Seed, Program: p, What: what})
	}
	nProg := int(6 * cfg.Scale)
	distinct := map[string]bool{}
	for p := 0; p < nProg; p++ {
		T := []uint32{256, 512, 1024}[p%3]
		atree.VerifSetThreshold(T)
		ledger := hx.NewLedger()
		ps := hx.NewStorage(ledger)
		rec := hx.NewRecStorage(ps)
		// a map with collisions (so that lookups call the comparator several times)
		salt := uint64(rng.Int63())
		b := &hx.TableDigesterBuilder{L: 3, Fn: func(k hx.TV, l uint) uint64 {
			return mix(k.Pay, uint64(l), salt) % []uint64{6, 2, 2}[l] * 7
		}}
		m, err := atree.NewMap(rec, hx.MkAddr(1), b, hx.TI(3))
		if err != nil {
			st.HarnessErr = err.Error()
			return st
		}
		nKeys := 40 + rng.Intn(60)
		for i := 0; i < nKeys; i++ {
			if _, err := m.Set(hx.CompareKey, hx.HashInput, hx.TV{Size: 9, Pay: uint64(i + 1)}, hx.TV{Size: 12, Pay: uint64(1000 + i)}); err != nil {
				st.HarnessErr = "setup: " + err.Error()
				return st
			}
		}
		a, _ := atree.NewArray(rec, hx.MkAddr(1), hx.TI(4))
		for i := 0; i < 200; i++ {
			_ = a.Append(hx.TV{Size: 20, Pay: uint64(i)})
		}
		if err := ps.FastCommit(2); err != nil {
			st.HarnessErr = "setup commit: " + err.Error()
			return st
		}
		st.Programs++
		snapshot := func() string {
			return hx.DumpTree(ps, atree.VerifMapRoot(m)) + "\n" + hx.DumpTree(ps, atree.VerifArrayRoot(a)) +
				fmt.Sprintf("\ndeltas=%d", ps.Deltas())
		}
		fired := false
		check := func(what string, err error, before string) {
			st.Ops++
			st.Hit(what)
			if !fired {
				rec.Reset()
				return // the failing call was not reached
			}
			if err == nil {
				viol(p, what+": the caller-supplied component failed but the request succeeded")
				return
			}
			distinct[what+hx.ErrKind(err)] = true
			if hx.ErrCategory(err) != "External" {
				viol(p, fmt.Sprintf("%s: failure of a caller-supplied component reported as %s", what, hx.ErrKind(err)))
			}
			if !errors.Is(err, errCallback) && !errors.Is(err, hx.ErrInjected) {
				viol(p, fmt.Sprintf("%s: the cause is not preserved in the error chain: %v", what, err))
			}
			if len(rec.Effs) != 0 {
				viol(p, fmt.Sprintf("%s: a failed lookup touched storage: %s", what, hx.NetEffect(rec.Effs)))
			}
			if after := snapshot(); after != before {
				viol(p, fmt.Sprintf("%s: a failed lookup changed the container or the write set", what))
			}
			rec.Reset()
		}
		for trial := 0; trial < 60; trial++ {
			k := hx.TV{Size: 9, Pay: uint64(1 + rng.Intn(nKeys+20))}
			failAt := 1 + rng.Intn(4)
			calls := 0
			cmp := func(s atree.SlabStorage, v atree.Value, st atree.Storable) (bool, error) {
				calls++
				if calls == failAt {
					fired = true
					return false, errCallback
				}
				return hx.CompareKey(s, v, st)
			}
			hip := func(v atree.Value, buf []byte) ([]byte, error) { fired = true; return nil, errCallback }
			fired = false
			before := snapshot()
			rec.Reset()
			switch trial % 6 {
			case 0:
				_, err := m.Get(cmp, hx.HashInput, k)
				check("map.Get/comparator", err, before)
			case 1:
				_, err := m.Has(cmp, hx.HashInput, k)
				check("map.Has/comparator", err, before)
			case 2:
				_, _, err := m.Remove(cmp, hx.HashInput, k)
				check("map.Remove/comparator", err, before)
			case 3:
				// the default digester builder calls the hash-input provider
				dm, err := atree.NewMap(rec, hx.MkAddr(2), atree.NewDefaultDigesterBuilder(), hx.TI(5))
				if err == nil {
					rec.Reset()
					before = snapshot()
					_, err = dm.Get(hx.CompareKey, hip, k)
					check("map.Get/hash-input", err, before)
					_ = ps.Remove(dm.SlabID())
				}
			case 4:
				// ledger read failure while descending an array whose slabs are not loaded
				ps.DropCache()
				before = snapshot()
				ps.DropCache()
				for id := range ledger.Seg {
					if id != a.SlabID() && rng.Intn(3) == 0 {
						ledger.ReadFail[id] = true
					}
				}
				rec.Reset()
				fresh, err := atree.NewArrayWithRootID(rec, a.SlabID())
				if err == nil {
					_, err = fresh.Get(uint64(rng.Intn(200)))
				}
				ledger.ReadFail = map[atree.SlabID]bool{}
				st.Ops++
				st.Hit("array.Get/ledger-read")
				if err != nil {
					distinct["ledger"+hx.ErrKind(err)] = true
					if hx.ErrCategory(err) != "External" {
						viol(p, "array.Get: ledger read failure reported as "+hx.ErrKind(err))
					}
					if len(rec.Effs) != 0 {
						viol(p, "array.Get: failed read touched storage")
					}
				}
				a, _ = atree.NewArrayWithRootID(rec, a.SlabID())
				m, _ = atree.NewMapWithRootID(rec, m.SlabID(), b)
				rec.Reset()
			case 5:
				_, err := m.Set(cmp, hx.HashInput, k, hx.TV{Size: 12, Pay: 7})
				if fired {
					check("map.Set/comparator", err, before)
				} else {
					rec.Reset()
				}
			}
		}
	}
	st.Distinct = len(distinct) + 1
	st.Samples = append(st.Samples, "map with collision groups (3 digest levels, tiny alphabets) + 200-element array; comparator failing at call 1..4 of Get/Has/Remove/Set, hash-input provider failing, ledger reads failing for random unloaded slabs")
	atree.VerifSetThreshold(1024)
	return st
}
