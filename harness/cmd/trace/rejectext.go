package main

// Extension of the callbackfail stream (FX13 item 2): the caller-supplied components that the first
// version never made fail - Value.Storable, Storable.StoredValue, iteration callbacks, the write half of
// a caller-implemented SlabStorage (GenerateSlabID / Remove / Store), a storage failing under read-only
// iteration, a DigesterBuilder / Digester returning raw errors, the element providers of the bulk builds -
// and the refused OPENS (identifier of a non-root slab / of a slab of another kind) and read-only
// iteration over a dangling sibling link.  Every scenario is model-free (no trace lines); every library
// call is wrapped in recover(): a panic is a violation "request panicked".
//
//   rejectext.go    infrastructure; failing Storable (on the stream's own containers, e.check), failing
//                   iteration callbacks, failing StoredValue
//   rejectstore.go  failing storage calls at every call position of splitting / merging / popping / inlining
//                   requests, failing reads under read-only iteration, dangling next link
//   rejectopen.go   NewArrayWithRootID / NewMapWithRootID / Slab.StoredValue for every slab of a storage
//   rejectdigest.go raw-error DigesterBuilder / Digester, failing bulk-build providers

import (
	"errors"
	"fmt"
	"math/rand"
	"runtime/debug"
	"strings"

	"github.com/onflow/atree"

	"verifharness/hx"
)

// sigIteratorFirstKey: OrderedMap.Iterator returns the error of the first key's StoredValue() as it is
// (map.go, `key, err := keyStorable.StoredValue(m.Storage); if err != nil { return nil, err }`): a failure
// of that caller-supplied component reaches the caller without a category.
const sigIteratorFirstKey = "external-category:OrderedMap.Iterator-first-key-StoredValue-unwrapped"

var errPanicked = errors.New("request panicked")

type cbx struct {
	e   *cbEnv
	st  *hx.Stats
	rng *rand.Rand
}

// unsignedViolations counts the violations that are not instances of a recorded finding.
func unsignedViolations(st *hx.Stats) int {
	n := 0
	for _, v := range st.Violations {
		if v.Sig == "" {
			n++
		}
	}
	return n
}

func (x *cbx) stop() bool { return unsignedViolations(x.st) > 20 || x.st.HarnessErr != "" }

func (x *cbx) viol(what string) { x.e.viol(what) }

// finding raises a violation carrying the stable signature of a recorded finding (at most twice per run).
func (x *cbx) finding(sig, what string) {
	x.st.Hit("finding:" + sig)
	if x.st.Dist["finding:"+sig] > 2 {
		return
	}
	x.st.Violations = append(x.st.Violations, hx.Violation{Property: "C18", Stream: "callbackfail", Seed: x.e.cfg.Seed, Program: x.e.p, What: what, Sig: sig})
}

// guard runs one library request; a panic becomes a violation and the error errPanicked.
func (x *cbx) guard(what string, f func() error) (err error) {
	defer func() {
		if r := recover(); r != nil {
			x.viol(fmt.Sprintf("%s: request panicked: %v%s", what, r, libraryFrames(debug.Stack())))
			err = errPanicked
		}
	}()
	return f()
}

// external is the category oracle: a request during which an injected failure was delivered must fail,
// as an External error, with the cause in the chain.  It reports whether all of that held.
func (x *cbx) external(what string, err error) bool {
	x.st.Ops++
	x.st.Hit(what)
	switch {
	case err == errPanicked:
		return false
	case err == nil:
		x.viol(what + ": the caller-supplied component failed but the request succeeded")
		return false
	}
	x.e.distinct[what+hx.ErrKind(err)] = true
	ok := true
	if hx.ErrCategory(err) != "External" {
		x.viol(fmt.Sprintf("%s: failure of a caller-supplied component reported as %s", what, hx.ErrKind(err)))
		ok = false
	}
	if !errors.Is(err, errCallback) && !errors.Is(err, hx.ErrInjected) {
		x.viol(fmt.Sprintf("%s: the cause is not preserved in the error chain: %v", what, err))
		ok = false
	}
	return ok
}

// xStore is a storage of its own for scenarios that must not touch the stream's containers.
type xStore struct {
	ledger *hx.Ledger
	ps     *atree.PersistentSlabStorage
	rec    *hx.RecStorage
	arrays []*atree.Array
	maps   []*atree.OrderedMap
}

func newXStore() *xStore {
	l := hx.NewLedger()
	ps := hx.NewStorage(l)
	return &xStore{ledger: l, ps: ps, rec: hx.NewRecStorage(ps)}
}

// snapshot: every slab of the registered containers, their counts, the pending write set.
func (s *xStore) snapshot() string {
	var parts []string
	for _, a := range s.arrays {
		parts = append(parts, fmt.Sprintf("#%d ", a.Count())+hx.DumpTree(s.ps, atree.VerifArrayRoot(a)))
	}
	for _, m := range s.maps {
		parts = append(parts, fmt.Sprintf("#%d ", m.Count())+hx.DumpTree(s.ps, atree.VerifMapRoot(m)))
	}
	parts = append(parts, deltaKeys(s.ps))
	return strings.Join(parts, "\n")
}

// unchanged is the "nothing changed" oracle on a storage of its own.
func (x *cbx) unchanged(what string, s *xStore, before string) {
	if len(s.rec.Effs) != 0 {
		x.viol(fmt.Sprintf("%s: a failed request touched storage: %s", what, hx.NetEffect(s.rec.Effs)))
	}
	if s.snapshot() != before {
		x.viol(what + ": a failed request changed a container or the pending write set")
	}
	s.rec.Reset()
}

func (e *cbEnv) counts() string {
	var b strings.Builder
	b.WriteString("counts")
	for _, c := range e.maps {
		fmt.Fprintf(&b, " %d", c.m.Count())
	}
	fmt.Fprintf(&b, " %d", e.arr.Count())
	return b.String()
}

// extended runs the FX13 scenarios of one program.  e is a healthy environment (the trial loop replaces
// a poisoned one).
func (e *cbEnv) extended() {
	x := &cbx{e: e, st: e.st, rng: rand.New(rand.NewSource(e.cfg.Seed*7919 + int64(e.p)*131 + 5))}
	defer func() {
		atree.VerifSetThreshold(e.T)
		atree.VerifSetMaxCollisionLimitPerDigest(255)
	}()
	steps := []func(){
		x.failingStorable, x.failingCallbacks, x.failingStoredValue,
		x.failingStorageCalls, x.failingStorageUnderIteration, x.danglingNext,
		x.refusedOpens, x.rawDigester, x.rawDigesterIterations, x.failingProviders,
	}
	for i, f := range steps {
		if x.stop() {
			return
		}
		atree.VerifSetThreshold(e.T)
		// the scenarios guard their requests themselves; this catches a panic in their set-up requests
		_ = x.guard(fmt.Sprintf("callbackfail extension, step %d (set-up request)", i), func() error { f(); return nil })
	}
}

// scenarios of the extension that every run must have reached (appended to callbackRequired)
var callbackRequiredExt = []string{
	// failing Value.Storable
	"array.Set/value-storable", "array.Insert/value-storable", "array.Append/value-storable",
	"map.Set/key-storable/new/collide", "map.Set/key-storable/new/sparse", "map.Set/key-storable/new/real",
	"map.Set/value-storable/new/collide", "map.Set/value-storable/new/sparse", "map.Set/value-storable/new/real",
	"map.Set/value-storable/overwrite/sparse", "map.Set/value-storable/overwrite/real",
	"map.Set/value-storable/overwrite-in-last-level-list",
	"map.Set/key-storable/new-key-meets-single-resident", "map.Set/value-storable/new-key-meets-single-resident",
	// failing callbacks
	"array.Iterate/callback", "array.IterateReadOnly/callback", "array.IterateReadOnlyWithMutationCallback/callback",
	"array.IterateRange/callback", "array.IterateReadOnlyRange/callback", "array.IterateReadOnlyRangeWithMutationCallback/callback",
	"array.IterateReadOnlyLoadedValues/callback",
	"map.Iterate/callback", "map.IterateReadOnly/callback", "map.IterateReadOnlyWithMutationCallback/callback",
	"map.IterateKeys/callback", "map.IterateReadOnlyKeys/callback", "map.IterateReadOnlyKeysWithMutationCallback/callback",
	"map.IterateValues/callback", "map.IterateReadOnlyValues/callback", "map.IterateReadOnlyValuesWithMutationCallback/callback",
	"map.IterateReadOnlyLoadedValues/callback",
	// failing Storable.StoredValue
	"array.Get/stored-value", "array.Get/stored-value-in-storable-slab", "StorableSlab.StoredValue/stored-value",
	"array.Iterate/stored-value", "array.IterateReadOnly/stored-value", "array.IterateRange/stored-value",
	"array.IterateReadOnlyRange/stored-value", "array.IterateReadOnlyLoadedValues/stored-value",
	"map.Get/stored-value", "map.Set/stored-value-of-resident-key",
	"map.IterateReadOnly/stored-value-of-key", "map.IterateReadOnly/stored-value-of-value",
	"map.IterateReadOnlyKeys/stored-value", "map.IterateReadOnlyValues/stored-value", "map.IterateReadOnlyLoadedValues/stored-value",
	"map.Iterate/stored-value", "map.IterateKeys/stored-value", "map.IterateValues/stored-value",
	"map.Iterator/stored-value-of-first-key",
	"SlabIDStorable.StoredValue/storage-read", "array.CopyNonRefSimple/element-copy", "map.CopyNonRefSimple/element-copy",
}

// ---------------------------------------------------------------------------------------------
// failing Value.Storable on the stream's own containers: External, cause preserved, no storage call,
// no change of any dump, count or of the write set (e.check)

func (x *cbx) refused(what string, sw *hx.FailSwitch, f func() error) {
	e := x.e
	e.rec.Reset()
	before := e.snapshot()
	err := x.guard(what, f)
	if err == errPanicked {
		e.rec.Reset()
		return
	}
	e.check(what, sw.Fired, err, before)
}

// presentKeys lists the keys of a map (read-only enumeration).
func (x *cbx) presentKeys(m *atree.OrderedMap) []hx.TV {
	var keys []hx.TV
	_ = x.guard("IterateReadOnlyKeys", func() error {
		return m.IterateReadOnlyKeys(func(k atree.Value) (bool, error) {
			if tv, ok := hx.AsTV(k); ok {
				keys = append(keys, tv)
			}
			return true, nil
		})
	})
	return keys
}

func (x *cbx) failingStorable() {
	e, rng := x.e, x.rng
	fv := func(size uint32, pay uint64) (hx.FV, *hx.FailSwitch) {
		sw := &hx.FailSwitch{At: 1}
		return hx.FV{TV: hx.TV{Size: size, Pay: pay}, OnStorable: sw}, sw
	}
	// arrays (the array has an index-slab root: both slab levels see the refusal)
	for rep := 0; rep < 2 && !x.stop(); rep++ {
		for _, kind := range []string{"Set", "Insert", "Append"} {
			v, sw := fv(20, uint64(rng.Intn(1000)))
			n := e.arr.Count()
			i := uint64(rng.Int63n(int64(n)))
			x.refused("array."+kind+"/value-storable", sw, func() error {
				switch kind {
				case "Set":
					_, err := e.arr.Set(i, v)
					return err
				case "Insert":
					return e.arr.Insert(i, v)
				}
				return e.arr.Append(v)
			})
		}
	}
	// maps
	for _, c := range e.maps {
		if x.stop() {
			return
		}
		set := func(k, v atree.Value) func() error {
			return func() error { _, err := c.m.Set(hx.CompareKey, c.hip, k, v); return err }
		}
		present := x.presentKeys(c.m)
		if len(present) == 0 {
			continue
		}
		for rep := 0; rep < 2; rep++ {
			absent := hx.TV{Size: 9, Pay: uint64(1000000 + rng.Intn(100000))}
			k, sw := fv(absent.Size, absent.Pay)
			x.refused("map.Set/key-storable/new/"+c.name, sw, set(k, hx.TV{Size: 12, Pay: 1}))
			v, sw := fv(12, 2)
			x.refused("map.Set/value-storable/new/"+c.name, sw, set(absent, v))
			v, sw = fv(12, 3)
			x.refused("map.Set/value-storable/overwrite/"+c.name, sw, set(present[rng.Intn(len(present))], v))
		}
		if c.name == "collide" {
			// a key that shares EVERY digest with another present key sits in a last-level list
			byVec := map[string][]hx.TV{}
			for _, k := range present {
				d, err := hx.Digests(c.b, k)
				if err != nil {
					continue
				}
				s := fmt.Sprint(d)
				byVec[s] = append(byVec[s], k)
			}
			vecs := hx.SortedKeys(byVec)
			for _, s := range vecs {
				if ks := byVec[s]; len(ks) >= 2 {
					v, sw := fv(12, 4)
					x.refused("map.Set/value-storable/overwrite-in-last-level-list", sw, set(ks[rng.Intn(len(ks))], v))
					break
				}
			}
		}
	}
	// a new key meets a SINGLE resident key under its first-level digest: the resident element is turned
	// into a group (re-hash) before the new element's storables are asked for
	for _, which := range []string{"key", "value"} {
		m, err := atree.NewMap(e.rec, hx.MkAddr(4), atree.NewDefaultDigesterBuilder(), hx.TI(9))
		if err != nil {
			e.st.HarnessErr = err.Error()
			return
		}
		c := &cbMap{name: "bucket", m: m}
		e.maps = append(e.maps, c)
		func() {
			defer func() {
				_ = m.PopIterate(func(k, v atree.Storable) {})
				_ = e.ps.Remove(m.SlabID())
				e.maps = e.maps[:len(e.maps)-1]
				e.rec.Reset()
			}()
			if _, err := m.Set(hx.CompareKey, hx.HashInputBucket, hx.TV{Size: 9, Pay: 7}, hx.TV{Size: 12, Pay: 1}); err != nil {
				e.st.HarnessErr = "setup: " + err.Error()
				return
			}
			var k, v atree.Value = hx.TV{Size: 9, Pay: 14}, hx.TV{Size: 12, Pay: 2}
			var sw *hx.FailSwitch
			if which == "key" {
				k, sw = fv(9, 14)
			} else {
				v, sw = fv(12, 2)
			}
			x.refused("map.Set/"+which+"-storable/new-key-meets-single-resident", sw, func() error {
				_, err := m.Set(hx.CompareKey, hx.HashInputBucket, k, v)
				return err
			})
		}()
	}
}

// ---------------------------------------------------------------------------------------------
// iteration callbacks returning an error at a random position: External with the cause, the callback is
// not called again, nothing changed (e.check)

type cbCounter struct {
	failAt, calls, after int
	fired                bool
}

func (c *cbCounter) hit() (bool, error) {
	if c.fired {
		c.after++
		return true, nil
	}
	c.calls++
	if c.calls == c.failAt {
		c.fired = true
		return true, errCallback // resume=true next to the error: the error alone must stop the iteration
	}
	return true, nil
}

func (x *cbx) failingCallbacks() {
	e, rng := x.e, x.rng
	run := func(what string, limit int, f func(c *cbCounter) error) {
		if limit < 1 || x.stop() {
			return
		}
		c := &cbCounter{failAt: 1 + rng.Intn(limit)}
		e.rec.Reset()
		before := e.snapshot()
		err := x.guard(what, func() error { return f(c) })
		if err == errPanicked {
			e.rec.Reset()
			return
		}
		if c.after > 0 {
			x.viol(fmt.Sprintf("%s: the callback returned an error at call %d and was called %d more time(s)", what, c.failAt, c.after))
		}
		e.check(what, c.fired, err, before)
	}
	// load every slab (the loaded-value flavours see loaded slabs only)
	a := e.arr
	_ = x.guard("warm-up", func() error { return a.IterateReadOnly(func(atree.Value) (bool, error) { return true, nil }) })
	n := int(a.Count())
	lim := n
	if lim > 60 {
		lim = 60
	}
	av := func(c *cbCounter) atree.ArrayIterationFunc { return func(atree.Value) (bool, error) { return c.hit() } }
	run("array.Iterate/callback", lim, func(c *cbCounter) error { return a.Iterate(av(c)) })
	run("array.IterateReadOnly/callback", lim, func(c *cbCounter) error { return a.IterateReadOnly(av(c)) })
	run("array.IterateReadOnlyWithMutationCallback/callback", lim, func(c *cbCounter) error {
		return a.IterateReadOnlyWithMutationCallback(av(c), func(atree.Value) {})
	})
	run("array.IterateReadOnlyLoadedValues/callback", lim, func(c *cbCounter) error { return a.IterateReadOnlyLoadedValues(av(c)) })
	if n >= 2 {
		lo := uint64(rng.Intn(n - 1))
		hi := lo + 1 + uint64(rng.Intn(n-int(lo)))
		w := int(hi - lo)
		if w > 60 {
			w = 60
		}
		run("array.IterateRange/callback", w, func(c *cbCounter) error { return a.IterateRange(lo, hi, av(c)) })
		run("array.IterateReadOnlyRange/callback", w, func(c *cbCounter) error { return a.IterateReadOnlyRange(lo, hi, av(c)) })
		run("array.IterateReadOnlyRangeWithMutationCallback/callback", w, func(c *cbCounter) error {
			return a.IterateReadOnlyRangeWithMutationCallback(lo, hi, av(c), func(atree.Value) {})
		})
	}
	for _, cm := range e.maps {
		m, hip := cm.m, cm.hip
		_ = x.guard("warm-up", func() error {
			return m.IterateReadOnly(func(atree.Value, atree.Value) (bool, error) { return true, nil })
		})
		lim := int(m.Count())
		if lim > 40 {
			lim = 40
		}
		kv := func(c *cbCounter) atree.MapEntryIterationFunc {
			return func(atree.Value, atree.Value) (bool, error) { return c.hit() }
		}
		el := func(c *cbCounter) atree.MapElementIterationFunc {
			return func(atree.Value) (bool, error) { return c.hit() }
		}
		nop := func(atree.Value) {}
		run("map.Iterate/callback", lim, func(c *cbCounter) error { return m.Iterate(hx.CompareKey, hip, kv(c)) })
		run("map.IterateReadOnly/callback", lim, func(c *cbCounter) error { return m.IterateReadOnly(kv(c)) })
		run("map.IterateReadOnlyWithMutationCallback/callback", lim, func(c *cbCounter) error {
			return m.IterateReadOnlyWithMutationCallback(kv(c), nop, nop)
		})
		run("map.IterateKeys/callback", lim, func(c *cbCounter) error { return m.IterateKeys(hx.CompareKey, hip, el(c)) })
		run("map.IterateReadOnlyKeys/callback", lim, func(c *cbCounter) error { return m.IterateReadOnlyKeys(el(c)) })
		run("map.IterateReadOnlyKeysWithMutationCallback/callback", lim, func(c *cbCounter) error {
			return m.IterateReadOnlyKeysWithMutationCallback(el(c), nop)
		})
		run("map.IterateValues/callback", lim, func(c *cbCounter) error { return m.IterateValues(hx.CompareKey, hip, el(c)) })
		run("map.IterateReadOnlyValues/callback", lim, func(c *cbCounter) error { return m.IterateReadOnlyValues(el(c)) })
		run("map.IterateReadOnlyValuesWithMutationCallback/callback", lim, func(c *cbCounter) error {
			return m.IterateReadOnlyValuesWithMutationCallback(el(c), nop)
		})
		run("map.IterateReadOnlyLoadedValues/callback", lim, func(c *cbCounter) error { return m.IterateReadOnlyLoadedValues(kv(c)) })
	}
}

// ---------------------------------------------------------------------------------------------
// failing Storable.StoredValue: an array and a map (collision table) whose elements, keys and values are
// FS storables sharing one switch; some of them live in StorableSlabs.  External, nothing changed.

func (x *cbx) failingStoredValue() {
	e, rng := x.e, x.rng
	atree.VerifSetThreshold(256)
	s := newXStore()
	sw := &hx.FailSwitch{}
	fv := func(size uint32, pay uint64) hx.FV { return hx.FV{TV: hx.TV{Size: size, Pay: pay}, OnStored: sw} }
	arr, err := atree.NewArray(s.rec, hx.MkAddr(1), hx.TI(4))
	if err != nil {
		e.st.HarnessErr = err.Error()
		return
	}
	const nArr = 60
	big := map[uint64]bool{}
	for i := 0; i < nArr; i++ {
		size := uint32(14)
		if i%7 == 3 {
			size, big[uint64(i)] = 300, true // larger than the inline limit: an FS inside a StorableSlab
		}
		if err := arr.Append(fv(size, uint64(i))); err != nil {
			e.st.HarnessErr = "stored-value setup: " + err.Error()
			return
		}
	}
	// keys 2j and 2j+1 share the first-level digest and differ on the second: a new odd key meets a single
	// resident (even) key and the library asks the RESIDENT key's storable for its value to re-hash it
	b := &hx.TableDigesterBuilder{L: 3, Fn: func(k hx.TV, l uint) uint64 {
		if l == 0 {
			return k.Pay / 2 * 1000
		}
		return k.Pay*10 + uint64(l)
	}}
	m, err := atree.NewMap(s.rec, hx.MkAddr(2), b, hx.TI(3))
	if err != nil {
		e.st.HarnessErr = err.Error()
		return
	}
	const nMap = 40
	for j := 1; j <= nMap; j++ {
		vsize := uint32(12)
		if j%9 == 4 {
			vsize = 300
		}
		if _, err := m.Set(hx.CompareKey, hx.HashInput, fv(9, uint64(2*j)), fv(vsize, uint64(j))); err != nil {
			e.st.HarnessErr = "stored-value setup: " + err.Error()
			return
		}
	}
	s.arrays, s.maps = []*atree.Array{arr}, []*atree.OrderedMap{m}
	s.rec.Reset()

	// one request with the switch armed at `at`
	one := func(what string, at int, f func() error) (fired bool, err error) {
		if x.stop() {
			return false, nil
		}
		before := s.snapshot()
		s.rec.Reset()
		sw.Arm(at)
		err = x.guard(what, f)
		fired = sw.Fired
		sw.Arm(0)
		if !fired || err == errPanicked {
			s.rec.Reset()
			return fired, err
		}
		firstKey := at == 1 && strings.HasPrefix(what, "map.Iterat") && !strings.Contains(what, "ReadOnly")
		if firstKey {
			x.st.Hit("map.Iterator/stored-value-of-first-key") // the mutable iterators fetch the FIRST key's value in OrderedMap.Iterator
		}
		if firstKey && err != nil && hx.ErrCategory(err) == "None" {
			// OrderedMap.Iterator returns that error as it is (recorded finding)
			x.st.Ops++
			x.st.Hit(what)
			x.finding(sigIteratorFirstKey, fmt.Sprintf("%s: the first key's StoredValue() failed and OrderedMap.Iterator returned the raw error (%s): a failure of a caller-supplied component without the External category", what, hx.ErrKind(err)))
		} else {
			x.external(what, err)
		}
		x.unchanged(what, s, before)
		return fired, err
	}

	// arrays
	for rep := 0; rep < 6; rep++ {
		i := uint64(rng.Intn(nArr))
		what := "array.Get/stored-value"
		if big[i] {
			what = "array.Get/stored-value-in-storable-slab"
		}
		one(what, 1, func() error { _, err := arr.Get(i); return err })
	}
	for _, i := range []uint64{3, 0} {
		what := "array.Get/stored-value"
		if big[i] {
			what = "array.Get/stored-value-in-storable-slab"
		}
		one(what, 1, func() error { _, err := arr.Get(i); return err })
	}
	okv := func(atree.Value) (bool, error) { return true, nil }
	one("array.Iterate/stored-value", 1+rng.Intn(nArr), func() error { return arr.Iterate(okv) })
	one("array.IterateReadOnly/stored-value", 1+rng.Intn(nArr), func() error { return arr.IterateReadOnly(okv) })
	lo := uint64(rng.Intn(nArr - 1))
	hi := lo + 1 + uint64(rng.Intn(nArr-int(lo)))
	one("array.IterateRange/stored-value", 1+rng.Intn(int(hi-lo)), func() error { return arr.IterateRange(lo, hi, okv) })
	one("array.IterateReadOnlyRange/stored-value", 1+rng.Intn(int(hi-lo)), func() error { return arr.IterateReadOnlyRange(lo, hi, okv) })
	one("array.IterateReadOnlyLoadedValues/stored-value", 1+rng.Intn(nArr), func() error { return arr.IterateReadOnlyLoadedValues(okv) })
	// every StorableSlab of the storage, asked directly
	ids := make([]atree.SlabID, 0)
	for id, slab := range atree.VerifDeltas(s.ps) {
		if _, ok := slab.(*atree.StorableSlab); ok {
			ids = append(ids, id)
		}
	}
	hx.SortIDs(ids)
	for _, id := range ids {
		slab, _, _ := s.ps.Retrieve(id)
		one("StorableSlab.StoredValue/stored-value", 1, func() error { _, err := slab.StoredValue(s.rec); return err })
	}

	// the reference to such a slab, asked directly, over a storage whose read fails
	for i, id := range ids {
		if i >= 3 || x.stop() {
			break
		}
		what := "SlabIDStorable.StoredValue/storage-read"
		before := s.snapshot()
		s.rec.Reset()
		s.rec.ResetFail()
		s.rec.FailRetrieveAt = 1
		err := x.guard(what, func() error { _, err := atree.SlabIDStorable(id).StoredValue(s.rec); return err })
		s.rec.ResetFail()
		x.external(what, err)
		x.unchanged(what, s, before)
	}
	x.failingElementCopy()
	if x.stop() {
		return
	}

	// maps
	for rep := 0; rep < 4; rep++ {
		k := hx.TV{Size: 9, Pay: uint64(2 * (1 + rng.Intn(nMap)))}
		one("map.Get/stored-value", 1, func() error { _, err := m.Get(hx.CompareKey, hx.HashInput, k); return err })
	}
	okkv := func(atree.Value, atree.Value) (bool, error) { return true, nil }
	for _, at := range []int{1, 2, 1 + rng.Intn(2*nMap)} {
		what := "map.IterateReadOnly/stored-value-of-key"
		if at%2 == 0 {
			what = "map.IterateReadOnly/stored-value-of-value"
		}
		one(what, at, func() error { return m.IterateReadOnly(okkv) })
	}
	for _, at := range []int{1, 1 + rng.Intn(nMap)} {
		one("map.IterateReadOnlyKeys/stored-value", at, func() error { return m.IterateReadOnlyKeys(okv) })
		one("map.IterateReadOnlyValues/stored-value", at, func() error { return m.IterateReadOnlyValues(okv) })
		one("map.IterateReadOnlyLoadedValues/stored-value", at, func() error { return m.IterateReadOnlyLoadedValues(okkv) })
	}
	// mutable iterations: position 1 is the first key fetched by OrderedMap.Iterator
	for _, at := range []int{1, 2, 3, 4, 2 + rng.Intn(2*nMap)} {
		one("map.Iterate/stored-value", at, func() error { return m.Iterate(hx.CompareKey, hx.HashInput, okkv) })
		one("map.IterateKeys/stored-value", at, func() error { return m.IterateKeys(hx.CompareKey, hx.HashInput, okv) })
		one("map.IterateValues/stored-value", at, func() error { return m.IterateValues(hx.CompareKey, hx.HashInput, okv) })
	}
	// a new key meets a single resident key: StoredValue of the RESIDENT key
	for rep := 0; rep < 3; rep++ {
		j := 1 + rng.Intn(nMap)
		k := hx.TV{Size: 9, Pay: uint64(2*j + 1)}
		has, _ := m.Has(hx.CompareKey, hx.HashInput, k)
		if has {
			continue
		}
		one("map.Set/stored-value-of-resident-key", 1, func() error {
			_, err := m.Set(hx.CompareKey, hx.HashInput, k, hx.TV{Size: 12, Pay: 5})
			return err
		})
	}
}

// failingElementCopy: CopyNonRefSimple of a single-slab array / map whose element storables fail in their
// own CopyNonRefSimple().  The library reports Fatal(CopyError(External(cause))): the External error and
// the cause must be in the chain (the outermost category is the copy's own; counted as an observation).
func (x *cbx) failingElementCopy() {
	s := newXStore()
	cs := &hx.FailSwitch{}
	fv := func(size uint32, pay uint64) hx.FV { return hx.FV{TV: hx.TV{Size: size, Pay: pay}, OnCopy: cs} }
	a, err := atree.NewArray(s.rec, hx.MkAddr(1), hx.TI(4))
	for i := 0; i < 4 && err == nil; i++ {
		err = a.Append(fv(10, uint64(i)))
	}
	m, err2 := atree.NewMap(s.rec, hx.MkAddr(2), plainBuilder(), hx.TI(3))
	for k := uint64(1); k <= 3 && err2 == nil; k++ {
		_, err2 = m.Set(hx.CompareKey, hx.HashInput, fv(9, k), fv(10, k))
	}
	if err != nil || err2 != nil {
		x.st.HarnessErr = fmt.Sprintf("copy setup: %v %v", err, err2)
		return
	}
	for _, c := range []string{"array", "map"} {
		for at := 1; at <= 6 && !x.stop(); at++ {
			what := c + ".CopyNonRefSimple/element-copy"
			cs.Arm(at)
			err := x.guard(what, func() error {
				if c == "array" {
					_, err := a.CopyNonRefSimple(hx.MkAddr(5))
					return err
				}
				_, err := m.CopyNonRefSimple(hx.MkAddr(5), plainBuilder())
				return err
			})
			fired := cs.Fired
			cs.Arm(0)
			if !fired || err == errPanicked {
				continue
			}
			x.st.Ops++
			x.st.Hit(what)
			var ext *atree.ExternalError
			switch {
			case err == nil:
				x.viol(what + ": an element's CopyNonRefSimple() failed but the copy succeeded")
			case !errors.As(err, &ext):
				x.viol(fmt.Sprintf("%s: failure of a caller-supplied component reported as %s without an External error in the chain", what, hx.ErrKind(err)))
			case !errors.Is(err, hx.ErrInjected):
				x.viol(fmt.Sprintf("%s: the cause is not preserved in the error chain: %v", what, err))
			case hx.ErrCategory(err) != "External":
				x.st.Hit("observation:element-copy-failure-reported-as-" + hx.ErrCategory(err) + "-around-External")
			}
		}
	}
}
