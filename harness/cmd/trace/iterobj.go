package main

// Stream "iter", part 2 (audit a1 F8): early stop of the callback loops and iterator OBJECTS.
//
//   IT arr h=0 kind=stop fl=<ro|mut|rorange|mutrange|loaded> lo=.. hi=.. ld=<ids> stop=<k>
//       the callback answers resume=false at its k-th call (counting from 0; k in {0, 1, middle,
//       last, count, count+1}).  Oracle: exactly the first min(k+1, n) elements were delivered, no
//       error, the callback was not called again after it had answered false.
//   IT arr h=0 kind=obj fl=<...> lo=.. hi=.. ld=<ids> n=<N>
//       an iterator object: CanMutate(), then N > count successive Next() calls (Next after the end
//       keeps answering nil).  Two objects of different flavours are driven ALTERNATELY.
//   IT map h=0 kind=stop fl=<mut|ro|loaded> call=<N|K|V> ld=<ids> stop=<k>
//   IT map h=0 kind=obj fl=<mut|ro|loaded> ld=<ids> calls=<string over N K V>
//       ONE iterator object, Next / NextKey / NextValue interleaved at random: the i-th call returns
//       the matching component of the i-th pair of the full enumeration (of the loaded subsequence
//       for the loaded-value iterator), nil from the end on.
//
// Every line is followed by the OBS line of the implementation; the Lean replayer runs the model's
// iterator state machines (Array/IterObj.lean, Map/IterObj.lean) on the same request.

import (
	"fmt"
	"math/rand"
	"strings"

	"github.com/onflow/atree"

	"verifharness/hx"
)

// iterRequired: branch tags every full-scale run of stream "iter" must reach (a run in which one of
// the kinds was never exercised is a broken run, not a pass).
var iterRequired = []string{
	"arr:stop:ro", "arr:stop:mut", "arr:stop:rorange", "arr:stop:mutrange", "arr:stop:loaded",
	"arr:stop:pos=first", "arr:stop:pos=second", "arr:stop:pos=middle", "arr:stop:pos=last", "arr:stop:pos=never",
	"arr:obj:ro", "arr:obj:mut", "arr:obj:rorange", "arr:obj:mutrange", "arr:obj:loaded", "arr:obj:empty", "arr:obj:beyond-end",
	"arr:obj:loaded:partial",
	"map:stop:mut:N", "map:stop:ro:N", "map:stop:mut:K", "map:stop:ro:K", "map:stop:mut:V", "map:stop:ro:V", "map:stop:loaded:N",
	"map:stop:pos=first", "map:stop:pos=second", "map:stop:pos=middle", "map:stop:pos=last", "map:stop:pos=never",
	"map:obj:mut", "map:obj:ro", "map:obj:loaded", "map:obj:beyond-end", "map:obj:loaded:partial",
	"map:obj:call=N", "map:obj:call=K", "map:obj:call=V", "map:obj:empty",
	"map:digestMode=5", "map:boundary:first-level-digest=0", "map:boundary:first-level-digest=max",
	"map:shape:slab-starts-with-group", "map:shape:slab-ends-with-inline-group", "map:shape:last-level-list",
}

// stopPos draws a stop position for an enumeration of n elements and names it.
func stopPos(rng *rand.Rand, n int) (int, string) {
	switch rng.Intn(6) {
	case 0:
		return 0, "first"
	case 1:
		return 1, "second"
	case 2:
		return n / 2, "middle"
	case 3:
		if n > 0 {
			return n - 1, "last"
		}
		return 0, "first"
	case 4:
		return n, "never"
	default:
		return n + 1 + rng.Intn(3), "never"
	}
}

func prefixLen(k, n int) int {
	if k+1 < n {
		return k + 1
	}
	return n
}

// ---------------------------------------------------------------------------------------------
// arrays

type arrFlavourReq struct {
	fl     string
	lo, hi uint64
}

func (e *itArr) randRange() (uint64, uint64) {
	n := len(e.shadow)
	switch e.rng.Intn(4) {
	case 0:
		return 0, uint64(n)
	case 1:
		lo := uint64(e.rng.Intn(n + 1))
		return lo, lo // empty range: the empty iterator
	default:
		lo := e.rng.Intn(n + 1)
		return uint64(lo), uint64(lo + e.rng.Intn(n-lo+1))
	}
}

// partialStorage opens the committed array on a fresh storage with a random subset of slabs loaded.
func (e *itArr) partialStorage() (*atree.PersistentSlabStorage, *atree.Array, bool) {
	fresh := hx.NewStorage(e.ledger)
	a2, err := atree.NewArrayWithRootID(fresh, e.arr.SlabID())
	if err != nil {
		e.violation("C03", "cannot reopen committed array: "+errLine(err))
		return nil, nil, false
	}
	loadSubset(e.rng, fresh, e.ledger.SortedIDs(), []int{1, 2, 2, 3}[e.rng.Intn(4)])
	return fresh, a2, true
}

func (e *itArr) arrIterate(a *atree.Array, rq arrFlavourReq, fn atree.ArrayIterationFunc) error {
	switch rq.fl {
	case "ro":
		return a.IterateReadOnly(fn)
	case "mut":
		return a.Iterate(fn)
	case "rorange":
		return a.IterateReadOnlyRange(rq.lo, rq.hi, fn)
	case "mutrange":
		return a.IterateRange(rq.lo, rq.hi, fn)
	default:
		return a.IterateReadOnlyLoadedValues(fn)
	}
}

func (e *itArr) arrIterator(a *atree.Array, rq arrFlavourReq) (atree.ArrayIterator, error) {
	switch rq.fl {
	case "ro":
		return a.ReadOnlyIterator()
	case "mut":
		return a.Iterator()
	case "rorange":
		return a.ReadOnlyRangeIterator(rq.lo, rq.hi)
	case "mutrange":
		return a.RangeIterator(rq.lo, rq.hi)
	default:
		return a.ReadOnlyLoadedValueIterator()
	}
}

// arrTarget picks the handle, the loaded set and the expected full enumeration of a request.
func (e *itArr) arrTarget(rq arrFlavourReq) (a *atree.Array, ld string, want []hx.TV, ok bool) {
	if rq.fl == "loaded" {
		fresh, a2, ok := e.partialStorage()
		if !ok {
			return nil, "", nil, false
		}
		// reference: the loaded-value iteration run to its end on the same storage (checked against
		// the element sequence by itLoadedRound's oracle: an in-order subsequence)
		var full []hx.TV
		bad := false
		if err := a2.IterateReadOnlyLoadedValues(collectTV(&full, &bad)); err != nil || bad || !isSubsequence(full, e.shadow) {
			e.violation("C13", fmt.Sprintf("loaded-value iteration on a partially loaded storage failed or is not a subsequence (%v)", err))
			return nil, "", nil, false
		}
		if len(full) < len(e.shadow) {
			e.st.Hit("arr:obj:loaded:partial")
		}
		e.loadedExact("reference run for the iterator object / early stop", fresh, full)
		return a2, idList(loadedIDs(fresh)), full, true
	}
	a = e.arr
	if e.rng.Intn(2) == 0 {
		fresh := hx.NewStorage(e.ledger)
		a2, err := atree.NewArrayWithRootID(fresh, e.arr.SlabID())
		if err != nil {
			e.violation("C03", "cannot reopen committed array: "+errLine(err))
			return nil, "", nil, false
		}
		a = a2
	}
	want = e.shadow
	if rq.fl == "rorange" || rq.fl == "mutrange" {
		want = e.shadow[rq.lo:rq.hi]
	}
	return a, "-", want, true
}

func (e *itArr) flavourReqs() []arrFlavourReq {
	var out []arrFlavourReq
	for _, fl := range []string{"ro", "mut", "rorange", "mutrange", "loaded"} {
		rq := arrFlavourReq{fl: fl}
		if fl == "rorange" || fl == "mutrange" {
			rq.lo, rq.hi = e.randRange()
		}
		out = append(out, rq)
	}
	return out
}

// itStop: every callback-style flavour with a callback that stops at a random position.
func (e *itArr) itStop() {
	for _, rq := range e.flavourReqs() {
		a, ld, want, ok := e.arrTarget(rq)
		if !ok {
			return
		}
		k, posName := stopPos(e.rng, len(want))
		var got []hx.TV
		calls, afterStop := 0, 0
		stopped := false
		bad := false
		e.w.L("IT arr h=0 kind=stop fl=%s lo=%d hi=%d ld=%s stop=%d", rq.fl, rq.lo, rq.hi, ld, k)
		err := e.arrIterate(a, rq, func(v atree.Value) (bool, error) {
			if stopped {
				afterStop++
			}
			tv, isTV := v.(hx.TV)
			bad = bad || !isTV
			got = append(got, tv)
			calls++
			if calls-1 >= k {
				stopped = true
				return false, nil
			}
			return true, nil
		})
		e.st.Hit("arr:stop:" + rq.fl)
		e.st.Hit("arr:stop:pos=" + posName)
		if err != nil {
			e.obsErr(err)
			e.violation("C13", fmt.Sprintf("%s iteration stopped by its callback at call %d returned an error: %s", rq.fl, k, errLine(err)))
			continue
		}
		e.w.L("OBS ok:%s", tvList(got))
		if afterStop > 0 {
			e.violation("C13", fmt.Sprintf("%s iteration: the callback answered resume=false at call %d of %d and was called %d more time(s)", rq.fl, k, len(want), afterStop))
			continue
		}
		if p := prefixLen(k, len(want)); bad || len(got) != p || !equalTV(got, want[:p]) {
			e.violation("C13", fmt.Sprintf("%s iteration over [%d,%d) stopped at call %d: delivered %d elements, want exactly the first %d of %d", rq.fl, rq.lo, rq.hi, k, len(got), p, len(want)))
		}
	}
}

// itObj: iterator objects driven by explicit Next() calls, two objects alternately.
func (e *itArr) itObj() {
	type drv struct {
		rq   arrFlavourReq
		it   atree.ArrayIterator
		ld   string
		want []hx.TV
		n    int
		res  []string
		vals []atree.Value
		err  error
		cm   bool
	}
	reqs := e.flavourReqs()
	e.rng.Shuffle(len(reqs), func(i, j int) { reqs[i], reqs[j] = reqs[j], reqs[i] })
	reqs = append(reqs, reqs[0])
	for p := 0; p+1 < len(reqs); p += 2 {
		var ds []*drv
		for _, rq := range reqs[p : p+2] {
			a, ld, want, ok := e.arrTarget(rq)
			if !ok {
				return
			}
			it, err := e.arrIterator(a, rq)
			if err != nil {
				e.w.L("IT arr h=0 kind=obj fl=%s lo=%d hi=%d ld=%s n=0", rq.fl, rq.lo, rq.hi, ld)
				e.obsErr(err)
				e.violation("C13", fmt.Sprintf("creating the %s iterator over a valid range failed: %s", rq.fl, errLine(err)))
				return
			}
			ds = append(ds, &drv{rq: rq, it: it, ld: ld, want: want, n: len(want) + 1 + e.rng.Intn(3), cm: it.CanMutate()})
		}
		// alternate between the two objects (random run lengths)
		for done := false; !done; {
			done = true
			for _, d := range ds {
				for run := 1 + e.rng.Intn(3); run > 0 && len(d.vals) < d.n && d.err == nil; run-- {
					v, err := d.it.Next()
					d.err = err
					d.vals = append(d.vals, v)
				}
				if len(d.vals) < d.n && d.err == nil {
					done = false
				}
			}
		}
		for _, d := range ds {
			e.w.L("IT arr h=0 kind=obj fl=%s lo=%d hi=%d ld=%s n=%d", d.rq.fl, d.rq.lo, d.rq.hi, d.ld, d.n)
			e.st.Hit("arr:obj:" + d.rq.fl)
			if d.err != nil {
				e.obsErr(d.err)
				e.violation("C13", fmt.Sprintf("%s iterator object: Next() call %d failed: %s", d.rq.fl, len(d.vals), errLine(d.err)))
				continue
			}
			for _, v := range d.vals {
				if v == nil {
					d.res = append(d.res, "nil")
				} else if tv, ok := v.(hx.TV); ok {
					d.res = append(d.res, fmt.Sprintf("%d:v%d", tv.Size, tv.Pay))
				} else {
					d.res = append(d.res, fmt.Sprintf("?%T", v))
				}
			}
			cm := 0
			if d.cm {
				cm = 1
			}
			e.w.L("OBS ok:mut=%d;[%s]", cm, strings.Join(d.res, ","))
			if wantCM := d.rq.fl == "mut" || d.rq.fl == "mutrange"; d.cm != wantCM {
				e.violation("C13", fmt.Sprintf("%s iterator object: CanMutate() = %v", d.rq.fl, d.cm))
			}
			if len(d.want) == 0 {
				e.st.Hit("arr:obj:empty")
			}
			for i, v := range d.vals {
				if i < len(d.want) {
					if tv, ok := v.(hx.TV); !ok || tv != d.want[i] {
						e.violation("C13", fmt.Sprintf("%s iterator object over [%d,%d): Next() call %d returned %v, the enumeration has %v there", d.rq.fl, d.rq.lo, d.rq.hi, i, v, d.want[i]))
						break
					}
				} else {
					e.st.Hit("arr:obj:beyond-end")
					if v != nil {
						e.violation("C13", fmt.Sprintf("%s iterator object over [%d,%d): Next() call %d after the end (%d elements) returned %v, not nil", d.rq.fl, d.rq.lo, d.rq.hi, i, len(d.want), v))
						break
					}
				}
			}
		}
	}
}

// ---------------------------------------------------------------------------------------------
// maps

func (e *itMap) mapTarget(fl string, mk func() atree.DigesterBuilder) (m *atree.OrderedMap, ld string, want []kvTV, ok bool) {
	full := e.fullList()
	if fl == "loaded" {
		fresh := hx.NewStorage(e.ledger)
		m2, err := atree.NewMapWithRootID(fresh, e.m.SlabID(), mk())
		if err != nil {
			e.violation("C03", "cannot reopen committed map: "+errLine(err))
			return nil, "", nil, false
		}
		loadSubset(e.rng, fresh, e.ledger.SortedIDs(), []int{1, 2, 2, 3}[e.rng.Intn(4)])
		var got []kvTV
		bad := false
		err = m2.IterateReadOnlyLoadedValues(func(k, v atree.Value) (bool, error) {
			kt, ok1 := k.(hx.TV)
			vt, ok2 := v.(hx.TV)
			bad = bad || !ok1 || !ok2
			got = append(got, kvTV{kt, vt})
			return true, nil
		})
		if err != nil || bad || !isSubsequence(got, full) {
			e.violation("C13", fmt.Sprintf("loaded-value iteration on a partially loaded storage failed or is not a subsequence (%v)", err))
			return nil, "", nil, false
		}
		if len(got) < len(full) {
			e.st.Hit("map:obj:loaded:partial")
		}
		e.loadedExact("reference run for the iterator object / early stop", fresh, got)
		return m2, idList(loadedIDs(fresh)), got, true
	}
	m = e.m
	if e.rng.Intn(2) == 0 {
		_, m2, err := e.reopen(mk)
		if err != nil {
			e.violation("C03", "cannot reopen committed map: "+errLine(err))
			return nil, "", nil, false
		}
		m = m2
	}
	return m, "-", full, true
}

func kvComponent(p kvTV, call byte) string {
	switch call {
	case 'K':
		return fmt.Sprintf("%d:v%d", p.k.Size, p.k.Pay)
	case 'V':
		return fmt.Sprintf("%d:v%d", p.v.Size, p.v.Pay)
	}
	return fmt.Sprintf("%d:v%d=%d:v%d", p.k.Size, p.k.Pay, p.v.Size, p.v.Pay)
}

// itStop: the seven callback-style flavours with a callback that stops at a random position.
func (e *itMap) itStop(mk func() atree.DigesterBuilder) {
	type req struct {
		fl   string
		call byte
	}
	for _, rq := range []req{{"mut", 'N'}, {"ro", 'N'}, {"mut", 'K'}, {"ro", 'K'}, {"mut", 'V'}, {"ro", 'V'}, {"loaded", 'N'}} {
		m, ld, want, ok := e.mapTarget(rq.fl, mk)
		if !ok {
			return
		}
		k, posName := stopPos(e.rng, len(want))
		var got []string
		calls, afterStop := 0, 0
		stopped := false
		resume := func() bool {
			if stopped {
				afterStop++
			}
			calls++
			if calls-1 >= k {
				stopped = true
				return false
			}
			return true
		}
		tvs := func(v atree.Value) string {
			tv, ok := v.(hx.TV)
			if !ok {
				return fmt.Sprintf("?%T", v)
			}
			return fmt.Sprintf("%d:v%d", tv.Size, tv.Pay)
		}
		pairFn := func(kk, vv atree.Value) (bool, error) {
			got = append(got, tvs(kk)+"="+tvs(vv))
			return resume(), nil
		}
		oneFn := func(x atree.Value) (bool, error) {
			got = append(got, tvs(x))
			return resume(), nil
		}
		e.w.L("IT map h=0 kind=stop fl=%s call=%c ld=%s stop=%d", rq.fl, rq.call, ld, k)
		var err error
		name := ""
		switch {
		case rq.fl == "mut" && rq.call == 'N':
			name, err = "Iterate", m.Iterate(hx.CompareKey, hx.HashInput, pairFn)
		case rq.fl == "ro" && rq.call == 'N':
			name, err = "IterateReadOnly", m.IterateReadOnly(pairFn)
		case rq.fl == "mut" && rq.call == 'K':
			name, err = "IterateKeys", m.IterateKeys(hx.CompareKey, hx.HashInput, oneFn)
		case rq.fl == "ro" && rq.call == 'K':
			name, err = "IterateReadOnlyKeys", m.IterateReadOnlyKeys(oneFn)
		case rq.fl == "mut" && rq.call == 'V':
			name, err = "IterateValues", m.IterateValues(hx.CompareKey, hx.HashInput, oneFn)
		case rq.fl == "ro" && rq.call == 'V':
			name, err = "IterateReadOnlyValues", m.IterateReadOnlyValues(oneFn)
		default:
			name, err = "IterateReadOnlyLoadedValues", m.IterateReadOnlyLoadedValues(pairFn)
		}
		e.st.Hit(fmt.Sprintf("map:stop:%s:%c", rq.fl, rq.call))
		e.st.Hit("map:stop:pos=" + posName)
		if err != nil {
			e.w.L("OBS err:%s", hx.ErrKind(err))
			e.violation("C13", fmt.Sprintf("%s stopped by its callback at call %d returned an error: %s", name, k, errLine(err)))
			continue
		}
		e.w.L("OBS ok:[%s]", strings.Join(got, ","))
		if afterStop > 0 {
			e.violation("C13", fmt.Sprintf("%s: the callback answered resume=false at call %d of %d and was called %d more time(s)", name, k, len(want), afterStop))
			continue
		}
		p := prefixLen(k, len(want))
		okAll := len(got) == p
		for i := 0; okAll && i < p; i++ {
			okAll = got[i] == kvComponent(want[i], rq.call)
		}
		if !okAll {
			e.violation("C13", fmt.Sprintf("%s stopped at call %d: delivered %d entries, want exactly the first %d of %d", name, k, len(got), p, len(want)))
		}
	}
}

// itObj: ONE iterator object per flavour, Next / NextKey / NextValue interleaved at random.
func (e *itMap) itObj(mk func() atree.DigesterBuilder) {
	for _, fl := range []string{"mut", "ro", "loaded"} {
		m, ld, want, ok := e.mapTarget(fl, mk)
		if !ok {
			return
		}
		var it atree.MapIterator
		var err error
		switch fl {
		case "mut":
			it, err = m.Iterator(hx.CompareKey, hx.HashInput)
		case "ro":
			it, err = m.ReadOnlyIterator()
		default:
			it, err = m.ReadOnlyLoadedValueIterator()
		}
		n := len(want) + 1 + e.rng.Intn(3)
		calls := make([]byte, n)
		// call mixes: uniformly random, one method only, strict rotation
		mix := e.rng.Intn(5)
		for i := range calls {
			switch mix {
			case 0:
				calls[i] = "NKV"[i%3]
			case 1:
				calls[i] = "NKV"[e.rng.Intn(3)%3]
				if i > 0 && e.rng.Intn(3) > 0 {
					calls[i] = calls[i-1]
				}
			default:
				calls[i] = "NKV"[e.rng.Intn(3)]
			}
		}
		e.w.L("IT map h=0 kind=obj fl=%s ld=%s calls=%s", fl, ld, string(calls))
		e.st.Hit("map:obj:" + fl)
		if err != nil {
			e.w.L("OBS err:%s", hx.ErrKind(err))
			e.violation("C13", fmt.Sprintf("creating the %s map iterator failed: %s", fl, errLine(err)))
			continue
		}
		cm := it.CanMutate()
		tvs := func(v atree.Value) string {
			if v == nil {
				return "nil"
			}
			tv, ok := v.(hx.TV)
			if !ok {
				return fmt.Sprintf("?%T", v)
			}
			return fmt.Sprintf("%d:v%d", tv.Size, tv.Pay)
		}
		var res []string
		failed := false
		for i, c := range calls {
			var kk, vv atree.Value
			var r string
			switch c {
			case 'N':
				kk, vv, err = it.Next()
				r = tvs(kk) + "=" + tvs(vv)
				if kk == nil && vv == nil {
					r = "nil"
				}
			case 'K':
				kk, err = it.NextKey()
				r = tvs(kk)
			default:
				vv, err = it.NextValue()
				r = tvs(vv)
			}
			e.st.Hit(fmt.Sprintf("map:obj:call=%c", c))
			if err != nil {
				e.w.L("OBS err:%s", hx.ErrKind(err))
				e.violation("C13", fmt.Sprintf("%s map iterator object: call %d (%c) failed: %s", fl, i, c, errLine(err)))
				failed = true
				break
			}
			res = append(res, r)
		}
		if failed {
			continue
		}
		cmi := 0
		if cm {
			cmi = 1
		}
		e.w.L("OBS ok:mut=%d;[%s]", cmi, strings.Join(res, ","))
		if cm != (fl == "mut") {
			e.violation("C13", fmt.Sprintf("%s map iterator object: CanMutate() = %v", fl, cm))
		}
		if len(want) == 0 {
			e.st.Hit("map:obj:empty")
		}
		for i, c := range calls {
			if i < len(want) {
				if w := kvComponent(want[i], c); res[i] != w {
					e.violation("C13", fmt.Sprintf("%s map iterator object, calls %s: call %d (%c) returned %s, the %d-th pair of the enumeration gives %s", fl, string(calls), i, c, res[i], i, w))
					break
				}
			} else {
				e.st.Hit("map:obj:beyond-end")
				if res[i] != "nil" {
					e.violation("C13", fmt.Sprintf("%s map iterator object: call %d (%c) after the end (%d pairs) returned %s, not nil", fl, i, c, len(want), res[i]))
					break
				}
			}
		}
	}
}

// iterCheckRequired turns a full-scale run that missed one of the required kinds into a broken run.
func iterCheckRequired(cfg *Config, st *hx.Stats, required []string) {
	if cfg.Scale < 1 || st.HarnessErr != "" || len(st.Violations) > 0 {
		return
	}
	var missing []string
	for _, t := range required {
		if st.Dist[t] == 0 {
			missing = append(missing, t)
		}
	}
	if len(missing) > 0 {
		st.HarnessErr = "required iterator kinds never exercised: " + strings.Join(missing, "; ")
	}
}
