package main

import (
	"fmt"
	"math/rand"
	"strings"

	"github.com/onflow/atree"

	"verifharness/hx"
)

func init() { streams["compact"] = compactStream }

// compactStream (C08, C07 oracle only): a parent array holding several inlined maps of the SAME
// composite type with the same field set (they share the compact encoding of keys and digests in
// the parent slab's extra-data section).  The same field-level history is executed under different
// schedules of commit / drop cache / re-fetch of handles; observations, logical content and
// structural validity must agree (the registers may differ for compact maps, by the property's
// own exception).
//
// Every second program NAMES its fields (hx.NK: a key whose ComparableStorable.ID() is the bare field name):
// the children then have DIFFERENT field sets whose names are prefixes of each other and concatenate to the
// same string ({"ab","c",..} / {"a","bc",..} / {"abc",..} / {"a","b","c",..}), so the children are of different
// compact types although the IDs of their keys, put side by side, read the same (sweep s5, S1).
func compactStream(cfg *Config) *hx.Stats {
	st := hx.NewStats("compact", cfg.Seed)
	viol := func(p int, what string) {
		st.Violations = append(st.Violations, hx.Violation{Property: "C08", Stream: "compact", Seed: cfg.Seed, Program: p, What: what})
	}
	nProg := int(6 * cfg.Scale)
	tic := func(a, b atree.TypeInfo) bool { return a == b }
	type op struct {
		kind  string // set rem get
		child int
		field uint64
		val   hx.TV
	}
	for p := 0; p < nProg; p++ {
		rng := rand.New(rand.NewSource(cfg.Seed*991 + int64(p)))
		T := []uint32{1024, 512, 2048}[p%3]
		atree.VerifSetThreshold(T)
		nChildren := 2 + rng.Intn(4)
		nFields := 3 + rng.Intn(3)
		named := p%2 == 1
		// keyOf: the key of field f of child c; after the first reload the program uses the key type its
		// decoder hands back (TV), like a client whose keys decode to their own type
		keyOf := func(c int, f uint64, reloaded bool) atree.Value {
			if !named {
				return hx.TV{Size: 9, Pay: f}
			}
			fam := compactNameFamilies[c%len(compactNameFamilies)]
			name := fmt.Sprintf("f%d", f)
			if int(f) <= len(fam) {
				name = fam[f-1]
			}
			if reloaded {
				return hx.NK{Name: name}.TV()
			}
			return hx.NK{Name: name}
		}
		if named {
			st.Hit("named-fields")
		}
		var ops []op
		for i := 0; i < 80; i++ {
			o := op{child: rng.Intn(nChildren), field: uint64(1 + rng.Intn(nFields)), val: hx.TV{Size: uint32(3 + rng.Intn(8)), Pay: uint64(rng.Intn(200))}}
			if !hx.ValidTV(o.val.Size, o.val.Pay) {
				o.val.Pay %= 100
			}
			switch r := rng.Intn(10); {
			case r < 4:
				o.kind = "set"
			case r < 6:
				o.kind = "rem"
			default:
				o.kind = "get"
			}
			ops = append(ops, o)
		}
		run := func(schedule int) (obs []string, content string, errs string) {
			ledger := hx.NewLedger()
			ps := hx.NewStorage(ledger)
			addr := hx.MkAddr(1)
			parent, err := atree.NewArray(ps, addr, hx.TI(1))
			if err != nil {
				return nil, "", err.Error()
			}
			children := make([]*atree.OrderedMap, nChildren)
			for c := range children {
				m, err := atree.NewMap(ps, addr, atree.NewDefaultDigesterBuilder(), hx.CTI(5))
				if err != nil {
					return nil, "", err.Error()
				}
				for f := 1; f <= nFields; f++ {
					if _, err := m.Set(hx.CompareKey, hx.HashInput, keyOf(c, uint64(f), false), hx.TV{Size: 4, Pay: uint64(10*c + f)}); err != nil {
						return nil, "", err.Error()
					}
				}
				if err := parent.Append(m); err != nil {
					return nil, "", err.Error()
				}
				children[c] = m
			}
			rootID := parent.SlabID()
			reloaded := false
			refetch := func() string {
				reloaded = true
				a, err := atree.NewArrayWithRootID(ps, rootID)
				if err != nil {
					return err.Error()
				}
				parent = a
				for c := range children {
					v, err := parent.Get(uint64(c))
					if err != nil {
						return err.Error()
					}
					m, ok := v.(*atree.OrderedMap)
					if !ok {
						return fmt.Sprintf("child %d is %T", c, v)
					}
					children[c] = m
				}
				return ""
			}
			for i, o := range ops {
				if schedule > 0 && i%schedule == 0 {
					if err := ps.FastCommit(2); err != nil {
						return nil, "", "commit: " + err.Error()
					}
					if schedule%2 == 1 {
						ps.DropCache()
					} else {
						ps = hx.NewStorage(ledger)
					}
					if e := refetch(); e != "" {
						return nil, "", "refetch: " + e
					}
				}
				k := keyOf(o.child, o.field, reloaded)
				m := children[o.child]
				switch o.kind {
				case "set":
					old, err := m.Set(hx.CompareKey, hx.HashInput, k, o.val)
					obs = append(obs, fmt.Sprintf("set %d.%d -> %v %s", o.child, o.field, old, obsErr(err)))
				case "rem":
					_, v, err := m.Remove(hx.CompareKey, hx.HashInput, k)
					obs = append(obs, fmt.Sprintf("rem %d.%d -> %v %s", o.child, o.field, v, obsErr(err)))
				default:
					v, err := m.Get(hx.CompareKey, hx.HashInput, k)
					obs = append(obs, fmt.Sprintf("get %d.%d -> %v %s", o.child, o.field, v, obsErr(err)))
				}
			}
			var sb strings.Builder
			for c, m := range children {
				fmt.Fprintf(&sb, "%d:%d{", c, m.Count())
				for f := 1; f <= nFields; f++ {
					v, err := m.Get(hx.CompareKey, hx.HashInput, keyOf(c, uint64(f), reloaded))
					fmt.Fprintf(&sb, "%d=%v/%s,", f, v, obsErr(err))
				}
				sb.WriteString("} ")
				if err := atree.VerifyMap(m, addr, hx.CTI(5), tic, hx.HashInput, true); err != nil {
					errs += fmt.Sprintf("child %d invalid: %v; ", c, err)
				}
			}
			if err := atree.VerifyArray(parent, addr, hx.TI(1), tic, hx.HashInput, true); err != nil {
				errs += "parent invalid: " + err.Error()
			}
			return obs, sb.String(), errs
		}
		refObs, refContent, refErr := run(0)
		st.Programs++
		st.Ops += len(ops)
		if refErr != "" {
			viol(p, "never-commit schedule: "+refErr)
			continue
		}
		for _, schedule := range []int{1, 2, 5, 8} {
			obs, content, errs := run(schedule)
			st.Hit(fmt.Sprintf("schedule=%d", schedule))
			label := fmt.Sprintf("commit+%s every %d ops", map[bool]string{true: "drop cache", false: "reopen"}[schedule%2 == 1], schedule)
			if errs != "" {
				viol(p, label+": "+errs)
				continue
			}
			for i := range obs {
				if i < len(refObs) && obs[i] != refObs[i] {
					viol(p, fmt.Sprintf("%s: operation %d returned %q, without the schedule %q", label, i, obs[i], refObs[i]))
					break
				}
			}
			if content != refContent {
				viol(p, label+": final content differs: "+content+" vs "+refContent)
			}
		}
	}
	if nProg >= 2 && st.Dist["named-fields"] == 0 && st.HarnessErr == "" {
		st.HarnessErr = "compact stream ran no program with named fields"
	}
	st.Distinct = st.Programs + 1
	st.Samples = append(st.Samples, "parent array with 2-5 inlined maps of one composite type and the same 3-5 fields (compact encoding, shared keys/digests); 80 field-level set/remove/get operations under never-commit vs commit+drop-cache / commit+reopen every 1,2,5,8 operations with handles re-fetched")
	atree.VerifSetThreshold(1024)
	return st
}

// compactNameFamilies: field-name sets of the children of a named program.  Read without separators the
// names of any two families concatenate to the same string ("abcx"), some are prefixes of others, one is
// empty; none contains the library's separator (","): see the probe in codecnamed.go.
var compactNameFamilies = [][]string{
	{"ab", "c", "x"},
	{"a", "bc", "x"},
	{"abc", "x"},
	{"a", "b", "c", "x"},
	{"", "abcx"},
}
