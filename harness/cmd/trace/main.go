// Command trace generates operation histories from one PRNG seed, runs the REAL atree on them
// in-process, writes trace files for the Lean model driver, and applies model-free oracles to
// the implementation.  It prints one "STATS {json}" line per stream.
package main

import (
	"flag"
	"fmt"
	"os"
	"strconv"
	"strings"
	"time"

	"verifharness/hx"
)

type streamFn func(cfg *Config) *hx.Stats

type Config struct {
	Seed   int64
	Tier   string
	Out    string
	Scale  float64
	Replay string
}

var streams = map[string]streamFn{}

func main() {
	var cfg Config
	var names string
	flag.StringVar(&names, "streams", "", "comma separated stream names")
	flag.Int64Var(&cfg.Seed, "seed", 1, "PRNG seed")
	flag.StringVar(&cfg.Tier, "tier", "quick", "quick|thorough")
	flag.StringVar(&cfg.Out, "out", "", "output directory for trace files")
	flag.Float64Var(&cfg.Scale, "scale", 1, "volume multiplier")
	flag.StringVar(&cfg.Replay, "replay", "", "replay file")
	flag.Parse()
	if cfg.Out == "" {
		fmt.Fprintln(os.Stderr, "trace: -out required")
		os.Exit(2)
	}
	wd := 120 * time.Second
	if cfg.Tier == "thorough" {
		cfg.Scale *= 20
		wd = 600 * time.Second
	}
	if v := os.Getenv("VERIF_WATCHDOG_S"); v != "" {
		if n, err := strconv.Atoi(v); err == nil && n > 0 {
			wd = time.Duration(n) * time.Second
		}
	}
	hx.StartWatchdog(wd)
	for _, n := range strings.Split(names, ",") {
		fn, ok := streams[n]
		if !ok {
			fmt.Fprintf(os.Stderr, "trace: unknown stream %q\n", n)
			os.Exit(2)
		}
		st := hx.Guarded(func() *hx.Stats { return runStream(n, fn, &cfg) }) // a panic inside the library is a violation, not a dead process
		st.Emit()
	}
}

// runStream: a panic that unwinds the stream's own goroutine (a library call outside the guarded ones panicked on
// a state the library itself built) is reported as a violation - property "*": whatever the stream was run for -
// with the panic value, the innermost frames and the trace position (the check cuts the failing history out of the
// trace), on top of what the stream had counted so far.  A crash of the process was a verdict before too (the check
// reports a stream that dies as a broken correspondence); this one carries the failing input.
func runStream(name string, fn streamFn, cfg *Config) (st *hx.Stats) {
	defer func() {
		r := recover()
		if r == nil {
			return
		}
		st = hx.CurrentStats()
		if st == nil || st.Stream != name {
			st = hx.NewStats(name, cfg.Seed)
		}
		v := hx.Violation{Property: "*", Stream: name, Seed: cfg.Seed, Program: st.Programs,
			What: fmt.Sprintf("PANIC in stream %s: %v | %s", name, r, hx.PanicFrames(12))}
		v.Trace, v.Line = hx.CurrentTracePos()
		st.Violations = append(st.Violations, v)
	}()
	return fn(cfg)
}
