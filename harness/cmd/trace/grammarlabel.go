package main

import (
	"encoding/binary"
	"encoding/hex"
	"fmt"
	"strings"

	"github.com/onflow/atree"

	"verifharness/hx"
)

// The grammar generator's OWN verdict on the registers it builds (sweep s5, section 4: mutants of the slab
// decoders that only the model replay noticed).  grammar.go knows which decision points deviated (`devs`), so
//
//   - a register built from valid and boundary-valid choices only (no deviation, or only the ones listed in
//     gramValidDevs) MUST be accepted by DecodeSlab - zero-child index slabs, child counts summing to exactly
//     2^32-1, every head width, an element area of exactly three bytes are among them;
//   - a register with exactly ONE deviating point whose field is then invalid by the format (gramInvalidDevs)
//     MUST be rejected.  Two deviations may cancel (a truncation can cut the surplus child off), so only
//     single deviations are judged.
//
// Both lists hold for every register of the seeds 1..40 (24000 registers each) and 101..108 (72000 each) on the
// revision the machinery was built for; the deviations that are sometimes accepted there (another tag number
// that happens to fit, a length that stays a multiple of eight, ...) are in neither list.

var gramValidDevs = map[string]string{
	"count-sum-boundary": "child counts of 2^32-1 / 2^32-2 whose sum does not exceed 2^32-1",
	"elem-head-minimal":  "array element head in minimal form, element area of at least three bytes",
}

var gramInvalidDevs = map[string]string{
	"elem-head-short":           "the element area of an array data slab is shorter than the three bytes of the encoder's array head",
	"inl-arr-count":             "an inlined array is not an array of three items",
	"inl-map-count":             "an inlined map is not an array of three items",
	"inl-cmap-count":            "an inlined compact map is not an array of three items",
	"slab-index-len":            "the slab index of an inlined slab is not 8 bytes long",
	"slab-index-form":           "the slab index of an inlined slab is not a definite-length byte string of the announced length",
	"digest-len":                "the digest bytes of an elements group are not a multiple of 8",
	"cmap-digest-len":           "the digest bytes of a compact-map type are not a multiple of 8",
	"cmap-digest-count":         "a compact-map type whose number of digests differs from its number of keys",
	"cmap-value-count":          "a compact map with another number of values than its type has keys",
	"external-group-not-slabid": "an external collision group that is not a slab ID",
	"xd-count-zero":             "an inlined-extra-data section without entries",
	"xd-index":                  "an extra-data index that is out of range or names an entry of another kind",
	"inlined-without-entry":     "an inlined slab without an extra-data entry of its kind",
	"count-sum-overflow":        "child counts of an array index slab whose sum exceeds 2^32-1",
	"child-count":               "an index slab that announces another number of children than follow",
	"single-elem-count":         "a map element that is not an array of two items",
	"elements-count":            "an elements group that is not an array of three items",
	"element-shape":             "a bare storable where a map element is expected",
	"arr-extra-count":           "array extra data that is not an array of one item",
	"map-extra-count":           "map extra data that is not an array of three items",
	"xd-cmap-count":             "compact-map extra data that is not an array of three items",
	"ied-count":                 "an inlined-extra-data section that is not an array of two items",
	"ti-count":                  "a type-info list that announces more items than follow",
	"tiref-index":               "a type-info reference beyond the type-info list",
	"slab-type":                 "undefined slab-type bits",
	"truncate":                  "a truncated register",
}

// gramLabel: "valid", "invalid:<deviation>" or "" (no verdict)
func gramLabel(devs []string) string {
	valid := true
	for _, d := range devs {
		if _, ok := gramValidDevs[d]; !ok {
			valid = false
		}
	}
	if valid {
		return "valid"
	}
	if len(devs) == 1 {
		if _, ok := gramInvalidDevs[devs[0]]; ok {
			return "invalid:" + devs[0]
		}
	}
	return ""
}

// childAddressOracle: a version-1 index slab writes the owner address ONCE (8 bytes behind the head and the
// root's extra data) and per child the 8-byte slab index; every child header of the decoded slab must carry
// THAT address, whatever slab ID the register was decoded under (registers the library wrote have both equal,
// so only mutated / grammar-built registers tell the two apart; sweep s5: n54, n64).  Read off the dump
// `M(id,size,count)[T(ty)]{addr.idx/...;...}` / `m(...)`, independently of the decoder's own bookkeeping.
func (e *codecEnv) childAddressOracle(id atree.SlabID, data []byte, o decOutcome) {
	k := regKind(data)
	if !strings.HasPrefix(k, "v1-meta") && !strings.HasPrefix(k, "v1-mmeta") {
		return
	}
	off := 2
	if data[1]&0x80 != 0 {
		n, err := extraDataLen(data)
		if err != nil {
			return
		}
		off += n
	}
	if len(data) < off+8 {
		return
	}
	addr := binary.BigEndian.Uint64(data[off : off+8])
	open := strings.IndexByte(o.dump, '{')
	if open < 0 {
		return
	}
	end := strings.IndexByte(o.dump[open:], '}')
	if end <= 1 {
		return // no children
	}
	for _, c := range strings.Split(o.dump[open+1:open+end], ";") {
		dot := strings.IndexByte(c, '.')
		if dot < 0 {
			continue
		}
		if c[:dot] != fmt.Sprint(addr) {
			e.violation("C07", fmt.Sprintf("index-slab register with the address field %d decoded under slab ID %s: child header %s does not carry the register's address: %s",
				addr, hx.IDStr(id), c, hex.EncodeToString(data)))
			return
		}
	}
	e.st.Hit("child-address:checked")
}
